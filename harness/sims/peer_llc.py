"""A real LogicalLinkController whose peer is a byte injector (property C07).

`World` builds one controller with a socket of every kind in every state and
feeds octet strings through  pdu.decode -> llc.dispatch -> llc.collect  exactly
as the run loop does.  The link-loop "thread" is the caller of `inject()`; the
`threading.Condition` objects of `nfc.llcp.tco` / `nfc.llcp.llc` are replaced by
`PeerCondition`:

* an untimed `wait()` reached while a PDU is being dispatched or collected can
  never be ended (the waiter is the only thread that delivers PDUs) -> `Hang`;
* a `wait()` reached from an application call that is in progress (`connect`,
  `accept`, `recv`, `close` ... started with `user()`) lets the link loop run:
  the next scripted octet strings are injected from inside `wait()`, which is
  what the second thread would do meanwhile.  When the script is exhausted the
  link terminates (`llc.terminate`), a wait after that is a `Hang`.

`run_loop()` / `connect_llcp()` / `connect_card()` drive the real
run_as_initiator / run_as_target and ContactlessFrontend.connect() over a
scripted MAC / device.  Everything is single threaded and deterministic;
`guarded()` additionally runs a callable in a daemon thread with a hard
wall-clock limit so that an unforeseen blocking call cannot hang the check.
"""
import collections
import errno
import threading
import types

import nfc
import nfc.clf
import nfc.dep
import nfc.llcp
import nfc.llcp.llc as llcmod
import nfc.llcp.pdu as pdu
import nfc.llcp.tco as tco

from common import exc_name, hx
from sims.peer_inject import Hang, Budget, patch_clock, ScriptClf

HARD = 20.0


class PeerCondition(object):
    world = None      # the World that currently owns the conditions

    def __init__(self, lock=None):
        self.lock = lock if lock is not None else threading.RLock()

    def __enter__(self):
        self.lock.acquire()
        return self

    def __exit__(self, *a):
        self.lock.release()

    def acquire(self, *a, **k):
        return self.lock.acquire(*a, **k)

    def release(self):
        self.lock.release()

    def wait(self, timeout=None):
        w = PeerCondition.world
        if w is None:
            raise Hang("wait() outside of a world")
        return w.on_wait(self, timeout)

    def notify(self, n=1):
        pass

    def notify_all(self):
        pass


_real_threading = threading
_shim = types.SimpleNamespace(Condition=PeerCondition, RLock=threading.RLock, Lock=threading.Lock,
                              Thread=threading.Thread, current_thread=threading.current_thread)


def install():
    tco.threading = _shim
    llcmod.threading = _shim
    llcmod.random = types.SimpleNamespace(choice=lambda seq: seq[0])


def uninstall():
    tco.threading = _real_threading
    llcmod.threading = _real_threading
    PeerCondition.world = None


def guarded(fn, limit=HARD):
    """run fn() in a daemon thread; ('ok', value) | ('exc', e) | ('hang', None) | ('timeout', None)"""
    box = {}

    def body():
        try:
            box["r"] = ("ok", fn())
        except Hang as e:
            box["r"] = ("hang", str(e))
        except Budget as e:
            box["r"] = ("budget", str(e))
        except BaseException as e:  # noqa
            box["r"] = ("exc", e)
    t = _real_threading.Thread(target=body, daemon=True, name="c07-guard")
    t.start()
    t.join(limit)
    if t.is_alive():
        return ("timeout", None)
    return box["r"]


SOCK_KINDS = ("raw", "ldl", "ldlc", "closed", "listen", "listenfull", "connect", "estab", "estabfull", "disc",
              "closewait", "named", "shut")


class World(object):
    """sap 16 raw | 43 ldl | 44 ldl connected to 33 | 32 dlc CLOSED | 33 LISTEN | 34 LISTEN backlog full |
    35 CONNECT | 36 ESTABLISHED peer 32 | 37 ESTABLISHED receive queue full | 38 DISCONNECT | 39 CLOSE_WAIT |
    4 named service (snep) LISTEN | 40 LISTEN + accepted connection to peer 41 | 42 bound but shut down"""

    ADDR = {"raw": 16, "ldl": 43, "ldlc": 44, "closed": 32, "listen": 33, "listenfull": 34, "connect": 35,
            "estab": 36, "estabfull": 37, "disc": 38, "closewait": 39, "named": 4, "multi": 40, "shut": 42}

    def __init__(self, recv_miu=128, rw=2, agf=True):
        install()
        patch_clock()
        PeerCondition.world = self
        self.mode = "idle"          # idle | loop (dispatch/collect running) | user (application call running)
        self.script = collections.deque()
        self.terminated = False
        self.sent = []              # PDUs collected (as the run loop would send them)
        self.waits = 0
        self.after_dispatch = None
        c = llcmod.LogicalLinkController(miu=248, sec=False, agf=agf)
        c.cfg["send-miu"] = 128
        c.cfg["send-agf"] = agf
        c.cfg["recv-lto"] = 100
        c.cfg["llcp-dpc"] = 0
        c.mac = None
        c.link.ESTABLISHED = True
        self.llc = c
        self.socks = {}
        A = self.ADDR

        def dlc(name, addr, state, peer=None, **kw):
            s = c.socket(llcmod.DATA_LINK_CONNECTION)
            s.recv_miu, s.recv_win, s.recv_buf = recv_miu, rw, rw
            if isinstance(addr, int):
                c.bind(s, addr)
            else:
                c.bind(s, addr)
            setattr(s.state, state, True)
            s.peer = peer
            s.send_win = 2
            for k, v in kw.items():
                setattr(s, k, v)
            self.socks[name] = s
            return s
        s = c.socket(llcmod.RAW_ACCESS_POINT)
        c.bind(s, A["raw"])
        self.socks["raw"] = s
        s = c.socket(llcmod.LOGICAL_DATA_LINK)
        c.bind(s, A["ldl"])
        self.socks["ldl"] = s
        s = c.socket(llcmod.LOGICAL_DATA_LINK)
        c.bind(s, A["ldlc"])
        s.connect(33)
        self.socks["ldlc"] = s
        dlc("closed", A["closed"], "CLOSED")
        dlc("listen", A["listen"], "LISTEN", recv_buf=2)
        s = dlc("listenfull", A["listenfull"], "LISTEN", recv_buf=1)
        s.recv_queue.append(pdu.Connect(A["listenfull"], 50))
        dlc("connect", A["connect"], "CONNECT")
        dlc("estab", A["estab"], "ESTABLISHED", peer=32)
        s = dlc("estabfull", A["estabfull"], "ESTABLISHED", peer=32, recv_cnt=2)
        s.recv_queue.extend([pdu.Information(A["estabfull"], 32, 0, 0, b"a"), pdu.Information(A["estabfull"], 32, 1, 0, b"b")])
        dlc("disc", A["disc"], "DISCONNECT", peer=32)
        dlc("closewait", A["closewait"], "CLOSE_WAIT", peer=32)
        dlc("named", b"urn:nfc:sn:snep", "LISTEN", recv_buf=2)
        ls = dlc("multi", A["multi"], "LISTEN", recv_buf=2)
        ch = tco.DataLinkConnection(recv_miu, rw)
        ch.addr, ch.peer, ch.send_win = A["multi"], 41, 2
        ch.state.ESTABLISHED = True
        c.sap[A["multi"]].insert_socket(ch)
        self.socks["multichild"] = ch
        s = dlc("shut", A["shut"], "SHUTDOWN")

    # ---------------------------------------------------------------- waiting
    def on_wait(self, cv, timeout):
        self.waits += 1
        if self.waits > 2000:
            raise Budget("2000 waits")
        if self.mode == "loop":
            if timeout is None:
                raise Hang("the link loop waits on a condition that only the link loop can signal")
            return False
        if self.mode == "user":
            if self.terminated:
                raise Hang("application call waits after the link terminated")
            self.mode = "loop"
            try:
                if self.script:
                    self._inject(self.script.popleft())
                else:
                    self.terminated = True
                    self.llc.terminate(reason="script exhausted")
            finally:
                self.mode = "user"
            return True
        raise Hang("wait() in idle mode")

    # ---------------------------------------------------------------- link loop
    def _inject(self, octets):
        """what one turn of the run loop does with received octets: decode (DecodeError ->
        link disruption is the run loop's business, here: ignored), dispatch, collect"""
        try:
            p = pdu.decode(bytes(octets))
        except pdu.DecodeError:
            return "decode-error"
        self.llc.dispatch(p)
        if self.after_dispatch is not None:
            self.after_dispatch()
        for _ in range(64):
            q = self.llc.collect()
            if q is None:
                break
            self.sent.append(q)
            pdu.decode(pdu.encode(q))     # what we send must be encodable and a valid PDU
        else:
            raise Budget("collect() returns PDUs without end")
        return "dispatched"

    def inject(self, octets):
        self.mode = "loop"
        try:
            return self._inject(octets)
        finally:
            self.mode = "idle"

    def user(self, fn, script=()):
        """run an application call; the scripted octet strings arrive while it waits"""
        self.script = collections.deque(script)
        self.mode = "user"
        try:
            return fn()
        finally:
            self.mode = "idle"

    # ---------------------------------------------------------------- observation
    def snap(self, name):
        s = self.socks[name]
        return (str(s.state), len(s.recv_queue), tuple(canon(p) for p in s.send_queue),
                tuple(canon(p) for p in self.llc.sap[s.addr].send_list) if s.addr is not None and self.llc.sap[s.addr] else ())

    def drain_users(self):
        """what blocked/polling application threads would see next: every queued item is
        taken through the public socket calls; only nfc.llcp.Error may come out"""
        out = []
        for name, s in sorted(self.socks.items()):
            if not isinstance(s, tco.DataLinkConnection) or not s.recv_queue:
                continue
            if s.state.ESTABLISHED or s.state.CLOSE_WAIT:
                for _ in range(len(s.recv_queue)):
                    try:
                        self.user(lambda: s.recv())
                    except nfc.llcp.Error:
                        pass
                    except Exception as e:  # noqa
                        out.append((name, "recv", exc_name(e)))
                        break
        return out

    def format_all(self):
        """str() of the controller, of every socket and of every queued PDU must not raise"""
        out = []
        objs = [("llc", self.llc)] + sorted(self.socks.items())
        for name, s in sorted(self.socks.items()):
            objs += [(name + ".recv_queue", q) for q in s.recv_queue] + [(name + ".send_queue", q) for q in s.send_queue]
        for name, o in objs:
            try:
                str(o)
                repr(o)
            except Exception as e:  # noqa
                out.append((name, exc_name(e)))
        return out

    def close(self):
        uninstall()


def canon(p):
    n = p.name
    if n == "DM":
        return "DM %d %d %d" % (p.dsap, p.ssap, p.reason)
    if n == "FRMR":
        return "FRMR %d %d %d %d %d %d %d %d %d %d" % (p.dsap, p.ssap, p.rej_flags, p.rej_ptype, p.ns, p.nr, p.vs, p.vr,
                                                      p.vsa, p.vra)
    return "P%d %d %d" % (p.ptype, p.dsap, p.ssap)


def canon_list(ps):
    return "|".join(canon(p) for p in ps) or "-"


STATES = ("SHUTDOWN", "CLOSED", "LISTEN", "CONNECT", "ESTABLISHED", "DISCONNECT", "CLOSE_WAIT")


def sock_spec(s):
    """socket as the model driver reads it: k:st:addr:peer:bound:rq:rbuf:rmiu:vs:vsa:vr:vra"""
    k = "r" if isinstance(s, tco.RawAccessPoint) else "l" if isinstance(s, tco.LogicalDataLink) else "d"
    d = isinstance(s, tco.DataLinkConnection)
    return "%s:%d:%d:%s:%d:%d:%d:%d:%d:%d:%d:%d" % (
        k, STATES.index(str(s.state)), s.addr if s.addr is not None else 0, "-" if s.peer is None else s.peer,
        s.addr is not None, len(s.recv_queue), s.recv_buf, s.recv_miu,
        s.send_cnt if d else 0, s.send_ack if d else 0, s.recv_cnt if d else 0, s.recv_ack if d else 0)


def sock_after(s):
    d = isinstance(s, tco.DataLinkConnection)
    return "%d:%d:%d:%d:%s" % (STATES.index(str(s.state)), len(s.recv_queue), s.send_ack if d else 0,
                               s.recv_cnt if d else 0, canon_list(s.send_queue))


# -------------------------------------------------------------------- run loop over a scripted MAC
def script_mac(initiator, script):
    """an activated nfc.dep.Initiator / Target (exact type: `terminate()` compares `type(self.mac)`)
    whose exchange() hands out the scripted LLC octets; items: bytes | 'T' TimeoutError |
    'X' TransmissionError | 'P' ProtocolError | 'B' BrokenLinkError | 'N' None | an exception instance"""
    mac = (nfc.dep.Initiator if initiator else nfc.dep.Target)(None)
    mac.script = collections.deque(script)
    mac.sent = []
    mac.deactivated = 0
    mac.rwt = 0.01
    mac.n = 0
    mac.exchange = lambda send_data, timeout: _mac_exchange(mac, send_data)

    def deactivate(*a, **k):
        mac.deactivated += 1
    mac.deactivate = deactivate
    return mac


def _mac_exchange(self, send_data):
    self.n += 1
    if self.n > 3000:
        raise Budget("run loop does not end")
    self.sent.append(None if send_data is None else bytes(send_data))
    if not self.script:
        raise nfc.clf.TimeoutError("scripted peer is silent")
    it = self.script.popleft()
    if it == "T":
        raise nfc.clf.TimeoutError()
    if it == "X":
        raise nfc.clf.TransmissionError()
    if it == "P":
        raise nfc.clf.ProtocolError()
    if it == "B":
        raise nfc.clf.BrokenLinkError()
    if it == "N":
        return None
    if isinstance(it, BaseException):
        raise it
    return bytearray(it)


def run_loop(initiator, script, with_sockets=True, terminate_after=None):
    """real run_as_initiator / run_as_target over a scripted MAC.
    -> (outcome text, llc, mac); outcome 'ok' means the loop returned normally"""
    w = World() if with_sockets else None
    install()
    patch_clock()
    if w is None:
        c = llcmod.LogicalLinkController(miu=248, sec=False)
        c.cfg.update({"send-miu": 128, "recv-lto": 100, "llcp-dpc": 0})
    else:
        c = w.llc
        w.mode = "loop"
    c.link.CONNECTED = True
    mac = script_mac(initiator, script)
    c.mac = mac
    calls = [0]

    def term():
        calls[0] += 1
        return terminate_after is not None and calls[0] > terminate_after
    try:
        (c.run_as_initiator if initiator else c.run_as_target)(terminate=term)
        r = "ok"
    except Hang:
        r = "hang"
    except Budget:
        r = "budget"
    except BaseException as e:  # noqa
        r = "exc " + exc_name(e)
    finally:
        if w is not None:
            w.mode = "idle"
    return r, c, mac


# -------------------------------------------------------------------- ContactlessFrontend.connect over a scripted device
class ScriptDevice(object):
    """the local device: what the remote peer makes it report.  `frames` are the octet
    strings returned by send_cmd_recv_rsp / send_rsp_recv_cmd (items as in ScriptClf)."""
    vendor_name = product_name = chipset_name = "verif"

    def __init__(self, mode, frames, atr=None, first=None, brty="106A", tt3_cmd=None):
        self.mode, self.brty = mode, brty
        self.clf = ScriptClf(frames)
        self.atr, self.first, self.tt3_cmd = atr, first, tt3_cmd
        self.listened = 0
        self.sensed = 0
        self.closed = False

    def mute(self):
        pass

    def close(self):
        self.closed = True

    def sense_tta(self, target):
        self.sensed += 1
        if self.mode == "i-passive" and self.brty == "106A" and self.sensed <= 8:
            return nfc.clf.RemoteTarget("106A", sens_res=bytearray(b"\x01\x01"), sdd_res=bytearray(b"\x08\x01\x02\x03"),
                                        sel_res=bytearray(b"\x40"))
        return None

    def sense_ttb(self, target):
        return None

    def sense_ttf(self, target):
        self.sensed += 1
        if self.mode == "i-passive" and self.brty == "212F" and self.sensed <= 8:
            return nfc.clf.RemoteTarget("212F", sensf_res=bytearray(b"\x01\x01\xFE" + bytes(15)))
        return None

    def sense_dep(self, target):
        self.sensed += 1
        if self.mode == "i-active" and self.sensed <= 1:
            return nfc.clf.RemoteTarget(self.brty, atr_res=bytearray(self.atr), atr_req=target.atr_req)
        return None

    def listen_dep(self, target, timeout):
        self.listened += 1
        if self.mode == "t" and self.listened == 1:
            t = nfc.clf.LocalTarget(self.brty, atr_req=bytearray(self.atr), dep_req=bytearray(self.first),
                                    atr_res=target.atr_res)
            if self.brty == "106A":
                t.sens_res = bytearray(b"\x01\x01")
            else:
                t.sensf_res = bytearray(b"\x01\x01\xFE" + bytes(15))
            return t
        return None

    def listen_ttf(self, target, timeout):
        self.listened += 1
        if self.mode == "card" and self.listened == 1:
            t = nfc.clf.LocalTarget("212F", sensf_res=target.sensf_res, tt3_cmd=bytearray(self.tt3_cmd))
            return t
        return None

    def listen_tta(self, target, timeout):
        return None

    def listen_ttb(self, target, timeout):
        return None

    def send_cmd_recv_rsp(self, target, data, timeout):
        return self.clf.exchange(data, timeout)

    def send_rsp_recv_cmd(self, target, data, timeout):
        if not self.clf.script:
            raise nfc.clf.BrokenLinkError("scripted peer left the field")
        return self.clf.exchange(data, timeout)

    def get_max_send_data_size(self, target):
        return 290

    def get_max_recv_data_size(self, target):
        return 290

    def turn_on_led_and_buzzer(self):
        pass

    def turn_off_led_and_buzzer(self):
        pass


def connect(device, options, rounds=3):
    """real ContactlessFrontend.connect(**options) on a scripted device; terminate() turns true
    after `rounds` polls.  -> outcome text, clf"""
    import nfc.tag
    import nfc.tag.tt3
    install()
    patch_clock()
    clf = nfc.clf.ContactlessFrontend()
    clf.device = device
    polls = [0]

    def term():
        polls[0] += 1
        if polls[0] > 4000:
            raise Budget("connect() polls terminate() without end")
        return polls[0] > rounds
    try:
        r = clf.connect(terminate=term, **options)
        out = "ok " + ("llc" if isinstance(r, llcmod.LogicalLinkController) else
                       "tag" if isinstance(r, nfc.tag.TagEmulation) else repr(r))
    except Hang:
        out = "hang"
    except Budget:
        out = "budget"
    except BaseException as e:  # noqa
        out = "exc " + exc_name(e)
    return out, clf
