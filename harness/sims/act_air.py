"""In-memory air interface for peer-to-peer ACTIVATION between two REAL stacks (property C19).

Each side is a real ``nfc.ContactlessFrontend`` whose ``device`` is an ``AirDevice`` (a
``nfc.clf.device.Device`` subclass written after the reference driver ``nfc/clf/udp.py``):

* Initiator side: ``sense_tta`` / ``sense_ttf`` / ``sense_dep`` / ``send_cmd_recv_rsp``
* Target side:    ``listen_dep`` (answers ATR_REQ with the ATR_RES prepared by the real
  ``nfc.dep.Target.activate``, answers PSL_REQ and switches the bit rate, returns with the
  first DEP_REQ) / ``send_rsp_recv_cmd``

so that the real ``ContactlessFrontend.connect()/_llcp_connect()/sense()/listen()/exchange()``,
the real ``LogicalLinkController.activate()`` and the real ``nfc.dep.Initiator/Target.activate()``
run on both sides.  The Initiator runs in the calling thread, the Target in a worker thread;
the two are coupled by strict rendezvous (every frame put on the air is answered by exactly one
item: a frame or ``None`` = silence), so a run is deterministic.  Every blocking get has a
timeout: a stall is reported as ``Stall``, the check never hangs.  All clocks read by the
code under test are replaced by one virtual clock.

Every frame carries the bit rate / technology it was sent with; the receiver only sees frames
sent at the bit rate it currently listens at (a side that did not follow a PSL bit-rate change
is therefore not heard, as on real hardware).  ``Air.wire`` records (direction, brty, hex).
"""
import queue
import threading

import nfc.clf
import nfc.clf.device
import nfc.dep
import nfc.llcp.llc

STOP = "stop"
JOIN = 5.0
BRTY = ("106A", "212F", "424F")


class Stall(Exception):
    """rendezvous timed out: one side waits for something that never comes"""


class Clock(object):
    def __init__(self):
        self.t = 1000.0

    def time(self):
        return self.t

    def sleep(self, d):
        self.t += max(0, d)


CLOCK = Clock()


def patch_clock():
    nfc.dep.time = CLOCK
    nfc.clf.time = CLOCK
    nfc.llcp.llc.time = CLOCK


class Air(object):
    """the medium shared by the two devices

    tech   - technologies at which the listening device answers passive discovery
    active - the polling device supports active communication mode discovery (sense_dep)
    """

    def __init__(self, tech=BRTY, active=False):
        self.tech, self.active = tuple(tech), active
        self.toT = queue.Queue()
        self.toI = queue.Queue()
        self.listening = threading.Event()
        self.local = None        # LocalTarget offered by the listener
        self.dead = False        # listener gone
        self.wire = []           # (dir, brty, hex)
        self.anomalies = []
        self.senses = []         # discovery attempts of the poller

    # ---- poller side primitives
    def wait_listener(self):
        if not self.listening.wait(JOIN):
            raise Stall("nobody listens")

    def deliver(self, item):
        """put one item on the air, wait for the listener's reaction (frame or None)"""
        if self.dead:
            return None
        self.toT.put(item)
        try:
            return self.toI.get(timeout=JOIN)
        except queue.Empty:
            raise Stall("listener did not react to %r" % (item,))


class AirDevice(nfc.clf.device.Device):
    def __init__(self, air):
        self.air = air
        self._path = "air"
        self._chipset_name = "AIR"
        self.pending = False     # listener: a delivered frame awaits its answer (or silence)
        self.brty = None         # listener: current bit rate

    def close(self):
        pass

    def mute(self):
        pass

    def get_max_send_data_size(self, target):
        return 290

    def get_max_recv_data_size(self, target):
        return 290

    # ------------------------------------------------------------------ poller
    def sense_tta(self, target):
        a = self.air
        a.senses.append("tta " + target.brty)
        if target.brty != "106A":
            raise nfc.clf.UnsupportedTargetError("unsupported bitrate " + target.brty)
        a.wait_listener()
        if "106A" not in a.tech:
            return None
        if a.deliver(("sense", "106A")) != "ack":
            return None
        lt = a.local
        return nfc.clf.RemoteTarget("106A", sens_res=bytearray(lt.sens_res), sdd_res=bytearray(lt.sdd_res),
                                    sel_res=bytearray(lt.sel_res))

    def sense_ttb(self, target):
        self.air.senses.append("ttb " + target.brty)
        return None

    def sense_ttf(self, target):
        a = self.air
        a.senses.append("ttf " + target.brty)
        if target.brty not in ("212F", "424F"):
            raise nfc.clf.UnsupportedTargetError("unsupported bitrate " + target.brty)
        a.wait_listener()
        if target.brty not in a.tech:
            return None
        req = bytes(target.sensf_req) if target.sensf_req else bytes.fromhex("00FFFF0100")
        if a.deliver(("sense", target.brty)) != "ack":
            return None
        res = bytes(a.local.sensf_res)
        if not ((req[1] in (255, res[17])) and (req[2] in (255, res[18]))):
            return None
        data = res[0:17] + (res[17:19] if req[3] == 1 else b"")
        return nfc.clf.RemoteTarget(target.brty, sensf_res=bytearray(data))

    def sense_dep(self, target):
        a = self.air
        a.senses.append("dep " + target.brty)
        if not a.active:
            raise nfc.clf.UnsupportedTargetError("no active communication mode")
        if target.brty not in BRTY:
            raise nfc.clf.UnsupportedTargetError("unsupported bitrate " + target.brty)
        a.wait_listener()
        if a.dead:
            return None
        atr_req = bytes(target.atr_req)
        frame = bytes([len(atr_req) + 1]) + atr_req
        if target.brty == "106A":
            frame = b"\xF0" + frame
        a.wire.append((">", target.brty, frame.hex()))
        rsp = a.deliver(("frame", target.brty, frame, "active"))
        if rsp is None:
            return None
        a.wire.append(("<", target.brty, bytes(rsp).hex()))
        rsp = bytearray(rsp)
        if target.brty == "106A":
            if rsp.pop(0) != 0xF0:
                return None
        if len(rsp) != rsp.pop(0):
            return None
        return nfc.clf.RemoteTarget(target.brty, atr_req=bytearray(atr_req), atr_res=rsp)

    def send_cmd_recv_rsp(self, target, data, timeout):
        a = self.air
        if data is not None:
            a.wire.append((">", target.brty, bytes(data).hex()))
            rsp = a.deliver(("frame", target.brty, bytes(data), None))
        else:
            rsp = None
        if timeout is not None and timeout <= 0:
            return None
        if rsp is None:
            CLOCK.t += timeout
            raise nfc.clf.TimeoutError("no response")
        brty, frame = rsp
        a.wire.append(("<", brty, bytes(frame).hex()))
        if brty != target.brty:
            CLOCK.t += timeout
            raise nfc.clf.TimeoutError("response at another bit rate")
        return bytearray(frame)

    # ------------------------------------------------------------------ listener
    def _get(self):
        try:
            return self.air.toT.get(timeout=JOIN)
        except queue.Empty:
            raise Stall("listener waited for something that never came")

    @staticmethod
    def _unframe(brty, frame):
        """-> NFC-DEP transport data or None when the framing is wrong"""
        f = bytearray(frame)
        if brty == "106A":
            if not f or f.pop(0) != 0xF0:
                return None
        if not f or len(f) != f.pop(0):
            return None
        return f

    @staticmethod
    def _frame(brty, body):
        f = bytes([len(body) + 1]) + bytes(body)
        return (b"\xF0" + f) if brty == "106A" else f

    def listen_dep(self, target, timeout):
        a = self.air
        assert target.atr_res is not None and 17 <= len(target.atr_res) <= 64
        assert len(target.sensf_res) == 19 and len(target.sens_res) == 2
        assert len(target.sdd_res) == 4 and len(target.sel_res) == 1
        a.local = target
        a.listening.set()
        passive = None           # technology of the passive discovery answered last
        active = False
        atr_req = psl_req = psl_res = None
        brty = None
        while True:
            item = self._get()
            if item == STOP:
                return None
            if item[0] == "sense":
                passive = item[1]
                a.toI.put("ack")
                continue
            _, fbrty, frame, mode = item
            body = self._unframe(fbrty, frame)
            if body is None or (brty is not None and fbrty != brty):
                a.toI.put(None)
                continue
            if body[:2] == b"\xD4\x00" and len(body) >= 16 and atr_req is None:
                if mode != "active" and passive != fbrty:
                    a.toI.put(None)          # not selected at this technology
                    continue
                active = mode == "active"
                atr_req, brty = body, fbrty
                a.toI.put(self._frame(brty, target.atr_res) if active else (brty, self._frame(brty, target.atr_res)))
            elif body[:2] == b"\xD4\x04" and atr_req is not None and psl_req is None and len(body) == 5:
                psl_req = body
                psl_res = bytearray(b"\xD5\x05" + body[2:3])
                a.toI.put((brty, self._frame(brty, psl_res)))
                dsi, dri = body[3] >> 3 & 7, body[3] & 7
                if dsi != dri or dsi > 2:
                    a.anomalies.append("PSL_REQ with BRS %02x" % body[3])
                brty = BRTY[min(dsi, 2)]
            elif body[:2] == b"\xD4\x06" and atr_req is not None:
                t = nfc.clf.LocalTarget(brty, atr_req=bytearray(atr_req), atr_res=bytearray(target.atr_res),
                                        dep_req=bytearray(body))
                if psl_req is not None:
                    t.psl_req, t.psl_res = bytearray(psl_req), psl_res
                if not active:
                    if passive == "106A":
                        t.sens_res, t.sdd_res, t.sel_res = target.sens_res, target.sdd_res, target.sel_res
                    else:
                        t.sensf_res = target.sensf_res
                self.pending = True
                self.brty = brty
                return t
            else:
                a.toI.put(None)

    def send_rsp_recv_cmd(self, target, data, timeout=None):
        a = self.air
        if data is not None:
            if not self.pending:
                a.anomalies.append("target sent an unsolicited frame " + bytes(data).hex())
            else:
                if timeout is not None and timeout <= 0:
                    a.dead = True       # it will not listen again
                self.pending = False
                a.toI.put((target.brty, bytes(data)))
        elif self.pending:
            self.pending = False
            a.toI.put(None)
        if timeout is not None and timeout <= 0:
            return None
        while True:
            item = self._get()
            if item == STOP:
                raise nfc.clf.TimeoutError("stop")
            if item[0] == "sense":
                a.toI.put(None)
                continue
            _, fbrty, frame, _mode = item
            if fbrty != target.brty:
                a.toI.put(None)     # not heard at this bit rate
                continue
            self.pending = True
            return bytearray(frame)


def frontend(air):
    clf = nfc.clf.ContactlessFrontend()
    clf.device = AirDevice(air)
    return clf


class Pair(object):
    """runs `target_fn(clf_t)` in a worker thread and `initiator_fn(clf_i)` in the caller"""

    def __init__(self, tech=BRTY, active=False):
        patch_clock()
        CLOCK.t = 1000.0
        self.air = Air(tech, active)
        self.clf_i = frontend(self.air)
        self.clf_t = frontend(self.air)
        self.stopped = False
        self.t_result = None
        self.t_error = None

    def run(self, initiator_fn, target_fn):
        air = self.air

        def tmain():
            try:
                self.t_result = target_fn(self.clf_t)
            except Stall as e:
                self.t_error = e
            except BaseException as e:  # noqa
                self.t_error = e
            finally:
                air.dead = True
                dev = self.clf_t.device
                if dev.pending:
                    dev.pending = False
                    air.toI.put(None)
                air.listening.set()

        th = threading.Thread(target=tmain, daemon=True)
        th.start()
        try:
            i_result = initiator_fn(self.clf_i)
        finally:
            self.stopped = True
            air.toT.put(STOP)
            th.join(JOIN)
        if th.is_alive():
            raise Stall("target thread did not finish")
        if isinstance(self.t_error, Stall):
            raise self.t_error
        return i_result, self.t_result, self.t_error
