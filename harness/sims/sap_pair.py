"""Two real LogicalLinkController objects coupled single-threaded (property C17).

* no run-loop thread: one ``xfer`` = ``collect()`` at one side, real
  ``pdu.encode``/``pdu.decode``, ``dispatch()`` at the other side;
* every ``threading.Condition`` the socket API waits on is replaced by an object
  whose ``wait()`` runs the link until nothing moves (``pump``) and returns, so
  a call that would block for an answer sees the answer (or the documented
  ``EPIPE`` when none came);
* the transaction identifier of service discovery (``random.choice``) is the
  first free one.

History operations are the strings of the line protocol of ``lean/Drv/C17.lean``.
"""
import types

from common import hx, exc_name

PUMP_ROUNDS = 16
DLC_NAMES = ("CONNECT", "DISC", "CC", "DM", "FRMR", "I", "RR", "RNR")


class Unmodelled(Exception):
    """the history left the domain of the model (see Model/Sap.lean)"""


class PumpCondition(object):
    def __init__(self, lock, pair, loops=False):
        self.lock, self.pair, self.loops = lock, pair, loops

    def __enter__(self):
        self.lock.acquire()
        return self

    def __exit__(self, *a):
        self.lock.release()

    def acquire(self, *a):
        return self.lock.acquire(*a)

    def release(self):
        self.lock.release()

    def wait(self, timeout=None):
        hook, self.pair.wait_hook = self.pair.wait_hook, None
        if hook is not None:
            hook()          # another application thread / the application at the other controller acts while this call waits
            return
        self.pair.waits += 1
        if self.loops and self.pair.waits > 1:
            raise Unmodelled("wait() loop without progress")
        self.pair.pump()

    def notify(self, n=1):
        pass

    def notify_all(self):
        pass


def canon_pdu(q):
    n = q.name
    if n == "UI":
        return "UI.%d.%d.%s" % (q.dsap, q.ssap, hx(q.data))
    if n == "CONNECT":
        return "CONNECT.%d.%d.%s" % (q.dsap, q.ssap, "None" if q.sn is None else hx(q.sn))
    if n == "CC":
        return "CC.%d.%d" % (q.dsap, q.ssap)
    if n == "DM":
        return "DM.%d.%d.%d" % (q.dsap, q.ssap, q.reason)
    if n == "DISC":
        return "DISC.%d.%d" % (q.dsap, q.ssap)
    if n == "FRMR":
        extra = (q.rej_flags, q.ns, q.nr, q.vs, q.vr, q.vsa, q.vra)
        return "FRMR.%d.%d.%d" % (q.dsap, q.ssap, q.rej_ptype) + ("" if extra == (8, 0, 0, 0, 0, 0, 0) else "!%r" % (extra,))
    if n == "SNL":
        return "SNL.[%s].[%s]" % (",".join("%d:%s" % (t, hx(nm)) for t, nm in q.sdreq),
                                  ",".join("%d:%d" % (t, a) for t, a in q.sdres))
    return "%s.%d.%d" % (n, q.dsap, q.ssap)


def opt(v):
    return "None" if v is None else str(v)


class Pair(object):
    def __init__(self):
        import nfc.llcp.llc as llc
        import nfc.llcp.pdu as pdu
        self.llc, self.pdu = llc, pdu
        llc.random = types.SimpleNamespace(choice=lambda seq: seq[0])
        self.ctl, self.socks = {}, {"A": [], "B": []}
        for x in "AB":
            c = llc.LogicalLinkController(miu=248, agf=False, sec=False)
            c.cfg["send-miu"] = 128
            c.sap[1].resp = PumpCondition(c.lock, self, loops=True)
            self.ctl[x] = c
        self.wire = []
        self.waits = 0
        self.wait_hook = None   # what the peer application does during the next wait()
        self.observer = None    # callback(sender side, receiver side, wire PDU, ids of sockets whose queue grew)
        self.observer_exc = None
        self.sdres_before = None

    # ------------------------------------------------------------ link
    def would_hang(self, y, q):
        """F39: a non-connection PDU routed to an established data link connection"""
        if q.name in DLC_NAMES or q.name == "SNL":
            return False
        sap = self.ctl[y].sap[q.dsap]
        if sap is None or not isinstance(sap, self.llc.ServiceAccessPoint):
            return False
        for s in sap.sock_list:
            if q.ssap == s.peer or s.peer is None:
                return isinstance(s, self.llc.tco.DataLinkConnection) and s.state.ESTABLISHED and s.is_bound
        return False

    def xfer(self, x):
        y = "B" if x == "A" else "A"
        p = self.ctl[x].collect()
        if p is None:
            return False
        q = self.pdu.decode(self.pdu.encode(p))
        self.wire.append("%s>%s" % (x, canon_pdu(q)))
        if self.would_hang(y, q):
            raise Unmodelled("F39")
        before = self.snapshot(y) if self.observer else None
        self.sdres_before = list(self.ctl[y].sap[1].sdres) if self.observer else None
        self.ctl[y].dispatch(q)
        if self.observer:
            after = self.snapshot(y)
            grown = [i for i in range(len(after)) if after[i] > (before[i] if i < len(before) else 0)]
            try:
                self.observer(x, y, q, grown)
            except Exception as e:  # noqa   (a defect of the oracle must not look like an exception of nfcpy)
                if self.observer_exc is None:
                    self.observer_exc = e
        return True

    def snapshot(self, y):
        return [len(s.recv_queue) for s in self.socks[y]]

    def pump(self):
        """rounds A->B, B->A until nothing moves; True when the link went quiet"""
        for _ in range(PUMP_ROUNDS):
            m1 = self.xfer("A")
            m2 = self.xfer("B")
            if not m1 and not m2:
                return True
        return False

    # ------------------------------------------------------------ sockets
    def adopt(self, x, s):
        c = self.ctl[x]
        for attr in ("send_ready", "recv_ready", "acks_ready", "send_token"):
            if hasattr(s, attr):
                setattr(s, attr, PumpCondition(s.lock, self))
        self.socks[x].append(s)
        return len(self.socks[x]) - 1

    def kind(self, s):
        t = self.llc.tco
        return "raw" if isinstance(s, t.RawAccessPoint) else "ldl" if isinstance(s, t.LogicalDataLink) else "dlc"

    # ------------------------------------------------------------ operations
    def do(self, op):
        """run one operation, return the canonical outcome line (with the wire log)"""
        import nfc.llcp
        self.wire, self.waits = [], 0
        t = op.split(" ")
        try:
            res = self._do(t, nfc.llcp)
        except Unmodelled:
            return "abort"
        except Exception as e:  # noqa
            res = "exc " + exc_name(e)
        return res + (" | " + " ".join(self.wire) if self.wire else "")

    def _do(self, t, L):
        llc = self.llc
        k = t[0]
        if k == "D":
            return "A{%s} B{%s}" % (self.dump("A"), self.dump("B"))
        x = t[1]
        c = self.ctl[x]
        if k == "S":
            typ = {"raw": llc.RAW_ACCESS_POINT, "ldl": llc.LOGICAL_DATA_LINK, "dlc": llc.DATA_LINK_CONNECTION}[t[2]]
            return "ok %d" % self.adopt(x, c.socket(typ))
        if k == "Q":
            return "ok %d" % c.resolve(_unhex(t[2]))
        if k == "QQ":
            return "ok [%s]" % ",".join("%d" % a for a in self.resolve_many(c, _unlist(t[2], _unhex)))
        if k == "N":
            # a raw access point sends a service name lookup PDU with arbitrary SDREQ / SDRES content
            s = self.socks[x][int(t[2])]
            if self.kind(s) != "raw":
                raise Unmodelled("sendpdu on non-raw")
            q = self.pdu.ServiceNameLookup(1, 1, sdreq=_unlist(t[3], _unreq), sdres=_unlist(t[4], _unres))
            r = c.sendto(s, q, None, L.MSG_DONTWAIT)
            return "ok true" if r else "ok false"
        if k == "M":
            return "ok true" if self.xfer(x) else "ok false"
        s = self.socks[x][int(t[2])]
        if k == "B":
            if t[3] == "-":
                c.bind(s)
            elif t[3] == "a":
                c.bind(s, int(t[4]))
            else:
                c.bind(s, _unhex(t[4]))
            return "ok " + opt(c.getsockname(s))
        if k == "L":
            c.listen(s, int(t[3]))
            return "ok"
        if k == "C":
            if t[3] == "n" and self.kind(s) == "ldl":
                raise Unmodelled("ldl connect by name")
            c.connect(s, int(t[4]) if t[3] == "a" else _unhex(t[4]))
            return "ok"
        if k == "K":
            # connect while the application at the other controller accepts on its socket t[-1]
            if self.kind(s) != "dlc":
                raise Unmodelled("served connect on non-dlc")
            y = "B" if x == "A" else "A"
            listener = self.socks[y][int(t[5])]
            acc = ["-"]

            def hook():
                self.pump()
                try:
                    n = self.ctl[y].accept(listener)
                    acc[0] = "ok sock %d %s %s" % (self.adopt(y, n), opt(n.addr), opt(n.peer))
                except Unmodelled:
                    raise
                except Exception as e:  # noqa
                    acc[0] = "exc " + exc_name(e)
                self.pump()
            self.wait_hook = hook
            try:
                c.connect(s, int(t[4]) if t[3] == "a" else _unhex(t[4]))
                res = "ok"
            except Unmodelled:
                raise
            except Exception as e:  # noqa
                res = "exc " + exc_name(e)
            finally:
                self.wait_hook = None
            return res + " & " + acc[0]
        if k == "A":
            n = c.accept(s)
            return "ok sock %d %s %s" % (self.adopt(x, n), opt(n.addr), opt(n.peer))
        if k == "T":
            if self.kind(s) == "dlc" and s.state.ESTABLISHED:
                raise Unmodelled("I PDU traffic")
            r = c.sendto(s, _unhex(t[3]), int(t[4]), L.MSG_DONTWAIT)
            return "ok true" if r else "ok false"
        if k == "P":
            if self.kind(s) != "raw":
                raise Unmodelled("sendpdu on non-raw")
            q = self.pdu.UnnumberedInformation(int(t[3]), int(t[4]), data=_unhex(t[5]))
            r = c.sendto(s, q, None, L.MSG_DONTWAIT)
            return "ok true" if r else "ok false"
        if k == "R":
            m, src = c.recvfrom(s)
            if self.kind(s) == "raw":
                return "ok pdu " + canon_pdu(m)
            return "ok data %s %s" % ("None" if m is None else hx(m), opt(src))
        if k == "X":
            c.close(s)
            return "ok"
        raise ValueError("unknown op %r" % (t,))

    def resolve_many(self, c, names):
        """len(names) application threads call c.resolve(name) and all of them wait before the link moves:
        the wait() of call i lets call i+1 start (a call that finds its name in the cache returns at once and
        the next one starts after it); the last waiting call runs the link.  This is one legal schedule of the
        real threads, executed on one thread."""
        sd = c.sap[1]
        if sum(1 for n in names if n not in sd.snl) > len(sd.tids):
            raise Unmodelled("no transaction identifier left")
        res = [None] * len(names)

        def chain(i, waiting):
            while i < len(names):
                entered = [False]

                def hook(i=i):
                    entered[0] = True
                    chain(i + 1, True)
                self.wait_hook = hook
                try:
                    res[i] = c.resolve(names[i])
                finally:
                    self.wait_hook = None
                if entered[0]:
                    return          # the calls after i ran inside the wait of call i
                i += 1              # call i returned without waiting: the next thread starts now
            if waiting:
                self.waits += 1
                self.pump()
        chain(0, False)
        return res

    # ------------------------------------------------------------ state
    def dump(self, x):
        c = self.ctl[x]
        ids = {id(s): i for i, s in enumerate(self.socks[x])}
        saps = []
        for a in range(64):
            e = c.sap[a]
            if e is None:
                continue
            if a == 1:
                saps.append("1::0")
                continue
            saps.append("%d:%s:%d" % (a, "/".join(str(ids.get(id(s), "?")) for s in e.sock_list), len(e.send_list)))
        names = ["%s=%d" % (hx(n), a) for n, a in c.snl.items()]
        socks = []
        for i, s in enumerate(self.socks[x]):
            socks.append("%d:%s:%s:%s:%s:%d:%d:%d" % (i, self.kind(s), str(s.state), opt(s.addr), opt(s.peer),
                                                     len(s.recv_queue), len(s.send_queue), s.recv_buf))
        sd = c.sap[1]
        cache = ["%s=%d" % (hx(n), a) for n, a in sd.snl.items()]
        tids = list(sd.tids)
        return "saps=%s snl=%s socks=%s cache=%s sd=%d:%d:%d:%d:%d tids=%s/%s sent=%s sdreq=%s sdres=%s" % (
            ",".join(saps), ",".join(names), ",".join(socks), ",".join(cache),
            len(sd.tids), len(sd.sent), len(sd.sdreq), len(sd.sdres), len(sd.dmpdu),
            ".".join(str(t) for t in tids[:3]), ".".join(str(t) for t in tids[-3:]),
            ",".join("%d:%s" % (t, hx(n)) for t, n in sd.sent.items()),
            ",".join("%d:%s" % (t, hx(n)) for t, n in sd.sdreq),
            ",".join("%d:%d" % (t, a) for t, a in sd.sdres))

    def run(self, ops):
        """run a history; after an abort the remaining operations are skipped"""
        out = []
        for i, op in enumerate(ops):
            r = self.do(op)
            out.append(r)
            if r == "abort":
                out += ["skip"] * (len(ops) - i - 1)
                break
        return out


def _unhex(h):
    return b"" if h == "-" else bytes.fromhex(h)


def _unlist(s, f):
    return [] if s == "." else [f(e) for e in s.split(",")]


def _unreq(e):
    t, h = e.split(":")
    return (int(t), _unhex(h))


def _unres(e):
    t, a = e.split(":")
    return (int(t), int(a))
