"""Run the real nfc.tag.activate and a sequence of operations on the tag object
(tag.ndef, ndef.has_changed, tag.is_present) against an adversarial responder
and canonicalise what happened (C08).  Also: tag.dump() as an oracle-only run."""
import logging

import nfc
import nfc.clf
import nfc.tag
import nfc.tag.tt1
import nfc.tag.tt2
import nfc.tag.tt3
import nfc.tag.tt4

from common import exc_name, hx
from sims.adv_tags import AdvClf, BudgetExceeded

logging.disable(logging.CRITICAL)

MOD = 1000000007


def cmd_hash(cmds):
    """order-sensitive digest of a command list (the Lean driver computes the same)"""
    h = 7
    for c in cmds:
        h = (h * 257 + 256) % MOD
        for b in c:
            h = (h * 257 + b) % MOD
    return h


def show_ndef(nd):
    if nd is None:
        return "none"
    o = nd.octets
    return "len=%d cap=%d r=%d w=%d oct=%s" % (nd.length, nd.capacity, int(nd.is_readable), int(nd.is_writeable),
                                               hx(o) if len(o) <= 40 else "#%d" % cmd_hash([o]))


class Result(object):
    __slots__ = ("canon", "cls", "exc", "loop", "n", "log", "tag", "ndef", "octets", "length", "capacity", "where",
                 "words", "n_at", "present", "bad", "snaps")


def stored_inside(tag, nd):
    """Type 1/2 only: do the length field and the value of the message TLV the reader found lie inside the
    data area (placed around the reader's skip bytes)?  Used to tell the capacity formula's own
    shortfall (257 free bytes and a 254 byte message with a one byte length field; length field on a reserved
    byte; no room behind the length field) from a message that reaches beyond the area."""
    try:
        if isinstance(tag, nfc.tag.tt1.Type1Tag):
            base = "t1"
        elif isinstance(tag, nfc.tag.tt2.Type2Tag):
            base = "t2"
        else:
            return False
        mem, off, skip = nd._tag_memory, nd._ndef_tlv_offset, nd._skip_bytes
        end = (mem[10] + 1) * 8 if base == "t1" else mem[14] * 8 + 16
        head = off + (4 if mem[off + 1] == 0xFF else 2)
        return head <= end and nd.length <= len(set(range(head, end)) - skip)
    except Exception:
        return False


def run_real(responder, budget, max_send=256, max_recv=256, stop_after=None, garble=None, ops="nhp"):
    """-> Result.  canon: 'none' | 'tag <Class> <one word per operation>' | 'exc <Name>' | 'loop'.
    ops: 'n' tag.ndef, 'h' tag.ndef.has_changed (if tag.ndef is an object), 'p' tag.is_present.
    r.bad: results that are not what the operation may return (wrong type)"""
    clf = AdvClf(responder, budget, max_send, max_recv, stop_after, garble)
    r = Result()
    r.cls = r.exc = r.tag = r.ndef = r.octets = r.length = r.capacity = None
    r.loop = False
    r.where = "activate"
    r.words, r.n_at, r.present, r.bad = [], [], [], []
    r.snaps = []        # every NDEF object an operation showed: (length, capacity, number of octets, stored inside the area)
    try:
        tag = nfc.tag.activate(clf, responder.target())
        r.n_at.append(len(clf.log))
        if tag is None:
            r.canon = "none"
        else:
            if not isinstance(tag, nfc.tag.Tag):
                r.bad.append("activate returned %r" % type(tag).__name__)
            r.tag = tag
            r.cls = type(tag).__name__
            for op in ops:
                if op == "n":
                    r.where = "ndef"
                    nd = tag.ndef
                    r.words.append("n=" + show_ndef(nd))
                elif op == "h":
                    r.where = "has_changed"
                    nd = tag._ndef
                    if nd is None:
                        r.words.append("h=-")
                    else:
                        ch = nd.has_changed
                        if not isinstance(ch, bool):
                            r.bad.append("has_changed returned %r" % (ch,))
                        nd2 = tag._ndef         # the same object, or None when the re-read failed
                        r.words.append("h=" + (show_ndef(nd2) if nd2 is nd or nd2 is None else "other-object"))
                        nd = nd2
                else:
                    r.where = "is_present"
                    p = tag.is_present
                    if not isinstance(p, bool):
                        r.bad.append("is_present returned %r" % (p,))
                    r.present.append(bool(p))
                    r.words.append("p=%d" % bool(p))
                    r.n_at.append(len(clf.log))
                    continue
                r.n_at.append(len(clf.log))
                r.ndef = nd
                if nd is not None:
                    r.octets, r.length, r.capacity = bytes(nd.octets), nd.length, nd.capacity
                    r.snaps.append((r.length, r.capacity, len(r.octets), stored_inside(tag, nd)))
            r.canon = " ".join(["tag " + r.cls] + r.words)
    except BudgetExceeded:
        r.loop = True
        r.canon = "loop"
    except Exception as e:   # noqa: every exception class is an observation here
        r.exc = exc_name(e)
        r.canon = "exc %s" % r.exc
    r.log = clf.log
    r.n = len(clf.log)
    return r


def run_dump(responder, budget, max_send=256, max_recv=256, stop_after=None):
    """activate, then tag.dump(): -> (outcome, n, log, detail); outcome 'none' | 'lines' | 'loop' | 'exc <Name>' |
    'bad <what>' (dump() returned something that is not a list of strings)"""
    clf = AdvClf(responder, budget, max_send, max_recv, stop_after, None)
    where = "activate"
    try:
        tag = nfc.tag.activate(clf, responder.target())
        if tag is None:
            return "none", len(clf.log), clf.log, ""
        where = "dump"
        lines = tag.dump()
        if not isinstance(lines, list) or not all(isinstance(x, str) for x in lines):
            return "bad " + type(lines).__name__, len(clf.log), clf.log, type(tag).__name__
        return "lines", len(clf.log), clf.log, type(tag).__name__
    except BudgetExceeded:
        return "loop", len(clf.log), clf.log, where
    except Exception as e:   # noqa
        return "exc " + exc_name(e), len(clf.log), clf.log, where


def script_line(kind, log, params=()):
    """request line for the Lean driver: the answers of the log in order ('~' = no answer)"""
    ans = ",".join("~" if a is None else hx(a) for _, a in log) or "."
    return " ".join([kind] + [str(p) for p in params] + [ans])
