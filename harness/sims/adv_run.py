"""Run the real nfc.tag.activate + tag.ndef evaluation against an adversarial
responder and canonicalise what happened (C08)."""
import logging

import nfc
import nfc.clf
import nfc.tag
import nfc.tag.tt1
import nfc.tag.tt2
import nfc.tag.tt3
import nfc.tag.tt4

from common import exc_name, hx
from sims.adv_tags import AdvClf, BudgetExceeded

logging.disable(logging.CRITICAL)

MOD = 1000000007


def cmd_hash(cmds):
    """order-sensitive digest of a command list (the Lean driver computes the same)"""
    h = 7
    for c in cmds:
        h = (h * 257 + 256) % MOD
        for b in c:
            h = (h * 257 + b) % MOD
    return h


def show_ndef(nd):
    if nd is None:
        return "none"
    o = nd.octets
    return "len=%d cap=%d r=%d w=%d oct=%s" % (nd.length, nd.capacity, int(nd.is_readable), int(nd.is_writeable),
                                               hx(o) if len(o) <= 40 else "#%d" % cmd_hash([o]))


class Result(object):
    __slots__ = ("canon", "cls", "first", "second", "exc", "loop", "n", "n_act", "n_first", "log", "tag", "ndef",
                 "octets", "length", "capacity", "where")


def run_real(responder, budget, max_send=256, max_recv=256, stop_after=None, garble=None, again=True):
    """-> Result.  canon: 'none' | 'tag <Class> first=<ndef> second=<ndef>' | 'exc <Name> at <phase>' | 'loop'"""
    clf = AdvClf(responder, budget, max_send, max_recv, stop_after, garble)
    r = Result()
    r.cls = r.first = r.second = r.exc = r.tag = r.ndef = r.octets = r.length = r.capacity = None
    r.loop = False
    r.n_act = r.n_first = None
    r.where = "activate"
    try:
        tag = nfc.tag.activate(clf, responder.target())
        r.n_act = len(clf.log)
        if tag is None:
            r.canon = "none"
        else:
            r.tag = tag
            r.cls = type(tag).__name__
            r.where = "ndef"
            nd = tag.ndef
            r.n_first = len(clf.log)
            r.first = show_ndef(nd)
            if nd is not None:
                r.ndef, r.octets, r.length, r.capacity = nd, bytes(nd.octets), nd.length, nd.capacity
            r.second = "-"
            if again and nd is not None:
                r.where = "has_changed"
                nd.has_changed
                nd2 = tag._ndef         # the same object, or None when the re-read failed (tag.ndef would read again)
                r.second = show_ndef(nd2) if nd2 is nd or nd2 is None else "other-object"
                if nd2 is not None:
                    r.octets, r.length, r.capacity = bytes(nd2.octets), nd2.length, nd2.capacity
                else:
                    r.ndef = None
            r.canon = "tag %s first=%s second=%s" % (r.cls, r.first, r.second)
    except BudgetExceeded:
        r.loop = True
        r.canon = "loop"
    except Exception as e:   # noqa: every exception class is an observation here
        r.exc = exc_name(e)
        r.canon = "exc %s" % r.exc
    r.log = clf.log
    r.n = len(clf.log)
    return r


def script_line(kind, log, params=()):
    """request line for the Lean driver: the answers of the log in order ('~' = no answer)"""
    ans = ",".join("~" if a is None else hx(a) for _, a in log) or "."
    return " ".join([kind] + [str(p) for p in params] + [ans])
