"""C09 - preemption at EVERY LINE of the socket API where the thread holds no lock.

`term_sched.Sched` gives a thread up only at outermost lock acquisitions and at waits.  The socket
API of nfc.llcp (llc.py, socket.py, the unlocked prologues in tco.py) reads shared state - `socket.addr`,
`llc.sap[...]`, `socket.state` - in plain statements before it takes a lock; the link thread can run
`terminate()` between any two of them.  `LineSched` adds a scheduling point in front of every source line
of those files that a thread executes while it holds no lock (through `sys.settrace` inside the thread),
so the enumeration of schedules with one preemption places the termination at every such line.
"""
import os
import sys

from sims import term_sched as S


class LineThread(S.SThread):
    def __init__(self, sched, name, fn, atomic=False):
        self.lines = []             # (file, line) of the line points passed
        super().__init__(sched, name, fn, atomic)

    def _body(self):
        self.sem.acquire()
        try:
            if not self.abort:
                self.state = "run"
                if not self.atomic:
                    sys.settrace(self._tracer)
                try:
                    self.result = ("ret", self.fn())
                finally:
                    sys.settrace(None)
        except S.Abort:
            self.result = ("abort", None)
        except BaseException as e:  # noqa
            self.result = ("exc", e)
        self.state = "done"
        self.sched.baton.release()

    def _tracer(self, frame, event, arg):
        if event == "call" and frame.f_code.co_filename in self.sched.files:
            return self._line
        return None

    def _line(self, frame, event, arg):
        if event == "line" and self.held == 0 and not self.abort and self.sched.current is self:
            self.lines.append((os.path.basename(frame.f_code.co_filename), frame.f_lineno))
            self.yield_("line")
        return self._line

    def enabled(self):
        return self.state == "line" or S.SThread.enabled(self)

    def where(self):
        if self.state == "line" and self.lines:
            return "line %s:%d" % self.lines[-1]
        return S.SThread.where(self)


class LineSched(S.Sched):
    def __init__(self, files):
        super().__init__()
        self.files = set(files)

    def spawn(self, name, fn, atomic=False):
        t = LineThread(self, name, fn, atomic)
        self.threads.append(t)
        return t
