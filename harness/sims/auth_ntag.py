"""NTAG21x tag model (password part of the NXP data sheets) for the C20 check.

Pages of 4 octets; the last four pages are CFG0, CFG1, PWD, PACK|RFUI.  PWD
and PACK read back as zero.  Changes of the configuration pages take
effect at the next activation.  PWD_AUTH (1Bh) answers PACK when the four
password octets match, otherwise the 4-bit NAK 0h and the tag falls back to
idle (the next command is lost until the reader senses again).  With AUTH0
<= page the page is write protected (and read protected with PROT set) until
a successful PWD_AUTH.
"""

PRODUCTS = {   # name: (GET_VERSION response, number of pages, cfg page)
    "NTAG210": (bytes.fromhex("0004040101000B03"), 20, 16),
    "NTAG212": (bytes.fromhex("0004040101000E03"), 41, 37),
    "NTAG213": (bytes.fromhex("0004040201000F03"), 45, 41),
    "NTAG215": (bytes.fromhex("0004040201001103"), 135, 131),
    "NTAG216": (bytes.fromhex("0004040201001303"), 231, 227),
}

NAK0 = b"\x00"
ACK = b"\x0A"


class NtagTag(object):
    def __init__(self, product="NTAG213", pwd=b"\xFF\xFF\xFF\xFF", pack=b"\x00\x00", auth0=0xFF, prot=False):
        self.product = product
        self.version, self.pages, self.cfg = PRODUCTS[product]
        self.mem = bytearray(4 * self.pages)
        self.mem[0:10] = bytes([0x04, 0x51, 0x7C, 0xA1, 0xE1, 0xED, 0x25, 0x80, 0xA9, 0x48])
        self.mem[12:16] = bytes([0xE1, 0x10, (self.cfg - 5) // 2, 0x00])
        self.mem[16:19] = bytes([0x03, 0x00, 0xFE])
        c = 4 * self.cfg
        self.mem[c:c + 4] = bytes([0x04, 0x00, 0x00, auth0])
        self.mem[c + 4:c + 8] = bytes([0x80 if prot else 0x00, 0x05, 0x00, 0x00])
        self.mem[c + 8:c + 12] = bytes(pwd)
        self.mem[c + 12:c + 14] = bytes(pack)
        self.authenticated = False
        self.idle = False
        self.auth_attempts = []
        self.effective = bytes(self.mem[c:c + 16])       # configuration in force: latched at activation

    def eff(self, i):
        return self.effective[i]

    @property
    def pwd_in_force(self):
        return bytes(self.effective[8:12])

    @property
    def pack_in_force(self):
        return bytes(self.effective[12:14])

    @property
    def pwd(self):
        return bytes(self.mem[4 * self.cfg + 8:4 * self.cfg + 12])

    @property
    def pack(self):
        return bytes(self.mem[4 * self.cfg + 12:4 * self.cfg + 14])

    def protected(self, page, write):
        auth0 = self.effective[3]
        prot = self.effective[4] & 0x80
        return page >= auth0 and not self.authenticated and (write or prot)

    def reactivate(self):
        """RF reset and new selection: changes of the configuration pages become effective"""
        self.idle = False
        self.authenticated = False
        self.effective = bytes(self.mem[4 * self.cfg:4 * self.cfg + 16])

    def command(self, cmd):
        cmd = bytes(cmd)
        if self.idle or not cmd:
            return None
        op = cmd[0]
        if op == 0x60 and len(cmd) == 1:
            return self.version
        if op == 0x30 and len(cmd) == 2:
            p = cmd[1]
            if p >= self.pages or self.protected(p, False):
                self.idle = True
                return NAK0
            out = bytearray()
            for i in range(4):                      # roll-over to page 0 behind the last page
                q = (p + i) % self.pages
                out += self.mem[4 * q:4 * q + 4]
            for i in range(4):                      # PWD and PACK always read as zero
                q = (p + i) % self.pages
                if q == self.cfg + 2:
                    out[4 * i:4 * i + 4] = bytes(4)
                if q == self.cfg + 3:
                    out[4 * i:4 * i + 2] = bytes(2)
            return bytes(out)
        if op == 0xA2 and len(cmd) == 6:
            p = cmd[1]
            if p < 2 or p >= self.pages or self.protected(p, True):
                self.idle = True
                return NAK0
            if p == 2:
                self.mem[10] |= cmd[4]
                self.mem[11] |= cmd[5]
            elif p == 3:
                for i in range(4):
                    self.mem[12 + i] |= cmd[2 + i]
            else:
                self.mem[4 * p:4 * p + 4] = cmd[2:6]
            return ACK
        if op == 0x1B and len(cmd) == 5:
            self.auth_attempts.append(cmd[1:5])
            if cmd[1:5] == self.pwd_in_force:
                self.authenticated = True
                return self.pack_in_force
            self.idle = True
            self.authenticated = False
            return NAK0
        self.idle = True
        if op == 0x1A:                              # Ultralight C authenticate: not supported, no answer
            return None
        return NAK0


class Air(object):
    """fake contactless frontend for a Type 2 tag; `transit(direction, index, frame)` as in auth_felica"""

    def __init__(self, tag, transit=None):
        self.tag = tag
        self.transit = transit
        self.n = 0
        self.trace = []
        self.target = None

    def exchange(self, cmd, timeout):
        import nfc.clf
        i = self.n
        self.n += 1
        cmd = bytes(cmd)
        if self.transit is not None:
            cmd = self.transit("c", i, cmd)
        rsp = None if cmd is None else self.tag.command(cmd)
        if rsp is not None and self.transit is not None:
            rsp = self.transit("r", i, bytes(rsp))
        self.trace.append((i, cmd, rsp))
        if rsp is None:
            raise nfc.clf.TimeoutError("no response")
        return bytearray(rsp)

    def sense(self, *args, **kwargs):
        self.tag.reactivate()
        return self.target


def activate(tag, transit=None):
    import nfc.clf
    import nfc.tag.tt2
    import nfc.tag.tt2_nxp
    air = Air(tag)
    target = nfc.clf.RemoteTarget("106A", sens_res=bytearray(b"\x44\x00"), sel_res=bytearray(b"\x00"),
                                  sdd_res=bytearray(tag.mem[0:3] + tag.mem[4:8]))
    air.target = target
    t = nfc.tag.tt2_nxp.activate(air, target)
    air.transit = transit
    air.n = 0
    air.trace = []
    return air, t
