"""Deterministic schedules of application threads blocked in send() / recv() of a REAL
DataLinkConnection (no real preemption).

The condition variables of the two real sockets of a `dlc_pair.Pair` are replaced by
`SCondition` doubles that share the real `socket.lock` (an RLock).  Application calls run in
real Python threads, but under a strict baton: exactly one thread runs at a time, and a
thread gives the baton back to the scheduler (the main thread) when it reaches
`Condition.wait()` (it parks, having released the lock exactly like the real wait) or when
its call returns.  `notify()` only marks waiters; *which* marked waiter continues, and
whether another thread or the link runs first, is a decision of the scheduler - the caller
enumerates these decisions, so an execution is a pure function of the decision list.
Optionally a waiter that was not notified can be resumed (a spurious wake-up, which the
contract of `threading.Condition` permits).
"""
import threading

from common import Infra


class Abort(BaseException):
    """raised inside a parked application call when the execution is torn down"""


class AppThread:
    def __init__(self, sched, name, fn):
        self.sched, self.name, self.fn = sched, name, fn
        self.sem = threading.Semaphore(0)
        self.state = "new"          # new | running | parked | done
        self.cv = None
        self.notified = False
        self.abort = False
        self.result = None          # ("ok", value) | ("exc", exception)
        self.reported = False
        self.thread = threading.Thread(target=self._body, daemon=True)
        self.thread.start()

    def _body(self):
        self.sem.acquire()
        try:
            if not self.abort:
                self.state = "running"
                self.result = ("ok", self.fn())
        except Abort:
            self.result = ("abort", None)
        except Exception as e:  # noqa
            self.result = ("exc", e)
        self.state = "done"
        self.sched.baton.release()


class SCondition:
    """stand-in for threading.Condition(lock): same lock protocol, scheduler-controlled wait"""

    def __init__(self, sched, lock, name):
        self.sched, self.lock, self.name = sched, lock, name
        self.waiters = []

    def __enter__(self):
        return self.lock.__enter__()

    def __exit__(self, *a):
        return self.lock.__exit__(*a)

    def acquire(self, *a, **k):
        return self.lock.acquire(*a, **k)

    def release(self):
        return self.lock.release()

    def wait(self, timeout=None):
        t = self.sched.current
        if timeout is not None:
            return False                 # no time passes in a schedule
        if t is None:
            raise Infra("dlc_sched: the scheduler thread itself would block in %s.wait()" % self.name)
        self.waiters.append(t)
        t.state, t.cv, t.notified = "parked", self, False
        saved = self.lock._release_save()
        self.sched.baton.release()       # hand the baton back
        t.sem.acquire()                  # parked until the scheduler resumes this thread
        self.lock._acquire_restore(saved)
        if t in self.waiters:
            self.waiters.remove(t)       # resumed without notification
        t.state, t.cv = "running", None
        if t.abort:
            raise Abort()
        return True

    def notify(self, n=1):
        for t in self.waiters[:n]:
            t.notified = True
        del self.waiters[:n]

    def notify_all(self):
        self.notify(len(self.waiters))

    notifyAll = notify_all


class Sched:
    def __init__(self):
        self.baton = threading.Semaphore(0)
        self.current = None
        self.threads = []

    def instrument(self, sock, label):
        for n in ("send_ready", "recv_ready", "send_token", "acks_ready"):
            setattr(sock, n, SCondition(self, sock.lock, label + "." + n))

    def spawn(self, name, fn):
        t = AppThread(self, name, fn)
        self.threads.append(t)
        return t

    def run(self, t):
        """give the baton to t until it parks or its call returns"""
        if t.state not in ("new", "parked"):
            raise Infra("dlc_sched: cannot run thread in state " + t.state)
        self.current = t
        t.sem.release()
        if not self.baton.acquire(timeout=20):
            raise Infra("dlc_sched: thread %s neither parked nor finished" % t.name)
        self.current = None

    def teardown(self):
        for t in self.threads:
            if t.state in ("new", "parked"):
                t.abort = True
                self.run(t)
            t.thread.join(10)
            if t.thread.is_alive():
                raise Infra("dlc_sched: thread %s did not end" % t.name)
