"""Real tags behind ContactlessFrontend.connect(rdwr=...) (property C18, oracle only).

Nothing of nfc.tag is replaced: nfc.tag.activate, the type specific activation code, the Tag
classes and their REAL presence checks (Type 1 READ, Type 2 READ, Type 3 REQUEST RESPONSE /
POLLING, Type 4 R(NAK)) run against a scripted device whose `send_cmd_recv_rsp` is answered by a
small tag simulator - with a fault plan: the n-th command (counted over the whole run) raises one
of the CommunicationError classes or is answered with a damaged frame.

The log has the token syntax of conn_world.py (callbacks, terminate polls, driver calls), so the
contract oracle of props/c18.py judges these runs too.  There is no model comparison here: the
presence checks are type specific retry loops the C18 model does not contain.
"""
import contextlib

from sims import conn_world as cw


class TagSim(object):
    """answers of one tag type; `respond` returns bytes, or None for "no answer" (timeout)"""
    kind = "?"
    tech = "A"

    def target(self, nfc, brty):
        raise NotImplementedError

    def respond(self, cmd):
        return None


UID4 = bytes.fromhex("b2565400")
UID7 = bytes.fromhex("04010203040506")
IDM = bytes.fromhex("01010501b00ac30b")


class T1(TagSim):
    kind, tech = "tt1", "A"

    def target(self, nfc, brty):
        return nfc.clf.RemoteTarget(brty, sens_res=bytearray(b"\x00\x0C"), rid_res=bytearray(b"\x11\x48" + UID4))

    def respond(self, cmd):
        if cmd[0] == 0x78:
            return b"\x11\x48" + UID4
        if cmd[0] == 0x01:            # READ byte
            return bytes([cmd[1], UID4[0] if cmd[1] == 0 else 0])
        return None


class T2(TagSim):
    """Mifare Ultralight (no AUTHENTICATE, no GET_VERSION) / NTAG213 (GET_VERSION) / generic (NFCID1 08..)"""
    tech = "A"

    def __init__(self, variant):
        self.variant = variant
        self.kind = "tt2-" + variant
        self.halted = False

    def target(self, nfc, brty):
        self.halted = False
        uid = UID7 if self.variant != "generic" else b"\x08" + UID7[1:]
        return nfc.clf.RemoteTarget(brty, sens_res=bytearray(b"\x44\x00"), sel_res=bytearray(b"\x00"), sdd_res=bytearray(uid))

    def respond(self, cmd):
        if self.halted:
            return None
        if cmd[0] == 0x30:
            return bytes(16)
        if cmd[0] == 0x60 and self.variant == "ntag":
            return bytes.fromhex("0004040201000f03")
        if cmd[0] == 0x1A and self.variant == "ulc":
            return b"\xAF" + bytes(8)
        self.halted = True            # a Type 2 Tag goes mute after an unsupported command
        return None


class T3(TagSim):
    tech = "F"

    def __init__(self, ic):
        self.pmm = bytes([0x03, ic, 0x4b, 0x02, 0x4f, 0x49, 0x93, 0xff])
        self.kind = "tt3-%02x" % ic

    def target(self, nfc, brty):
        return nfc.clf.RemoteTarget(brty, sensf_res=bytearray(b"\x01" + IDM + self.pmm + b"\x12\xFC"))

    def respond(self, cmd):
        if len(cmd) >= 6 and cmd[1] == 0x00:       # POLLING
            rsp = IDM + self.pmm + (b"\x12\xFC" if cmd[4] == 1 else b"")
            return bytes([2 + len(rsp), 0x01]) + rsp
        if len(cmd) >= 10 and cmd[1] == 0x04 and bytes(cmd[2:10]) == IDM:   # REQUEST RESPONSE
            return bytes([11, 0x05]) + IDM + b"\x00"
        return None


class T4A(TagSim):
    kind, tech = "tt4a", "A"

    def target(self, nfc, brty):
        return nfc.clf.RemoteTarget(brty, sens_res=bytearray(b"\x44\x03"), sel_res=bytearray(b"\x20"), sdd_res=bytearray(UID7))

    def respond(self, cmd):
        if cmd[0] == 0xE0:
            return bytes.fromhex("0578807002")
        if cmd[0] & 0xF6 == 0xB2:     # R(NAK): presence check
            return bytes([0xA2 | (cmd[0] & 1)])
        return None


class T4B(TagSim):
    kind, tech = "tt4b", "B"

    def target(self, nfc, brty):
        return nfc.clf.RemoteTarget(brty, sensb_res=bytearray(b"\x50" + UID4 + bytes(4) + b"\x00\x81\x81"))

    def respond(self, cmd):
        if cmd[0] == 0x1D:
            return b"\x00"
        if cmd[0] & 0xF6 == 0xB2:
            return bytes([0xA2 | (cmd[0] & 1)])
        return None


def all_tags():
    return [T1(), T2("ul"), T2("ntag"), T2("ulc"), T2("generic"), T3(0x01), T3(0xF0), T4A(), T4B()]


FAULTS = ["TimeoutError", "TransmissionError", "ProtocolError", "BrokenLinkError", "CommunicationError",
          "empty", "short", "IOError"]


@contextlib.contextmanager
def installed(nfc, world, state):
    """state: dict(tag=TagSim, plan={command index: fault}, gone_after=command index or None)"""
    import errno
    import nfc.clf
    import nfc.clf.device
    import nfc.tag

    def W():
        return world[0]

    class Dev(nfc.clf.device.Device):
        def __init__(self):
            self._path, self._vendor_name, self._device_name, self._chipset_name = "fake:1", "Verif", "RealTags", "None"

        def close(self):
            W().log.append("close")

        def mute(self):
            W().log.append("mute")

        def turn_on_led_and_buzzer(self):
            W().log.append("on")

        def turn_off_led_and_buzzer(self):
            W().log.append("off")

        def _sense(self, tok, tech, target):
            if len(W().log) > cw.LIMIT:
                raise cw.Runaway("more than %d events" % cw.LIMIT)
            W().log.append(tok)
            tag = state["tag"]
            gone = state.get("gone_after")
            if tag.tech != tech or (gone is not None and state["n"] >= gone):
                return None
            t = tag.target(nfc, target.brty)
            t._id = len(W().log)
            return t

        def sense_tta(self, target):
            return self._sense("sA", "A", target)

        def sense_ttb(self, target):
            return self._sense("sB", "B", target)

        def sense_ttf(self, target):
            return self._sense("sF", "F", target)

        def send_cmd_recv_rsp(self, target, data, timeout):
            w = W()
            if len(w.log) > cw.LIMIT:
                raise cw.Runaway("more than %d events" % cw.LIMIT)
            n = state["n"]
            state["n"] = n + 1
            tok = "xr:%s" % getattr(target, "_id", "?")
            w.log.append(tok)
            w.commands.append(bytes(data))
            fault = state["plan"].get(n)
            gone = state.get("gone_after")
            if fault == "IOError":
                w.injected.append((len(w.log), tok, "IOError"))
                raise IOError(errno.EIO, "scripted I/O error")
            if fault in ("TimeoutError", "TransmissionError", "ProtocolError", "BrokenLinkError", "CommunicationError"):
                w.injected.append((len(w.log), tok, fault))
                raise getattr(nfc.clf, fault)("scripted")
            rsp = None if (gone is not None and n >= gone) else state["tag"].respond(bytes(data))
            if rsp is None:
                raise nfc.clf.TimeoutError("no answer")
            if fault == "empty":
                w.injected.append((len(w.log), tok, "empty-frame"))
                return bytearray()
            if fault == "short":
                w.injected.append((len(w.log), tok, "short-frame"))
                return bytearray(rsp[:1])
            return bytearray(rsp)

        def get_max_send_data_size(self, target):
            return 290

        def get_max_recv_data_size(self, target):
            return 290

    real_activate = nfc.tag.activate

    def activate(clf, target):
        W().log.append("act")
        W().act_targets.append(target)
        tag = real_activate(clf, target)
        if tag is not None:
            W().tags.append(tag)
        return tag

    saved = (nfc.clf.device.connect, nfc.clf.time, nfc.tag.activate)
    nfc.clf.device.connect = lambda path: Dev()
    nfc.clf.time = cw.FakeTime(world)
    nfc.tag.activate = activate
    try:
        def new_clf():
            clf = nfc.clf.ContactlessFrontend()
            if not clf.open("fake"):
                raise RuntimeError("scripted device did not open")
            return clf
        yield new_clf
    finally:
        (nfc.clf.device.connect, nfc.clf.time, nfc.tag.activate) = saved
