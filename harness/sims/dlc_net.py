"""Two REAL nfc.llcp LogicalLinkController objects with SEVERAL data link connection sockets.

Generalises dlc_pair.Pair: any number of sockets per side, listening sockets, connects by
address or by service name, accepted connections that share the service access point of the
listening socket, re-connects from the same source address while the socket of an earlier
connection is still in the sock_list.  Sockets are named by their creation index per side.

The link side is driven single-threaded by direct calls of collect() and dispatch(); every
frame is really encoded to octets and decoded again.  The blocking calls connect() and
close() run in application threads under the strict baton of `dlc_sched.Sched` (all condition
variables of the sockets are scheduler doubles): such a thread runs only while the main thread
waits for it, it parks in Condition.wait(), and continues only when the step `connfin` /
`closefin` is executed after the condition was notified.  No wall-clock dependence.

Step alphabet (identical to the `N...` lines of lean/Drv/C05.lean without the `N`):
  sock X rw miu a<addr>|n<name>   listen X i backlog   connect X i a<addr>|n<name>
  connfin X i   accept X i   send X i <hex>   recv X i   busy X i 0|1   poll X i recv|send|acks
  close X i   closefin X i   sdeq X addr budget   sack X addr   collect X   deliver X

Observation hooks (class level on DataLinkConnection, active only while a Net is current):
every enqueue() is logged with the socket that SENT the PDU (found through the identity of
the PDU objects returned by dequeue()/sendack() and kept through encode/decode by position),
which gives the routing oracle of harness/props/c05.py its facts without using the model.
"""
import logging

import nfc
import nfc.llcp
import nfc.llcp.llc as llc
import nfc.llcp.pdu as pdu
import nfc.llcp.tco as tco

from common import hx, exc_name, Infra
from sims.dlc_pair import show_pdu
from sims.dlc_sched import Sched

logging.disable(logging.CRITICAL)

OTHER = {"A": "B", "B": "A"}
CURRENT = [None]      # the Net whose hooks are active


def sname(n):
    return b"urn:nfc:sn:s%d" % n


def _install_hooks():
    if getattr(tco.DataLinkConnection, "_c05_hooked", False):
        return
    cls = tco.DataLinkConnection
    o_enq, o_deq, o_ack = cls.enqueue, cls.dequeue, cls.sendack

    def enqueue(self, rcvd_pdu):
        net = CURRENT[0]
        if net is not None:
            net.on_enqueue(self, rcvd_pdu)
        return o_enq(self, rcvd_pdu)

    def dequeue(self, miu_size, icv_size):
        p = o_deq(self, miu_size, icv_size)
        net = CURRENT[0]
        if net is not None and p is not None:
            net.sender[id(p)] = self
            net.keep.append(p)
        return p

    def sendack(self):
        p = o_ack(self)
        net = CURRENT[0]
        if net is not None and p is not None:
            net.sender[id(p)] = self
            net.keep.append(p)
        return p
    cls.enqueue, cls.dequeue, cls.sendack = enqueue, dequeue, sendack
    cls._c05_hooked = True


def show_w(p):
    head = "%s>%s:" % (p.ssap, p.dsap)
    if p.name == "CONNECT":
        sn = "-"
        if p.sn is not None:
            sn = "n" + bytes(p.sn).decode("latin")[len("urn:nfc:sn:s"):]
        return head + "CONN:%s:%s:%s" % (p.miu, p.rw, sn)
    if p.name == "CC":
        return head + "CC:%s:%s" % (p.miu, p.rw)
    return head + show_pdu(p)


def qname(p):
    n = p.name
    if n == "I":
        return "I%d" % p.ns
    if n == "DM":
        return "DM%d" % p.reason
    return n


class Net:
    def __init__(self, link, agf):
        _install_hooks()
        self.link, self.agf = link, agf
        self.L = {}
        for x in "AB":
            c = llc.LogicalLinkController(miu=link, agf=agf, sec=False)
            c.cfg["send-miu"] = link
            self.L[x] = c
        self.socks = {"A": [], "B": []}
        self.side = {}                       # id(socket) -> (x, i)
        self.wire = {"A": [], "B": []}       # frames sent by X: (octets, [sender socket or None per PDU])
        self.wirelog = {"A": [], "B": []}    # decoded PDUs put on the wire by X
        self.sched = Sched()
        self.waiter = {}                     # (x, i) -> (kind, AppThread)
        self.closed = set()                  # (x, i): the application called close()
        self.sender = {}                     # id(pdu object returned by dequeue/sendack) -> socket
        self.keep = []                       # keeps those objects alive (ids stay unique)
        self.cur_sender = None
        self.from_sock = {}                  # id(decoded pdu about to be dispatched) -> sending socket
        self.events = []                     # (sender socket | None, target socket, pdu, target state before)
        self.conn_from = {}                  # id(CONNECT pdu in a backlog) -> client socket
        self.partner = {}                    # id(socket) -> socket
        self.link_down = None
        for x in "AB":
            self._wrap_dispatch(x)

    def init_line(self):
        return "init %d %d" % (self.link, 1 if self.agf else 0)

    # ------------------------------------------------------------------ hooks
    def _wrap_dispatch(self, x):
        L = self.L[x]
        orig = L.dispatch

        def dispatch(rcvd_pdu):
            if rcvd_pdu is not None and rcvd_pdu.name != "AGF":
                self.cur_sender = self.from_sock.get(id(rcvd_pdu))
                self.cur_pdu = rcvd_pdu
            return orig(rcvd_pdu)
        L.dispatch = dispatch

    def on_enqueue(self, target, rcvd_pdu):
        if id(target) not in self.side:
            return
        self.events.append((self.cur_sender, target, rcvd_pdu, str(target.state)))
        if rcvd_pdu.name == "CONNECT":
            self.conn_from[id(rcvd_pdu)] = self.cur_sender
            self.keep.append(rcvd_pdu)

    # ------------------------------------------------------------------ views
    def sock(self, x, i):
        try:
            return self.socks[x][int(i)]
        except (IndexError, ValueError):
            raise Infra("dlc_net: no socket %s %s" % (x, i))

    def name_of(self, s):
        x, i = self.side[id(s)]
        return "%s%d" % (x, i)

    def listed(self, x, s):
        sap = self.L[x].sap[s.addr] if s.addr is not None else None
        return sap is not None and not isinstance(sap, llc.ServiceDiscovery) and s in sap.sock_list

    def show_sock(self, x, i):
        s = self.socks[x][i]
        st = str(s.state)
        run = st in ("ESTABLISHED", "DISCONNECT", "CLOSE_WAIT", "SHUTDOWN") and s.send_win is not None
        if st == "SHUTDOWN" and s.send_win is None:
            run = False
        if run:
            m = "%s/%s/%s/%s" % (s.send_miu, s.recv_miu, s.send_win, s.recv_win)
        elif st == "SHUTDOWN":
            m = "%s/%s/%s/%s" % (128, 128, 0, 1)      # the blank endpoint of the model
        else:
            m = "-/%s/-/%s/b%s" % (s.recv_miu, s.recv_win, s.recv_buf)
        md = s.mode
        sq = ";".join(qname(p) for p in s.send_queue)
        rq = ";".join("M%d" % len(p.data) if p.name == "I" else ("DM%d" % p.reason if st == "CONNECT" else "DM")
                      if p.name == "DM" else p.name for p in s.recv_queue)
        return "%d:%s:%s:%s:%d:m=%s:%d,%d,%d,%d,%d,%d,%d%d%d,sq=%s,rq=%s" % (
            i, "-" if s.addr is None else s.addr, "-" if s.peer is None else s.peer, st, 1 if self.listed(x, s) else 0, m,
            s.send_cnt, s.send_ack, s.recv_cnt, s.recv_ack, s.recv_confs, s.acks_recvd,
            1 if md.RECV_BUSY else 0, 1 if md.RECV_BUSY_SENT else 0, 1 if md.SEND_BUSY else 0, sq, rq)

    def show_ctl(self, x):
        L = self.L[x]
        socks = " ".join(self.show_sock(x, i) for i in range(len(self.socks[x])))
        saps = []
        for a in range(2, 64):
            sap = L.sap[a]
            if sap is not None:
                saps.append("%d=[%s]/%d" % (a, ",".join(str(self.side[id(s)][1]) if id(s) in self.side else "?"
                                                       for s in sap.sock_list), len(sap.send_list)))
        names = ["n%s@%d" % (bytes(k).decode("latin")[len("urn:nfc:sn:s"):], v)
                 for k, v in L.snl.items() if k != b"urn:nfc:sn:sdp"]
        dm = len(L.sap[1].dmpdu) if L.sap[1] is not None else 0
        return "{%s}{%s}{%s}dm%d" % (socks, " ".join(saps), ",".join(names), dm)

    def digest(self):
        return "A%s B%s w=%d/%d" % (self.show_ctl("A"), self.show_ctl("B"),
                                    sum(len(f[1]) for f in self.wire["A"]), sum(len(f[1]) for f in self.wire["B"]))

    # ------------------------------------------------------------------ steps
    def _call(self, fn):
        try:
            return fn(), None
        except Exception as e:  # noqa
            return None, "exc " + exc_name(e)

    def _adopt(self, x, s):
        i = len(self.socks[x])
        self.socks[x].append(s)
        self.side[id(s)] = (x, i)
        self.sched.instrument(s, "%s%d" % (x, i))
        return i

    def _put(self, x, p):
        frame = list(p) if p.name == "AGF" else [p]
        descr = [show_w(q) for q in frame]
        senders = [self.sender.get(id(q)) for q in frame]
        try:
            data = pdu.encode(p)
        except pdu.Error as e:
            self.link_down = "%s could not encode %s: %s" % (x, " ".join(descr), exc_name(e))
            return descr, "exc " + exc_name(e)
        q = pdu.decode(data)
        back = [show_w(r) for r in (list(q) if q.name == "AGF" else [q])]
        if back != descr:
            self.link_down = "%s frame %s decodes as %s" % (x, descr, back)
            return descr, "exc codec"
        self.wire[x].append((data, senders))
        self.wirelog[x].extend((s, r) for s, r in zip(senders, list(q) if q.name == "AGF" else [q]))
        return descr, None

    def _dest(self, tok):
        return int(tok[1:]) if tok[0] == "a" else sname(int(tok[1:]))

    def _block(self, key, kind, fn):
        """run a call that may wait on a condition variable: until it returns or parks"""
        t = self.sched.spawn("%s%d.%s" % (key[0], key[1], kind), fn)
        self.sched.run(t)
        if t.state == "done":
            return t
        self.waiter[key] = (kind, t)
        return None

    @staticmethod
    def _thread_result(t, ok):
        if t.result[0] == "exc":
            e = t.result[1]
            if isinstance(e, nfc.llcp.ConnectRefused):
                return "refused %s" % e.reason
            return "exc " + exc_name(e)
        return ok

    def op(self, line):
        CURRENT[0] = self
        try:
            return self._op(line)
        finally:
            CURRENT[0] = None

    def _op(self, line):
        f = line.split(" ")
        kind, x = f[0], f[1]
        L = self.L[x]
        if kind == "sock":
            s = L.socket(llc.DATA_LINK_CONNECTION)
            i = self._adopt(x, s)
            r, e = self._call(lambda: (L.setsockopt(s, nfc.llcp.SO_RCVBUF, int(f[2])),
                                       L.setsockopt(s, nfc.llcp.SO_RCVMIU, int(f[3])),
                                       L.bind(s, self._dest(f[4]))))
            return e or "ok %d" % i
        if kind == "collect":
            p, e = self._call(lambda: L.collect())
            if e:
                return e
            if p is None:
                return "none"
            descr, e = self._put(x, p)
            return e or "frame " + " ".join(descr)
        if kind in ("sdeq", "sack"):
            sap = L.sap[int(f[2])]
            if sap is None:
                return "none"
            if kind == "sdeq":
                p, e = self._call(lambda: sap.dequeue(int(f[3]), 0))
            else:
                p, e = self._call(lambda: sap.sendack() if hasattr(sap, "sendack") else None)
            if e:
                return e
            if p is None:
                return "none"
            descr, e = self._put(x, p)
            return e or "frame " + " ".join(descr)
        if kind == "deliver":
            self.last_delivery = []
            w = self.wire[OTHER[x]]
            if not w:
                return "empty"
            data, senders = w.pop(0)
            q = pdu.decode(data)
            parts = list(q) if q.name == "AGF" else [q]
            for s, r in zip(senders, parts):
                self.from_sock[id(r)] = s
                self.keep.append(r)
            self.last_delivery = list(zip(senders, parts))
            r, e = self._call(lambda: L.dispatch(q))
            return e or "ok %d" % len(parts)
        i = int(f[2])
        if not 0 <= i < len(self.socks[x]):
            return "n/a"                             # no such socket (the model answers the same)
        s = self.sock(x, i)
        if kind == "listen":
            if s.addr is None and str(s.state) == "CLOSED":     # would be bound to a free address first: not modelled
                return "n/a"
            r, e = self._call(lambda: L.listen(s, int(f[3])))
            return e or "ok"
        if kind == "connect":
            if s.addr is None:                     # would be bound to a free address first: not modelled
                return "n/a"
            if str(s.state) != "CLOSED":           # cannot block: call directly
                r, e = self._call(lambda: L.connect(s, self._dest(f[3])))
                return e or "ret %r" % (r,)
            dest = self._dest(f[3])
            t = self._block((x, i), "connect", lambda: L.connect(s, dest))
            if t is not None:
                return self._thread_result(t, "ok")
            return "pending"
        if kind == "connfin":
            w = self.waiter.get((x, i))
            if w is None or w[0] != "connect":
                return "skip"
            if not w[1].notified:
                return "n/a"
            self.sched.run(w[1])
            if w[1].state != "done":
                return "n/a"                         # waits again: not what connect() does (the model says ok / refused)
            del self.waiter[(x, i)]
            return self._thread_result(w[1], "ok")
        if kind == "accept":
            if str(s.state) == "LISTEN" and len(s.recv_queue) == 0:
                return "blocked"
            head = s.recv_queue[0] if len(s.recv_queue) else None
            d, e = self._call(lambda: L.accept(s))
            if e:
                return e
            j = self._adopt(x, d)
            client = self.conn_from.get(id(head))
            if client is not None:
                self.partner[id(d)] = client
                self.partner[id(client)] = d
            return "ok %d" % j
        if kind == "send":
            m = bytes.fromhex(f[3]) if f[3] != "-" else b""
            r, e = self._call(lambda: L.send(s, m, nfc.llcp.MSG_DONTWAIT))
            return e or ("ok" if r is True else "ret %r" % (r,))
        if kind == "recv":
            st = str(s.state)
            if self.listed_sap(x, s) and st in ("ESTABLISHED", "CLOSE_WAIT") and len(s.recv_queue) == 0:
                return "blocked"
            r, e = self._call(lambda: L.recv(s))
            return e or ("none" if r is None else "ok " + hx(r))
        if kind == "busy":
            r, e = self._call(lambda: L.setsockopt(s, nfc.llcp.SO_RCVBSY, f[3] == "1"))
            return e or "ok"
        if kind == "poll":
            r, e = self._call(lambda: L.poll(s, f[3], 0))
            return e or ("none" if r is None else "true" if r is True else "false" if r is False else "ret %r" % (r,))
        if kind == "close":
            if (x, i) in self.closed or not self.listed(x, s) or str(s.state) == "CONNECT":
                return "skip"
            self.closed.add((x, i))
            t = self._block((x, i), "close", lambda: L.close(s))
            if t is not None:
                return self._thread_result(t, "done")
            return "pending"
        if kind == "closefin":
            w = self.waiter.get((x, i))
            if w is None or w[0] != "close":
                return "skip"
            if not w[1].notified:
                return "n/a"
            self.sched.run(w[1])
            if w[1].state != "done":
                return "n/a"
            del self.waiter[(x, i)]
            return self._thread_result(w[1], "done")
        raise Infra("dlc_net: unknown op " + line)

    def listed_sap(self, x, s):
        """the EBADF test of llc.recvfrom / llc.poll passes"""
        return bool(s.addr and self.L[x].sap[s.addr])

    def runnable(self):
        """blocked calls whose condition was notified: they finish with the next connfin / closefin"""
        return [(k[0], k[1], w[0]) for k, w in sorted(self.waiter.items()) if w[1].notified]

    def cleanup(self):
        CURRENT[0] = None
        self.waiter.clear()
        self.sched.teardown()
