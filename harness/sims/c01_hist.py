"""C01: histories of NDEF assignments on ONE tag object with communication faults in between.

A history is a list of attempts `(data, fault)` made through the SAME `tag.ndef` object; `fault` is
None (the assignment runs undisturbed) or `(k, mode)`: the state-changing command number k (0-based,
counted from the start of this attempt, retransmissions not counted) fails

  "lost"    the command does not reach the tag: not executed, no answer to it nor to its retransmissions
  "late"    the tag executes the command but its answers (also to the retransmissions) are lost
  "status"  the tag refuses the command with an error status / NAK (not executed, one exchange)

and the tag stays in the field: the next command is answered normally again.  After the history a FRESH
activation on the same simulated memory reads the tag.

Everything runs the real nfcpy code; the simulators are those of t12_tags / t34_sims with a fault
layer in front of `exchange` (this file does not change them).  The canonical line of a history is what
lean/Drv/C01.lean prints for the model (`NfcVerif.Hist`).
"""
import nfc
import nfc.clf
import nfc.tag

from common import hx, exc_name
from sims.t12_tags import T2Sim, T1Sim, activate as t12_activate
from sims.t12_run import read_line, show_cmds
from sims.t34_sims import T3Sim, T4Sim, EmuLink, CommandBudgetExceeded
from sims import t34_lib as T

MODES = {"t2": ("lost", "late", "status"), "t1s": ("lost", "late"), "t1d": ("lost", "late"),
         "t3": ("lost", "late", "status"), "t4": ("status",), "emu": ("lost", "late")}


class FaultLayer(object):
    """mixin in front of a simulator's exchange(): see the module text.  The simulator's `writes` log
    (one entry per executed state-changing command) is reset by begin()."""
    MAX_RETRANSMISSIONS = 12

    def begin(self, fault):
        self._fault = fault
        self._fcmd = None
        self._frep = 0
        self._nw = 0
        self.triggered = False
        self._log_reset()

    def _log_reset(self):
        self.writes = []

    def _refuse(self, data):
        raise NotImplementedError

    def exchange(self, data, timeout):
        data = bytes(data)
        base = super(FaultLayer, self)
        if getattr(self, "_fcmd", None) is not None:
            if data == self._fcmd and self._frep < self.MAX_RETRANSMISSIONS:
                self._frep += 1
                raise nfc.clf.TimeoutError("retransmission not answered")
            self._fcmd = None
            self._fault = None
        if getattr(self, "_fault", None) is not None and self._state_changing(data):
            k, mode = self._fault
            if self._nw == k:
                self.triggered = True
                if mode == "status":
                    self._fault = None
                    return self._refuse(data)
                self._fcmd = data
                if mode == "late":
                    base.exchange(data, timeout)
                raise nfc.clf.TimeoutError("command lost" if mode == "lost" else "answer lost")
            self._nw += 1
        return base.exchange(data, timeout)


class FT2(FaultLayer, T2Sim):
    def _state_changing(self, d):
        return (not self.pending_sector and len(d) == 6 and d[0] == 0xA2
                and self.sector * 1024 + d[1] * 4 < len(self.mem))

    def _refuse(self, d):
        return bytearray([0x00])      # NAK


class FT1(FaultLayer, T1Sim):
    def _state_changing(self, d):
        return (d[0] in (0x53, 0x1A) and len(d) == 7) or (d[0] in (0x54, 0x1B) and len(d) == 14)


class FT3(FaultLayer, T3Sim):
    def _state_changing(self, d):
        return len(d) > 10 and d[0] == len(d) and d[1] == 8

    def _refuse(self, d):
        return bytearray([12, 9]) + bytes(d[2:10]) + b"\xFF\x70"


class FEmu(FaultLayer, EmuLink):
    def _state_changing(self, d):
        return len(d) > 10 and d[1] == 8

    def _log_reset(self):
        self.writes = []
        self.block_writes = []


class FT4(T4Sim):
    """fault at APDU level: UPDATE BINARY number k is answered 6581h (memory failure) and not executed"""

    def begin(self, fault):
        self._fault = fault
        self._nw = 0
        self.triggered = False
        self.writes = []

    def apdu(self, a):
        if getattr(self, "_fault", None) is not None and len(a) >= 5 and a[1] == 0xD6 and self.sel == self.fid:
            k, mode = self._fault
            if self._nw == k:
                self._fault = None
                self.triggered = True
                self.ncmd += 1
                return b"\x65\x81"
            self._nw += 1
        return T4Sim.apdu(self, a)


# ------------------------------------------------------------------ one object per tag kind
class Obj(object):
    """a simulated tag and ONE activated tag object with its NDEF object"""

    def __init__(self, kind, lay):
        self.kind, self.lay = kind, lay
        if kind == "t2":
            self.sim = FT2(lay["mem"], lay.get("sdd", b"\x01\x02\x03\x04\x05\x06\x07"))
        elif kind in ("t1s", "t1d"):
            self.sim = FT1(lay["hr"], lay["mem"])
        elif kind == "t3":
            self.sim = FT3(lay.mem, lay.nbr, lay.nbw)
        elif kind == "t4":
            self.sim = FT4(lay.cc, lay.file, lay.mle, lay.mlc, lay.fid)
        elif kind == "emu":
            self.sim = FEmu(lay.mem)
        else:
            raise ValueError(kind)
        self.sim.begin(None)
        self.nd = None
        self.start = None
        try:
            self.tag = t12_activate(self.sim) if kind in ("t2", "t1s", "t1d") else self.sim.activate()
            self.nd = self.tag.ndef
        except CommandBudgetExceeded:
            self.start = "exc OutOfFuel"
        except Exception as e:  # noqa
            self.start = "exc " + exc_name(e)
        if self.nd is None and self.start is None:
            self.start = "none"
        if self.nd is not None:
            self.cap = self.nd.capacity
            self.old = bytes(self.nd.octets)

    def memory(self):
        s = self.sim
        return bytes(s.mem if hasattr(s, "mem") else s.file if hasattr(s, "file") else s.store)

    def cmds(self):
        s = self.sim
        if self.kind in ("t2", "t1s", "t1d"):
            return show_cmds(s.writes)
        if self.kind == "t3":
            return T.t3_cmds(s)
        if self.kind == "t4":
            return T.t4_cmds(s)
        out = []
        for w in s.writes:
            svcs, bl, rest = T3Sim.parse(w)
            out.append("%d+%d:%s" % (bl[0], len(bl), hx(rest)) if bl == list(range(bl[0], bl[0] + len(bl)))
                       else "%s:%s" % (bl, hx(rest)))
        return ",".join(out) or "-"

    def assign(self, data, fault):
        """-> ('ok' | 'fail' | 'exc Name', commands executed by the tag during this attempt)"""
        self.sim.begin(fault)
        try:
            self.nd.octets = data
            res = "ok"
        except nfc.tag.TagCommandError:
            res = "fail"
        except CommandBudgetExceeded:
            res = "exc OutOfFuel"
        except Exception as e:  # noqa
            res = "exc " + exc_name(e)
        cmds = self.cmds()
        trig = self.sim.triggered
        self.sim.begin(None)
        return res, cmds, trig

    def fresh(self):
        """fresh activation on the present memory -> (canonical line, octets or None, capacity or None)"""
        mem = self.memory()
        kind, lay = self.kind, self.lay
        try:
            if kind in ("t2", "t1s", "t1d"):
                sim = FT2(mem, self.sim.sdd) if kind == "t2" else FT1(self.sim.hr, mem)
                line, _, nd = read_line(kind, sim)
                if nd is None:
                    return line, None, None
                return line, bytes(nd.octets), nd.capacity
            sim = (T3Sim(mem, lay.nbr, lay.nbw) if kind == "t3" else
                   T4Sim(lay.cc, mem, lay.mle, lay.mlc, lay.fid) if kind == "t4" else EmuLink(mem))
            line, nd = T.see(sim)
            if nd is None:
                return line, None, None
            return line, bytes(nd.octets), nd.capacity
        except Exception as e:  # noqa
            return "exc " + T.xname(e), None, None


class History(object):
    """run `attempts` = [(data, fault | None), ...] through one object; `line` is the canonical outcome"""

    def __init__(self, kind, lay, attempts):
        self.kind, self.lay, self.attempts = kind, lay, [(bytes(d), f) for d, f in attempts]
        o = self.obj = Obj(kind, lay)
        self.base = o.memory()
        self.results = []
        self.triggered = []
        self.ncmds = []
        self.final = self.seen = self.seen_cap = None
        if o.nd is None:
            self.line = o.start
            return
        parts = []
        for data, fault in self.attempts:
            res, cmds, trig = o.assign(data, fault)
            self.results.append(res)
            self.triggered.append(trig)
            self.ncmds.append(0 if cmds == "-" else cmds.count(",") + 1)
            parts.append("%s %s" % (res, cmds))
        self.final, self.seen, self.seen_cap = o.fresh()
        self.line = " | ".join(parts + [self.final])

    def request(self, var="111", unconfirmed_repair=False):
        """request line for drv_c01"""
        lay = self.lay
        att = ",".join("%s:%s" % (hx(d), "n" if f is None else "%s%d" % ({"lost": "l", "late": "e", "status": "l"}[f[1]], f[0]))
                       for d, f in self.attempts)
        if self.kind in ("t2", "t1s", "t1d"):
            return "%s %s %s %s" % ("h12r" if unconfirmed_repair else "h12", self.kind, hx(self.base), att)
        if self.kind in ("t3", "emu"):
            return "h3 %s %s" % (hx(self.base), att)
        return "h4 %s %s %s %s %d %d %s" % (var, hx(lay.cc), hx(self.base), hx(lay.fid), lay.mle, lay.mlc, att)

    def replay(self):
        lay = self.lay
        d = {"kind": self.kind, "memory_before": self.base.hex() if len(self.base) <= 4096 else self.base[:4096].hex() + "...",
             "attempts": [{"octets": x.hex(), "fault": None if f is None else
                           {"state_changing_command": f[0], "mode": f[1]}, "result": r}
                          for (x, f), r in zip(self.attempts, self.results + [None] * len(self.attempts))],
             "fresh_reader_sees": self.final}
        if self.kind in ("t1s", "t1d"):
            d["header_rom"] = lay["hr"].hex()
        elif self.kind in ("t3", "t4", "emu"):
            d["layout"] = {k: v for k, v in lay.descr().items() if k not in ("mem",)}
        return d


def probe_unconfirmed_repair():
    """does the tree under test resend the unit of an unacknowledged write (repair of finding
    t12-empty-after-unacknowledged-length-write)?  Witness of the finding: NDEF TLV at 18 of a 64 byte Type 2 Tag,
    `01 02 03` written with the last WRITE executed but unacknowledged, then the empty message."""
    mem = bytearray(64)
    mem[12:23] = bytes([0xE1, 0x10, 6, 0, 0, 0, 3, 2, 0xAA, 0xBB, 0xFE])
    h = History("t2", {"kind": "t2", "mem": mem}, [(b"\x01\x02\x03", (2, "late")), (b"", None)])
    return h.results == ["fail", "ok"] and h.seen == b""
