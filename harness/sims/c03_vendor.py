"""Plain-memory simulators of the NXP Type 2 Tag products that nfc/tag/tt2_nxp.py distinguishes
(C03: which bytes may format()/protect() of the vendor classes touch).

Memory maps follow the NXP data sheets (MF0ICU1, MF0ICU2, NTAG203, NTAG210/212, NTAG213/215/216,
MF0ULx1, NT3H1101): number of pages, dynamic lock page, configuration pages, key pages.  The tag
stores what is written (no access conditions, no one-way bits) with one exception that every
product of the family has in hardware: the first two bytes of page 2 (BCC1, INTERNAL) are read-only,
a WRITE to page 2 only reaches the static lock bytes.

Product selection as in tt2_nxp.activate(): answer to AUTHENTICATE 1A 00 (Ultralight C), to
GET_VERSION 60 (NTAG21x, Ultralight EV1, NTAG I2C) or the NAK to it (NTAG203); silence
(Ultralight).
"""
import nfc.clf

from sims.t12_tags import T2Sim

NXP_SDD = b"\x04\x51\x7C\xA1\xE1\xED\x25"

# name -> nfcpy class, GET_VERSION answer, pages, CC size byte of the factory NDEF mapping,
# dynamic lock bytes (address, count) or None, configuration/secret bytes (address range),
# factory content of pages 4, 5 as written by the class's _format (None: class has no _format of its own)
PRODUCTS = {
    "UL":      dict(cls="MifareUltralight",  version=None, pages=16, cc=0x06, lock=None, cfg=None, factory=None),
    "ULC":     dict(cls="MifareUltralightC", version=None, pages=48, cc=0x12, lock=(160, 4), cfg=(164, 192), factory=None),
    "NTAG203": dict(cls="NTAG203", version=b"\x00", pages=42, cc=0x12, lock=(160, 4), cfg=(164, 168),
                    factory=bytes.fromhex("0103A010" "440300FE")),
    "NTAG210": dict(cls="NTAG210", version=bytes.fromhex("0004040101000B03"), pages=20, cc=0x06, lock=None, cfg=(64, 80),
                    factory=bytes.fromhex("0300FE00" "00000000")),
    "NTAG212": dict(cls="NTAG212", version=bytes.fromhex("0004040101000E03"), pages=41, cc=0x10, lock=(144, 4), cfg=(148, 164),
                    factory=bytes.fromhex("0103900A" "340300FE")),
    "NTAG213": dict(cls="NTAG213", version=bytes.fromhex("0004040201000F03"), pages=45, cc=0x12, lock=(160, 4), cfg=(164, 180),
                    factory=bytes.fromhex("0103A00C" "340300FE")),
    "NTAG215": dict(cls="NTAG215", version=bytes.fromhex("0004040201001103"), pages=135, cc=0x3E, lock=(520, 4), cfg=(524, 540),
                    factory=bytes.fromhex("0300FE00" "00000000")),
    "NTAG216": dict(cls="NTAG216", version=bytes.fromhex("0004040201001303"), pages=231, cc=0x6D, lock=(904, 4), cfg=(908, 924),
                    factory=bytes.fromhex("0300FE00" "00000000")),
    "MF0UL11": dict(cls="MF0UL11", version=bytes.fromhex("0004030101000B03"), pages=20, cc=0x06, lock=None, cfg=(64, 80), factory=None),
    "MF0UL21": dict(cls="MF0UL21", version=bytes.fromhex("0004030101000E03"), pages=41, cc=0x10, lock=(144, 4), cfg=(148, 164), factory=None),
    "NT3H1101": dict(cls="NT3H1101", version=bytes.fromhex("0004040502011303"), pages=234, cc=0x6D, lock=(904, 4), cfg=(928, 936), factory=None),
}


class NxpSim(T2Sim):
    def __init__(self, product, mem, sdd=NXP_SDD):
        p = PRODUCTS[product]
        assert len(mem) == 4 * p["pages"], (product, len(mem))
        T2Sim.__init__(self, mem, sdd)
        self.product = product
        self.p = p
        self.auth_rb = bytes(range(0x51, 0x59))
        self.auth_m1 = None

    # Ultralight C: 2K3DES key in pages 44..47, stored reversed in two halves
    def _key(self):
        k = bytes(self.mem[176:192])
        return k[0:8][::-1] + k[8:16][::-1]

    def exchange(self, data, timeout):
        data = bytes(data)
        if not self.pending_sector and data:
            op = data[0]
            if op == 0x1A and len(data) == 2:
                self._alive()
                self.ncmd += 1
                if self.product != "ULC":
                    raise nfc.clf.TimeoutError("no such command")
                from pyDes import triple_des, CBC
                self.auth_m1 = triple_des(self._key(), CBC, b"\0" * 8).encrypt(self.auth_rb)
                return bytearray(b"\xAF" + self.auth_m1)
            if op == 0xAF and len(data) == 17 and self.product == "ULC" and self.auth_m1 is not None:
                self._alive()
                self.ncmd += 1
                from pyDes import triple_des, CBC
                m2 = data[1:17]
                x = triple_des(self._key(), CBC, self.auth_m1).decrypt(m2)
                self.auth_m1 = None
                if x[8:16] != self.auth_rb[1:8] + self.auth_rb[0:1]:
                    raise nfc.clf.TimeoutError("authentication failed")
                ra = x[0:8]
                return bytearray(b"\x00" + triple_des(self._key(), CBC, m2[8:16]).encrypt(ra[1:8] + ra[0:1]))
            if op == 0x60 and len(data) == 1:
                self._alive()
                self.ncmd += 1
                if self.p["version"] is None:
                    raise nfc.clf.TimeoutError("no such command")
                return bytearray(self.p["version"])
            if op == 0x3C and len(data) == 2:
                self._alive()
                self.ncmd += 1
                if self.p["version"] is None or len(self.p["version"]) == 1:
                    raise nfc.clf.TimeoutError("no such command")
                return bytearray(range(32))
            if op == 0x1B and len(data) == 5:
                self._alive()
                self.ncmd += 1
                c = self.p["cfg"]
                if self.p["version"] is None or len(self.p["version"]) == 1 or c is None or c[1] - c[0] < 16:
                    raise nfc.clf.TimeoutError("no such command")
                if data[1:5] == bytes(self.mem[c[0] + 8:c[0] + 12]):
                    return bytearray(self.mem[c[0] + 12:c[0] + 14])
                return bytearray(b"\x00")
            if op == 0xA2 and len(data) == 6 and data[1] == 2 and self.sector == 0:
                # page 2: BCC1 and INTERNAL are read-only (the command is recorded as sent)
                keep = bytes(self.mem[8:10])
                try:
                    return T2Sim.exchange(self, data, timeout)
                finally:
                    self.mem[8:10] = keep
        return T2Sim.exchange(self, data, timeout)


def nxp_image(rng, product, ndef=True):
    """factory-like image of `product`: identifier, capability container, the product's factory TLVs
    (its _format defaults, or an empty NDEF TLV), random user data, random lock/config bytes"""
    p = PRODUCTS[product]
    mem = bytearray(rng.randrange(256) for _ in range(4 * p["pages"]))
    mem[0:7] = b"\x04\x51\x7C" + b"\xA1\xE1\xED\x25"[0:4]
    mem[0:10] = bytes([0x04, 0x51, 0x7C, 0xA1, 0xE1, 0xED, 0x25, 0x80, 0xA9, 0x48])
    mem[10:12] = b"\x00\x00"
    mem[12:16] = bytes([0xE1, 0x10, p["cc"], 0x00])
    if ndef:
        f = p["factory"] if p["factory"] is not None else bytes.fromhex("0300FE0000000000")
        mem[16:24] = f
    return mem


def make_nxp(product, mem):
    return NxpSim(product, mem)
