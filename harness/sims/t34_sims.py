"""Simulated Type 3 / Type 4 tags and an in-memory emulated Type 3 Tag for the
t34 parts of C01/C02/C03.

Every simulator is a fake ``clf`` (``exchange(data, timeout)``) in front of a
plain memory.  State-changing commands (Type 3 Write Without Encryption,
Type 4 UPDATE BINARY) are recorded in ``writes`` in the order received;
``cut=k`` makes the tag lose power when the (k+1)-th state-changing command
arrives (that command is NOT executed and every later exchange times out).
"""
import struct

import nfc
import nfc.clf
import nfc.tag
import nfc.tag.tt3
import nfc.tag.tt4

class CommandBudgetExceeded(Exception):
    """the code under test sent far more commands than any NDEF operation on this memory needs
    (an endless loop); raised out of exchange() so that a check can never hang"""


IDM = bytes(range(1, 9))
PMM = bytes([0, 0xF0] + [0xFF] * 6)


# ------------------------------------------------------------------ Type 3
def t3_attr(ver, nbr, nbw, nmaxb, writef, rwflag, ln, rfu=b"\0\0\0\0"):
    a = bytearray(16)
    a[0], a[1], a[2] = ver, nbr, nbw
    a[3:5] = struct.pack(">H", nmaxb)
    a[5:9] = rfu
    a[9], a[10] = writef, rwflag
    a[11:14] = struct.pack(">I", ln)[1:]
    a[14:16] = struct.pack(">H", sum(a[:14]))
    return bytes(a)


class T3Sim:
    """NFC Forum Type 3 Tag: blocks of 16 octets, block 0 = attribute block.
    ``lim_r``/``lim_w`` are the numbers of blocks the tag accepts in one
    read/write command (a real tag's Nbr/Nbw)."""

    def __init__(self, mem, lim_r, lim_w, cut=None):
        assert len(mem) % 16 == 0
        self.mem = bytearray(mem)
        self.lim_r, self.lim_w = lim_r, lim_w
        self.cut = cut
        self.dead = False
        self.writes = []      # (block list, data)
        self.raw_writes = []  # full command frames
        self.reads = []       # block lists
        self.ncmd = 0         # commands after activation (everything but polling)
        self.limit_violation = None
        # transient failure: the state-changing command with index `fail_at` is not executed; the tag answers
        # with an error status ("status", once) or stays silent ("lost", as often as the reader retries)
        self.fail_at = None
        self.fail_mode = "status"
        self.fail_left = 0
        self.failed = 0

    def inject_failure(self, k, mode):
        self.fail_at, self.fail_mode = k, mode
        self.fail_left = 1 if mode == "status" else 3

    @property
    def nblocks(self):
        return len(self.mem) // 16

    def target(self):
        return nfc.clf.RemoteTarget("212F", sensf_res=bytearray(b"\x01" + IDM + PMM + b"\x12\xFC"))

    @staticmethod
    def parse(cmd):
        """-> (service codes, block numbers, rest)"""
        pos = 10
        nsvc = cmd[pos]
        pos += 1
        svcs = [cmd[pos + 2 * i] | cmd[pos + 2 * i + 1] << 8 for i in range(nsvc)]
        pos += 2 * nsvc
        n = cmd[pos]
        pos += 1
        bl = []
        for _ in range(n):
            if cmd[pos] & 0x80:
                bl.append(cmd[pos + 1])
                pos += 2
            else:
                bl.append(cmd[pos + 1] | cmd[pos + 2] << 8)
                pos += 3
        return svcs, bl, cmd[pos:]

    def exchange(self, cmd, timeout):
        if self.dead:
            raise nfc.clf.TimeoutError
        cmd = bytes(cmd)
        if len(cmd) != cmd[0]:
            raise nfc.clf.TimeoutError
        code = cmd[1]
        if code == 0:
            rsp = IDM + PMM + (b"\x12\xFC" if cmd[4] == 1 else b"")
            return bytearray([2 + len(rsp), 1]) + rsp
        if cmd[2:10] != IDM:
            raise nfc.clf.TimeoutError
        self.ncmd += 1
        if self.ncmd > 8 * self.nblocks + 2000:
            raise CommandBudgetExceeded("type 3 simulator: %d commands" % self.ncmd)
        svcs, bl, rest = self.parse(cmd)
        err = bytearray([12, code + 1]) + IDM + b"\x01\xA2"
        if code == 6:
            self.reads.append(bl)
            if svcs != [0x000B] or rest:
                return err
            if len(bl) > self.lim_r:
                self.limit_violation = ("read", len(bl))
                return err
            if not bl or any(b >= self.nblocks for b in bl):
                return err
            d = b"".join(self.mem[16 * b:16 * b + 16] for b in bl)
            return bytearray([13 + len(d), 7]) + IDM + b"\0\0" + bytes([len(bl)]) + d
        if code == 8:
            if svcs != [0x0009] or len(rest) != 16 * len(bl):
                return err
            if len(bl) > self.lim_w:
                self.limit_violation = ("write", len(bl))
                return err
            if not bl or any(b >= self.nblocks for b in bl):
                return err
            if self.cut is not None and len(self.writes) >= self.cut:
                self.dead = True
                raise nfc.clf.TimeoutError
            if self.fail_at is not None and len(self.writes) == self.fail_at and self.fail_left > 0:
                self.fail_left -= 1
                self.failed += 1
                if self.fail_mode == "status":
                    return bytearray([12, 9]) + IDM + b"\xFF\x70"
                raise nfc.clf.TimeoutError
            for i, b in enumerate(bl):
                self.mem[16 * b:16 * b + 16] = rest[16 * i:16 * i + 16]
            self.writes.append((list(bl), bytes(rest)))
            self.raw_writes.append(cmd)
            return bytearray([12, 9]) + IDM + b"\0\0"
        raise nfc.clf.TimeoutError

    def activate(self):
        return nfc.tag.tt3.Type3Tag(self, self.target())


# ------------------------------------------------------------------ Type 4
def t4_cc(ver, mle, mlc, tag, mfs, rf=0, wf=0, fid=b"\xE1\x04"):
    if tag == 4:
        return struct.pack(">HBHHBB2sHBB", 15, ver, mle, mlc, 4, 6, fid, mfs, rf, wf)
    return struct.pack(">HBHHBB2sIBB", 17, ver, mle, mlc, 6, 8, fid, mfs, rf, wf)


class T4Sim:
    """ISO 7816-4 card with the NDEF application (CC file E103 + one NDEF
    file) behind a trivial ISO-DEP framing (I-blocks, chaining both ways,
    R(NAK) presence check).  ``mle``/``mlc`` are the limits the card enforces
    (6700 for a longer Le/Lc)."""
    max_recv_data_size = 256
    max_send_data_size = 256

    def __init__(self, cc, file, mle, mlc, fid=b"\xE1\x04", cut=None):
        self.cc = bytes(cc)
        self.file = bytearray(file)
        self.mle, self.mlc = mle, mlc
        self.fid = bytes(fid)
        self.cut = cut
        self.dead = False
        self.sel = None
        self.writes = []     # (file id, offset, data)
        self.reads = []      # (file id, offset, le)
        self.ncmd = 0        # APDUs received
        self.bn = 1
        self.rx = bytearray()
        self.txq = []
        self.fail_at = None   # transient failure of one UPDATE BINARY: status 6581h, not executed
        self.fail_left = 0
        self.failed = 0

    def inject_failure(self, k, mode="status"):
        self.fail_at, self.fail_left = k, 1

    def target(self):
        return nfc.clf.RemoteTarget("106A", sens_res=bytearray(b"\x44\x03"), sel_res=bytearray(b"\x20"),
                                    sdd_res=bytearray(b"\x04\x01\x02\x03\x04\x05\x06"))

    def apdu(self, a):
        self.ncmd += 1
        if self.ncmd > 8 * len(self.file) + 2000:
            raise CommandBudgetExceeded("type 4 simulator: %d commands" % self.ncmd)
        if len(a) < 4:
            return b"\x67\x00"
        cla, ins, p1, p2 = a[:4]
        body = a[4:]
        if ins == 0xA4:
            if p1 == 4:   # select by name: NDEF application v2
                self.sel = None
                return b"\x90\x00" if bytes(body[1:1 + body[0]]) == bytes.fromhex("D2760000850101") else b"\x6A\x82"
            lc = body[0]
            fid = bytes(body[1:1 + lc])
            if fid in (b"\xE1\x03", self.fid):
                self.sel = fid
                return b"\x90\x00"
            return b"\x6A\x82"
        if self.sel is None:
            return b"\x69\x86"
        off = p1 << 8 | p2
        if ins == 0xB0:
            f = self.cc if self.sel == b"\xE1\x03" else self.file
            if len(body) == 0:
                self.reads.append((self.sel, off, 0))
                return b"\x90\x00"   # no Le: no data expected
            if len(body) != 1:
                return b"\x67\x00"
            le = body[0] or 256
            self.reads.append((self.sel, off, le))
            if le > self.mle:
                return b"\x67\x00"
            if off > len(f):
                return b"\x6A\x86"
            return bytes(f[off:off + le]) + b"\x90\x00"
        if ins == 0xD6:
            if len(body) < 1 or len(body) != 1 + body[0] or body[0] == 0:
                return b"\x67\x00"
            lc = body[0]
            d = body[1:]
            if lc > self.mlc:
                return b"\x67\x00"
            if self.sel == b"\xE1\x03":
                return b"\x69\x82"   # CC is read-only
            if off + lc > len(self.file):
                return b"\x6A\x87"
            if self.cut is not None and len(self.writes) >= self.cut:
                self.dead = True
                return None
            if self.fail_at is not None and len(self.writes) == self.fail_at and self.fail_left > 0:
                self.fail_left -= 1
                self.failed += 1
                return b"\x65\x81"
            self.file[off:off + lc] = d
            self.writes.append((self.sel, off, bytes(d)))
            return b"\x90\x00"
        return b"\x6D\x00"

    def exchange(self, data, timeout):
        if self.dead:
            raise nfc.clf.TimeoutError
        data = bytes(data)
        if data[0] == 0xE0:   # RATS -> ATS with FSCI 8
            return bytearray(b"\x05\x78\x80\x70\x02")
        pcb = data[0]
        if pcb & 0xC0 == 0:
            self.bn ^= 1
            self.rx += data[1:]
            if pcb & 0x10:
                return bytearray([0xA2 | self.bn])
            a = bytes(self.rx)
            self.rx = bytearray()
            r = self.apdu(a)
            if r is None:
                raise nfc.clf.TimeoutError
            chunks = [r[i:i + 253] for i in range(0, len(r), 253)]
            self.txq = chunks[1:]
            return bytearray([0x02 | (0x10 if self.txq else 0) | self.bn]) + chunks[0]
        if pcb & 0xF0 == 0xA0 and self.txq:
            self.bn ^= 1
            c = self.txq.pop(0)
            return bytearray([0x02 | (0x10 if self.txq else 0) | self.bn]) + c
        if pcb & 0xF0 == 0xB0:
            return bytearray([0xA2 | self.bn])
        raise nfc.clf.TimeoutError

    def activate(self):
        return nfc.tag.activate(self, self.target())


# ------------------------------------------------------------------ emulated Type 3 Tag
class EmuLink:
    """Real ``Type3Tag`` (reader side) talking to a real ``Type3TagEmulation``
    through an in-memory exchange: every reader command is handed to
    ``process_command`` and the response returned.  The block store and the
    service callbacks are those of ``examples/tagtool.py`` (services 0009h
    read+write, 000Bh read only)."""

    def __init__(self, store, cut=None):
        assert len(store) % 16 == 0
        self.store = bytearray(store)
        self.cut = cut
        self.dead = False
        self.writes = []     # raw write commands that were executed
        self.block_writes = []   # (block number, data, wb, we)
        self.calls = []      # callback invocations: "r<bn>:<rb>:<re>" / "w<bn>:<wb>:<we>"
        self.frames = []     # (command, response)
        self.sent_cmds = []  # every command frame handed to process_command
        tgt = nfc.clf.LocalTarget("212F", sensf_res=bytearray(b"\x01" + IDM + PMM + b"\x12\xFC"),
                                  tt3_cmd=bytearray(b"\x00\x12\xFC\x00\x00"))
        self.emu = nfc.tag.tt3.Type3TagEmulation(self, tgt)
        self.emu.add_service(0x0009, self._read, self._write)
        self.emu.add_service(0x000B, self._read, lambda: False)

    def _read(self, block_number, rb, re):
        self.calls.append("r%d:%d:%d" % (block_number, rb, re))
        if block_number < len(self.store) / 16:
            return self.store[block_number * 16:(block_number + 1) * 16]

    def _write(self, block_number, block_data, wb, we):
        self.calls.append("w%d:%d:%d" % (block_number, wb, we))
        if block_number < len(self.store) / 16:
            self.store[block_number * 16:(block_number + 1) * 16] = block_data
            self.block_writes.append((block_number, bytes(block_data), wb, we))
            return True

    def target(self):
        return nfc.clf.RemoteTarget("212F", sensf_res=bytearray(b"\x01" + IDM + PMM + b"\x12\xFC"))

    def exchange(self, cmd, timeout):
        if self.dead:
            raise nfc.clf.TimeoutError
        cmd = bytearray(cmd)
        if len(cmd) > 1 and cmd[1] == 0x08 and self.cut is not None and len(self.writes) >= self.cut:
            self.dead = True
            raise nfc.clf.TimeoutError
        self.sent_cmds.append(bytes(cmd))
        if len(self.sent_cmds) > len(self.store) + 2000:
            raise CommandBudgetExceeded("emulated type 3 tag: %d commands" % len(self.sent_cmds))
        rsp = self.emu.process_command(bytearray(cmd))
        self.frames.append((bytes(cmd), None if rsp is None else bytes(rsp)))
        if len(cmd) > 1 and cmd[1] == 0x08:
            self.writes.append(bytes(cmd))
        if rsp is None:
            raise nfc.clf.TimeoutError
        return bytearray(rsp)

    def activate(self):
        return nfc.tag.tt3.Type3Tag(self, self.target())
