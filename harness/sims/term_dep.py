"""Virtual clock and scripted contactless frontend for the REAL nfc.dep.Initiator / nfc.dep.Target (C09, part deact).

The other C09 simulators replace nfc.dep.Initiator/Target by scripted MACs whose deactivate() is one scripted
step.  Here the real classes run: the peer is a script of outcomes of `clf.exchange(frame, timeout)`, the clock
the code reads (`time.time()`, `time.sleep()` in nfc.dep and nfc.llcp.llc) is a virtual one that only a call of
the scripted frontend (or sleep) advances.  One tick is 1/1024 s, so that every float the code computes from the
clock (now + 1.0, deadline - now) is exact and the comparisons `time.time() < deadline` have no rounding cases.

Driver contract implemented by ScriptClf.exchange (the same as NfcVerif.Model.Deact.xchg):
an exchange called at `now` with timeout `t` (ticks, floor) whose scripted outcome arrives after `dt` ticks
(at least 1) ends at `now + dt` with that outcome when `dt <= t + latency`, else at `now + t + latency` with
nfc.clf.TimeoutError; every call consumes one event of the script, an exhausted script is a silent peer.
"""
import errno
import math
import os

import nfc.clf
import nfc.dep

TICKS = 1024            # ticks per second


class VClock:
    """stands in for the module `time` inside nfc.dep / nfc.llcp.llc"""

    def __init__(self, start=5 * TICKS):
        self.ticks = start
        self.sleeps = 0

    def time(self):
        return self.ticks / float(TICKS)

    def sleep(self, secs):
        self.sleeps += 1
        self.ticks += max(0, int(math.ceil(secs * TICKS - 1e-9)))

    def __getattr__(self, name):        # anything else the module may want from `time`
        import time as _time
        return getattr(_time, name)


class patched_time:
    """with patched_time(clock, nfc.dep, nfc.llcp.llc): ... - the modules read the virtual clock"""

    def __init__(self, clock, *modules):
        self.clock, self.modules, self.saved = clock, modules, []

    def __enter__(self):
        for m in self.modules:
            self.saved.append((m, m.time))
            m.time = self.clock
        return self.clock

    def __exit__(self, *exc):
        for m, t in self.saved:
            m.time = t
        return False


def real_dep_classes():
    """nfc.dep.Initiator / Target as defined by the source (sims/term_llc.py may have patched the module attributes)"""
    try:
        from sims import term_llc as T
        T.uninstall()
    except Exception:       # noqa
        pass
    return nfc.dep.Initiator, nfc.dep.Target


def to_ticks(timeout):
    if timeout is None:
        return None
    return int(math.floor(timeout * TICKS + 1e-6))


# ------------------------------------------------------------------------------------------------ frames
def frame_106a(payload):
    payload = bytearray(payload)
    return bytearray([0xF0, len(payload) + 1]) + payload


def dep_pdu(cls, fmt, pni=0, did=None, nad=None, data=b""):
    pfb = cls.PFB(fmt, nad is not None, did is not None, pni)
    return cls(pfb, did, nad, bytearray(data)).encode()


REQ_KINDS = ("inf", "atn", "dsl", "rls", "other", "ack", "nak", "tox")


def request_frame(kind, did_ok=True, own_did=None, pni=0, data=b"\x00\x00"):
    """a command frame of the remote initiator as the local target's driver hands it over (106A framing)"""
    R = nfc.dep.DEP_REQ
    did = own_did if did_ok else ((own_did or 0) + 1)
    if kind == "inf":
        return frame_106a(dep_pdu(R, R.LastInformation, pni, did, None, data))
    if kind == "ack":
        return frame_106a(dep_pdu(R, R.PositiveAck, pni, did))
    if kind == "nak":
        return frame_106a(dep_pdu(R, R.NegativeAck, pni, did))
    if kind == "tox":
        return frame_106a(dep_pdu(R, R.TimeoutExtension, 0, did, None, b"\x01"))
    if kind == "atn":
        return frame_106a(dep_pdu(R, R.Attention, 0, did))
    if kind == "dsl":
        return frame_106a(nfc.dep.DSL_REQ(did).encode())
    if kind == "rls":
        return frame_106a(nfc.dep.RLS_REQ(did).encode())
    if kind == "other":     # a PSL_REQ in the data exchange context
        return frame_106a(nfc.dep.PSL_REQ(did, 0, 3).encode())
    raise ValueError(kind)


BAD_FRAMES = {                  # decode_frame raises a CommunicationError for each of these
    "short": bytearray(b"\xF0"),                                    # TransmissionError
    "start": bytearray(b"\xF1\x04\xD4\x06\x00"),                    # ProtocolError (first byte)
    "length": bytearray(b"\xF0\x09\xD4\x06\x00"),                   # ProtocolError (length byte)
    "tiny": bytearray(b"\xF0\x02\xD4"),                             # TransmissionError (< 2 octets)
    "code": bytearray(b"\xF0\x04\xD4\x07\x00"),                     # ProtocolError (command code)
    "dslfmt": bytearray(b"\xF0\x06\xD4\x08\x00\x00\x00"),           # ProtocolError (DSL_REQ too long)
    "depfmt": bytearray(b"\xF0\x04\xD4\x06\x04"),                   # ProtocolError (DID announced, absent)
}


def sent_kind(frame, role):
    """classify what the local device transmitted (None = nothing)"""
    if frame is None:
        return "-"
    f = bytearray(frame)
    if len(f) >= 1 and f[0] == 0xF0:
        f = f[1:]
    if len(f) < 3 or f[0] != len(f):
        return "?" + bytes(f).hex()
    code, sub = f[1], f[2]
    names = {0xD5: {0x07: "dep", 0x09: "dslres", 0x0B: "rlsres"}, 0xD4: {0x06: "dep", 0x08: "dslreq", 0x0A: "rlsreq"}}
    n = names.get(code, {}).get(sub)
    if n is None:
        return "?" + bytes(f).hex()
    if n == "dep":
        fmt = f[3] >> 4
        n = {0: "inf", 1: "inf+", 4: "ack", 5: "nak", 8: "atn", 9: "tox"}.get(fmt, "dep%x" % fmt)
        if fmt in (0, 1):
            skip = 4 + bool(f[3] & 4) + bool(f[3] & 8)
            n += ":" + bytes(f[skip:]).hex()
    return n


class Stop(BaseException):
    """raised by the scripted frontend when a run exceeds its budget of exchanges (a loop that does not end)"""


class ScriptClf:
    """clf double: exchange() consumes the script [(outcome, dt)], see module docstring.

    outcome: ("frame", bytearray) | ("none",) | ("raise", exception instance)
    `on_call(clf, frame, timeout_ticks)` may be set to produce the events lazily (a chatty peer): it returns
    an event or None (= silent)."""

    def __init__(self, clock, script=(), latency=1, role="target", max_calls=100000, on_call=None):
        self.clock, self.script, self.latency, self.role = clock, list(script), latency, role
        self.trace = []             # (sent kind, timeout ticks, start tick, end tick, outcome tag)
        self.calls = 0
        self.max_calls = max_calls
        self.on_call = on_call
        self.lock = None
        self.target = None

    # the attributes nfc.dep reads
    def exchange(self, frame, timeout):
        self.calls += 1
        if self.calls > self.max_calls:
            raise Stop("more than %d exchanges" % self.max_calls)
        t = to_ticks(timeout)
        t = 0 if t is None or t < 0 else t
        start = self.clock.ticks
        if self.on_call is not None:
            ev = self.on_call(self, frame, t)
        else:
            ev = self.script.pop(0) if self.script else None
        limit = t + self.latency
        if ev is None:
            out, dt = ("raise", nfc.clf.TimeoutError("silent peer")), limit + 1
        else:
            out, dt = ev
        dt = max(1, dt)
        if dt > limit:
            out, dt = ("raise", nfc.clf.TimeoutError("no data within %d ticks" % t)), limit
        self.clock.ticks = start + dt
        tag = out[0] if out[0] != "raise" else type(out[1]).__name__
        self.trace.append((sent_kind(frame, self.role), t, start, start + dt, tag))
        if out[0] == "frame":
            return bytearray(out[1])
        if out[0] == "none":
            return None
        raise out[1]


def make_exc(name):
    return {"timeout": nfc.clf.TimeoutError("scripted"), "transmission": nfc.clf.TransmissionError("scripted"),
            "protocol": nfc.clf.ProtocolError("scripted"), "broken": nfc.clf.BrokenLinkError("scripted"),
            "io": IOError(errno.ENODEV, os.strerror(errno.ENODEV)), "runtime": RuntimeError("scripted")}[name]


ATR_REQ_HEX = 'D400 000102030405060708090000003246666D01011302020078'
ATR_REQ_DID_HEX = 'D400 000102030405060708090700003246666D01011302020078'
ATR_RES_HEX = 'D501 00010203040506070809000000083246666D01011302020078'


def activated_target(clf, with_did=False, first_cmd=b"\xD4\x06\x00\x00\x00"):
    """a real nfc.dep.Target activated through clf.listen (106A); the first DEP_REQ (SYMM) is pending in .cmd"""
    Initiator, Target = real_dep_classes()
    atr = bytearray.fromhex(ATR_REQ_DID_HEX if with_did else ATR_REQ_HEX)
    first = bytearray(first_cmd)
    if with_did:
        first = bytearray(b"\xD4\x06\x04\x07\x00\x00")
    clf.listen = lambda target, timeout: nfc.clf.RemoteTarget("106A", atr_req=atr, dep_req=first)
    mac = Target(clf)
    gb = mac.activate(timeout=1.0, gbt=bytearray.fromhex('46666D010113'))
    assert gb is not None
    return mac


def activated_initiator(clf, did=None):
    Initiator, Target = real_dep_classes()
    target = nfc.clf.RemoteTarget("106A", atr_res=bytearray.fromhex(ATR_RES_HEX))
    clf.sense = lambda *a, **k: target
    mac = Initiator(clf)
    opts = dict(brs=0, gbi=bytearray.fromhex('46666D010113'))
    if did is not None:
        opts["did"] = did
    gb = mac.activate(None, **opts)
    assert gb is not None, "initiator activation failed"
    return mac
