"""C09 helpers: instrumented threading for the real nfcpy LLCP stack.

Two instrumentations of ``threading`` as seen from nfc.llcp.tco / nfc.llcp.llc /
nfc.snep.server / nfc.handover.server:

* ``install_real()``  - REAL locks, threads and condition variables; the
  Condition subclass only records which thread is waiting on which condition
  variable (so the oracle knows when a thread has reached its point of waiting
  and what it is blocked on when it never comes back).
* ``install_double(world)`` - a Condition/RLock double that never blocks: every
  outermost lock acquisition and every ``wait()`` is a *scheduling point* at
  which ``world`` executes the next action of a script (link terminates, a PDU
  arrives, nothing happens ...) in the same Python thread.  A ``wait()`` that is
  not notified by the action and has no timeout is a thread that would wait
  forever: ``Hang`` is raised.

plus a scripted NFC-DEP MAC (subclasses of nfc.dep.Initiator/Target patched into
nfc.dep so that clf.connect(llcp=...) and llc.terminate() run unmodified).
"""
import collections
import errno
import threading as _th
import time as _time

import nfc
import nfc.clf
import nfc.dep
import nfc.llcp
import nfc.llcp.llc
import nfc.llcp.tco
import nfc.llcp.pdu
import nfc.llcp.sec
import nfc.snep.server
import nfc.handover.server

_MODS = (nfc.llcp.tco, nfc.llcp.llc, nfc.snep.server, nfc.handover.server)
_ORIG_DEP = (nfc.dep.Initiator, nfc.dep.Target)


class Hang(BaseException):
    """a wait() without timeout that nothing will ever notify"""

    def __init__(self, cv):
        BaseException.__init__(self, cv)
        self.cv = cv


# --------------------------------------------------------------------------- real threads, traced
class Tracer:
    def __init__(self):
        self.lock = _th.Lock()
        self.waiting = {}          # thread ident -> (condition name, timeout)
        self.threads = []          # every Thread created through the shim
        self.names = {}            # id(condition) -> name
        self.keep = []

    def cvname(self, cv):
        return self.names.get(id(cv), "cv?")

    def blocked_on(self, thread):
        with self.lock:
            return self.waiting.get(thread.ident)

    def wait_blocked(self, threads, timeout=10.0):
        """wait until every thread of `threads` is inside Condition.wait() or has ended"""
        end = _time.time() + timeout
        while _time.time() < end:
            with self.lock:
                ok = all((not t.is_alive() and t.ident is not None) or t.ident in self.waiting for t in threads)
            if ok:
                return True
            _time.sleep(0.0005)
        return False


TRACER = Tracer()


class TCondition(_th.Condition):
    def wait(self, timeout=None):
        me = _th.get_ident()
        with TRACER.lock:
            TRACER.waiting[me] = (TRACER.cvname(self), timeout)
        try:
            return _th.Condition.wait(self, timeout)
        finally:
            with TRACER.lock:
                TRACER.waiting.pop(me, None)


class TThread(_th.Thread):
    def __init__(self, *a, **k):
        _th.Thread.__init__(self, *a, **k)
        self.daemon = True          # a hanging service thread must never keep the check alive
        TRACER.threads.append(self)


class _Shim:
    def __init__(self, **over):
        self.__dict__.update(over)

    def __getattr__(self, name):
        return getattr(_th, name)


class _FastTime:
    """llc.collect() sleeps 1..50 ms between exchanges; keep the order of events, shorten the pauses"""
    time = staticmethod(_time.time)

    @staticmethod
    def sleep(d):
        _time.sleep(min(d, 0.0005))


def install_real():
    shim = _Shim(Condition=TCondition, Thread=TThread)
    for m in _MODS:
        m.threading = shim
    nfc.llcp.llc.time = _FastTime
    TRACER.waiting.clear()
    del TRACER.threads[:]


def uninstall():
    for m in _MODS:
        m.threading = _th
    nfc.llcp.llc.time = _time
    nfc.dep.Initiator, nfc.dep.Target = _ORIG_DEP
    nfc.llcp.sec.cipher_suite = _ORIG_CIPHER


def name_conditions(sock, label=""):
    """give the condition variables of a socket / llc readable names (both instrumentations)"""
    for n in ("send_ready", "recv_ready", "acks_ready", "send_token"):
        cv = getattr(sock, n, None)
        if cv is not None:
            TRACER.names[id(cv)] = n
            TRACER.keep.append(cv)          # keep the object: id() must not be reused
            if isinstance(cv, DCondition):
                cv.name = n


# --------------------------------------------------------------------------- doubles (single thread)
class DLock:
    def __init__(self, world, name="sock"):
        self.world, self.name, self.depth = world, name, 0

    def acquire(self, *a, **k):
        self.world.on_acquire(self)
        self.depth += 1
        self.world.held += 1
        return True

    def release(self):
        assert self.depth > 0, "release of a lock that is not held"
        self.depth -= 1
        self.world.held -= 1

    __enter__ = acquire

    def __exit__(self, *a):
        self.release()


class DCondition:
    def __init__(self, lock=None):
        self.lock = lock if lock is not None else DLock(WORLD[0])
        self.world = self.lock.world
        self.notified = 0
        self.name = "resp" if self.lock.name == "llc" else "cv?"

    def acquire(self, *a, **k):
        return self.lock.acquire()

    def release(self):
        self.lock.release()

    __enter__ = acquire

    def __exit__(self, *a):
        self.lock.release()

    def wait(self, timeout=None):
        assert self.lock.depth > 0, "wait() without the lock"
        return self.world.on_wait(self, timeout)

    def notify(self, n=1):
        assert self.lock.depth > 0, "notify() without the lock"
        self.notified += 1

    def notify_all(self):
        self.notify()


WORLD = [None]


class World:
    """executes a script at the scheduling points of ONE call (single thread)

    script: list of actions, consumed one per scheduling point.
      at an outermost lock acquisition: '-' nothing, 'T' the link terminates here
      at a wait:  'T' terminate, 'S' notified without any change, 'N' nothing (time-out or hang),
                  'Q<k>' PDU of kind k put into the receive queue + recv_ready.notify,
                  'A' one acknowledgement (window opens), 'D' one PDU dequeued + send_ready.notify
    a missing action means '-' / 'N'."""

    def __init__(self):
        self.script = []
        self.events = []
        self.held = 0
        self.active = False
        self.llc = None
        self.sock = None
        self.in_action = False

    def begin(self, llc, sock, script):
        self.llc, self.sock, self.script = llc, sock, list(script)
        self.events, self.held, self.active, self.in_action = [], 0, True, False

    def end(self):
        self.active = False

    def next_action(self, default):
        return self.script.pop(0) if self.script else default

    def on_acquire(self, lock):
        if not self.active or self.in_action or self.held:
            return
        if len(self.events) > 40:
            raise Hang("livelock")
        act = self.next_action("-")
        self.events.append("L" + lock.name[0] + ":" + act)
        if act == "T":
            self.run_action("T")
        elif act != "-":
            self.events.append("bad-action")

    def on_wait(self, cv, timeout):
        if self.in_action:
            raise Hang("nested:" + cv.name)     # the world's own action would block (never expected)
        if len(self.events) > 40:
            raise Hang("livelock")          # a wait loop that spins (every wait of the double returns at once)
        act = self.next_action("N")
        self.events.append("W%s:%s:%s" % (cv.name, "t" if timeout is not None else "n", act))
        before = cv.notified
        held, cv.lock.depth = cv.lock.depth, 0   # wait() releases the lock completely
        self.held -= held
        try:
            self.run_action(act)
        finally:
            cv.lock.depth = held
            self.held += held
        if cv.notified != before:
            return True
        if timeout is not None:
            return False
        raise Hang(cv.name)

    def run_action(self, act):
        P = nfc.llcp.pdu
        s = self.sock
        self.in_action = True
        try:
            if act in ("N", "-"):
                pass
            elif act == "T":
                self.llc.terminate("script")
            elif act == "S":
                for n in ("send_ready", "recv_ready", "acks_ready", "send_token"):
                    cv = getattr(s, n, None)
                    if cv is not None:
                        with cv:
                            cv.notify_all()
                with self.llc.lock:
                    if self.llc.sap[1] is not None:
                        self.llc.sap[1].resp.notify_all()
            elif act[0] == "Q":
                with s.lock:
                    s.recv_queue.append(make_pdu(act[1:], s))
                    s.recv_ready.notify()
            elif act == "A":
                with s.lock:
                    s.acks_recvd += 1
                    s.acks_ready.notify_all()
                    s.send_token.notify()
                    s.send_ack = (s.send_ack + 1) % 16
            elif act == "D":
                with s.lock:
                    if s.send_queue:
                        s.send_queue.popleft()
                    s.send_ready.notify()
            elif act == "R":      # service name resolved by the peer
                with self.llc.lock:
                    sd = self.llc.sap[1]
                    if sd is not None and sd.snl is not None:
                        sd.snl[b"urn:nfc:sn:x"] = 17
                        sd.resp.notify_all()
            else:
                self.events.append("bad-action")
        finally:
            self.in_action = False


def make_pdu(kind, s):
    P = nfc.llcp.pdu
    a, p = (s.addr or 0), (s.peer if isinstance(s.peer, int) else 40)
    return {"I": lambda: P.Information(a, p, 0, 0, b"d"), "DISC": lambda: P.Disconnect(a, p),
            "CONNECT": lambda: P.Connect(a, 41, 128, 1), "CC": lambda: P.ConnectionComplete(a, 42, 128, 1),
            "DM": lambda: P.DisconnectedMode(a, p, 3), "UI": lambda: P.UnnumberedInformation(a, p, b"u"),
            "RR": lambda: P.ReceiveReady(a, p, 0)}[kind]()


def install_double(world):
    WORLD[0] = world

    def rlock():
        return DLock(world, "sock")

    shim = _Shim(Condition=DCondition, RLock=rlock)
    nfc.llcp.tco.threading = shim
    nfc.llcp.llc.threading = _Shim(Condition=DCondition, RLock=lambda: DLock(world, "llc"))


# --------------------------------------------------------------------------- scripted MAC
GB = b"Ffm" + bytes.fromhex("010111" "02020078" "040132")     # version 1.1, MIU 248, LTO 500 ms

CAUSES = ("remote-disc", "timeout", "broken-link", "none", "malformed", "local-terminate",
          "ioerror", "ioerror-persistent", "keyboard-interrupt", "key-agreement", "decryption", "encryption")
UNCAUGHT = ("runtime-error",)
EXCEPTION_CAUSES = ("ioerror", "ioerror-persistent", "keyboard-interrupt", "key-agreement", "decryption", "encryption",
                    "runtime-error")


class MacScript:
    """what the peer does; shared between the fake MAC object and the harness"""

    def __init__(self, cause, at, replies=(), point="established", role="initiator"):
        """point: where the cause strikes - 'established' (exchange number `at` of the loop), 'first' (the
        initiator's first collect() resp. the target's first exchange, before link.ESTABLISHED) or 'dps'
        (the first exchange of the DPS key agreement; needs install_dps())"""
        self.cause, self.at, self.point, self.role = cause, at, point, role
        self.replies = collections.deque(replies)     # frames delivered before SYMM
        self.sent = []                                # names of the PDUs sent by the local llc
        self.n = 0
        self.fired = False
        self.deactivated = 0
        self.hooks = {}                               # exchange number -> callable (runs on the link thread)
        self.armed = True

    def terminate_cb(self):
        if self.cause == "local-terminate" and self.armed and self.n >= self.at:
            self.fired = True
            return True
        return False

    def exchange(self, send_data, timeout):
        if send_data is not None:
            try:
                self.sent.append(nfc.llcp.pdu.decode(bytes(send_data)).name)
            except Exception:  # noqa
                self.sent.append("?")
        n = self.n
        self.n += 1
        hook = self.hooks.get(n)
        if hook:
            hook()
        _time.sleep(0.0003)
        if self.armed and not self.fired and n >= self.at and self.cause != "local-terminate" \
                and not (self.point == "first" and self.role == "initiator"):
            return self.fire()
        if self.replies:
            return bytearray(self.replies.popleft())
        return bytearray.fromhex("0000")

    def fire(self):
        self.fired = True
        c = self.cause
        if c == "remote-disc":
            return bytearray.fromhex("0140")
        if c == "timeout":
            raise nfc.clf.TimeoutError("scripted")
        if c == "broken-link":
            raise nfc.clf.BrokenLinkError("scripted")
        if c == "none":
            return None
        if c == "malformed":
            return bytearray(b"\x00")
        if c in ("ioerror", "ioerror-persistent"):
            raise IOError(errno.ENODEV, "scripted: device gone")
        if c == "keyboard-interrupt":
            raise KeyboardInterrupt
        if c == "key-agreement":
            raise nfc.llcp.sec.KeyAgreementError("scripted")
        if c == "decryption":
            raise nfc.llcp.sec.DecryptionError("scripted")
        if c == "encryption":
            raise nfc.llcp.sec.EncryptionError("scripted")
        if c == "runtime-error":
            raise RuntimeError("scripted")
        raise AssertionError("unknown cause " + c)

    def sleep(self, d):
        """time.sleep as seen from llc.collect(): the initiator's first collect() is where point 'first' strikes"""
        if self.point == "first" and self.role == "initiator" and self.armed and not self.fired \
                and self.cause in EXCEPTION_CAUSES:
            self.fire()
        _time.sleep(min(d, 0.0005))

    def deactivate(self):
        self.deactivated += 1
        if self.cause == "ioerror-persistent":
            # nfc.dep.*.deactivate only handles nfc.clf.CommunicationError; a dead device raises again
            raise IOError(errno.ENODEV, "scripted: device gone")


SCRIPT = [None]


class FakeInitiator(_ORIG_DEP[0]):
    def __init__(self, clf=None):
        self.clf, self.rwt, self.miu, self.did, self.nad = clf, 0.01, 254, None, None
        self.s = SCRIPT[0]

    def __str__(self):
        return "scripted NFC-DEP Initiator"

    def activate(self, target=None, **options):
        return GB

    def exchange(self, send_data, timeout):
        return self.s.exchange(send_data, timeout)

    def deactivate(self, release=True):
        self.s.deactivate()


class FakeTarget(_ORIG_DEP[1]):
    def __init__(self, clf=None):
        self.clf, self.rwt, self.miu, self.did, self.nad = clf, 0.01, 254, None, None
        self.s = SCRIPT[0]

    def __str__(self):
        return "scripted NFC-DEP Target"

    def activate(self, timeout=None, **options):
        return GB

    def exchange(self, send_data, timeout):
        return self.s.exchange(send_data, timeout)

    def deactivate(self, data=None):
        self.s.deactivate()


class _ScriptTime:
    time = staticmethod(_time.time)

    @staticmethod
    def sleep(d):
        SCRIPT[0].sleep(d)


def install_mac(script):
    SCRIPT[0] = script
    nfc.dep.Initiator, nfc.dep.Target = FakeInitiator, FakeTarget
    nfc.llcp.llc.time = _ScriptTime


class FakeCipher:
    """stands in for nfc.llcp.sec.CipherSuite1 (no OpenSSL here): enough for the DPS exchange of the run loops"""
    public_key_x, public_key_y, random_nonce, icv_size = b"x" * 32, b"y" * 32, b"r" * 8, 0

    def calculate_session_key(self, *a, **k):
        pass

    def encrypt(self, a, p):
        return p

    def decrypt(self, a, c):
        return c


_ORIG_CIPHER = nfc.llcp.sec.cipher_suite


def install_dps():
    nfc.llcp.sec.cipher_suite = lambda name: FakeCipher()


# --------------------------------------------------------------------------- terminate() as an actor
class SapList(list):
    """llc.sap with a scheduling point at every first read of an index (terminate() walks 63..0)"""
    world = None

    def __getitem__(self, i):
        if isinstance(i, int) and self.world is not None:
            self.world.on_sap(i)
        return list.__getitem__(self, i)


class TermWorld(World):
    """single thread: the link thread runs terminate(); at ONE of its scheduling points (outermost lock
    acquisitions and the step from one service access point to the next) an application thread acts"""

    def begin_term(self, target, action):
        self.points, self.target, self.action = [], target, action
        self.events, self.held, self.active, self.in_action, self.last_i = [], 0, True, False, None
        self.flag_at_target = None

    def _point(self, name):
        name = "%s#%d" % (name, sum(1 for p in self.points if p.split("#")[0] == name))
        self.points.append(name)
        if name == self.target:
            self.in_action = True
            try:
                self.action()
            finally:
                self.in_action = False

    def on_acquire(self, lock):
        if self.active and not self.in_action and not self.held:
            self._point("L" + lock.name[0])

    def on_sap(self, i):
        if self.active and not self.in_action and i != self.last_i:
            self.last_i = i
            self._point("i%d" % i)

    def on_wait(self, cv, timeout):
        raise Hang(("in-action:" if self.in_action else "terminate:") + cv.name)


def make_llc(role="initiator"):
    """an activated controller outside clf.connect (used by the single-thread exploration)"""
    llc = nfc.llcp.llc.LogicalLinkController(sec=False)
    llc.cfg.update({"send-miu": 248, "recv-lto": 500, "send-wks": 0, "llcp-dpc": 0, "rcvd-ver": (1, 1)})
    llc.mac = None           # terminate(): no NFC-DEP deactivation (type(None) is no MAC class)
    llc.link.ESTABLISHED = True
    return llc


def establish(s, peer=40, send_win=1):
    """put a bound DataLinkConnection into the state reached by connect()+CC (tco.py:485-490)"""
    s.peer = peer
    s.recv_buf = s.recv_win
    s.send_miu = 128
    s.send_win = send_win
    s.state.ESTABLISHED = True
