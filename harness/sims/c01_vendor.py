"""C01: NXP Type 2 Tag products (nfc.tag.tt2_nxp) behind the plain-memory Type 2 simulator.

`nfc.tag.activate` hands a Type 2 Tag whose UID starts with 04h to `tt2_nxp.activate`, which probes
AUTHENTICATE (1Ah) and GET_VERSION (60h) and returns a product class; the NDEF code of those classes is
`Type2Tag.NDEF` with (for Ultralight C / NTAG21x) an extended `_read_capability_data`.  The simulator answers
the probes like the product does and otherwise is `T2Sim`; a product = (class name, probe behaviour, physical
memory size, data area size = CC byte 2, factory control TLVs).
"""
import nfc
import nfc.clf

from sims.t12_tags import T2Sim, ctl_tlv, put_ndef

NXP_SDD = b"\x04\x51\x7C\xA1\xE1\xED\x25"

# name, GET_VERSION answer (None: no such command, b"\0": NAK), AUTHENTICATE supported, physical octets,
# CC size byte, factory TLVs in front of the NDEF TLV (hex)
PRODUCTS = [
    ("MifareUltralight", None, False, 64, 0x06, ""),
    ("MifareUltralightC", None, True, 192, 0x12, ""),
    ("NTAG203", b"\x00", False, 168, 0x12, "0103A01044"),
    ("MF0UL11", bytes.fromhex("0004030101000B03"), False, 80, 0x06, ""),
    ("MF0UL21", bytes.fromhex("0004030101000E03"), False, 164, 0x10, "0103900A34"),   # hypothetical placement
    ("NTAG210", bytes.fromhex("0004040101000B03"), False, 80, 0x06, ""),
    ("NTAG212", bytes.fromhex("0004040101000E03"), False, 164, 0x10, "0103900A34"),
    ("NTAG213", bytes.fromhex("0004040201000F03"), False, 180, 0x12, "0103A00C34"),
    ("NTAG215", bytes.fromhex("0004040201001103"), False, 540, 0x3E, "0103880C46"),   # dynamic lock bytes at 520
    ("NTAG216", bytes.fromhex("0004040201001303"), False, 924, 0x6D, "0103E80C46"),   # dynamic lock bytes at 904
    ("NT3H1101", bytes.fromhex("0004040502011303"), False, 1024, 0x6D, "0103E80C46"),
    ("NT3H1201", bytes.fromhex("0004040502011503"), False, 2048, 0xEA, ""),
]


class VT2(T2Sim):
    """T2Sim that answers the product probes of tt2_nxp.activate"""

    def __init__(self, mem, product):
        T2Sim.__init__(self, mem, NXP_SDD)
        self.product = product

    def exchange(self, data, timeout):
        d = bytes(data)
        name, version, auth = self.product[:3]
        if d == b"\x1A\x00" and not self.pending_sector:
            self._alive()
            if auth:
                return bytearray(b"\xAF" + bytes(8))
            raise nfc.clf.TimeoutError("no AUTHENTICATE")
        if d == b"\x60" and not self.pending_sector:
            self._alive()
            if version is None:
                raise nfc.clf.TimeoutError("no GET_VERSION")
            return bytearray(version)
        return T2Sim.exchange(self, data, timeout)


def vendor_layout(rng, product, nulls=None, extra_ctl=None):
    """a well-formed image of the product's size: CC, the factory control TLVs, `extra_ctl` more lock/memory
    control TLVs, `nulls` NULL TLVs, then the NDEF TLV position; same dict as t12_tags.gen_layout"""
    name, version, auth, phys, units, factory = product
    end = 16 + units * 8
    mem = bytearray(rng.randrange(256) for _ in range(phys))
    mem[0:7] = NXP_SDD
    mem[12:16] = bytes([0xE1, 0x10, units, 0x00])
    o = 16
    skip = set()
    tlvs = [bytes.fromhex(factory)] if factory else []
    for _ in range(rng.choice([0, 0, 1]) if extra_ctl is None else extra_ctl):
        for _attempt in range(20):
            k = rng.choice([1, 2])
            size = rng.randrange(1, 9)
            start = rng.choice([rng.randrange(40, max(41, end - 8)), end - rng.randrange(0, 4), end + rng.randrange(0, 8)])
            t = ctl_tlv(k, start, size, size * 8 - rng.choice([0, 1, 4, 7]) if k == 1 else None)
            if t is not None:
                tlvs.append(t)
                break
    for t in tlvs:
        mem[o:o + 5] = t
        o += 5
        pa, bo = t[2] >> 4, t[2] & 15
        start = pa * (1 << (t[4] & 15)) + bo
        n = t[3] if t[3] else 256
        size = (n + 7) // 8 if t[0] == 1 else n
        skip |= set(range(start, start + size))
    start0 = 16
    for _ in range(rng.randrange(0, 4) if nulls is None else nulls):
        mem[o] = 0
        o += 1
    while o in skip:
        o += 1
    hdr_free = all(a not in skip for a in range(start0, o + 2))
    hdr3 = hdr_free and all(a not in skip for a in (o + 2, o + 3)) and o + 4 <= end
    return dict(kind="t2", mem=mem, off=o, skip=skip, end=end, ok=hdr_free and o + 2 <= end, hdr3=hdr3,
                nctl=len(tlvs), product=product)


def with_old(rng, lay, oldlen):
    free = len([a for a in range(lay["off"], lay["end"]) if a not in lay["skip"]])
    oldlen = max(0, min(oldlen, free - (4 if oldlen >= 255 else 2)))
    old = bytes(rng.randrange(256) for _ in range(oldlen))
    if not put_ndef(lay["mem"], lay["off"], lay["skip"], old, lay["end"]):
        old = b""
        if not put_ndef(lay["mem"], lay["off"], lay["skip"], old, lay["end"]):
            return None
    lay["old"], lay["free"] = old, free
    return lay
