"""C16: plain-memory tag simulators behind a fault-injecting fake frontend.

`Air` stands in for nfc.clf.ContactlessFrontend: every exchange() consumes one
letter of a fault script

    a              the tag receives the command and its answer is delivered
    t x p o c      the command is lost, exchange raises TimeoutError /
                   TransmissionError / ProtocolError / BrokenLinkError / the
                   CommunicationError base class
    T X P O C      the tag receives (and executes) the command, the answer is
                   lost and exchange raises the same classes
    0 1 2 3        (Type 3 only) the tag executes the command, the answer is cut
                   to 0, 1, 10 octets or to 11 octets with a status flag set

An exhausted script means `a`.  `clf.sense()` consumes one letter of a second
script (`1` the tag is found again, `0` it is not; exhausted means found); like
the real ContactlessFrontend the fake one drops its target when sense fails and
`exchange()` then returns None without sending anything (logged as ("?", "n")).
A simulator may itself stay silent (returns
None: sector select part two, commands a product does not know); the frontend
then raises TimeoutError like a real reader.  Every exchange is logged as
(token, letter) where the token is a short canonical name of the command
("r4" read page 4, "w5" write page 5 ...); `mark()` separates the calls of the
tag object's transceive primitive.
"""
import struct

import nfc.clf
import nfc.tag

triple_des_factory = [None]      # the check may install a result-remembering wrapper around pyDes.triple_des


def _tdes(key, iv):
    from pyDes import triple_des, CBC
    return (triple_des_factory[0] or triple_des)(key, CBC, iv)


ERR = {"t": nfc.clf.TimeoutError, "x": nfc.clf.TransmissionError, "p": nfc.clf.ProtocolError,
       "o": nfc.clf.BrokenLinkError, "c": nfc.clf.CommunicationError}


class Clock(object):
    """virtual clock standing in for the `time` module of the nfc.tag modules: an exchange that ends
    in a timeout takes the whole `timeout` given to clf.exchange, every other exchange a millisecond"""

    def __init__(self, start=1000.0):
        self.now = start

    def time(self):
        return self.now

    def sleep(self, seconds):
        self.now += max(0.0, seconds)

    def monotonic(self):
        return self.now

    def __getattr__(self, name):            # anything else (strftime ...) from the real module
        import time
        return getattr(time, name)


class Air(object):
    max_recv_data_size = 256
    max_send_data_size = 256

    def __init__(self, sim):
        self.sim = sim
        self.clock = Clock()
        self.script = []
        self.senses = []       # results of the next clf.sense() calls: "1" found, "0" not found
        self.notarget = False  # the frontend has dropped its target (a sense() failed)
        self.used = 0          # letters of the fault script consumed (exhausted script included)
        self.sensed = ""       # results handed out by sense() so far
        self.log = []          # (token, letter) per exchange, "|" between primitive calls, ("!", errno) per TagCommandError
        self.raw = []          # command octets per exchange
        self.limit = 20000

    def arm(self, script, senses=""):
        self.script = list(script)
        self.senses = list(senses)
        self.log = []
        self.raw = []
        self.used = 0
        self.sensed = ""

    def rearm(self, script, senses=""):
        """new fault scripts for the next operation of a session, the logs go on"""
        self.script = list(script)
        self.senses = list(senses)

    def mark(self):
        self.log.append("|")

    def exchange(self, data, timeout):
        data = bytes(data)
        if self.notarget:
            # nfc.clf.ContactlessFrontend.exchange: "no target for data exchange", nothing is sent
            self.log.append(("?", "n"))
            return None
        token = self.sim.token(data)
        self.raw.append(data)
        att = self.script.pop(0) if self.script else "a"
        self.used += 1
        if len(self.log) > self.limit:
            raise RuntimeError("retry_sims: command budget exceeded (endless loop?)")
        step = 0.001 if timeout is None else min(0.001, timeout)
        if att in "0123":
            rsp = self.sim.command(data)
            self.log.append((token, att))
            if rsp is None:
                self.clock.sleep(timeout or 0)
                raise nfc.clf.TimeoutError
            self.clock.sleep(step)
            rsp = bytearray(rsp)
            if att == "0":
                return bytearray()
            if att == "1":
                return bytearray([1])
            if att == "2":
                return bytearray([10]) + rsp[1:10]
            return bytearray([11]) + rsp[1:10] + bytearray([1])
        if att == "a":
            rsp = self.sim.command(data)
            if rsp is None:
                self.log.append((token, "m"))      # the tag stays mute
                self.clock.sleep(timeout or 0)
                raise nfc.clf.TimeoutError
            self.log.append((token, "a"))
            self.clock.sleep(step)
            return bytearray(rsp)
        self.log.append((token, att))
        if att.isupper():
            self.sim.command(data)
        self.clock.sleep((timeout or 0) if att in "tT" else step)
        raise ERR[att.lower()]

    def sense(self, *targets, **kw):
        found = (self.senses.pop(0) if self.senses else "1") == "1" and self.sim.present
        self.sensed += "1" if found else "0"
        self.notarget = not found
        if not found:
            return None
        t = self.sim.target                    # the real frontend hands out a new RemoteTarget object
        return nfc.clf.RemoteTarget(t.brty, **{k: v for k, v in t.__dict__.items() if not k.startswith("_")})


# ------------------------------------------------------------------ Type 1
class SimT1(object):
    """Topaz style memory: hr (2 octets), mem (120 static, 512 dynamic)"""
    present = True

    def __init__(self, hr, mem):
        self.hr, self.mem = bytes(hr), bytearray(mem)
        self.uid = bytes(self.mem[0:4])
        self.applied = []
        self.dynamic = self.hr[0] & 0x0F != 1
        self.target = nfc.clf.RemoteTarget("106A", sens_res=bytearray(b"\x00\x0C"),
                                           rid_res=bytearray(self.hr) + bytearray(self.uid))

    def ndef_now(self):
        return None        # TLV walk with reserved bytes: not re-implemented here (C01)

    @staticmethod
    def token(d):
        c = d[0]
        names = {0x78: "id", 0x00: "ra", 0x01: "rb%d", 0x53: "we%d", 0x1A: "wn%d", 0x10: "rs%d",
                 0x02: "R%d", 0x54: "We%d", 0x1B: "Wn%d"}
        n = names.get(c, "u%d" % c)
        if "%" in n:
            n = n % (d[1] >> 4 if c == 0x10 else d[1])
        return n

    def command(self, d):
        c = d[0]
        if c == 0x78:
            return self.hr + self.uid
        if c == 0x00:
            return self.hr + bytes(self.mem[0:120])
        if c == 0x01:
            return bytes([d[1], self.mem[d[1]]]) if d[1] < 128 and d[1] < len(self.mem) else None
        if c in (0x53, 0x1A):
            if d[1] >= (128 if self.dynamic else 120):
                return None
            self.applied.append(("w", d[1], bytes(d[2:3])))
            self.mem[d[1]] = d[2] if c == 0x53 else self.mem[d[1]] | d[2]
            return bytes([d[1], self.mem[d[1]]])
        if not self.dynamic:
            return None
        if c == 0x10:
            g = d[1] >> 4
            return bytes([d[1]]) + bytes(self.mem[g * 128:(g + 1) * 128]) if g * 128 < len(self.mem) else None
        b = d[1]
        if b * 8 >= len(self.mem):
            return None
        if c == 0x02:
            return bytes([b]) + bytes(self.mem[b * 8:b * 8 + 8])
        if c in (0x54, 0x1B):
            self.applied.append(("W", b, bytes(d[2:10])))
            new = d[2:10] if c == 0x54 else bytes(x | y for x, y in zip(self.mem[b * 8:b * 8 + 8], d[2:10]))
            self.mem[b * 8:b * 8 + 8] = new
            return bytes([b]) + bytes(self.mem[b * 8:b * 8 + 8])
        return None


def t1_memory(dynamic, ndef):
    size = 512 if dynamic else 120
    m = bytearray(size)
    m[0:8] = b"\x01\x02\x03\x04\x05\x06\x07\x00"
    m[8:12] = bytes([0xE1, 0x10, size // 8 - 1, 0x00])
    o = 12
    if dynamic:
        m[12:17] = bytes.fromhex("0103F23033")
        m[17:22] = bytes.fromhex("0203F00203")
        o = 22
    skip = set(range(104, 128))
    tlv = bytes([3, len(ndef)]) + ndef + b"\xFE"
    for x in tlv:
        while o in skip:
            o += 1
        m[o] = x
        o += 1
    return m


# ------------------------------------------------------------------ Type 2
class SimT2(object):
    """pages of 4 octets, 256 pages per sector; optional NXP extras"""
    present = True

    def __init__(self, mem, uid0=0x01, version=None, ulc=False, ntag203=False, pwd=None):
        self.mem = bytearray(mem)
        self.version, self.ulc, self.ntag203, self.pwd = version, ulc, ntag203, pwd
        self.sector = 0
        self.pending = False
        self.applied = []
        self.target = nfc.clf.RemoteTarget("106A", sens_res=bytearray(b"\x44\x00"), sel_res=bytearray(b"\x00"),
                                           sdd_res=bytearray([uid0, 2, 3, 4, 5, 6, 7]))

    def ndef_now(self):
        """the NDEF message in the memory (layout of t2_memory: NDEF TLV at octet 16)"""
        m = self.mem
        if m[16] != 3:
            return None
        if m[17] == 255:
            ln = m[18] << 8 | m[19]
            return bytes(m[20:20 + ln])
        return bytes(m[18:18 + m[17]])

    def token(self, d):
        c = d[0]
        if len(d) == 4 and self.pending and d[0:2] != b"\xC2\xFF":
            return "s2"
        if c == 0x30:
            return "r%d" % d[1]
        if c == 0xA2:
            return "w%d" % d[1]
        if d[0:2] == b"\xC2\xFF":
            return "s1"
        return {0x1A: "a1", 0xAF: "a2", 0x60: "gv", 0x1B: "pw", 0x3C: "sg"}.get(c, "u%d" % c)

    def command(self, d):
        c = d[0]
        npages = len(self.mem) // 4
        if d[0:2] == b"\xC2\xFF":
            if npages <= 256:
                return b"\x00"
            self.pending = True
            return b"\x0A"
        if self.pending:
            self.pending = False
            if len(d) == 4:
                if d[0] * 256 < npages:
                    self.sector = d[0]
                    return None               # passive acknowledge
                return b"\x00"
            # packet two never arrived: the tag has left the wait state
        page = self.sector * 256 + (d[1] if len(d) > 1 else 0)
        if c == 0x30:
            if page >= npages:
                return b"\x00"
            out = bytes(self.mem[page * 4:page * 4 + 16])
            return out + bytes(self.mem[0:16 - len(out)])
        if c == 0xA2:
            if page >= npages or len(d) != 6:
                return b"\x00"
            self.applied.append(("w", page, bytes(d[2:6])))
            self.mem[page * 4:page * 4 + 4] = d[2:6]
            return b"\x0A"
        if c == 0x60:
            return self.version if self.version else (b"\x00" if self.ntag203 else None)
        if c == 0x1A:
            return b"\xAF" + bytes(range(8)) if self.ulc else (b"\x00" if (self.version or self.ntag203) else None)
        if c == 0xAF and self.ulc:
            return b"\x00" + bytes(range(8, 16))
        if c == 0x1B and self.version:
            return self.pwd[4:6] if self.pwd is not None and bytes(d[1:5]) == self.pwd[0:4] else b"\x00"
        if c == 0x3C and self.version:
            return bytes(range(32))
        return None


def t2_memory(size, ndef, cc2=None):
    m = bytearray(size)
    m[0:10] = bytes(range(1, 11))
    m[12:16] = bytes([0xE1, 0x10, cc2 if cc2 is not None else min((size - 16) // 8, 255), 0x00])
    tlv = (bytes([3, len(ndef)]) if len(ndef) < 255 else bytes([3, 255]) + struct.pack(">H", len(ndef))) + ndef + b"\xFE"
    m[16:16 + len(tlv)] = tlv
    return m


# ------------------------------------------------------------------ Type 3
IDM = bytes([0x02, 0xFE, 3, 4, 5, 6, 7, 8])


class SimT3(object):
    """NDEF service blocks 0..nmaxb; optional FeliCa Standard commands"""
    present = True

    def __init__(self, nbr, nbw, nmaxb, ndef=b"", ic=0xFF, standard=False):
        self.nbr, self.nbw, self.nmaxb = nbr, nbw, nmaxb
        self.blocks = {i: bytearray(16) for i in range(nmaxb + 1)}
        self.applied = []
        self.standard = standard
        self.pmm = bytes([0x00, ic, 0xFF, 0xFF, 0xFF, 0xFF, 0xFF, 0xFF])
        for i in range(0, len(ndef), 16):
            self.blocks[1 + i // 16] = bytearray(ndef[i:i + 16].ljust(16, b"\0"))
        self.set_attr(len(ndef), 0)
        self.target = nfc.clf.RemoteTarget("212F", sensf_res=bytearray(b"\x01" + IDM + self.pmm + b"\x12\xFC"))

    def set_attr(self, ln, writef, rw=1):
        a = bytearray(16)
        a[0], a[1], a[2] = 0x10, self.nbr, self.nbw
        a[3:5] = struct.pack(">H", self.nmaxb)
        a[9], a[10] = writef, rw
        a[11:14] = struct.pack(">I", ln)[1:]
        a[14:16] = struct.pack(">H", sum(a[:14]))
        self.blocks[0] = a

    def ndef_now(self):
        a = self.blocks[0]
        ln = a[11] << 16 | a[12] << 8 | a[13]
        return b"".join(bytes(self.blocks[i]) for i in range(1, 2 + (ln + 15) // 16) if i in self.blocks)[:ln]

    @staticmethod
    def blocklist(cmd):
        pos = 11 + 2 * cmd[10]
        n = cmd[pos]
        pos += 1
        bl = []
        for _ in range(n):
            if cmd[pos] & 0x80:
                bl.append(cmd[pos + 1])
                pos += 2
            else:
                bl.append(cmd[pos + 1] | cmd[pos + 2] << 8)
                pos += 3
        return bl, pos

    def token(self, cmd):
        code = cmd[1]
        if code in (6, 8):
            bl, _ = self.blocklist(cmd)
            return ("r" if code == 6 else "w") + "%d" % bl[0] + ("x%d" % len(bl) if len(bl) > 1 else "")
        return {0: "po", 2: "rq", 4: "rr", 0x0A: "ss%d" % (cmd[10] | cmd[11] << 8 if len(cmd) > 11 else 0),
                0x0C: "sc"}.get(code, "u%d" % code)

    def status(self, code, s1, s2):
        return bytes([12, code + 1]) + IDM + bytes([s1, s2])

    def command(self, cmd):
        code = cmd[1]
        if code == 0:
            rsp = bytes([1]) + IDM + self.pmm + (b"\x12\xFC" if cmd[4] == 1 else b"")
            return bytes([len(rsp) + 1]) + rsp
        if bytes(cmd[2:10]) != IDM:
            return None
        if code == 6:
            bl, pos = self.blocklist(cmd)
            if len(bl) > self.nbr or any(b not in self.blocks for b in bl):
                return self.status(6, 1, 0xA2)
            d = b"".join(bytes(self.read_block(b)) for b in bl)
            return bytes([13 + len(d), 7]) + IDM + b"\0\0" + bytes([len(bl)]) + d
        if code == 8:
            bl, pos = self.blocklist(cmd)
            data = cmd[pos:]
            if len(bl) > self.nbw or any(not self.writable(b) for b in bl) or len(data) != 16 * len(bl):
                return self.status(8, 1, 0xA2)
            self.applied.append(("w", tuple(bl), bytes(data)))
            for i, b in enumerate(bl):
                self.blocks[b] = bytearray(data[16 * i:16 * i + 16])
            return self.status(8, 0, 0)
        if self.standard:
            if code == 2:
                n = cmd[10]
                return bytes([11 + 2 * n, 3]) + IDM + bytes([n]) + b"\x00\x00" * n
            if code == 4:
                return bytes([11, 5]) + IDM + b"\x00"
            if code == 0x0C:
                return bytes([13, 0x0D]) + IDM + b"\x01\x12\xFC"
            if code == 0x0A:
                index = cmd[10] | cmd[11] << 8
                table = [b"\x00\x00\xFE\xFF", b"\x09\x00", b"\x0B\x00"]
                rsp = table[index] if index < len(table) else b"\xFF\xFF"
                return bytes([10 + len(rsp), 0x0B]) + IDM + rsp
        return None

    def read_block(self, b):
        return self.blocks[b]

    def writable(self, b):
        return b in self.blocks


class SimLite(SimT3):
    """FeliCa Lite: user blocks 0..13, REG 14, system blocks 0x80.. (MAC as in the user manual)"""

    def __init__(self, ndef=b"", key=b"\0" * 16, formatted=True):
        SimT3.__init__(self, 4, 1, 13, ndef, ic=0xF0)
        for b in (14, 0x80, 0x81, 0x82, 0x83, 0x84, 0x85, 0x86, 0x87, 0x88):
            self.blocks[b] = bytearray(16)
        self.blocks[0x82] = bytearray(IDM + bytes(8))
        self.blocks[0x83] = bytearray(IDM + self.pmm)
        self.blocks[0x88] = bytearray(b"\xFF\xFF\xFF" + (b"\x01" if formatted else b"\x00") + bytes(12))
        self.blocks[0x87] = bytearray(key[7::-1] + key[15:7:-1])
        self.target = nfc.clf.RemoteTarget("212F", sensf_res=bytearray(b"\x01" + IDM + self.pmm + b"\x88\xB4"))

    def mac(self, data):
        def rev8(b):
            return b"".join(bytes(reversed(b[i:i + 8])) for i in range(0, len(b), 8))
        ck, rc = bytes(self.blocks[0x87]), bytes(self.blocks[0x80])
        ck1, ck2 = ck[0:8][::-1], ck[8:16][::-1]
        rc1, rc2 = rc[0:8][::-1], rc[8:16][::-1]
        sk = _tdes(ck1 + ck2, b"\0" * 8).encrypt(rc1 + rc2)
        return _tdes(sk, rc1).encrypt(rev8(bytes(data)))[-8:][::-1]

    def command(self, cmd):
        if cmd[1] == 0 and (cmd[2], cmd[3]) not in ((0xFF, 0xFF), (0x88, 0xB4), (0x12, 0xFC)):
            return None
        if cmd[1] == 6 and bytes(cmd[2:10]) == IDM:
            bl, pos = self.blocklist(cmd)
            if len(bl) <= 4 and all(b in self.blocks for b in bl) and 0x81 in bl:
                data = bytearray()
                for b in bl:
                    data += (self.mac(data) + bytes(8)) if b == 0x81 else (bytes(16) if b == 0x87 else self.blocks[b])
                return bytes([13 + len(data), 7]) + IDM + b"\0\0" + bytes([len(bl)]) + bytes(data)
        return SimT3.command(self, cmd)

    def read_block(self, b):
        return bytes(16) if b == 0x87 else self.blocks[b]


class SimLiteS(SimLite):
    """FeliCa Lite-S: write counter (0x90), MAC_A (0x91, write only together with a data block) and
    STATE (0x92).  A write with MAC is accepted once: the write counter is part of the MAC and every
    accepted write increments it, the identical frame is refused when it arrives again."""
    MAC_ERROR = (0x01, 0xB1)

    def __init__(self, ndef=b"", key=b"\0" * 16):
        SimLite.__init__(self, ndef, key)
        self.pmm = bytes([0x00, 0xF1, 0xFF, 0xFF, 0xFF, 0xFF, 0xFF, 0xFF])
        self.blocks[0x83] = bytearray(IDM + self.pmm)
        self.blocks[0x88] = bytearray(b"\xFF\xFF\xFF\x01\x07" + bytes(11))
        self.blocks[0x90] = bytearray(16)
        self.blocks[0x92] = bytearray(16)
        self.target = nfc.clf.RemoteTarget("212F", sensf_res=bytearray(b"\x01" + IDM + self.pmm + b"\x88\xB4"))

    def mac_a(self, number, data):
        def rev8(b):
            return b"".join(bytes(reversed(b[i:i + 8])) for i in range(0, len(b), 8))
        ck, rc = bytes(self.blocks[0x87]), bytes(self.blocks[0x80])
        ck1, ck2 = ck[0:8][::-1], ck[8:16][::-1]
        rc1, rc2 = rc[0:8][::-1], rc[8:16][::-1]
        sk = _tdes(ck1 + ck2, b"\0" * 8).encrypt(rc1 + rc2)
        head = bytes(self.blocks[0x90][0:3]) + bytes([0, number, 0, 0x91, 0])
        return _tdes(sk[8:16] + sk[0:8], rc1).encrypt(rev8(head + bytes(data)))[-8:][::-1]

    def once(self, cmd):
        """reason code with which the identical frame is refused when it is executed a second time"""
        if cmd[1] == 8 and bytes(cmd[2:10]) == IDM:
            bl, pos = self.blocklist(cmd)
            if len(bl) == 2 and bl[1] == 0x91:
                return self.MAC_ERROR[0] << 8 | self.MAC_ERROR[1]
        return None

    def bump(self):
        w = min(int.from_bytes(self.blocks[0x90][0:3], "little") + 1, 0xFFFFFF)
        self.blocks[0x90][0:3] = w.to_bytes(3, "little")

    def command(self, cmd):
        if cmd[1] == 8 and bytes(cmd[2:10]) == IDM:
            bl, pos = self.blocklist(cmd)
            data = bytes(cmd[pos:])
            if len(bl) == 2 and bl[1] == 0x91 and bl[0] in self.blocks and len(data) == 32:
                d16, maca = data[0:16], data[16:32]
                if maca[0:8] != self.mac_a(bl[0], d16) or maca[8:11] != bytes(self.blocks[0x90][0:3]):
                    return self.status(8, *self.MAC_ERROR)
                self.applied.append(("w", tuple(bl), d16))
                self.blocks[bl[0]] = bytearray(d16)
                self.bump()
                return self.status(8, 0, 0)
            rsp = SimLite.command(self, cmd)
            if rsp is not None and rsp[10] == 0:
                self.bump()
            return rsp
        return SimLite.command(self, cmd)


# ------------------------------------------------------------------ Type 4
class SimT4(object):
    """ISO-DEP card (single blocks and response chaining, no WTX) with the NDEF application"""
    present = True

    def __init__(self, ndef=b"", mle=64, mlc=32, mfs=256, fwi=8, typeb=False):
        self.cc = struct.pack(">HBHHBB2sHBB", 15, 0x20, mle, mlc, 4, 6, b"\xE1\x04", mfs, 0, 0)
        self.answer_to = None       # the command APDU whose response is in `last`
        self.file = bytearray(mfs)
        self.file[0:2] = struct.pack(">H", len(ndef))
        self.file[2:2 + len(ndef)] = ndef
        self.mle, self.mlc, self.fwi = mle, mlc, fwi
        self.sel = None
        self.bn = 1
        self.last = None
        self.chain = b""
        self.applied = []
        self.log_apdu = []
        self.target = nfc.clf.RemoteTarget("106A", sens_res=bytearray(b"\x44\x03"), sel_res=bytearray(b"\x20"),
                                           sdd_res=bytearray(b"\x04\x02\x03\x04\x05\x06\x07"))
        if typeb:
            # SENSB_RES: 50h, PUPI, application data, protocol info (FSCI 8 / FWI fwi)
            self.target = nfc.clf.RemoteTarget("106B", sensb_res=bytearray(
                b"\x50\x01\x02\x03\x04" + bytes(4) + bytes([0x00, 0x81, fwi << 4])))

    def ndef_now(self):
        ln = self.file[0] << 8 | self.file[1]
        return bytes(self.file[2:2 + ln])

    @staticmethod
    def token(d):
        pcb = d[0]
        if pcb == 0xE0:
            return "rats"
        if pcb == 0x1D:
            return "attrib"
        if pcb & 0xC0 == 0:
            a = d[1:]
            if len(a) < 4 or a[0] != 0:
                return "cont"               # continuation of a chained command
            ins = a[1] if len(a) > 1 else 0
            if ins == 0xA4:
                return "sel" + ("A" if a[2] == 4 else bytes(a[5:7]).hex())
            if ins in (0xB0, 0xD6):
                return ("rd" if ins == 0xB0 else "up") + "%d" % (a[2] << 8 | a[3])
            return "i%d" % ins
        if pcb & 0xF6 == 0xB2:
            return "nak"
        if pcb & 0xF6 == 0xA2:
            return "ack"
        return "u%d" % pcb

    def apdu(self, a):
        ins, p1, p2, body = a[1], a[2], a[3], a[4:]
        self.log_apdu.append(bytes(a))
        if ins == 0xA4:
            if p1 == 4:
                return b"\x90\x00" if bytes(body[1:1 + body[0]]) == b"\xD2\x76\x00\x00\x85\x01\x01" else b"\x6A\x82"
            self.sel = bytes(body[1:1 + body[0]])
            return b"\x90\x00" if self.sel in (b"\xE1\x03", b"\xE1\x04") else b"\x6A\x82"
        f = self.cc if self.sel == b"\xE1\x03" else self.file
        off = p1 << 8 | p2
        if ins == 0xB0:
            le = (body[0] if len(body) == 1 else 0) or 256
            if off > len(f):
                return b"\x6A\x86"
            return bytes(f[off:off + le]) + b"\x90\x00"
        if ins == 0xD6:
            lc = body[0]
            if lc > self.mlc or lc == 0 or self.sel != b"\xE1\x04" or off + lc > len(f):
                return b"\x67\x00"
            self.applied.append(("u", off, bytes(body[1:1 + lc])))
            f[off:off + lc] = body[1:1 + lc]
            return b"\x90\x00"
        return b"\x6D\x00"

    def command(self, d):
        pcb = d[0]
        if pcb in (0xE0, 0x1D):                 # RATS / ATTRIB: protocol activation, block numbering starts again
            self.bn, self.last, self.chain, self.sel = 1, None, b"", None
            return bytes([0x05, 0x78, 0x80, self.fwi << 4, 0x02]) if pcb == 0xE0 else b"\x00"
        if pcb & 0xC0 == 0:
            if pcb & 1 == self.bn:          # not the expected block number: rule 11 does not apply, ignore
                return None
            self.bn ^= 1
            self.chain += bytes(d[1:])
            if pcb & 0x10:                  # command chaining: acknowledge, wait for the rest
                self.last = bytes([0xA2 | self.bn])
                return self.last
            apdu, self.chain = self.chain, b""
            self.last = bytes([0x02 | self.bn]) + self.apdu(apdu)
            self.answer_to = bytes(apdu)
            return self.last
        if pcb & 0xF6 == 0xB2:              # R(NAK)
            if pcb & 1 == self.bn and self.last is not None:
                return self.last            # rule 11: retransmit
            return bytes([0xA2 | self.bn])  # rule 12: R(ACK)
        return None


# ------------------------------------------------------------------ tag kinds
NDEF0 = bytes.fromhex("d1010a55036e666370792e6f7267")      # 14 octets


def build(kind):
    """-> (sim, air, tag) activated without faults"""
    if kind == "t1s":
        sim = SimT1(b"\x11\x00", t1_memory(False, NDEF0))
    elif kind == "t1d":
        sim = SimT1(b"\x12\x00", t1_memory(True, NDEF0 * 9))
    elif kind == "topaz":
        sim = SimT1(b"\x11\x48", t1_memory(False, NDEF0))
    elif kind == "topaz512":
        sim = SimT1(b"\x12\x4C", t1_memory(True, NDEF0 * 9))
    elif kind == "t2":
        sim = SimT2(t2_memory(64, NDEF0))
    elif kind == "t2big":
        sim = SimT2(t2_memory(2096, (NDEF0 * 75)[:1040], cc2=255))
    elif kind == "ul":
        sim = SimT2(t2_memory(64, NDEF0), uid0=4)
    elif kind == "ulc":
        sim = SimT2(t2_memory(192, NDEF0, cc2=18), uid0=4, ulc=True)
    elif kind == "ntag203":
        sim = SimT2(t2_memory(168, NDEF0, cc2=18), uid0=4, ntag203=True)
    elif kind == "ntag213":
        m = t2_memory(180, NDEF0, cc2=18)
        m[164:168] = b"\x04\x00\x00\xFF"
        sim = SimT2(m, uid0=4, version=bytes.fromhex("0004040201000F03"), pwd=b"\xFF\xFF\xFF\xFF\0\0")
    elif kind == "ntag210":
        m = t2_memory(80, NDEF0, cc2=6)
        m[64:68] = b"\x04\x00\x00\xFF"
        sim = SimT2(m, uid0=4, version=bytes.fromhex("0004040101000B03"), pwd=b"\xFF\xFF\xFF\xFF\0\0")
    elif kind == "ulev1":
        m = t2_memory(80, NDEF0, cc2=6)
        m[64:68] = b"\x04\x00\x00\xFF"
        sim = SimT2(m, uid0=4, version=bytes.fromhex("0004030101000B03"), pwd=b"\xFF\xFF\xFF\xFF\0\0")
    elif kind == "nt3h":
        # NTAG I2C 1K: sector 0 with user memory and configuration, session registers in sector 3
        sim = SimT2(t2_memory(4096, NDEF0, cc2=0x6D), uid0=4, version=bytes.fromhex("0004040502011303"))
    elif kind == "t3":
        sim = SimT3(4, 2, 20, NDEF0 * 5)
    elif kind == "t3std":
        sim = SimT3(4, 2, 20, NDEF0 * 5, ic=0x20, standard=True)
    elif kind == "lite":
        sim = SimLite(NDEF0 * 3)
    elif kind == "lites":
        sim = SimLiteS(NDEF0 * 3)
    elif kind == "t4":
        sim = SimT4(NDEF0 * 5)
    elif kind == "t4chain":
        sim = SimT4(NDEF0 * 5, mle=255, mlc=255, mfs=2048)     # UPDATE BINARY of 255 octets = two ISO-DEP blocks
    elif kind == "t4b":
        sim = SimT4(NDEF0 * 3, typeb=True)
    elif kind == "t4slow":
        sim = SimT4(NDEF0 * 2, fwi=11)         # frame waiting time 0.62 s: one R(NAK) retry only
    else:
        raise ValueError(kind)
    air = Air(sim)
    tag = nfc.tag.activate(air, sim.target)
    return sim, air, tag


KINDS = ["t2", "t2big", "ul", "ulc", "ntag203", "ntag213", "ntag210", "ulev1", "nt3h", "t3", "t3std", "lite", "lites",
         "t1s", "t1d", "topaz", "topaz512", "t4", "t4b", "t4slow", "t4chain"]
