"""ISO/IEC 14443-4 PICC and a faulty air interface for the ISO-DEP checks (C12).

`IsoCard` is written from the standard (block numbering rules C, D, E; block
handling rules 2, 3, 9-13; no CID, no NAD): it toggles its block number for
every I-block, acknowledges chained I-blocks, executes the command when the
last block of a chain arrives, chains its response in blocks of `chunk`
octets, retransmits its last block for an R-block carrying its own block
number, answers R(NAK) with the other number by R(ACK), continues chaining
for R(ACK) with the other number, and may ask for waiting time (S(WTX))
before any block it sends.

`Air` is the `clf` handed to nfcpy: `exchange(data, timeout)` moves one block
to the card and the answer back; each leg consumes one letter of the fault
script: d deliver, l lose, c corrupt (receiver detects it), p reader reports
a protocol error, e reader returns an empty frame.  RATS / ATTRIB are
answered without faults and are not part of the trace.
"""
import nfc.clf

FSC_TABLE = (16, 24, 32, 40, 48, 64, 96, 128, 256)


def tie_app(rlen, sw):
    """response = rlen octets that depend on command, execution number and position, then SW"""
    def app(n, cmd):
        s = sum(cmd) + 7 * n + len(cmd)
        return bytes((s + 13 * i) % 256 for i in range(rlen)) + bytes(sw)
    return app


class IsoCard:
    def __init__(self, chunk, wtx_i=0, wtx_ack=0, wtx_chain=0, wtxm=1, app=None):
        self.chunk, self.wtx_i, self.wtx_ack, self.wtx_chain, self.wtxm = chunk, wtx_i, wtx_ack, wtx_chain, wtxm
        self.app = app or (lambda n, cmd: b"\x90\x00")
        self.bn = 1                # rule C
        self.last = None
        self.rxbuf = b""
        self.txq = b""
        self.pend = None           # (block, further WTX requests)
        self.log = []
        self.wtx_sent = 0

    def _emit(self, blk, nw):
        if nw == 0:
            self.last, self.pend = blk, None
        else:
            self.last, self.pend = bytes([0xF2, self.wtxm]), (blk, nw - 1)
            self.wtx_sent += 1
        return self.last

    def _iblock(self, data):
        inf, rest = data[:self.chunk], data[self.chunk:]
        self.txq = rest
        return bytes([(0x12 if rest else 0x02) | self.bn]) + inf

    def rx(self, blk):
        """error-free block from the PCD -> answer block or None (mute)"""
        blk = bytes(blk)
        if not blk:
            return None
        pcb, inf = blk[0], blk[1:]
        if pcb & 0xEE == 0x02:                       # I-block
            self.bn ^= 1                             # rule D
            self.rxbuf += inf
            self.pend = None
            if pcb & 0x10:                           # rule 2
                self.txq = b""
                return self._emit(bytes([0xA2 | self.bn]), self.wtx_ack)
            cmd, self.rxbuf = self.rxbuf, b""
            rsp = bytes(self.app(len(self.log), cmd))
            self.log.append(cmd)
            return self._emit(self._iblock(rsp), self.wtx_i)      # rule 10
        if pcb & 0xEE == 0xA2 and not inf:           # R-block
            if pcb & 1 == self.bn:                   # rule 11
                return self.last
            if pcb & 0x10:                           # rule 12
                return bytes([0xA2 | self.bn])
            if self.txq:                             # rules E, 13
                self.bn ^= 1
                self.pend = None
                return self._emit(self._iblock(self.txq), self.wtx_chain)
            return None
        if pcb == 0xF2 and len(inf) == 1:            # S(WTX) response, rule 3
            if self.pend is not None:
                return self._emit(*self.pend)
            return None
        return None


class ScriptCard:
    """a card that does not follow any rule: it answers from a list (None = mute), mute when the list is used up"""

    def __init__(self, replies):
        self.replies = list(replies)
        self.log, self.bn, self.wtx_sent = [], 0, 0

    def rx(self, blk):
        return self.replies.pop(0) if self.replies else None


class CycleCard:
    """a card that answers from a list and then repeats a second list for ever (None = mute; empty second list:
    mute for ever) - the endless S(WTX) / R(ACK) / chaining floods and whatever precedes them"""

    def __init__(self, prefix, cycle):
        self.prefix, self.cycle, self.k = list(prefix), list(cycle), 0
        self.log, self.bn, self.wtx_sent = [], 0, 0

    def rx(self, blk):
        if self.prefix:
            return self.prefix.pop(0)
        if not self.cycle:
            return None
        r = self.cycle[self.k % len(self.cycle)]
        self.k = (self.k + 1) % len(self.cycle)
        return r


class SimLimit(RuntimeError):
    """the code under test did not stop exchanging blocks"""


class Air:
    """fake ContactlessFrontend: scripted faulty channel in front of an IsoCard"""

    def __init__(self, card, script="", max_send=256, max_recv=256, ats=None, attrib_res=b"\x00", cap=400):
        self.card, self.script, self.pos = card, script, 0
        self.max_send_data_size, self.max_recv_data_size = max_send, max_recv
        self.ats, self.attrib_res = ats, attrib_res
        self.trace = []            # (block, timeout) of every ISO-DEP exchange
        self.activation = []       # RATS / ATTRIB commands seen
        self.activated = False
        self.cap = cap
        self.faults_used = 0
        self.answers = []          # per entry of trace: the block handed back to the reader, or the exception name

    def _fault(self):
        f = self.script[self.pos] if self.pos < len(self.script) else "d"
        self.pos += 1
        if f != "d":
            self.faults_used += 1
        return f

    def exchange(self, data, timeout):
        data = bytes(data)
        if not self.activated:
            self.activated = True
            self.activation.append((data, timeout))
            if data[:1] == b"\xE0":
                return bytearray(self.ats)
            if data[:1] == b"\x1D":
                return bytearray(self.attrib_res)
            raise nfc.clf.TimeoutError
        if len(self.trace) >= self.cap:
            raise SimLimit("more than %d block exchanges" % self.cap)
        self.trace.append((data, timeout))
        self.answers.append("TimeoutError")
        if self._fault() != "d":
            raise nfc.clf.TimeoutError
        rsp = self.card.rx(data)
        if rsp is None:
            raise nfc.clf.TimeoutError
        f = self._fault()
        if f == "d":
            self.answers[-1] = bytes(rsp)
            return bytearray(rsp)
        if f == "l":
            raise nfc.clf.TimeoutError
        if f == "c":
            self.answers[-1] = "TransmissionError"
            raise nfc.clf.TransmissionError
        if f == "p":
            self.answers[-1] = "ProtocolError"
            raise nfc.clf.ProtocolError
        self.answers[-1] = b""
        return bytearray()
