"""Thorough-tier search with the complete stack: two real LogicalLinkControllers
running run_as_initiator / run_as_target in threads, coupled by a reliable
in-memory MAC, real SnepServer / SnepClient on top.  Search only: runs use
real time, so only wrong deliveries are reported, a run that does not finish
in time is counted as inconclusive."""
import queue
import threading

import ndef
import nfc
import nfc.clf
import nfc.llcp
import nfc.llcp.llc as llc
import nfc.snep


class PipeMac:
    """stands in for nfc.dep.Initiator/Target: reliable in-order frame exchange"""

    def __init__(self, role, rx, tx):
        self.role, self.rx, self.tx = role, rx, tx
        self.rwt = 0.01
        self.maxlen = 0

    def exchange(self, send_data, timeout):
        if send_data is not None:
            self.maxlen = max(self.maxlen, len(send_data))
            self.tx.put(bytes(send_data))
        try:
            d = self.rx.get(timeout=3.0)
        except queue.Empty:
            raise nfc.clf.TimeoutError
        if d is None:
            raise nfc.clf.BrokenLinkError
        return bytearray(d)

    def deactivate(self, *a, **k):
        self.tx.put(None)


def mkllc(miu, agf, peer_miu):
    L = llc.LogicalLinkController(miu=miu, agf=agf, sec=False, lto=3000)
    L.cfg['send-miu'] = peer_miu
    L.cfg['recv-lto'] = 3000
    L.cfg['send-wks'] = 0
    L.cfg['llcp-dpc'] = 0
    return L


def run(miuA, miuB, agf, srv_miu, srv_rw, msg, max_acc, op, resp, cli_acc, client_is_initiator=True):
    got = []

    class Srv(nfc.snep.SnepServer):
        def process_put_request(self, records):
            got.append(("p", b''.join(ndef.message_encoder(records))))
            return 0x81

        def process_get_request(self, records):
            got.append(("g", b''.join(ndef.message_encoder(records))))
            return list(ndef.message_decoder(resp, known_types={}))

    qa, qb = queue.Queue(), queue.Queue()
    A = mkllc(miuA, agf, miuB)
    B = mkllc(miuB, agf, miuA)
    A.mac = PipeMac('I', qa, qb)
    B.mac = PipeMac('T', qb, qa)
    cl_llc, sv_llc = (A, B) if client_is_initiator else (B, A)
    srv = Srv(sv_llc, max_acceptable_length=max_acc, recv_miu=srv_miu, recv_buf=srv_rw)
    srv.daemon = True
    srv.start()
    stop = [False]
    ta = threading.Thread(target=lambda: A.run_as_initiator(terminate=lambda: stop[0]), daemon=True)
    tb = threading.Thread(target=lambda: B.run_as_target(terminate=lambda: stop[0]), daemon=True)
    A.link.ESTABLISHED = True
    tb.start()
    ta.start()
    res = {}

    def client():
        try:
            c = nfc.snep.SnepClient(cl_llc, max_ndef_msg_recv_size=cli_acc)
            if op == 'p':
                res['r'] = c.put_octets(msg, timeout=5.0)
            else:
                res['r'] = c.get_octets(msg, timeout=5.0)
        except nfc.snep.SnepError as e:
            res['r'] = "SnepError(%d)" % e.errno
        except Exception as e:  # noqa
            res['exc'] = type(e).__name__ + ' ' + str(e)
    tc = threading.Thread(target=client, daemon=True)
    tc.start()
    tc.join(12)
    res['stuck'] = tc.is_alive()
    stop[0] = True
    ta.join(5)
    tb.join(5)
    srv.join(3)
    alive = (ta.is_alive(), tb.is_alive(), srv.is_alive())
    return got, res, (A.mac.maxlen, B.mac.maxlen), alive


def search(ck, rng, ndefs, runs=40):
    inconclusive = 0
    done = 0
    for trial in range(runs):
        miuA = rng.choice([128, 129, 200, 248, 1000, 2175])
        miuB = rng.choice([128, 131, 248, 2175])
        agf = rng.random() < 0.5
        srv_miu = rng.choice([128, 200, 1984])
        srv_rw = rng.choice([1, 2, 15])
        role = rng.random() < 0.5
        op = rng.choice("ppg")
        base = min(srv_miu, miuB if role else miuA)
        size = max(3, rng.choice([1, 2, 3]) * base - (6 if op == "p" else 10) + rng.randrange(-8, 9))
        recs = ndefs.message(rng, size) or ndefs.message(rng, size + 3)
        msg = ndefs.enc(recs)
        eff = len(msg) + (4 if op == "g" else 0)
        max_acc = rng.choice([0x100000, eff, eff + 1, max(0, eff - 1)])
        rsize = rng.choice([3, 100, 122, 123, 128, 250, 400])
        resp = ndefs.enc(ndefs.message(rng, rsize))
        cli_acc = rng.choice([1024, rsize, rsize - 1])
        got, res, maxlen, alive = run(miuA, miuB, agf, srv_miu, srv_rw, msg, max_acc, op, resp, cli_acc, role)
        params = dict(miuA=miuA, miuB=miuB, agf=agf, srv_miu=srv_miu, srv_rw=srv_rw, op=op, size=len(msg),
                      max_acc=max_acc, resp=len(resp), cli_acc=cli_acc, client_is_initiator=role, msg=msg.hex())
        ck.case(("fullstack", trial, sorted((k, v) for k, v in params.items() if k != "msg")), True, "fullstack:" + op)
        reject = eff > max_acc
        if res.get('stuck') or res.get('exc') or any(alive):
            inconclusive += 1
            # still: whatever was delivered must be right
        done += 1
        if reject:
            if got:
                ck.fail("fullstack-oversize-delivered", "message of %d octets above limit %d reached the callback" % (eff, max_acc), params)
        else:
            if got and got != [(op, msg)]:
                ck.fail("fullstack-delivery-not-intact", "callbacks saw %s, sent one %s of %d octets"
                        % ([(k, len(o)) for k, o in got], op, len(msg)), params)
            elif not got and not (res.get('stuck') or res.get('exc')):
                ck.fail("fullstack-not-delivered", "client result %s but nothing delivered" % (res,), params)
            if op == "g" and not res.get('stuck') and not res.get('exc') and got:
                want = "SnepError(193)" if len(resp) > cli_acc else bytes(resp)
                r = res.get('r')
                r = bytes(r) if isinstance(r, (bytes, bytearray)) else r
                if r != want:
                    ck.fail("fullstack-get-response-not-intact", "get returned %r, expected %r" % (str(r)[:60], str(want)[:60]), params)
        peer = {0: miuB, 1: miuA}
        for i in (0, 1):
            if maxlen[i] - 2 > max(peer[i], 128) + 0 and not agf:
                pass  # link-level MIU conformance is C04/C10 territory
    ck.count("fullstack-runs", done)
    ck.count("fullstack-inconclusive(timing)", inconclusive)
    ck.notes.append("complete-stack search: %d runs with two real LogicalLinkControllers over an in-memory MAC, %d inconclusive"
                    % (done, inconclusive))
