"""C02: histories of NDEF assignments through ONE tag object with communication faults, observed after EVERY attempt.

Uses the fault layer and the per-kind objects of sims/c01_hist.py (not changed here): an attempt is
`(octets, fault)` with fault None or `(k, mode)`: state-changing command k of that attempt fails

  "lost"    not executed, no answer to it nor to its retransmissions       (also: the power cut after k commands)
  "late"    executed by the tag, the answers (also to retransmissions) lost (also: the power cut after k+1 commands)
  "status"  refused with an error status / NAK, not executed

After every attempt a FRESH activation reads a copy of the simulated memory.  The canonical line is what
lean/Drv/C02.lean prints for the models `NfcVerif.Hist.historyR` / `history` / `t3History` / `t4History`:

    <res> <cmds> <view> | <res> <cmds> <view> | ...
"""
from common import hx, exc_name
from sims.c01_hist import Obj as _Obj, MODES as _MODES, FT4
from sims.t34_sims import T4Sim, CommandBudgetExceeded

# Type 4: besides the refused UPDATE BINARY (`status`) an UPDATE BINARY that the card EXECUTES and then answers with
# 6F00h (`late`: for the reader the command failed, for the tag it did not)
MODES = dict(_MODES, t4=("status", "late"))


class FT4L(FT4):
    def apdu(self, a):
        if getattr(self, "_fault", None) is not None and len(a) >= 5 and a[1] == 0xD6 and self.sel == self.fid:
            k, mode = self._fault
            if self._nw == k and mode == "late":
                self._fault = None
                self.triggered = True
                sw = T4Sim.apdu(self, a)
                return b"\x6F\x00" if sw[-2:] == b"\x90\x00" else sw
        return FT4.apdu(self, a)


class Obj(_Obj):
    """the per-kind object of sims/c01_hist with the Type 4 simulator that also knows `late`"""

    def __init__(self, kind, lay):
        if kind != "t4":
            _Obj.__init__(self, kind, lay)
            return
        self.kind, self.lay = kind, lay
        self.sim = FT4L(lay.cc, lay.file, lay.mle, lay.mlc, lay.fid)
        self.sim.begin(None)
        self.nd = None
        self.start = None
        try:
            self.tag = self.sim.activate()
            self.nd = self.tag.ndef
        except CommandBudgetExceeded:
            self.start = "exc OutOfFuel"
        except Exception as e:  # noqa
            self.start = "exc " + exc_name(e)
        if self.nd is None and self.start is None:
            self.start = "none"
        if self.nd is not None:
            self.cap = self.nd.capacity
            self.old = bytes(self.nd.octets)


class HistRun(object):
    def __init__(self, kind, lay, attempts):
        self.kind, self.lay = kind, lay
        self.attempts = [(bytes(d), f) for d, f in attempts]
        o = self.obj = Obj(kind, lay)
        self.base = o.memory()
        self.results, self.triggered, self.ncmds, self.cmds = [], [], [], []
        self.views = []          # (canonical line, octets | None, capacity | None) after every attempt
        self.mems = []
        if o.nd is None:
            self.line = o.start
            return
        self.old, self.cap = o.old, o.cap
        parts = []
        for data, fault in self.attempts:
            res, cmds, trig = o.assign(data, fault)
            view = o.fresh()
            self.results.append(res)
            self.triggered.append(trig)
            self.cmds.append(cmds)
            self.ncmds.append(0 if cmds == "-" else cmds.count(",") + 1)
            self.views.append(view)
            self.mems.append(o.memory())
            parts.append("%s %s %s" % (res, cmds, view[0]))
        self.line = " | ".join(parts)

    def request(self, var="111", repaired=True):
        lay = self.lay
        att = ",".join("%s:%s" % (hx(d), "n" if f is None else "%s%d" % ({"lost": "l", "late": "e", "status": "l"}[f[1]], f[0]))
                       for d, f in self.attempts)
        if self.kind in ("t2", "t1s", "t1d"):
            return "h12 %s %s %s %s" % ("r" if repaired else "a", self.kind, hx(self.base), att)
        if self.kind in ("t3", "emu"):
            return "h3 %s %s" % (hx(self.base), att)
        return "h4 %s %s %s %s %d %d %s" % (var, hx(lay.cc), hx(self.base), hx(lay.fid), lay.mle, lay.mlc, att)

    def replay(self):
        lay = self.lay
        d = {"kind": self.kind,
             "memory_before": self.base.hex() if len(self.base) <= 4096 else self.base[:4096].hex() + "...",
             "attempts": [{"octets": x.hex() if len(x) <= 600 else x[:600].hex() + "...(%d)" % len(x),
                           "fault": None if f is None else {"state_changing_command": f[0], "mode": f[1]},
                           "result": r, "fresh_reader_sees": (v[0][:200] if v else None)}
                          for (x, f), r, v in zip(self.attempts, self.results + [None] * len(self.attempts),
                                                  self.views + [None] * len(self.attempts))]}
        if self.kind in ("t1s", "t1d"):
            d["header_rom"] = lay["hr"].hex()
        elif self.kind in ("t3", "t4", "emu"):
            d["layout"] = {k: v for k, v in lay.descr().items() if k not in ("mem",)}
        return d


def describe(h):
    return "; ".join("attempt %d: %d octets, %s -> %s" % (i, len(d), "no fault" if f is None else
                                                          "command %d %s" % (f[0], f[1]), r)
                     for i, ((d, f), r) in enumerate(zip(h.attempts, h.results)))


def probe_unconfirmed_repair():
    """does the tree under test send the unit of an unacknowledged write again (fixes/C02/0002)?  NDEF TLV at 18 of a
    64 byte Type 2 Tag, `01 02 03` written with the last WRITE executed but unacknowledged, then the empty message."""
    mem = bytearray(64)
    mem[12:23] = bytes([0xE1, 0x10, 6, 0, 0, 0, 3, 2, 0xAA, 0xBB, 0xFE])
    h = HistRun("t2", {"kind": "t2", "mem": mem}, [(b"\x01\x02\x03", (2, "late")), (b"", None)])
    return h.results == ["fail", "ok"] and h.views[-1][1] == b""
