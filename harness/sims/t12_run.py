"""Shared driver code of the Type 1/2 parts of C01, C02, C03: runs the real
nfcpy NDEF reader/writer against the plain-memory simulators of t12_tags and
renders the observable behaviour in the canonical form that lean/Drv/T12.lean
prints for the model."""
import nfc
import nfc.tag

from common import hx, exc_name
from sims.t12_tags import T2Sim, T1Sim, activate, clone, make_sim, gen_layout, gen_boundary_layout, put_ndef


def canon_skip(s):
    out, run = [], None
    for a in sorted(s):
        if run and a == run[1]:
            run[1] = a + 1
        else:
            run = [a, a + 1]
            out.append(run)
    return ",".join("%d-%d" % (a, b) for a, b in out) or "-"


def area_end(kind, mem):
    return mem[14] * 8 + 16 if kind == "t2" else (mem[10] + 1) * 8


def read_line(kind, sim):
    """canonical line of what a fresh activation reads; also returns (tag, ndef)"""
    tag = activate(sim)
    try:
        nd = tag.ndef
    except Exception as e:  # noqa
        return "exc " + exc_name(e), tag, None
    if nd is None:
        return "none", tag, None
    line = "L %d %d %d %d %d %s %s" % (nd._ndef_tlv_offset, nd.capacity, int(nd.is_readable), int(nd.is_writeable),
                                      area_end(kind, sim.mem), canon_skip(nd._skip_bytes), hx(nd.octets))
    return line, tag, nd


def show_cmds(ws):
    return ",".join("%d:%s" % (a, bytes(d).hex()) for a, d in ws) or "-"


def classify(kind, sim, old, new):
    try:
        tag = activate(sim)
        nd = tag.ndef
    except Exception as e:  # noqa
        return "X" + exc_name(e)
    if nd is None:
        return "N"
    if not nd.is_readable:
        return "U"
    o = bytes(nd.octets)
    if o == old:
        return "O"
    if o == b"":
        return "E"
    if o == new:
        return "W"
    return "C%d" % len(o)


class Run(object):
    """one write of `data` onto layout `lay` by the real code"""

    def __init__(self, lay, data, cuts=False, max_cuts=None):
        kind = lay["kind"]
        self.kind, self.lay, self.data = kind, lay, bytes(data)
        self.base = bytes(lay["mem"])
        sim = make_sim(lay, self.base)
        self.sim = sim
        self.before, tag, nd = read_line(kind, sim)
        self.nd = nd
        self.line = self.before
        self.wrote = None          # "ok" | "exc Name"
        self.cmds = []
        self.after = None
        self.cut_classes = None
        self.ncmd_before_exc = None
        if nd is None:
            return
        self.old = bytes(nd.octets)
        self.cap = nd.capacity
        self.off = nd._ndef_tlv_offset
        self.skip = set(nd._skip_bytes)
        sim.arm(None)
        n0 = sim.ncmd
        try:
            nd.octets = self.data
            self.wrote = "ok"
        except Exception as e:  # noqa
            self.wrote = "exc " + exc_name(e)
        self.ncmd_write = sim.ncmd - n0
        self.cmds = list(sim.writes)
        self.final = bytes(sim.mem)
        self.after, _, nd2 = read_line(kind, clone(sim))
        self.readback = None if nd2 is None else bytes(nd2.octets)
        self.readback_cap = None if nd2 is None else nd2.capacity
        self.line = "%s | %s | %s | %s" % (self.before, self.wrote, show_cmds(self.cmds), self.after)
        if cuts:
            self.cut_classes = []
            self.cut_errors = []
            n = len(self.cmds)
            for k in range(n + 1):
                s = make_sim(lay, self.base)
                t = activate(s)
                d = t.ndef
                s.arm(k)
                try:
                    d.octets = self.data
                except nfc.tag.TagCommandError:
                    pass
                except Exception as e:  # noqa
                    if k < n or self.wrote == "ok":
                        self.cut_errors.append((k, exc_name(e)))
                self.cut_classes.append(classify(kind, clone(s), self.old, self.data))
            self.line += " | " + " ".join(self.cut_classes)

    def request(self, cuts=None):
        cuts = self.cut_classes is not None if cuts is None else cuts
        return "w %s %s %s %d" % (self.kind, hx(self.base), hx(self.data), int(cuts))

    def replay(self):
        d = {"kind": self.kind, "memory": self.base.hex(), "data": self.data.hex(), "request": self.request()}
        if self.kind != "t2":
            d["header_rom"] = self.lay["hr"].hex()
        return d


BOUNDARY_FREE = [2, 3, 4, 5] + list(range(253, 262))


def layout_with_old(rng, kind, big, oldlens, target_free=None):
    """well-formed random layout carrying a previous message; `target_free`: exact number of
    non-reserved bytes from the NDEF TLV to the end of the data area"""
    for _ in range(50):
        lay = gen_layout(rng, kind, big) if target_free is None else gen_boundary_layout(rng, kind, target_free)
        if not lay["ok"]:
            continue
        free = len([a for a in range(lay["off"], lay["end"]) if a not in lay["skip"]])
        oldlen = rng.choice(oldlens)
        if callable(oldlen):
            oldlen = oldlen(free)
        oldlen = max(0, min(oldlen, free - (4 if oldlen >= 255 else 2)))
        old = bytes(rng.randrange(256) for _ in range(oldlen))
        if rng.random() < 0.2:
            old = bytes([rng.choice([0, 0xFF, 0xFE, 3])]) * oldlen
        if not put_ndef(lay["mem"], lay["off"], lay["skip"], old, lay["end"]):
            if not put_ndef(lay["mem"], lay["off"], lay["skip"], b"", lay["end"]):
                continue
            old = b""
        lay["old"] = old
        lay["free"] = free
        return lay
    raise RuntimeError("layout generator exhausted")


def hdr(n):
    return 2 if n < 255 else 4


def spec_capacity(free):
    """largest message length that fits into `free` bytes together with its TLV header"""
    best = -1
    for n in (free - 2, free - 4):
        if n >= 0 and n + hdr(n) <= free:
            best = max(best, n)
    return best


class Retry(object):
    """write of `d1` whose command number k (0-based) is lost (the exception reaches the
    application), then `d2` assigned on the SAME NDEF object, the tag leaving the field after
    j further commands (j None: complete).  Everything by the real code."""

    def __init__(self, lay, d1, k, d2, j):
        kind = lay["kind"]
        self.kind, self.lay, self.d1, self.k, self.d2, self.j = kind, lay, bytes(d1), k, bytes(d2), j
        self.base = bytes(lay["mem"])
        sim = make_sim(lay, self.base)
        nd = activate(sim).ndef
        self.old = bytes(nd.octets)
        sim.lose(k)
        self.first = "ok"
        try:
            nd.octets = self.d1
        except nfc.tag.TagCommandError:
            self.first = "lost"
        except Exception as e:  # noqa
            self.first = "exc " + exc_name(e)
        self.failed = self.first == "lost"
        if not self.failed:
            self.line = "nofail"
            return
        self.after_fail, _, ndf = read_line(kind, clone(sim))
        self.seen_after_fail = None if ndf is None else bytes(ndf.octets)
        sim.lose_at = None
        sim.arm(j)
        self.second = "ok"
        try:
            nd.octets = self.d2
        except nfc.tag.TagCommandError:
            self.second = "cut"
        except Exception as e:  # noqa
            self.second = "exc " + exc_name(e)
        self.cmds = list(sim.writes)
        self.final, _, nd2 = read_line(kind, clone(sim))
        self.seen = None if nd2 is None else bytes(nd2.octets)
        self.line = "%s | %s | %s" % (self.after_fail, show_cmds(self.cmds), self.final)

    def request(self):
        return "rt %s %s %s %d %s %d" % (self.kind, hx(self.base), hx(self.d1), self.k, hx(self.d2),
                                         -1 if self.j is None else self.j)

    def replay(self):
        d = {"kind": self.kind, "memory": self.base.hex(), "first_message": self.d1.hex(), "lost_command": self.k,
             "second_message": self.d2.hex(), "cut_after": self.j, "request": self.request()}
        if self.kind != "t2":
            d["header_rom"] = self.lay["hr"].hex()
        return d
