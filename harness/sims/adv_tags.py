"""Adversarial tags for C08: a fake ``clf`` with a command budget in front of a
*responder* (any object with ``respond(cmd) -> bytes | None`` and ``sense() -> bool``).

Every interaction of the code under test with the outside world is one entry
of ``clf.log``: ``(command bytes, response bytes | None)``; ``clf.sense`` is the
interaction with the empty command (response ``b""`` = target found again,
``None`` = nothing found).  ``None`` = the tag does not answer (the driver
raises ``nfc.clf.TimeoutError``).  The log is exactly what the Lean model is
replayed against.

The budget turns an endless loop of the reader into ``BudgetExceeded`` - a
check can never hang (and never eats memory) on a tag that keeps the reader busy.
"""
import struct

import nfc
import nfc.clf
import nfc.tag


class BudgetExceeded(BaseException):
    """far more commands than any bound of the property allows: the reader loops"""


class AdvClf(object):
    def __init__(self, responder, budget, max_send=256, max_recv=256, stop_after=None, garble=None):
        self.rsp = responder
        self.budget = budget
        self.max_send_data_size = max_send
        self.max_recv_data_size = max_recv
        self.stop_after = stop_after      # the tag stops answering after that many interactions
        self.garble = garble or {}        # interaction index -> response override (bytes | None)
        self.log = []

    def _step(self, cmd):
        n = len(self.log)
        if n >= self.budget:
            raise BudgetExceeded("%d interactions" % n)
        if self.stop_after is not None and n >= self.stop_after:
            r = None
        else:
            r = self.rsp.sense() if cmd == b"" else self.rsp.respond(cmd)
            if cmd == b"":
                r = b"" if r else None
            if n in self.garble:
                r = self.garble[n]
        self.log.append((cmd, None if r is None else bytes(r)))
        return r

    def exchange(self, data, timeout):
        r = self._step(bytes(data))
        if r is None:
            raise nfc.clf.TimeoutError("no answer")
        return bytearray(r)

    def sense(self, *targets, **kw):
        r = self._step(b"")
        return None if r is None else (targets[0] if targets else None)


# --------------------------------------------------------------------------- Type 2
class T2Adv(object):
    """memory image of any length behind READ / SECTOR SELECT.

    beyond: what a READ past the end of the image does: 'wrap' (addresses are taken modulo the
    image length: the tag answers every address), 'nak', 'mute', 'short' (truncated answer).
    sectors: 'yes' (SECTOR SELECT works for every sector), 'no' (NAK), 'ack2' (second packet is
    answered, i.e. sector does not exist), 'junk' (first packet answered with two bytes)."""

    def __init__(self, mem, beyond="wrap", sectors="yes", nak=0x00, sdd=b"\x01\x02\x03\x04\x05\x06\x07",
                 sel_res=0x00, auth=None, version=None):
        self.mem = bytes(mem)
        self.beyond, self.sectors, self.nak = beyond, sectors, nak
        self.sdd, self.sel_res = bytes(sdd), sel_res
        self.auth, self.version = auth, version   # answers to 1A 00 / 60 (None = mute)
        self.sector = 0
        self.pending = False

    def target(self):
        return nfc.clf.RemoteTarget("106A", sens_res=bytearray(getattr(self, "sens", b"\x44\x00")), sel_res=bytearray([self.sel_res]),
                                    sdd_res=bytearray(self.sdd))

    def sense(self):
        self.sector = 0
        self.pending = False
        return True

    def at(self, a):
        return self.mem[a % len(self.mem)] if self.mem else 0

    def respond(self, cmd):
        if self.pending:
            self.pending = False
            if self.sectors == "ack2":
                return bytes([0x0A])
            if len(cmd) == 4:
                self.sector = cmd[0]
                return None      # passive ack
            return bytes([self.nak])
        if len(cmd) == 2 and cmd[0] == 0x30:
            a = self.sector * 1024 + cmd[1] * 4
            if a + 16 <= len(self.mem) or self.beyond == "wrap":
                return bytes(self.at(a + i) for i in range(16))
            if self.beyond == "nak":
                return bytes([self.nak])
            if self.beyond == "short":
                return self.mem[a:a + 16]
            return None
        if len(cmd) == 2 and cmd[0] == 0xC2:
            if self.sectors in ("yes", "ack2"):
                self.pending = True
                return bytes([0x0A])
            if self.sectors == "junk":
                return bytes([0x0A, 0x00])
            return bytes([self.nak])
        if cmd == b"\x1A\x00":
            return self.auth
        if cmd == b"\x60":
            return self.version
        return None


def t2_reference(mem_at, cc2):
    """independent reading of a Type 2 image (NFC Forum T2T TLV rules as nfcpy applies them):
    -> None | dict(off, length, addrs, area_end).  `mem_at(a)` = byte the tag shows at address a."""
    area_end = 16 + cc2 * 8
    skip = set()
    off = 16
    while off < area_end:
        while off in skip:
            off += 1
        t = mem_at(off)
        if t == 0:
            off += 1
            continue
        if t == 0xFE:
            return None
        ln = mem_at(off + 1)
        p = off + 2
        if ln == 255:
            ln = mem_at(off + 2) << 8 | mem_at(off + 3)
            p = off + 4
        head = p
        addrs = []
        for _ in range(ln):
            while p in skip:
                p += 1
            addrs.append(p)
            p += 1
        if t == 3:
            return {"off": off, "length": ln, "addrs": addrs, "area_end": area_end, "skip": skip, "head": head}
        if t in (1, 2) and ln == 3:
            v = [mem_at(a) for a in addrs]
            start = (v[0] >> 4) * (1 << (v[2] & 15)) + (v[0] & 15)
            size = v[1] or 256
            if t == 1:
                size = (size + 7) // 8
            skip.update(range(start, start + size))
        off += ln + 1 + (1 if ln < 255 else 3)
    return None


# --------------------------------------------------------------------------- Type 1
class T1Adv(object):
    """Topaz style memory: RALL, READ8 (block 15 only matters), RSEG.  `rall`, `read8`, `rseg`
    are length overrides (number of octets returned, None = regular); `maxseg`: RSEG beyond is mute
    unless wrap."""

    def __init__(self, hr, mem, uid=b"\x01\x02\x03\x04", rall=None, read8=None, rseg=None, wrap=True):
        self.hr, self.mem, self.uid = bytes(hr), bytes(mem), bytes(uid)
        self.rall, self.read8, self.rseg, self.wrap = rall, read8, rseg, wrap

    def target(self):
        return nfc.clf.RemoteTarget("106A", sens_res=bytearray(b"\x00\x0C"), rid_res=bytearray(self.hr + self.uid))

    def sense(self):
        return True

    def at(self, a):
        return self.mem[a % len(self.mem)] if self.mem else 0

    def seg(self, a, n):
        if not self.wrap and a + n > len(self.mem):
            return None
        return bytes(self.at(a + i) for i in range(n))

    def respond(self, cmd):
        c = cmd[0]
        if c == 0x00 and len(cmd) == 7:
            r = self.hr + bytes(self.at(i) for i in range(120))
            return r if self.rall is None else (r + bytes(200))[:self.rall]
        if c == 0x02 and len(cmd) == 14:
            d = self.seg(cmd[1] * 8, 8)
            if d is None:
                return None
            r = bytes([cmd[1]]) + d
            return r if self.read8 is None else (r + bytes(20))[:self.read8]
        if c == 0x10 and len(cmd) == 14:
            d = self.seg((cmd[1] >> 4) * 128, 128)
            if d is None:
                return None
            r = bytes([cmd[1]]) + d
            return r if self.rseg is None else (r + bytes(200))[:self.rseg]
        if c == 0x01 and len(cmd) == 7:
            return bytes([cmd[1], self.at(cmd[1])])
        return None


def t1_reference(mem_at):
    """independent reading of a Type 1 image; -> None | dict(...)"""
    if mem_at(8) != 0xE1 or mem_at(9) >> 4 != 1:
        return None
    area_end = (mem_at(10) + 1) * 8
    skip = set(range(104, 120 if area_end == 120 else 128))
    off = 12
    while off < area_end:
        if off in skip:
            off += 1
            continue
        t = mem_at(off)
        if t == 0:
            off += 1
            continue
        if t == 0xFE:
            return None
        ln = mem_at(off + 1)
        p = off + 2
        if ln == 255:
            ln = mem_at(off + 2) << 8 | mem_at(off + 3)
            p = off + 4
        head = p
        addrs = []
        for _ in range(ln):
            while p in skip:
                p += 1
            addrs.append(p)
            p += 1
        if t == 3:
            return {"off": off, "length": ln, "addrs": addrs, "area_end": area_end, "skip": skip, "head": head}
        if t in (1, 2) and ln == 3:
            v = [mem_at(a) for a in addrs]
            start = (v[0] >> 4) * (1 << (v[2] & 15)) + (v[0] & 15)
            size = v[1] or 256
            if t == 1:
                size = (size + 7) // 8
            skip.update(a for a in range(start, start + size) if a < 0x800)
        off += ln + 1 + (1 if ln < 255 else 3)
    return None


# --------------------------------------------------------------------------- Type 3
IDM = bytes(range(1, 9))


def t3_attr(ver, nbr, nbw, nmaxb, writef, rwflag, ln, rfu=b"\0\0\0\0", csum=None):
    a = bytearray(16)
    a[0], a[1], a[2] = ver, nbr, nbw
    a[3:5] = struct.pack(">H", nmaxb)
    a[5:9] = rfu
    a[9], a[10] = writef, rwflag
    a[11:14] = struct.pack(">I", ln)[1:]
    a[14:16] = struct.pack(">H", sum(a[:14]) if csum is None else csum)
    return bytes(a)


class T3Adv(object):
    """FeliCa style tag.  `blocks(n)` gives the content of block n (any n);  `lim`: max blocks per
    read the tag accepts (status error above), `nblocks`: blocks beyond are an error status / mute.
    `poll`: answer to the polling for 12FC ('ok' | 'mute' | 'short' | 'other-idm')."""

    def __init__(self, attr, data, ic=0xF0, sys=b"\x12\xFC", with_sys=True, lim=15, nblocks=None, beyond="err",
                 poll="ok", idm=IDM, status_len_bug=False, rr="mute", pmm=None):
        self.attr, self.data = bytes(attr), bytes(data)
        self.idm = bytes(idm)
        self.pmm = bytes([0, ic]) + b"\xFF" * 6 if pmm is None else bytes(pmm)
        self.rr = rr          # answer to Request Response: 'mute' | mode octet(s) as bytes
        self.sys, self.with_sys = bytes(sys), with_sys
        self.lim, self.beyond, self.poll = lim, beyond, poll
        self.nblocks = nblocks if nblocks is not None else 1 + (len(self.data) + 15) // 16
        self.status_len_bug = status_len_bug

    def target(self):
        return nfc.clf.RemoteTarget("212F", sensf_res=bytearray(b"\x01" + self.idm + self.pmm +
                                                                 (self.sys if self.with_sys else b"")))

    def sense(self):
        return True

    def block(self, n):
        if n == 0:
            return self.attr
        d = self.data[16 * (n - 1):16 * n]
        return d + bytes(16 - len(d))

    def respond(self, cmd):
        if len(cmd) < 2 or len(cmd) != cmd[0]:
            return None
        code = cmd[1]
        if code == 0:
            # poll: 'ok' | 'mute' | 'short' | 'other-idm' | 'extra' (two octets of request data although none was
            # requested) | 'noreq' (no request data although requested) | ('len', n): n data octets whatever was asked
            if self.poll == "mute":
                return None
            idm = self.idm if self.poll != "other-idm" else bytes(8)
            want = len(cmd) > 4 and cmd[4] in (1, 2)
            if self.poll == "extra":
                want = True
            if self.poll == "noreq":
                want = False
            r = idm + self.pmm[:8] + (b"\x12\xFC" if want else b"")
            if self.poll == "short":
                r = r[:10]
            if isinstance(self.poll, tuple):
                r = (r + bytes(range(40)))[:self.poll[1]]
            return bytes([2 + len(r), 1]) + r
        if code == 4 and cmd[2:10] == self.idm and self.rr != "mute":
            return bytes([10 + len(self.rr), 5]) + self.idm + bytes(self.rr)
        if cmd[2:10] != self.idm or code != 6:
            return None
        pos = 10
        nsvc = cmd[pos]
        pos += 1 + 2 * nsvc
        n = cmd[pos]
        pos += 1
        bl = []
        for _ in range(n):
            if cmd[pos] & 0x80:
                bl.append(cmd[pos + 1])
                pos += 2
            else:
                bl.append(cmd[pos + 1] | cmd[pos + 2] << 8)
                pos += 3
        err = bytes([12, 7]) + self.idm + b"\x01\xA2"
        if len(bl) > self.lim or not bl:
            return err
        if any(b >= self.nblocks for b in bl):
            if self.beyond == "mute":
                return None
            if self.beyond == "err":
                return err
        d = b"".join(self.block(b) for b in bl)
        if len(d) + 13 > 255:
            return err
        return bytes([13 + len(d), 7]) + self.idm + b"\0\0" + bytes([len(bl)]) + d


# --------------------------------------------------------------------------- Type 4
def t4_cc(ver, mle, mlc, tag, mfs, rf=0, wf=0, fid=b"\xE1\x04", cclen=None, plen=None):
    if tag == 6:
        body = struct.pack(">BHHBB2sIBB", ver, mle, mlc, 6, 8 if plen is None else plen, fid, mfs & 0xFFFFFFFF, rf, wf)
    else:
        body = struct.pack(">BHHBB2sHBB", ver, mle, mlc, tag, 6 if plen is None else plen, fid, mfs & 0xFFFF, rf, wf)
    n = 2 + len(body) if cclen is None else cclen
    return struct.pack(">H", n & 0xFFFF) + body


class T4Adv(object):
    """ISO 7816-4 NDEF application behind ISO-DEP framing, with adversarial options.

    apdu level: `read_mode`: 'ok' | 'empty' (READ BINARY answers 9000 without data) | 'over' (returns
    more than Le) | 'one' (one octet per answer) | 'sw' (6A86); `sel_app`: 'v2' | 'v1' | 'none';
    `short_apdu`: answer of one octet to the k-th apdu.
    frame level: `frame_mode`: 'ok' | 'wtx' (always S(WTX)) | 'ack' (always R(ACK) with the other
    block number) | 'chain' (every I-block has the chaining bit) | 'chain0' (chained blocks without
    INF) | 'badbn' (wrong block number) | 'empty' (empty frame)."""

    def __init__(self, cc, file, fid=b"\xE1\x04", kind="A", ats=b"\x05\x78\x80\x70\x02", sensb=None, attrib=b"\x00",
                 read_mode="ok", sel_app="v2", chunk=253, frame_mode="ok", frame_from=0, sel_res=0x20,
                 sdd=b"\x08\x01\x02\x03", read_from=2, cc_over=0, wtxm=1, flood_inf=1, flood_len=None):
        self.cc, self.file, self.fid = bytes(cc), bytes(file), bytes(fid)
        self.kind, self.ats, self.attrib = kind, ats, attrib
        self.sensb = sensb if sensb is not None else bytes([0x50, 1, 2, 3, 4, 0, 0, 0, 0, 0x00, 0x81, 0x70])
        self.read_mode, self.sel_app, self.chunk = read_mode, sel_app, chunk
        self.frame_mode, self.frame_from = frame_mode, frame_from
        self.sel_res, self.sdd = sel_res, bytes(sdd)
        self.read_from, self.cc_over = read_from, cc_over
        # frame level floods: the WTXM octet of the S(WTX) requests, INF octets per chained block of the 'chain'
        # flood, number of flood frames after which the card behaves again (None = for ever)
        self.wtxm, self.flood_inf, self.flood_len = wtxm, flood_inf, flood_len
        self.sel = None
        self.bn = 1
        self.rx = b""
        self.txq = []
        self.nframes = 0

    def target(self):
        if self.kind == "A":
            return nfc.clf.RemoteTarget("106A", sens_res=bytearray(getattr(self, "sens", b"\x44\x03")), sel_res=bytearray([self.sel_res]),
                                        sdd_res=bytearray(self.sdd))
        return nfc.clf.RemoteTarget("106B", sensb_res=bytearray(self.sensb))

    def sense(self):
        return True

    def apdu(self, a):
        if len(a) < 4:
            return b"\x67\x00"
        cla, ins, p1, p2 = a[:4]
        body = a[4:]
        if ins == 0xA4:
            if p1 == 4:
                self.sel = None
                name = bytes(body[1:1 + body[0]]) if body else b""
                if name == bytes.fromhex("D2760000850101") and self.sel_app == "v2":
                    return b"\x90\x00"
                if name == bytes.fromhex("D2760000850100") and self.sel_app == "v1":
                    return b"\x90\x00"
                return b"\x6A\x82"
            fid = bytes(body[1:1 + body[0]]) if body else b""
            if fid in (b"\xE1\x03", self.fid):
                self.sel = fid
                return b"\x90\x00"
            return b"\x6A\x82"
        if self.sel is None:
            return b"\x69\x86"
        off = p1 << 8 | p2
        if ins == 0xB0:
            f = self.cc if self.sel == b"\xE1\x03" else self.file
            le = (body[0] or 256) if len(body) == 1 else 0
            if self.sel != b"\xE1\x03" and off >= self.read_from:
                if self.read_mode == "empty":
                    return b"\x90\x00"
                if self.read_mode == "over":
                    return bytes(f[off:off + le + 7]) + b"\x90\x00"
                if self.read_mode == "one":
                    return bytes(f[off:off + 1]) + b"\x90\x00"
                if self.read_mode == "sw":
                    return b"\x6A\x86"
                if self.read_mode == "nosw":
                    return bytes(f[off:off + 1])
            if self.sel == b"\xE1\x03" and self.cc_over and off >= 2:
                return bytes(f[off:off + le]) + bytes(self.cc_over) + b"\x90\x00"
            return bytes(f[off:off + le]) + b"\x90\x00"
        return b"\x6D\x00"

    def respond(self, cmd):
        if cmd[:1] == b"\xE0" and len(cmd) == 2:
            return self.ats
        if cmd[:1] == b"\x1D":
            return self.attrib
        self.nframes += 1
        adv = self.frame_mode if self.nframes > self.frame_from else "ok"
        if self.flood_len is not None and self.nframes > self.frame_from + self.flood_len:
            adv = "ok"
        pcb = cmd[0]
        if adv == "wtx":
            return bytes([0xF2, self.wtxm])
        if adv == "empty":
            return b""
        if pcb & 0xE6 == 0x02:          # I-block
            if adv == "ack":
                return bytes([0xA2 | self.bn])     # card did not toggle: "the other" number for the reader
            self.bn ^= 1
            self.rx += cmd[1:]
            if pcb & 0x10:
                return bytes([0xA2 | self.bn])
            a, self.rx = self.rx, b""
            r = self.apdu(a)
            if r is None:
                return None
            chunks = [r[i:i + self.chunk] for i in range(0, len(r), self.chunk)] or [b""]
            self.txq = chunks[1:]
            more = bool(self.txq) or adv in ("chain", "chain0")
            bn = self.bn ^ 1 if adv == "badbn" else self.bn
            return bytes([0x02 | (0x10 if more else 0) | bn]) + chunks[0]
        if pcb & 0xF6 == 0xA2:          # R(ACK)
            if self.txq or adv in ("chain", "chain0"):
                self.bn ^= 1
                c = self.txq.pop(0) if self.txq else (b"" if adv == "chain0" else bytes(self.flood_inf))
                more = bool(self.txq) or adv in ("chain", "chain0")
                return bytes([0x02 | (0x10 if more else 0) | self.bn]) + c
            return bytes([0xA2 | self.bn])
        if pcb & 0xF6 == 0xB2:          # R(NAK)
            return bytes([0xA2 | self.bn])
        if pcb & 0xF7 == 0xF2:
            return None
        return None


class Script(object):
    """answers taken from a list (beyond the list: mute); sense entries are consumed like commands"""

    def __init__(self, answers, target):
        self.answers, self._target, self.i = list(answers), target, 0

    def target(self):
        return self._target

    def _next(self):
        r = self.answers[self.i] if self.i < len(self.answers) else None
        self.i += 1
        return r

    def sense(self):
        return self._next() is not None

    def respond(self, cmd):
        return self._next()
