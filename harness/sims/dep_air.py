"""Faulty in-memory air interface between two REAL nfc.dep objects (property C04).

The Initiator runs in the calling thread, the Target in a worker thread; the
two are coupled by strict rendezvous (at any time exactly one side runs), so a
run is deterministic.  Every blocking get has a timeout: a protocol stall is
reported as `Stall`, the check never hangs.

Fault script: one letter per frame crossing the air during data exchange
(activation frames are not subject to faults and are not recorded)

    d  deliver
    l  lose                  (receiver sees nothing; Initiator: TimeoutError)
    c  corrupt               (receiver's driver raises TransmissionError)
    x  lose and let the Initiator's deadline expire (virtual clock jumps)

An exhausted script continues with `d`.  The virtual clock replaces
`nfc.dep.time`.
"""
import queue
import threading

import nfc.clf
import nfc.dep

STOP = "stop"
CORRUPT = "corrupt"
JOIN = 5.0


class Stall(Exception):
    """rendezvous timed out: one side waits for a frame that never comes"""


class Clock(object):
    def __init__(self):
        self.t = 1000.0
        self.frozen = set()      # threads (the Target) whose deadlines never expire

    def time(self):
        if threading.get_ident() in self.frozen:
            return 1000.0
        return self.t

    def sleep(self, d):
        self.t += d


CLOCK = Clock()


def patch_clock():
    nfc.dep.time = CLOCK


class Air(object):
    def __init__(self, script):
        self.script = list(script)
        self.wire = []          # (dir, hex, fault)
        self.data_phase = False
        self.anomalies = []

    def fault(self):
        return self.script.pop(0) if self.script else "d"


class ThreadPeer(object):
    """the Target thread seen from the Initiator side"""

    def __init__(self):
        self.toT = queue.Queue()
        self.toI = queue.Queue()
        self.dead = False

    def deliver(self, frame):
        if self.dead:
            return None
        self.toT.put(bytes(frame))
        try:
            return self.toI.get(timeout=JOIN)
        except queue.Empty:
            raise Stall("target did not react to a delivered frame")

    def corrupt(self):
        if self.dead:
            return
        self.toT.put(CORRUPT)
        try:
            r = self.toI.get(timeout=JOIN)
        except queue.Empty:
            raise Stall("target did not react to a corrupted frame")
        if r is not None:
            raise Stall("target answered a corrupted frame")


class ScriptedPeer(object):
    """answers the n-th delivered frame with the n-th entry (None = silence)"""

    def __init__(self, responses):
        self.responses = list(responses)

    def deliver(self, frame):
        return self.responses.pop(0) if self.responses else None

    def corrupt(self):
        pass


class IClf(object):
    """what nfc.dep.Initiator uses of a ContactlessFrontend"""

    def __init__(self, air, peer):
        self.air, self.peer = air, peer

    def exchange(self, data, timeout):
        a = self.air
        if not a.data_phase:
            rsp = self.peer.deliver(data)
            if rsp is None:
                raise nfc.clf.TimeoutError("no response")
            return bytearray(rsp)
        f = a.fault()
        a.wire.append((">", bytes(data).hex(), f))
        if f == "l":
            CLOCK.t += timeout
            raise nfc.clf.TimeoutError("lost")
        if f == "x":
            CLOCK.t += 1e6
            raise nfc.clf.TimeoutError("lost, deadline expired")
        if f == "c":
            self.peer.corrupt()
            CLOCK.t += timeout
            raise nfc.clf.TimeoutError("target received a corrupted frame")
        rsp = self.peer.deliver(data)
        if rsp is None:
            CLOCK.t += timeout
            raise nfc.clf.TimeoutError("target silent")
        f = a.fault()
        a.wire.append(("<", bytes(rsp).hex(), f))
        if f == "l":
            CLOCK.t += timeout
            raise nfc.clf.TimeoutError("response lost")
        if f == "x":
            CLOCK.t += 1e6
            raise nfc.clf.TimeoutError("response lost, deadline expired")
        if f == "c":
            raise nfc.clf.TransmissionError("response corrupted")
        return bytearray(rsp)


class TClf(object):
    """what nfc.dep.Target uses of a ContactlessFrontend"""

    def __init__(self, air, peer, brty):
        self.air, self.peer, self.brty = air, peer, brty
        self.pending = False     # a delivered frame awaits its answer (or silence)

    def _get(self):
        try:
            return self.peer.toT.get(timeout=JOIN)
        except queue.Empty:
            raise Stall("target waited for a frame that never came")

    def _strip(self, frame):
        f = bytes(frame)
        if self.brty == "106A":
            f = f[1:]
        return f[1:]

    def _frame(self, body):
        f = bytes([len(body) + 1]) + bytes(body)
        return (b"\xF0" + f) if self.brty == "106A" else f

    def listen(self, target, timeout):
        """activation: answer ATR_REQ, return with the first DEP_REQ"""
        atr_req = None
        while True:
            item = self._get()
            if item == STOP:
                return None
            if item == CORRUPT:
                self.peer.toI.put(None)
                continue
            body = self._strip(item)
            if body[:2] == b"\xD4\x00":
                atr_req = body
                self.peer.toI.put(self._frame(target.atr_res))
            elif body[:2] == b"\xD4\x06" and atr_req is not None:
                t = nfc.clf.LocalTarget(self.brty, atr_req=bytearray(atr_req), dep_req=bytearray(body))
                if self.brty == "106A":
                    t.sens_res, t.sdd_res, t.sel_res = target.sens_res, target.sdd_res, target.sel_res
                else:
                    t.sensf_res = target.sensf_res
                self.pending = True
                return t
            else:
                self.peer.toI.put(None)

    def exchange(self, data, timeout):
        p = self.peer
        if data is not None:
            if not self.pending:
                self.air.anomalies.append("target sent an unsolicited frame " + bytes(data).hex())
            else:
                if timeout is not None and timeout <= 0:
                    p.dead = True       # it will not listen again
                self.pending = False
                p.toI.put(bytes(data))
        elif self.pending:
            self.pending = False
            p.toI.put(None)
        if timeout is not None and timeout <= 0:
            return None                 # like the drivers: send only
        item = self._get()
        if item == STOP:
            raise nfc.clf.TimeoutError("stop")
        if item == CORRUPT:
            p.toI.put(None)
            raise nfc.clf.TransmissionError("corrupted")
        self.pending = True
        return bytearray(item)


class Result(object):
    pass


def run_pair(brty, did, nad, lri, lrt, script, rel, pi, pt, miu_i=None, miu_t=None, exc_name=None, t_rtox=None):
    """two real nfc.dep objects, real activate() on both sides, then the conversation.
    returns Result(wire, got_i, err_i, err_d, got_t, status_t, imiu, tmiu, tdid, anomalies)"""
    patch_clock()
    CLOCK.t = 1000.0
    air = Air(script)
    peer = ThreadPeer()
    ini = nfc.dep.Initiator(IClf(air, peer))
    tclf = TClf(air, peer, brty)
    tgt = nfc.dep.Target(tclf)
    res = Result()
    res.got_i, res.got_t, res.err_i, res.err_d, res.status_t = [], [], "ok", "ok", "?"
    res.tmiu = res.tdid = None
    res.msg_i = res.msg_t = ""
    res.rtox_answers = []
    stopped = []

    def name(e):
        return exc_name(e) if exc_name else type(e).__name__

    def target_app():
        CLOCK.frozen = {threading.get_ident()}
        try:
            try:
                if tgt.activate(timeout=1.0, lrt=lrt, rwt=8) is None:
                    res.status_t = "inactive"
                    return
                res.tmiu, res.tdid = tgt.miu, tgt.did
                if miu_t is not None:
                    tgt.miu = miu_t
                d = tgt.exchange(None, 1e12)
                k = 0
                while d is not None:
                    res.got_t.append(bytes(d))
                    if k >= len(pt):
                        res.status_t = "ended"
                        return
                    if t_rtox and k in t_rtox:
                        # the application asks for more time before it answers the k-th payload
                        res.rtox_answers.append(tgt.send_timeout_extension(t_rtox[k]))
                        if peer.dead:
                            # deselected/released while waiting (send_timeout_extension has no way to
                            # tell): the application sees the link gone
                            res.status_t = "none"
                            return
                    d = tgt.exchange(pt[k], 1e12)
                    k += 1
                res.status_t = "none"
            except Stall as e:
                res.status_t = "stall " + str(e)
            except nfc.clf.TimeoutError as e:
                res.status_t = "running" if stopped and str(e) == "stop" else "exc TimeoutError"
            except Exception as e:  # noqa
                res.status_t = "exc " + name(e)
                res.msg_t = str(e)
        finally:
            peer.dead = True
            if tclf.pending:
                tclf.pending = False
                peer.toI.put(None)

    th = threading.Thread(target=target_app, daemon=True)
    th.start()
    try:
        target = nfc.clf.RemoteTarget(brty)
        opts = dict(lri=lri, brs=0 if brty == "106A" else 1, acm=False)
        if did is not None:
            opts["did"] = did
        if nad is not None:
            opts["nad"] = nad
        if ini.activate(target, **opts) is None:
            raise Stall("initiator activation failed")
        res.imiu = ini.miu
        if miu_i is not None:
            ini.miu = miu_i
        air.data_phase = True
        try:
            for p in pi:
                res.got_i.append(bytes(ini.exchange(p, 1000.0)))
        except Stall:
            raise
        except Exception as e:  # noqa
            res.err_i = "exc " + name(e)
            res.msg_i = str(e)
        if rel:
            try:
                ini.deactivate(release=(rel == 2))
            except Stall:
                raise
            except Exception as e:  # noqa
                res.err_d = "exc " + name(e)
    finally:
        stopped.append(True)
        peer.toT.put(STOP)
        th.join(JOIN)
    if th.is_alive():
        raise Stall("target thread did not finish")
    if res.status_t.startswith("stall"):
        raise Stall(res.status_t)
    res.wire = air.wire
    res.anomalies = air.anomalies
    return res


def run_scripted(brty, did, nad, miu, script, responses, payload, exc_name=None):
    """real Initiator.exchange against scripted response frames; returns (wire, outcome)"""
    patch_clock()
    CLOCK.t = 1000.0
    air = Air(script)
    air.data_phase = True
    ini = nfc.dep.Initiator(IClf(air, ScriptedPeer(responses)))
    ini.target = nfc.clf.RemoteTarget(brty)
    ini.miu, ini.did, ini.nad, ini.pni, ini.rwt = miu, did, nad, 0, 0.01
    try:
        r = ini.exchange(payload, 1000.0)
        out = "ok " + (bytes(r).hex() or "-")
    except Stall:
        raise
    except Exception as e:  # noqa
        out = "exc " + (exc_name(e) if exc_name else type(e).__name__)
    return air.wire, out


class TargetHarness(object):
    """a real nfc.dep.Target (real activate()) driven frame by frame from the calling thread:
    deliver(frame) -> response frame or None, corrupt(), stop() -> (payloads returned, status)"""

    def __init__(self, brty, did, lri, pt, miu_t=None, exc_name=None):
        patch_clock()
        CLOCK.t = 1000.0
        self.brty = brty
        self.air = Air("")
        self.peer = ThreadPeer()
        self.tclf = TClf(self.air, self.peer, brty)
        self.tgt = nfc.dep.Target(self.tclf)
        self.got, self.status, self.msg = [], "?", ""
        self.stopped = []
        name = (lambda e: exc_name(e)) if exc_name else (lambda e: type(e).__name__)

        def app():
            CLOCK.frozen = {threading.get_ident()}
            try:
                try:
                    if self.tgt.activate(timeout=1.0, lrt=3, rwt=8) is None:
                        self.status = "inactive"
                        return
                    if miu_t is not None:
                        self.tgt.miu = miu_t
                    d = self.tgt.exchange(None, 1e12)
                    k = 0
                    while d is not None:
                        self.got.append(bytes(d))
                        if k >= len(pt):
                            self.status = "ended"
                            return
                        d = self.tgt.exchange(pt[k], 1e12)
                        k += 1
                    self.status = "none"
                except Stall as e:
                    self.status = "stall " + str(e)
                except nfc.clf.TimeoutError as e:
                    self.status = "running" if self.stopped and str(e) == "stop" else "exc TimeoutError"
                except Exception as e:  # noqa
                    self.status = "exc " + name(e)
                    self.msg = str(e)
            finally:
                self.peer.dead = True
                if self.tclf.pending:
                    self.tclf.pending = False
                    self.peer.toI.put(None)

        self.th = threading.Thread(target=app, daemon=True)
        self.th.start()
        atr = bytes([0xD4, 0x00]) + bytes(range(1, 11)) + bytes([did or 0, 0, 0, (lri << 4)])
        rsp = self.peer.deliver(self.frame(atr))
        if rsp is None:
            raise Stall("target did not answer the ATR_REQ")

    def frame(self, body):
        f = bytes([len(body) + 1]) + bytes(body)
        return (b"\xF0" + f) if self.brty == "106A" else f

    def deliver(self, frame):
        return self.peer.deliver(frame)

    def corrupt(self):
        self.peer.corrupt()

    def stop(self):
        self.stopped.append(True)
        self.peer.toT.put(STOP)
        self.th.join(JOIN)
        if self.th.is_alive() or self.status.startswith("stall"):
            raise Stall("target thread did not finish: " + self.status)
        return self.got, self.status
