"""In-memory data link connection for running the real SNEP / handover code.

`Link` stands for two connected LogicalLinkControllers.  `Link.client_llc` and
`Link.server_llc` are passed to the real `SnepClient/SnepServer/HandoverClient/
HandoverServer` in place of the `llc` argument; the real `nfc.llcp.Socket`
class then forwards every socket call (`socket/bind/listen/connect/accept/
setsockopt/getsockopt/send/recv/poll/getpeername/getsockname/close`) to the
fake controller.  The connection is the abstract channel that C05 is about:
reliable, ordered, message preserving, messages larger than the send MIU are
refused with EMSGSIZE like `tco.DataLinkConnection.send` does.

Client and server code run in two real threads, but never at the same time:
`Sched` passes a baton, a thread gives it up only when it blocks in
`recv()/poll()/accept()` or ends.  When both are blocked the situation is
decided deterministically: a `poll` with a finite timeout returns False (the
only way a timeout can expire, i.e. virtual time), otherwise both threads get
`Deadlock` (a BaseException, so that nfcpy's `except nfc.llcp.Error` does not
swallow it).  Wall-clock limits exist only as a safety net (`HARD`).
"""
import collections
import errno
import threading

import nfc.llcp


class Deadlock(BaseException):
    """both programs wait for each other for ever"""


class HardTimeout(BaseException):
    """safety net: a thread did not get the baton back in time"""


class Runaway(BaseException):
    """a program keeps sending without ever blocking (more than Link.MAX_MESSAGES messages)"""


class Sched:
    HARD = 20.0

    def __init__(self):
        self.cv = threading.Condition()
        self.turn = "c"
        self.state = {"c": "run", "s": "run"}
        self.pred = {"c": None, "s": None}
        self.timed = {"c": False, "s": False}
        self.wake = {"c": None, "s": None}
        self.dead = False
        self.broken = None
        self.timeouts = 0

    @staticmethod
    def other(me):
        return "s" if me == "c" else "c"

    def _wait_turn(self, me):
        while self.turn != me:
            if not self.cv.wait(self.HARD):
                self.broken = "thread %s never got the baton" % me
                raise HardTimeout(self.broken)

    def enter(self, me):
        with self.cv:
            self._wait_turn(me)

    def leave(self, me):
        with self.cv:
            self.state[me] = "done"
            self.turn = self.other(me)
            self.cv.notify_all()

    def block(self, me, pred, timed):
        """wait until pred() holds; False = timeout expired (only if timed)"""
        with self.cv:
            while True:
                if pred():
                    return True
                if self.dead:
                    raise Deadlock()
                if self.wake[me] == "timeout":
                    self.wake[me] = None
                    self.timeouts += 1
                    return False
                o = self.other(me)
                stuck = self.state[o] == "done" or (self.state[o] == "blocked" and not self.pred[o]())
                if stuck:
                    if timed:
                        self.timeouts += 1
                        return False
                    if self.state[o] == "blocked" and self.timed[o]:
                        self.wake[o] = "timeout"
                    else:
                        self.dead = True
                        raise Deadlock()
                self.state[me] = "blocked"
                self.pred[me] = pred
                self.timed[me] = timed
                self.turn = o
                self.cv.notify_all()
                self._wait_turn(me)
                self.state[me] = "run"


class Tco:
    def __init__(self, link, side):
        self.link, self.side = link, side
        self.inbox = collections.deque()
        self.peer = None
        self.closed = False        # closed locally
        self.peer_closed = False   # DISC from the peer
        self.recv_miu = 128
        self.recv_buf = 1
        self.send_miu = None
        self.addr = None
        self.listening = False
        self.connected = False


class FakeLLC:
    """what nfc.llcp.Socket needs from a LogicalLinkController"""

    def __init__(self, link, side):
        self.link, self.side = link, side

    # -- set-up ------------------------------------------------------------
    def socket(self, socket_type):
        assert socket_type == nfc.llcp.DATA_LINK_CONNECTION
        return Tco(self.link, self.side)

    def setsockopt(self, tco, option, value):
        if option == nfc.llcp.SO_RCVMIU and not tco.connected:
            tco.recv_miu = min(value, 2175, self.link.link_miu[self.side])
        elif option == nfc.llcp.SO_RCVBUF and not tco.connected:
            tco.recv_buf = min(value, 15)
        return self.getsockopt(tco, option)

    def getsockopt(self, tco, option):
        self.link.sockopt_reads.append((self.side, option))
        if option == nfc.llcp.SO_SNDMIU:
            return tco.send_miu
        if option == nfc.llcp.SO_RCVMIU:
            return tco.recv_miu
        if option == nfc.llcp.SO_RCVBUF:
            return tco.recv_buf
        if option == nfc.llcp.SO_SNDBUF:
            return tco.peer.recv_buf if tco.peer else None
        return None

    def bind(self, tco, address=None):
        tco.addr = address if address is not None else 32
        self.link.bound[address] = tco

    def listen(self, tco, backlog):
        tco.listening = True

    def getsockname(self, tco):
        return 4 if isinstance(tco.addr, str) else tco.addr

    def getpeername(self, tco):
        return 32 if tco.peer is not None else None

    def resolve(self, name):
        return 4 if name in self.link.bound else 0

    def connect(self, tco, name):
        link = self.link
        lst = link.bound.get(name)
        if lst is None or not lst.listening:
            raise nfc.llcp.ConnectRefused(2)
        srv = Tco(link, "s")
        srv.recv_miu, srv.recv_buf = lst.recv_miu, lst.recv_buf
        tco.peer, srv.peer = srv, tco
        # MIUX of CONNECT / CC: each side sends at most what the other receives
        tco.send_miu = srv.recv_miu if link.force_c2s is None else link.force_c2s
        srv.send_miu = tco.recv_miu if link.force_s2c is None else link.force_s2c
        tco.connected = srv.connected = True
        tco.addr = 32
        link.accept_q.append(srv)
        link.connections.append((tco, srv))

    def accept(self, tco):
        link = self.link
        ok = link.sched.block(self.side, lambda: bool(link.accept_q), False)
        assert ok
        return link.accept_q.popleft()

    # -- data --------------------------------------------------------------
    def send(self, tco, message, flags=0):
        if not isinstance(message, (bytes, bytearray)):
            raise TypeError("message data must be a bytes-like object")
        if tco.closed:
            raise nfc.llcp.Error(errno.ENOTCONN)
        if tco.peer_closed:
            raise nfc.llcp.Error(errno.EPIPE)
        if len(message) > tco.send_miu:
            self.link.oversize.append((self.side, len(message), tco.send_miu))
            raise nfc.llcp.Error(errno.EMSGSIZE)
        self.link.nsent += 1
        if self.link.nsent > self.link.MAX_MESSAGES:
            self.link.runaway = self.side
            raise Runaway()
        self.link.log[self.side].append(bytes(message))
        tco.peer.inbox.append(bytes(message))
        return True

    def recv(self, tco):
        if tco.closed:
            raise nfc.llcp.Error(errno.ENOTCONN)
        self.link.sched.block(self.side, lambda: bool(tco.inbox) or tco.peer_closed, False)
        if tco.inbox:
            return tco.inbox.popleft()
        return None

    def poll(self, tco, event, timeout=None):
        if event != "recv":
            raise nfc.llcp.Error(errno.EINVAL)
        if tco.closed:
            return None
        self.link.polls.append((self.side, timeout))
        ok = self.link.sched.block(self.side, lambda: bool(tco.inbox) or tco.peer_closed, timeout is not None)
        if not ok:
            return False
        return bool(tco.inbox)

    def close(self, tco):
        if tco.closed:
            return
        tco.closed = True
        if tco.peer is not None and not tco.peer_closed:
            tco.peer.peer_closed = True


class Link:
    MAX_MESSAGES = 20000

    def __init__(self, link_miu=(2175, 2175), force_c2s=None, force_s2c=None):
        self.nsent = 0
        self.runaway = None
        self.sched = Sched()
        self.link_miu = {"c": link_miu[0], "s": link_miu[1]}
        self.force_c2s, self.force_s2c = force_c2s, force_s2c
        self.bound = {}
        self.accept_q = collections.deque()
        self.connections = []
        self.log = {"c": [], "s": []}
        self.oversize = []
        self.polls = []
        self.sockopt_reads = []
        self.client_llc = FakeLLC(self, "c")
        self.server_llc = FakeLLC(self, "s")

    def run(self, client_fn, server_fn, join=40.0):
        """run both programs in lockstep; returns dict(c=..., s=...) with
        ('ok', value) | ('exc', exception) | ('deadlock',) | ('hard-timeout',)"""
        out = {}

        def wrap(me, fn):
            def body():
                try:
                    self.sched.enter(me)
                    try:
                        out[me] = ("ok", fn())
                    except Deadlock:
                        out[me] = ("deadlock",)
                    except HardTimeout:
                        out[me] = ("hard-timeout",)
                    except Runaway:
                        out[me] = ("runaway",)
                    except Exception as e:  # noqa
                        out[me] = ("exc", e)
                finally:
                    try:
                        self.sched.leave(me)
                    except BaseException:  # noqa
                        pass
            t = threading.Thread(target=body, name="c06-" + me, daemon=True)
            return t
        ts = [wrap("s", server_fn), wrap("c", client_fn)]
        for t in ts:
            t.start()
        for t in ts:
            t.join(join)
        for me, t in zip("sc", ts):
            if t.is_alive():
                out[me] = ("hard-timeout",)
        return out
