"""Two REAL nfc.llcp LogicalLinkController objects joined by two FIFO wires.

Each controller owns one real DataLinkConnection socket; the connection is set
up by the real CONNECT / CC handshake (connect() runs in a helper thread that is
joined before anything else happens).  Afterwards everything is single-threaded:
application calls use MSG_DONTWAIT / are only issued when they cannot block,
the link side is driven by direct calls of collect() and dispatch(), and every
frame is really encoded to octets and decoded again (nfc.llcp.pdu).

The only blocking call that is exercised is close(): DataLinkConnection.close()
waits on a condition variable for the DM.  It runs in a helper thread with a
strict rendezvous (the main thread continues only when the helper is parked in
Condition.wait() or has finished; it is joined as soon as it was notified), so
the execution is deterministic.

Step alphabet (strings, identical to the protocol of lean/Drv/C05.lean):
  send X <hex> | recv X | busy X 0|1 | poll X recv|send|acks | collect X |
  deliver X | close X | closefin X | deq X <budget> | ack X
`deq`/`ack` call DataLinkConnection.dequeue()/sendack() directly (one PDU per
frame), `collect` goes through LogicalLinkController.collect().
"""
import logging
import threading
import time

import nfc
import nfc.llcp
import nfc.llcp.llc as llc
import nfc.llcp.pdu as pdu
import nfc.llcp.tco as tco

from common import hx, exc_name, Infra

logging.disable(logging.CRITICAL)

OTHER = {"A": "B", "B": "A"}
ADDR = {"A": 32, "B": 33}


class HandshakeFailed(Exception):
    """the real CONNECT / CC handshake did not establish the connection"""


def spin(cond, what, timeout=10.0):
    t0 = time.time()
    while not cond():
        if time.time() - t0 > timeout:
            raise Infra("dlc_pair: rendezvous timeout (%s)" % what)
        time.sleep(0)


def show_pdu(p):
    n = p.name
    if n == "I":
        return "I:%d:%s:%s" % (p.ns, p.nr, hx(p.data))
    if n in ("RR", "RNR"):
        return "%s:%d" % (n, p.nr)
    if n == "DISC":
        return "DISC"
    if n == "DM":
        return "DM:%d" % p.reason
    if n == "FRMR":
        return "FRMR:%d:%d:%d:%d:%d:%d:%d:%d" % (p.rej_flags, p.rej_ptype, p.ns, p.nr, p.vs, p.vr, p.vsa, p.vra)
    return "OTHER:" + n


class Pair:
    def __init__(self, rwA, rwB, miuA, miuB, link, agf):
        self.link, self.agf = link, agf
        A = llc.LogicalLinkController(miu=link, agf=agf, sec=False)
        B = llc.LogicalLinkController(miu=link, agf=agf, sec=False)
        A.cfg["send-miu"] = link
        B.cfg["send-miu"] = link
        sa = A.socket(llc.DATA_LINK_CONNECTION)
        sb = B.socket(llc.DATA_LINK_CONNECTION)
        A.setsockopt(sa, nfc.llcp.SO_RCVBUF, rwA)
        B.setsockopt(sb, nfc.llcp.SO_RCVBUF, rwB)
        A.setsockopt(sa, nfc.llcp.SO_RCVMIU, miuA)
        B.setsockopt(sb, nfc.llcp.SO_RCVMIU, miuB)
        A.bind(sa, ADDR["A"])
        B.bind(sb, ADDR["B"])
        B.listen(sb, 1)
        err = []

        def conn():
            try:
                A.connect(sa, ADDR["B"])
            except Exception as e:  # noqa
                err.append(e)
        t = threading.Thread(target=conn, daemon=True)
        t.start()
        spin(lambda: len(sa.recv_ready._waiters) > 0 or not t.is_alive(), "connect waits")
        self.handshake = []
        p = A.collect()
        self.handshake.append(str(p))
        B.dispatch(pdu.decode(pdu.encode(p)))
        if len(sb.recv_queue) == 0:      # accept() would wait forever
            raise HandshakeFailed("the CONNECT PDU did not reach the listening socket: %s" % self.handshake)
        sb2 = B.accept(sb)
        p = B.collect()
        self.handshake.append(str(p))
        A.dispatch(pdu.decode(pdu.encode(p)))
        t.join(10)
        if t.is_alive() or err:
            tco.TransmissionControlObject.close(sa)
            raise HandshakeFailed("connect() did not complete: %r %s" % (err, self.handshake))
        B.close(sb)   # the listening socket is no longer needed
        self.L = {"A": A, "B": B}
        self.s = {"A": sa, "B": sb2}
        self.wire = {"A": [], "B": []}      # frames sent by X: (octets, number of PDUs, I PDU payloads)
        self.closer = {"A": None, "B": None}
        self.closed = {"A": False, "B": False}   # application called close()
        self.wirelog = {"A": [], "B": []}   # every PDU put on the wire by X (decoded objects)
        self.link_down = None

    # ------------------------------------------------------------------ views
    def init_line(self):
        a, b = self.s["A"], self.s["B"]
        return "init %d %d %d %d %d %d %d %d %d %d" % (
            a.send_miu, a.recv_miu, a.send_win, a.recv_win, b.send_miu, b.recv_miu, b.send_win, b.recv_win,
            self.link, 1 if self.agf else 0)

    def bound(self, x):
        s, L = self.s[x], self.L[x]
        sap = L.sap[s.addr] if s.addr is not None else None
        return sap is not None and s in sap.sock_list

    def show_ep(self, x):
        s = self.s[x]
        sq = []
        for p in s.send_queue:
            sq.append("I%d" % p.ns if p.name == "I" else "DM%d" % p.reason if p.name == "DM" else p.name)
        rq = []
        for p in s.recv_queue:
            rq.append("M%d" % len(p.data) if p.name == "I" else p.name)
        m = s.mode
        return "%s,%d,%d,%d,%d,%d,%d,%d,%d%d%d,sq=%s,rq=%s" % (
            str(s.state), 1 if self.bound(x) else 0, s.send_cnt, s.send_ack, s.recv_cnt, s.recv_ack,
            s.recv_confs, s.acks_recvd, 1 if m.RECV_BUSY else 0, 1 if m.RECV_BUSY_SENT else 0,
            1 if m.SEND_BUSY else 0, ";".join(sq), ";".join(rq))

    def digest(self):
        return "A:%s B:%s w=%d/%d" % (self.show_ep("A"), self.show_ep("B"),
                                      sum(f[1] for f in self.wire["A"]), sum(f[1] for f in self.wire["B"]))

    # ------------------------------------------------------------------ steps
    def _put(self, x, p):
        """encode one frame really, keep the octets on the wire of x"""
        frame = list(p) if p.name == "AGF" else [p]
        descr = [show_pdu(q) for q in frame]
        try:
            data = pdu.encode(p)
        except pdu.Error as e:
            self.link_down = "%s could not encode %s: %s" % (x, " ".join(descr), exc_name(e))
            return descr, "exc " + exc_name(e)
        q = pdu.decode(data)
        back = [show_pdu(r) for r in (list(q) if q.name == "AGF" else [q])]
        if back != descr:
            self.link_down = "%s frame %s decodes as %s" % (x, descr, back)
            return descr, "exc codec"
        self.wire[x].append((data, len(frame), [bytes(r.data) for r in frame if r.name == "I"]))
        self.wirelog[x].extend(list(q) if q.name == "AGF" else [q])
        return descr, None

    def _call(self, fn):
        try:
            return fn(), None
        except Exception as e:  # noqa
            return None, "exc " + exc_name(e)

    def op(self, line):
        """run one step on the real objects, return the canonical result"""
        f = line.split(" ")
        kind, x = f[0], f[1]
        L, s = self.L[x], self.s[x]
        if kind == "send":
            m = bytes.fromhex(f[2]) if f[2] != "-" else b""
            r, e = self._call(lambda: L.send(s, m, nfc.llcp.MSG_DONTWAIT))
            return e or ("ok" if r is True else "ret %r" % (r,))
        if kind == "recv":
            if self.bound(x) and (s.state.ESTABLISHED or s.state.CLOSE_WAIT) and len(s.recv_queue) == 0:
                return "blocked"
            r, e = self._call(lambda: L.recv(s))
            return e or ("none" if r is None else "ok " + hx(r))
        if kind == "busy":
            r, e = self._call(lambda: L.setsockopt(s, nfc.llcp.SO_RCVBSY, f[2] == "1"))
            return e or "ok"
        if kind == "poll":
            r, e = self._call(lambda: L.poll(s, f[2], 0))
            return e or ("none" if r is None else "true" if r is True else "false" if r is False else "ret %r" % (r,))
        if kind == "collect":
            p, e = self._call(lambda: L.collect())
            if e:
                return e
            if p is None:
                return "none"
            descr, e = self._put(x, p)
            return e or "frame " + " ".join(descr)
        if kind in ("deq", "ack"):
            if kind == "deq":
                p, e = self._call(lambda: s.dequeue(int(f[2]), 0))
            else:
                p, e = self._call(lambda: s.sendack())
            if e:
                return e
            if p is None:
                return "none"
            descr, e = self._put(x, p)
            return e or descr[0]
        if kind == "deliver":
            w = self.wire[OTHER[x]]
            if not w:
                return "empty"
            data, n, _ = w.pop(0)
            r, e = self._call(lambda: L.dispatch(pdu.decode(data)))
            return e or "ok %d" % n
        if kind == "close":
            if self.closed[x]:
                return "skip"
            self.closed[x] = True
            res = []

            def run():
                try:
                    L.close(s)
                    res.append("done")
                except Exception as e:  # noqa
                    res.append("exc " + exc_name(e))
            t = threading.Thread(target=run, daemon=True)
            t.start()
            spin(lambda: not t.is_alive() or len(s.recv_ready._waiters) > 0, "close parks")
            if not t.is_alive():
                return res[0]
            self.closer[x] = (t, res)
            return "pending"
        if kind == "closefin":
            c = self.closer[x]
            if c is None:
                return "skip"
            t, res = c
            if len(s.recv_ready._waiters) > 0:
                return "n/a"      # still parked: a spurious wake-up cannot be forced
            t.join(10)
            if t.is_alive():
                raise Infra("dlc_pair: close() did not return after notify")
            self.closer[x] = None
            return res[0]
        raise Infra("dlc_pair: unknown op " + line)

    def runnable_closers(self):
        """sides whose blocked close() has been notified and will finish now"""
        out = []
        for x in "AB":
            c = self.closer[x]
            if c is not None and len(self.s[x].recv_ready._waiters) == 0:
                out.append(x)
        return out

    def cleanup(self):
        """release helper threads that still wait for a DM"""
        for x in "AB":
            c = self.closer[x]
            if c is not None:
                tco.TransmissionControlObject.close(self.s[x])
                c[0].join(10)
                if c[0].is_alive():
                    raise Infra("dlc_pair: helper thread did not finish")
                self.closer[x] = None
