"""FeliCa Lite (RC-S965) / Lite-S (RC-S966) tag model for the C20 check.

Written from the user manuals' description of the memory map and of the MAC
(`auth_des.lite_mac`, `auth_des.lite_s_mac_a_write`), not from nfcpy.  The tag
sits behind `Air`, a fake contactless frontend whose `exchange()` lets a
`transit` hook modify commands and responses (the attacker of the property).

Memory map used: blocks 0..13 user, 14 REG, 0x80 RC, 0x81 MAC, 0x82 ID,
0x83 D_ID, 0x84 SER_C, 0x85 SYS_C, 0x86 CKV, 0x87 CK, 0x88 MC and for Lite-S
0x90 WCNT, 0x91 MAC_A, 0x92 STATE.

The tag is STATEFUL (everything a sequence of authentications can depend on):

* RC: the challenge block, any write to it starts a new session (the external authentication
  status of a Lite-S falls back to 0);
* WCNT (Lite-S): incremented by one by EVERY accepted write command, with or without MAC, of any
  block (RC, MC, user blocks, STATE ...), saturating at FFFFFFh; a write with MAC_A is accepted only
  when the MAC was computed over the CURRENT counter value and under the session key of the
  CURRENT challenge;
* STATE (Lite-S): EXT_AUTH becomes 1 by a MAC'ed write of 01h, is readable (with MAC);
* MC: MC_SP_REG_ALL_RW (octets 0,1: block writable at all), MC_ALL (octet 2: system blocks
  82h..88h locked when not FFh), and for Lite-S MC_CKCKV_W_MAC_A (octet 5: CK/CKV may still be written
  with MAC_A when the system blocks are locked), MC_SP_REG_R_RESTR (6,7: read needs external
  authentication), MC_SP_REG_W_RESTR (8,9: write needs external authentication),
  MC_SP_REG_W_MAC_A (10,11: write needs MAC_A).

`NfcVerif.AuthCard` (lean/NfcVerif/Model/AuthCard.lean) is the Lean mirror of `LiteTag.command`;
the C20 check compares the two on every command of every history it runs.
"""
from . import auth_des as D

IDM = bytes([0x01, 0x02, 0x03, 0x04, 0x05, 0x06, 0x07, 0x08])
PMM_LITE = bytes([0x00, 0xF0, 0x00, 0x00, 0x02, 0x06, 0x03, 0x00])
PMM_LITE_S = bytes([0x00, 0xF1, 0x00, 0x00, 0x02, 0x06, 0x03, 0x00])

SYSTEM = [0x80, 0x82, 0x83, 0x84, 0x85, 0x86, 0x87, 0x88]


class LiteTag(object):
    def __init__(self, ck_block=bytes(16), lite_s=False, idm=IDM):
        self.lite_s = lite_s
        self.idm = bytes(idm)
        self.pmm = PMM_LITE_S if lite_s else PMM_LITE
        numbers = list(range(15)) + SYSTEM
        if lite_s:
            numbers += [0x90, 0x92]
        self.b = {n: bytearray(16) for n in numbers}
        self.b[0x82] = bytearray(self.idm + bytes(8))
        self.b[0x83] = bytearray(self.idm + self.pmm)
        self.b[0x85] = bytearray(b"\x88\xB4" + bytes(14))
        self.b[0x87] = bytearray(ck_block)                  # CK1 | CK2, little-endian words
        self.b[0x88] = bytearray(b"\xFF\xFF\xFF\x00" + (b"\x07" if lite_s else b"\x00") + bytes(11))
        self.rc_written = False
        self.ext_auth = 0
        self.log = []                                        # state changing commands accepted

    # -- what the manuals say the tag computes
    def mac(self, data):
        return D.lite_mac(self.b[0x87], self.b[0x80], data)

    def mac_a_write(self, number, data16):
        return D.lite_s_mac_a_write(self.b[0x87], self.b[0x80], self.b[0x90][0:3], number, data16)

    def readable(self, n):
        return n in self.b or n == 0x81 or (self.lite_s and n == 0x91)

    def read_block(self, n, sofar):
        if n == 0x81:
            return self.mac(sofar) + bytes(8)
        if n == 0x87:
            return bytes(16)                                 # the card key never leaves the tag
        if n == 0x92:
            return bytes([self.ext_auth]) + bytes(15)
        return bytes(self.b[n])

    def system_locked(self):
        return self.b[0x88][2] != 0xFF

    def mc_bit(self, octet, n):
        """bit n (block number 0..14) of the 16-bit little-endian MC field starting at `octet`"""
        return ((self.b[0x88][octet] | self.b[0x88][octet + 1] << 8) >> n) & 1

    def bump_wcnt(self):
        if self.lite_s:
            w = min(D.le(self.b[0x90][0:3]) + 1, 0xFFFFFF)
            self.b[0x90][0:3] = w.to_bytes(3, "little")

    def err(self, code, s1, s2):
        return bytes([12, code + 1]) + self.idm + bytes([s1, s2])

    def ok(self, code):
        return bytes([12, code + 1]) + self.idm + b"\x00\x00"

    def digest(self):
        """everything the behaviour depends on, for comparison with the Lean mirror"""
        out = bytes([1 if self.rc_written else 0, self.ext_auth])
        for n in list(range(15)) + SYSTEM + ([0x90] if self.lite_s else []):
            out += bytes(self.b[n])
        return out

    def command(self, cmd):
        cmd = bytes(cmd)
        if len(cmd) < 2 or cmd[0] != len(cmd):
            return None
        code = cmd[1]
        if code == 0x00:                                     # polling
            if len(cmd) != 6:
                return None
            sc = cmd[2:4]
            ndef = self.b[0x88][3] == 0x01
            if sc == b"\xFF\xFF" or sc == b"\x88\xB4" or (sc == b"\x12\xFC" and ndef):
                rsp = self.idm + self.pmm
                if cmd[4] == 1:
                    rsp += b"\x12\xFC" if (ndef and sc != b"\x88\xB4") else b"\x88\xB4"
                return bytes([2 + len(rsp), 0x01]) + rsp
            return None
        if len(cmd) < 14 or cmd[2:10] != self.idm:
            return None
        if code not in (0x06, 0x08):
            return None
        if cmd[10] != 1:
            return self.err(code, 0xFF, 0xA1)
        svc = cmd[11:13]
        nblk = cmd[13]
        pos = 14
        numbers = []
        for _ in range(nblk):
            if len(cmd) < pos + 2 or cmd[pos] != 0x80:
                return self.err(code, 0xFF, 0xA8)
            numbers.append(cmd[pos + 1])
            pos += 2
        rest = cmd[pos:]
        if code == 0x06:
            return self.read(svc, numbers, rest)
        return self.write(svc, numbers, rest)

    def read(self, svc, numbers, rest):
        code, nblk = 0x06, len(numbers)
        if svc not in (b"\x0b\x00", b"\x09\x00") or not 1 <= nblk <= 4 or len(rest) != 0:
            return self.err(code, 0xFF, 0xA2)
        data = b""
        for i, n in enumerate(numbers):
            if not self.readable(n):
                return self.err(code, 1 << i, 0xA8)
            if n in (0x81, 0x91) and i != nblk - 1:
                return self.err(code, 1 << i, 0xA8)
            if n == 0x91:
                return self.err(code, 1 << i, 0xA8)         # MAC_A read is not used by the reader under test
            if self.lite_s and n < 15 and self.mc_bit(6, n) and not self.ext_auth:
                return self.err(code, 1 << i, 0xB1)         # read needs external authentication
            data += self.read_block(n, data)
        return bytes([13 + len(data), 0x07]) + self.idm + b"\x00\x00" + bytes([nblk]) + data

    def write(self, svc, numbers, data):
        code, nblk = 0x08, len(numbers)
        if svc != b"\x09\x00" or len(data) != 16 * nblk:
            return self.err(code, 0xFF, 0xA2)
        if nblk == 1:
            n = numbers[0]
            if n not in self.b or n in (0x90, 0x92):
                return self.err(code, 0x01, 0xA8)
            if n >= 0x82 and self.system_locked():
                return self.err(code, 0x01, 0xA8)
            if n < 15 and not self.mc_bit(0, n):
                return self.err(code, 0x01, 0xA8)
            if self.lite_s and n < 15 and self.mc_bit(10, n):
                return self.err(code, 0x01, 0xB2)            # this block takes writes with MAC_A only
            if self.lite_s and n < 15 and self.mc_bit(8, n) and not self.ext_auth:
                return self.err(code, 0x01, 0xB1)            # write needs external authentication
            self.b[n] = bytearray(data)
            if n == 0x80:
                self.rc_written = True
                self.ext_auth = 0
            self.bump_wcnt()
            self.log.append((n, bytes(data)))
            return self.ok(code)
        if nblk == 2 and self.lite_s and numbers[1] == 0x91:
            n = numbers[0]
            d16, maca = data[0:16], data[16:32]
            if not self.rc_written or n not in self.b or n in (0x80, 0x90):
                return self.err(code, 0x01, 0xA8)
            if 0x82 <= n <= 0x88 and self.system_locked() and not (n in (0x86, 0x87) and self.b[0x88][5] & 1):
                return self.err(code, 0x01, 0xA8)
            if n < 15 and not self.mc_bit(0, n):
                return self.err(code, 0x01, 0xA8)
            if n < 15 and self.mc_bit(8, n) and not self.ext_auth:
                return self.err(code, 0x01, 0xB1)
            if bytes(maca[8:11]) != bytes(self.b[0x90][0:3]) or bytes(maca[0:8]) != self.mac_a_write(n, d16):
                return self.err(code, 0x02, 0xB2)            # MAC_A mismatch (stale counter, other session key ...)
            if n == 0x92:
                self.ext_auth = 1 if d16[0] == 0x01 else 0
            else:
                self.b[n] = bytearray(d16)
            self.bump_wcnt()
            self.log.append((n, bytes(d16)))
            return self.ok(code)
        return self.err(code, 0xFF, 0xA2)


class Air(object):
    """fake contactless frontend; `transit(direction, index, frame) -> frame | None` models the
    attacker (direction 'c' command to the tag / 'r' response to the reader, None = frame lost).
    `sent` keeps the commands as they left the reader, `trace` what reached the tag / the reader."""

    def __init__(self, tag, transit=None):
        self.tag = tag
        self.transit = transit
        self.n = 0
        self.trace = []
        self.sent = []

    def exchange(self, cmd, timeout):
        import nfc.clf
        i = self.n
        self.n += 1
        cmd = bytes(cmd)
        self.sent.append(cmd)
        if self.transit is not None:
            cmd = self.transit("c", i, cmd)
        rsp = None if cmd is None else self.tag.command(cmd)
        if rsp is not None and self.transit is not None:
            rsp = self.transit("r", i, bytes(rsp))
        self.trace.append((i, cmd, rsp))
        if rsp is None:
            raise nfc.clf.TimeoutError("no response")
        return bytearray(rsp)

    def sense(self, *args, **kwargs):
        return None


def activate(tag, transit=None, ndef_system=False):
    """the real nfcpy tag object talking to `tag` through `Air`; `ndef_system`: the tag was found by polling for
    the NDEF system code 12FCh (tag.sys == 0x12FC), else for FFFFh with the answer 88B4h"""
    import nfc.clf
    import nfc.tag.tt3
    air = Air(tag, transit)
    target = nfc.clf.RemoteTarget("212F", sensf_res=bytearray(b"\x01" + tag.idm + tag.pmm +
                                                             (b"\x12\xFC" if ndef_system else b"\x88\xB4")))
    t = nfc.tag.tt3.activate(air, target)
    return air, t


def key_block(key16):
    """how a 16-byte card key CK (as the reader's password bytes) is laid out in block 0x87:
    CK1 = first eight password bytes as a little-endian word's most significant byte first"""
    key16 = bytes(key16)
    return bytes(reversed(key16[0:8])) + bytes(reversed(key16[8:16]))


def store_ndef(blocks, message, nbr=4, nbw=1, nmaxb=13, rwflag=1, writef=0):
    """lay an NDEF message out on the card content `blocks` (dict number -> 16 octets): SYS_OP of MC, the attribute
    block with its checksum, the data blocks (NFC Forum Type 3 Tag operation)"""
    mc = bytearray(blocks[0x88])
    mc[3] = 1
    blocks[0x88] = bytes(mc)
    attr = bytearray([0x10, nbr, nbw, nmaxb >> 8, nmaxb & 255, 0, 0, 0, 0, writef, rwflag]) + len(message).to_bytes(3, "big")
    blocks[0] = bytes(attr + sum(attr).to_bytes(2, "big"))
    data = bytes(message) + bytes(-len(message) % 16)
    for i in range(len(data) // 16):
        blocks[1 + i] = data[16 * i:16 * i + 16]
    return blocks


def ndef_of(blocks):
    """the NDEF message a card with this content presents, None when the attribute block is not valid"""
    a = bytes(blocks[0])
    if (blocks[0x88][3] & 1) != 1 or sum(a[0:14]) != int.from_bytes(a[14:16], "big") or a[0] >> 4 != 1:
        return None
    nbr, nmaxb, ln = a[1], int.from_bytes(a[3:5], "big"), int.from_bytes(a[11:14], "big")
    if ln > nmaxb * 16 or nbr == 0 or 1 + (ln + 15) // 16 > 15:
        return None
    return b"".join(bytes(blocks[n]) for n in range(1, 1 + (ln + 15) // 16))[:ln]
