"""Scripted host transports with a nominal chipset behind them (property C13).

Every transport answers the host commands of the REAL nfcpy chipset classes
the way the vendor manuals say (ACK + response frame with a nominal payload)
and lets a test put exactly one *fault* at one *site* of an exchange:

  site  = (step, phase)      step  = index of the host command, counted from
                                     the first command after ``arm()``
                             phase = "write" | "ack" | "rsp"
  fault = ("errno", n)       transport.write / transport.read raises IOError(n)
        | ("frame", bytes)   transport.read returns these octets instead of the
                             ACK (phase ack) or the response frame (phase rsp)
        | ("payload", bytes) the response frame is well formed and carries
                             this payload (chip status / error codes)

When nothing is queued ``read`` raises IOError(ETIMEDOUT), like a USB/TTY
transport whose chip stays silent.
"""
import errno
import struct

ACK = bytes.fromhex("0000FF00FF00")


def pn_frame(payload):
    """PN53x information frame (normal or extended) around TFI+data"""
    p = bytes(payload)
    if len(p) < 256:
        head = b"\x00\x00\xff" + bytes([len(p), (256 - len(p)) & 255])
    else:
        ln = bytes([len(p) >> 8, len(p) & 255])
        head = b"\x00\x00\xff\xff\xff" + ln + bytes([(256 - sum(ln)) & 255])
    return head + p + bytes([(256 - sum(p)) & 255, 0])


def pn_parse(frame):
    """(code, data) of a host command frame written by pn53x.Chipset.command"""
    f = bytes(frame)
    if f[3:5] == b"\xff\xff":
        body = f[8:-2]
    else:
        body = f[5:-2]
    assert body[0] == 0xD4
    return body[1], body[2:]


class Base(object):
    TYPE = "TEST"

    def __init__(self):
        self.queue = []
        self.log = []          # (code, data) of every host command seen
        self.site = None
        self.fault = None
        self.step = 0
        self.hit = False       # the fault site was reached
        self.rf_data = b""     # what the remote device "answers"
        self.cancelled = 0

    def arm(self, site=None, fault=None):
        self.queue = []
        self.log = []
        self.site, self.fault = site, fault
        self.step = 0
        self.hit = False
        self.cancelled = 0

    def _at(self, step, phase):
        if self.site is not None and self.site == (step, phase):
            self.hit = True
            return self.fault
        return None

    def read(self, timeout=0):
        if not self.queue:
            raise IOError(errno.ETIMEDOUT, "scripted transport: chip is silent")
        r = self.queue.pop(0)
        if isinstance(r, Exception):
            raise r
        return bytearray(r)

    def close(self):
        pass

    # one host command: returns nothing, fills self.queue
    def _command(self, code, data, ack, wrap):
        step = self.step
        self.step += 1
        self.queue = []        # an unread response is discarded by the chip when a new command arrives
        self.log.append((code, bytes(data)))
        f = self._at(step, "write")
        if f is not None:
            raise IOError(f[1], "scripted write fault")
        payload = self.respond(code, bytes(data))
        if ack is not None:
            f = self._at(step, "ack")
            if f is None:
                self.queue.append(ack)
            elif f[0] == "errno":
                self.queue.append(IOError(f[1], "scripted read fault"))
            else:
                self.queue.append(bytes(f[1]))
        f = self._at(step, "rsp")
        if f is None:
            self.queue.append(wrap(code, payload))
        elif f[0] == "errno":
            self.queue.append(IOError(f[1], "scripted read fault"))
        elif f[0] == "frame":
            self.queue.append(bytes(f[1]))
        else:
            self.queue.append(wrap(code, bytes(f[1])))

    def nominal_frame(self, code, data):
        """the response frame the chip would send for this command (for building short/garbled variants)"""
        return self.wrap(code, self.respond(code, bytes(data)))


class Pn53x(Base):
    """PN531 / PN532 / RC-S956 (register commands without status), PN533
    (status byte first) behind a frame transport; ``prefix`` for Arygon"""

    def __init__(self, family, prefix=b""):
        Base.__init__(self)
        self.family = family
        self.prefix = prefix
        self.regs = {}
        self.fifo = b""        # CIU FIFO content for the register driven paths
        self.irq = (0x20, 0x00)   # CIU_CommIRq, CIU_DivIRq as polled

    def write(self, frame, *a):
        frame = bytes(frame)
        if frame.startswith(self.prefix):
            frame = frame[len(self.prefix):]
        if frame == ACK:
            self.cancelled += 1
            return
        code, data = pn_parse(frame)
        self._command(code, data, ACK, self.wrap)

    def wrap(self, code, payload):
        return pn_frame(bytes([0xD5, code + 1]) + bytes(payload))

    def reg(self, addr):
        if addr == 0x633A:     # CIU_FIFOLevel
            return len(self.fifo)
        if addr == 0x6334:     # CIU_CommIRq
            return self.irq[0]
        if addr == 0x6335:     # CIU_DivIRq
            return self.irq[1]
        return self.regs.get(addr, (addr * 7) & 0x7F)

    def respond(self, code, data):
        st = b"\x00" if self.family == "pn533" else b""
        if code == 0x06:       # ReadRegister
            addrs = [struct.unpack(">H", data[i:i + 2])[0] for i in range(0, len(data), 2)]
            vals, k = [], 0
            for a in addrs:
                if a == 0x6339:    # CIU_FIFOData
                    vals.append(self.fifo[k] if k < len(self.fifo) else 0)
                    k += 1
                else:
                    vals.append(self.reg(a))
            return st + bytes(vals)
        if code == 0x08:       # WriteRegister
            return b"\x00" if self.family in ("pn533", "rcs956") else b""
        if code == 0x32:       # RFConfiguration
            return b""
        if code in (0x42, 0x40):   # InCommunicateThru, InDataExchange
            return b"\x00" + self.rf_data
        if code == 0x90:       # TgResponseToInitiator
            return b"\x00"
        if code == 0x88:       # TgGetInitiatorCommand
            return b"\x00" + self.rf_data
        return b"\x00"


class Acr122(Base):
    """ACR122U: CCID escape carrying a pseudo APDU with the PN532 command;
    no ACK, one write and one read per host command"""
    family = "acr122"

    def __init__(self):
        Base.__init__(self)
        self.inner = Pn53x("pn532")

    def write(self, frame, *a):
        f = bytes(frame)
        assert f[0] == 0x6F and f[10:14] == b"\xff\x00\x00\x00" and f[15] == 0xD4, f.hex()
        self.inner.rf_data = self.rf_data
        self._command(f[16], f[17:], None, self.wrap)

    def respond(self, code, data):
        return self.inner.respond(code, data)

    def wrap(self, code, payload):
        rsp = bytes([0xD5, code + 1]) + bytes(payload) + b"\x90\x00"
        return b"\x80" + struct.pack("<I", len(rsp)) + bytes(5) + rsp


def rcs_frame(data):
    d = bytes(data)
    ln = struct.pack("<H", len(d))
    return b"\x00\x00\xff\xff\xff" + ln + bytes([(256 - sum(ln)) & 255]) + d + bytes([(256 - sum(d)) & 255, 0])


class Rcs380(Base):
    family = "rcs380"

    def write(self, frame, *a):
        f = bytes(frame)
        if f == ACK:
            self.cancelled += 1
            return
        assert f[:5] == b"\x00\x00\xff\xff\xff" and f[8] == 0xD6, f.hex()
        n = struct.unpack("<H", f[5:7])[0]
        self._command(f[9], f[10:8 + n], ACK, self.wrap)

    def wrap(self, code, payload):
        return rcs_frame(bytes([0xD7, code + 1]) + bytes(payload))

    def respond(self, code, data):
        if code == 0x04:       # InCommRF: 4 status octets, 1 octet rx info, data
            return bytes([0, 0, 0, 0, 8]) + self.rf_data
        if code == 0x48:       # TgCommRF: 3 octets, 4 status octets, data
            return bytes([8, 11, 0, 0, 0, 0, 0]) + self.rf_data
        return b"\x00"


class FakeSocket(object):
    """socket of nfc.clf.udp.Device; one sendto (step 0), one recvfrom (step 1)"""

    def __init__(self):
        self.arm()
        self.datagram = b""
        self.peer = ("127.0.0.1", 54321)

    def arm(self, site=None, fault=None):
        self.site, self.fault = site, fault
        self.sent = []
        self.hit = False
        self.delivered = False

    def _at(self, site):
        if self.site == site:
            self.hit = True
            return self.fault
        return None

    def sendto(self, data, addr):
        self.sent.append(bytes(data))
        f = self._at((0, "write"))
        if f is not None:
            if f[0] == "errno":
                raise OSError(f[1], "scripted sendto fault")
            return f[1]            # ("short", n): octets accepted by the stack
        return len(data)

    def ready(self):
        """select(): a datagram is waiting (once)"""
        if self.delivered:
            return False
        f = self._at((1, "ack"))
        if f is not None:          # the peer stays silent
            self.delivered = True
            return False
        return True

    def recvfrom(self, n):
        self.delivered = True
        f = self._at((1, "rsp"))
        if f is not None:
            if f[0] == "errno":
                raise OSError(f[1], "scripted recvfrom fault")
            return bytes(f[1]), self.peer
        return self.datagram, self.peer


class Clock(object):
    """virtual time for the modules that poll (time.time / time.sleep)"""

    def __init__(self):
        self.now = 1000.0

    def time(self):
        self.now += 0.001
        return self.now

    def sleep(self, s):
        self.now += s


class FakeSelect(object):
    def __init__(self, clock):
        self.clock = clock

    def select(self, r, w, x, timeout=None):
        s = r[0]
        if s.ready():
            return [s], [], []
        if timeout is None:
            raise RuntimeError("select() would block forever")
        self.clock.sleep(max(timeout, 0) + 0.001)
        return [], [], []


# ---------------------------------------------------------------------------
# chips that honour the CRC enable settings the driver programs (C14 part crcuse)
# ---------------------------------------------------------------------------
def crc16(data, reg):
    for octet in bytes(data):
        for pos in range(8):
            bit = (reg ^ (octet >> pos)) & 1
            reg >>= 1
            if bit:
                reg ^= 0x8408
    return reg


def crc_a(data):
    c = crc16(data, 0x6363)
    return bytes([c & 255, c >> 8])


def crc_b(data):
    c = ~crc16(data, 0xFFFF) & 0xFFFF
    return bytes([c & 255, c >> 8])


class Pn53xCiu(Pn53x):
    """PN53x with a CIU register file: InListPassiveTarget switches TxCRCEn /
    RxCRCEn (bit 7 of CIU_TxMode 6302h / CIU_RxMode 6303h) on, register
    writes are remembered, InCommunicateThru appends CRC_A to the command when
    TxCRCEn is set and checks + strips CRC_A of the tag frame when RxCRCEn is
    set (status 02h on a CRC error), otherwise hands the raw tag frame to the
    host.  Octets written to CIU_FIFOData are the raw Type 1 Tag command; the
    answer is put into the FIFO with parity bits (9 bits per octet), the way
    the PN532/PN533 Type 1 workaround of the driver expects it."""

    def __init__(self, family, prefix=b""):
        Pn53x.__init__(self, family, prefix)
        self.reset()

    def reset(self, sel_res=0):
        self.ciu = {0x6302: 0x80, 0x6303: 0x80}
        self.sel_res = sel_res
        self.tag_frame = b""     # what the tag sends, including its CRC
        self.air_tx = []         # frames as they leave the antenna
        self.fifo_in = []        # octets written to CIU_FIFOData
        self.fifo_out = None

    def _fill_fifo(self):
        bits = ""
        for b in bytes(self.tag_frame):
            bits += "{:08b}".format(b)[::-1] + str((bin(b).count("1") + 1) & 1)
        bits += "0" * (-len(bits) % 8)
        self.fifo_out = [int(bits[i:i + 8][::-1], 2) for i in range(0, len(bits), 8)]

    def respond(self, code, data):
        st = b"\x00" if self.family == "pn533" else b""
        if code == 0x06:
            addrs = [struct.unpack(">H", data[i:i + 2])[0] for i in range(0, len(data), 2)]
            vals = []
            for a in addrs:
                if a == 0x633A:
                    if self.fifo_out is None and self.fifo_in:
                        self._fill_fifo()
                    vals.append(len(self.fifo_out or []))
                elif a == 0x6339:
                    vals.append(self.fifo_out.pop(0) if self.fifo_out else 0)
                else:
                    vals.append(self.ciu.get(a, 0))
            return st + bytes(vals)
        if code == 0x08:
            for i in range(0, len(data), 3):
                a, v = struct.unpack(">HB", data[i:i + 3])
                if a == 0x6339:
                    self.fifo_in.append(v)
                else:
                    self.ciu[a] = v
            return b"\x00" if self.family in ("pn533", "rcs956") else b""
        if code == 0x32:
            return b""
        if code == 0x4A:           # InListPassiveTarget 106A: one target, CRC handling on
            self.ciu[0x6302] = self.ciu.get(0x6302, 0) | 0x80
            self.ciu[0x6303] = self.ciu.get(0x6303, 0) | 0x80
            return bytes([1, 1, 0x00, 0x04, self.sel_res, 4, 1, 2, 3, 4])
        if code == 0x42:           # InCommunicateThru
            tx = bytes(data)
            if self.ciu.get(0x6302, 0) & 0x80:
                tx += crc_a(tx)
            self.air_tx.append(tx)
            frame = bytes(self.tag_frame)
            if self.ciu.get(0x6303, 0) & 0x80:
                if len(frame) < 3 or crc_a(frame[:-2]) != frame[-2:]:
                    return b"\x02"
                return b"\x00" + frame[:-2]
            return b"\x00" + frame
        return b"\x00"


class Rcs380Crc(Rcs380):
    """RC-S380 that remembers InSetProtocol: add_crc (key 1) = 1 appends CRC_A
    to the command, check_crc (key 2) = 1 checks and strips CRC_A of the tag
    frame (CRC_ERROR status 00000004h otherwise); 0 leaves the frame alone."""

    def __init__(self):
        Rcs380.__init__(self)
        self.reset()

    def reset(self):
        self.proto = {}
        self.tag_frame = b""
        self.air_tx = []

    def respond(self, code, data):
        if code == 0x02:
            for i in range(0, len(data) - 1, 2):
                self.proto[data[i]] = data[i + 1]
            return b"\x00"
        if code == 0x04:
            tx = bytes(data[2:])
            if self.proto.get(1) == 1:
                tx += crc_a(tx)
            self.air_tx.append(tx)
            frame = bytes(self.tag_frame)
            if self.proto.get(2) == 1:
                if len(frame) < 3 or crc_a(frame[:-2]) != frame[-2:]:
                    return bytes([4, 0, 0, 0, 0])
                return bytes([0, 0, 0, 0, 8]) + frame[:-2]
            return bytes([0, 0, 0, 0, 8]) + frame
        return Rcs380.respond(self, code, data)
