"""Deterministic COMPLETE stack for the C06 check.

Two real `nfc.ContactlessFrontend` objects, each with an `AirDevice` driver double,
run the real `ContactlessFrontend.connect(llcp=...)`: real `LogicalLinkController`
(`activate`, `run_as_initiator` / `run_as_target`, `collect`, `dispatch`), real
`nfc.dep.Initiator` / `Target` (ATR / PSL, DEP chaining at the negotiated frame
size), real `nfc.llcp.tco.DataLinkConnection` sockets and on top the real
`SnepServer` / `SnepClient` / `HandoverServer` / `HandoverClient` started from the
`on-connect` callbacks like an application does.  The only doubles are

* the device driver (`AirDevice`): frames put on the air by one side are handed
  to the other side unchanged (`Air.wire` keeps every radio frame),
* `threading` inside `nfc.llcp.tco`, `nfc.llcp.llc`, `nfc.snep.server`,
  `nfc.handover.server` (`Condition` and `Thread` become scheduler controlled,
  locks stay real),
* the clocks read by nfcpy (`time.time()` is constant, `time.sleep()` is a
  scheduling point).

Scheduling.  Every thread (two link threads running `clf.connect`, the
application threads) is a real Python thread, but exactly one runs at any time:
a thread keeps the baton until it blocks (Condition.wait, waiting for a frame on
the air, time.sleep in the LLC run loop) or - for application threads - until it
is *preempted* at a socket API boundary (`llc.send/recv/poll`, a decision of the
policy).  The scheduler (the calling thread) then picks the next thread.  An
application thread that was notified / preempted is held back for a number of
*ticks* chosen by the policy (one tick = one `collect()` of either link thread):
that is the deterministic "slow consumer".  Time never passes by itself: a timed
wait expires only when nothing else can happen any more (all application threads
blocked without notification, only SYMM on the link), and when nobody has a timed
wait in that situation the `terminate` callable of both `connect()` calls turns
true and the link is shut down the regular way (DISC, DSL_REQ).  A run is a pure
function of (scenario, policy).
"""
import collections
import random
import threading

import nfc
import nfc.clf
import nfc.clf.device
import nfc.dep
import nfc.llcp
import nfc.llcp.llc
import nfc.llcp.tco

from common import Infra


class Abort(BaseException):
    """raised inside a parked thread when the run is torn down"""


class Th(object):
    def __init__(self, sched, name, kind, fn):
        self.sched, self.name, self.kind, self.fn = sched, name, kind, fn
        self.go = threading.Semaphore(0)
        self.state = "ready"        # ready | cond | air | done
        self.hold = 0               # ticks to wait before the thread may run
        self.notified = False
        self.timed = False
        self.timeout_fired = False
        self.air_timeout = False
        self.cv = None
        self.air_role = None
        self.air_ready = lambda: False
        self.abort = False
        self.result = None          # ("ok", value) | ("exc", e) | ("abort",)
        self.parked_at = 0
        self.thread = threading.Thread(target=self._body, name="c06full-" + name, daemon=True)
        self.thread.start()

    def _body(self):
        self.go.acquire()
        try:
            if self.abort:
                self.result = ("abort",)
            else:
                self.result = ("ok", self.fn())
        except Abort:
            self.result = ("abort",)
        except BaseException as e:  # noqa  (SystemExit from the run loops included)
            self.result = ("exc", e)
        self.state = "done"
        self.sched.back.release()


class Policy(object):
    """decides how long a runnable application thread is held back and where it is preempted

    kind: prompt      application threads run as soon as they can
          slow:<who>  threads whose name starts with <who> ('c' client side, 's' server side)
                      are held `lag` ticks whenever they become runnable and are preempted
                      after every socket call
          random      every decision from the seeded generator
    """

    def __init__(self, kind="prompt", lag=6, seed=0, preempt=0.3):
        self.kind, self.lag, self.seed, self.p = kind, lag, seed, preempt
        self.rng = random.Random(seed)

    def describe(self):
        return {"kind": self.kind, "lag": self.lag, "seed": self.seed, "preempt": self.p}

    def _slow(self, th):
        return self.kind.startswith("slow:") and th.name.startswith(self.kind[5:])

    def hold(self, th, why):
        if self.kind == "random":
            return self.rng.choice([0, 0, 0, 1, 2, 3, 5, 9])
        if self._slow(th):
            return self.lag
        return 0

    def preempt(self, th, api):
        if self.kind == "random":
            return self.rng.random() < self.p
        return self._slow(th)


class Sched(object):
    HARD = 30.0

    def __init__(self, policy, max_steps=30000):
        self.policy = policy
        self.threads = []
        self.current = None
        self.back = threading.Semaphore(0)
        self.steps = 0
        self.max_steps = max_steps
        self.idle = 0               # consecutive collect() == None without application activity
        self.stop = False           # terminate() of both connect() calls
        self.stopping_at = None
        self.timeouts = 0
        self.air_timeouts = 0
        self.ticks = 0
        self.log = []               # scheduling decisions (for diagnostics)
        self.problem = None
        self.apps_done_hook = None

    # ---------------------------------------------------------------- threads
    def spawn(self, name, kind, fn):
        t = Th(self, name, kind, fn)
        if kind == "app":
            t.hold = self.policy.hold(t, "start") if not self.stop else 0
        self.threads.append(t)
        return t

    def me(self):
        t = self.current
        if t is None or t.thread is not threading.current_thread():
            return None
        return t

    def _park(self, t):
        """called by thread t: give the baton back, continue when chosen again"""
        t.parked_at = self.steps
        self.back.release()
        t.go.acquire()
        if t.abort:
            raise Abort()

    # ---------------------------------------------------------------- yield points (called from threads)
    def tick(self):
        """time.sleep() in a link thread: one unit of link time passes"""
        t = self.me()
        if t is None:
            return
        self.ticks += 1
        for a in self.threads:
            if a.kind == "app" and a.hold > 0:
                a.hold -= 1
        t.state = "ready"
        self._park(t)

    def preempt_point(self, api):
        t = self.me()
        if t is None or t.kind != "app" or self.stop:
            return
        if self.policy.preempt(t, api):
            t.state = "ready"
            t.hold = self.policy.hold(t, "preempt")
            self._park(t)

    def app_activity(self):
        self.idle = 0

    # ---------------------------------------------------------------- main loop
    def _eligible(self, t):
        if t.state == "ready":
            return t.hold == 0
        if t.state == "cond":
            return (t.notified or t.timeout_fired) and t.hold == 0
        if t.state == "air":
            return t.air_ready() or t.air_timeout
        return False

    def _give(self, t):
        self.current = t
        self.steps += 1
        if t.kind == "app":
            self.idle = 0
        t.go.release()
        if not self.back.acquire(timeout=self.HARD):
            self.problem = "thread %s did not give the baton back within %.0f s" % (t.name, self.HARD)
            raise Infra("snep_full: " + self.problem)
        self.current = None

    def run(self):
        """returns 'ok' | 'step-budget' ; afterwards every thread is done or aborted"""
        verdict = "ok"
        while True:
            live = [t for t in self.threads if t.state != "done"]
            if not live:
                break
            if self.steps >= self.max_steps:
                verdict = "step-budget"
                break
            if not self.stop and any(t.kind == "link" and t.state == "done" for t in self.threads):
                self.stop = True        # one device left the link: the other connect() call is told to terminate
                self.stopping_at = self.steps
                for t in live:
                    t.hold = 0
            apps = [t for t in live if t.kind == "app" and self._eligible(t)]
            links = [t for t in live if t.kind == "link" and self._eligible(t)]
            held = [t for t in live if t.kind == "app" and t.hold > 0 and
                    (t.state == "ready" or (t.state == "cond" and (t.notified or t.timeout_fired)))]
            if apps:
                self._give(apps[0])
                continue
            # nothing at the application level can run: is the link quiet as well?
            if not held and self.idle >= 8 and not self.stop:
                timed = [t for t in live if t.kind == "app" and t.state == "cond" and t.timed
                         and not t.notified and not t.timeout_fired]
                if timed:
                    t = min(timed, key=lambda x: x.parked_at)
                    t.timeout_fired = True
                    self.timeouts += 1
                    self.idle = 0
                    continue
                self.stop = True
                self.stopping_at = self.steps
                for t in live:
                    t.hold = 0
                continue
            if links:
                # strict alternation makes at most one link thread runnable except at the start
                self._give(links[0])
                continue
            if held:
                for t in held:
                    t.hold = 0
                continue
            # no thread can run.  Both link threads wait on the air: the Initiator's response
            # waiting time expires (the only timeout the NFC-DEP shutdown sequence relies on)
            air = [t for t in live if t.state == "air" and t.air_role == "I" and not t.air_timeout]
            if air:
                air[0].air_timeout = True
                self.air_timeouts += 1
                continue
            air = [t for t in live if t.state == "air" and not t.air_timeout]
            if air:
                air[0].air_timeout = True
                self.air_timeouts += 1
                continue
            timed = [t for t in live if t.state == "cond" and t.timed and not t.timeout_fired]
            if timed:
                timed[0].timeout_fired = True
                self.timeouts += 1
                continue
            break       # deadlock: only untimed waits are left
        self.end_state = {t.name: ("done" if t.state == "done" else "blocked:" + t.state) for t in self.threads}
        # tear down whatever is still parked
        for _ in range(200):
            live = [t for t in self.threads if t.state != "done"]
            if not live:
                break
            t = live[0]
            t.abort = True
            self.current = t
            t.go.release()
            if not self.back.acquire(timeout=self.HARD):
                raise Infra("snep_full: thread %s could not be torn down" % t.name)
            self.current = None
        for t in self.threads:
            t.thread.join(5.0)
        return verdict


class SCondition(object):
    """stand-in for threading.Condition(lock): same lock protocol, scheduler controlled wait"""

    def __init__(self, sched, lock=None):
        self.sched = sched
        self.lock = lock if lock is not None else threading.RLock()
        self.waiters = []

    def __enter__(self):
        return self.lock.__enter__()

    def __exit__(self, *a):
        return self.lock.__exit__(*a)

    def acquire(self, *a, **k):
        return self.lock.acquire(*a, **k)

    def release(self):
        return self.lock.release()

    def wait(self, timeout=None):
        s = self.sched
        t = s.me()
        if t is None:
            raise Infra("snep_full: Condition.wait() outside a scheduled thread")
        self.waiters.append(t)
        t.state, t.cv, t.notified, t.timed, t.timeout_fired = "cond", self, False, timeout is not None, False
        saved = self.lock._release_save()
        try:
            t.parked_at = s.steps
            s.back.release()
            t.go.acquire()
        finally:
            self.lock._acquire_restore(saved)
            if t in self.waiters:
                self.waiters.remove(t)
            t.state = "ready"
        if t.abort:
            raise Abort()
        return bool(t.notified)

    def _mark(self, t):
        t.notified = True
        if t.kind == "app" and not self.sched.stop:
            t.hold = self.sched.policy.hold(t, "notify")

    def notify(self, n=1):
        for t in [w for w in self.waiters if not w.notified][:n]:
            self._mark(t)

    def notify_all(self):
        for t in [w for w in self.waiters if not w.notified]:
            self._mark(t)

    notifyAll = notify_all


class ThreadingShim(object):
    """what nfcpy modules use of `threading`"""

    def __init__(self, sched):
        self.sched = sched
        self.RLock = threading.RLock
        self.Lock = threading.Lock
        self.current_thread = threading.current_thread
        self.Event = threading.Event
        shim = self

        class Thread(object):
            def __init__(self, group=None, target=None, name=None, args=(), kwargs=None, daemon=None):
                if isinstance(self, threading.Thread):      # SnepServer / HandoverServer are real Thread subclasses
                    threading.Thread.__init__(self, group=group, target=target, name=name, args=args, kwargs=kwargs)
                    return
                self._target, self._args, self._kwargs = target, args, kwargs or {}
                self.name = name or "thread"
                self.daemon = daemon
                self._th = None

            def run(self):
                if self._target:
                    return self._target(*self._args, **self._kwargs)

            def start(self):
                n = sum(1 for t in shim.sched.threads if t.kind == "app")
                side = getattr(shim.sched.me(), "name", "x")[:1]
                self._th = shim.sched.spawn("%s%d-%s" % (side, n, self.name), "app", self.run)

            def is_alive(self):
                return self._th is not None and self._th.state != "done"

            def join(self, timeout=None):
                return None

        self.Thread = Thread

    def Condition(self, lock=None):
        return SCondition(self.sched, lock)


class Clock(object):
    def __init__(self, sched):
        self.sched = sched

    def time(self):
        return 1000.0

    def sleep(self, d):
        self.sched.tick()


class Air(object):
    """the radio channel: one frame at a time, in strict alternation"""

    def __init__(self, sched):
        self.sched = sched
        self.box = {"I": collections.deque(), "T": collections.deque()}   # frames waiting for that side
        self.wire = []          # (from, brty, bytes)
        self.maxlen = 0

    def put(self, frm, brty, frame):
        frame = bytes(frame)
        self.wire.append((frm, brty, frame))
        self.maxlen = max(self.maxlen, len(frame))
        self.box["T" if frm == "I" else "I"].append((brty, frame))

    def get(self, me):
        """next frame for side `me`; nfc.clf.TimeoutError when the scheduler lets the wait expire"""
        s = self.sched
        t = s.me()
        if t is None:
            raise Infra("snep_full: air access outside a scheduled thread")
        if not self.box[me]:
            t.state, t.air_role, t.air_timeout = "air", me, False
            t.air_ready = lambda: bool(self.box[me])
            try:
                s._park(t)
            finally:
                t.state = "ready"
            if not self.box[me]:
                raise nfc.clf.TimeoutError("no frame for %s" % me)
        return self.box[me].popleft()


class AirDevice(nfc.clf.device.Device):
    """driver double (modelled after nfc/clf/udp.py): moves frames, nothing else"""

    def __init__(self, air, side, comm):
        self.air, self.side, self.comm = air, side, comm
        self._path = "air:" + side
        self._chipset_name = "AIR"

    def close(self):
        pass

    def mute(self):
        pass

    def turn_on_led_and_buzzer(self):
        pass

    def turn_off_led_and_buzzer(self):
        pass

    def get_max_send_data_size(self, target):
        return 290

    def get_max_recv_data_size(self, target):
        return 290

    # ---- Initiator
    def sense_tta(self, target):
        if self.comm != "passive-106A":
            return None
        return nfc.clf.RemoteTarget("106A", sens_res=bytearray.fromhex("0101"),
                                    sdd_res=bytearray.fromhex("08010203"), sel_res=bytearray.fromhex("40"))

    def sense_ttb(self, target):
        return None

    def sense_ttf(self, target):
        if self.comm != "passive-212F":
            return None
        return nfc.clf.RemoteTarget(target.brty, sensf_res=bytearray.fromhex(
            "01 01FE010203040506 0000000000000000 FFFF"))

    def sense_dep(self, target):
        if self.comm != "active":
            raise nfc.clf.UnsupportedTargetError("no active communication mode on this air")
        frame = bytearray([len(target.atr_req) + 1]) + target.atr_req
        if target.brty == "106A":
            frame.insert(0, 0xF0)
        self.air.put("I", target.brty, frame)
        try:
            brty, rsp = self.air.get("I")
        except nfc.clf.CommunicationError:
            return None
        rsp = bytearray(rsp)
        if brty == "106A":
            rsp.pop(0)
        rsp.pop(0)
        return nfc.clf.RemoteTarget(target.brty, atr_req=target.atr_req, atr_res=rsp)

    def send_cmd_recv_rsp(self, target, data, timeout):
        if data is not None:
            self.air.put("I", target.brty, data)
        if timeout > 0:
            brty, rsp = self.air.get("I")
            return bytearray(rsp)

    # ---- Target
    def _unframe(self, brty, data):
        data = bytearray(data)
        if brty == "106A":
            if not data or data.pop(0) != 0xF0:
                return None
        if not data or data.pop(0) != len(data) + 1:
            return None
        return data

    def _frame(self, brty, data):
        data = bytearray([len(data) + 1]) + data
        if brty == "106A":
            data.insert(0, 0xF0)
        return data

    def listen_dep(self, target, timeout):
        atr_res = bytearray(target.atr_res)
        try:
            brty, data = self.air.get("T")
        except nfc.clf.CommunicationError:
            return None
        data = self._unframe(brty, data)
        if data is None or not data.startswith(b"\xD4\x00"):
            return None
        kw = dict(atr_res=atr_res, atr_req=data)
        if self.comm == "passive-106A":
            kw.update(sens_res=target.sens_res, sdd_res=target.sdd_res, sel_res=target.sel_res)
        elif self.comm == "passive-212F":
            kw.update(sensf_res=target.sensf_res)
        result = nfc.clf.LocalTarget(brty, **kw)
        self.air.put("T", brty, self._frame(brty, atr_res))
        brty, data = self.air.get("T")
        data = self._unframe(brty, data)
        if data is None:
            return None
        if data.startswith(b"\xD4\x04"):
            result.psl_req = data[:]
            result.psl_res = b"\xD5\x05" + data[2:3]
            self.air.put("T", brty, self._frame(brty, bytearray(result.psl_res)))
            want = ("106A", "212F", "424F")[data[3] >> 3 & 7]
            brty, data = self.air.get("T")
            if brty != want:
                return None
            result.brty = brty
            data = self._unframe(brty, data)
            if data is None:
                return None
        if data.startswith(b"\xD4\x06"):
            result.dep_req = data[:]
            return result
        return None

    def send_rsp_recv_cmd(self, target, data, timeout):
        if data is not None:
            self.air.put("T", target.brty, data)
        if timeout is None or timeout > 0:
            brty, cmd = self.air.get("T")
            return bytearray(cmd)


PATCHED = [("nfc.llcp.tco", "threading"), ("nfc.llcp.llc", "threading"), ("nfc.snep.server", "threading"),
           ("nfc.handover.server", "threading")]
CLOCKED = ["nfc.llcp.llc", "nfc.dep", "nfc.clf", "nfc.handover.client"]


class Patches(object):
    """module level doubles, installed for the duration of one run"""

    def __init__(self, sched, seed, events=None):
        self.sched, self.seed = sched, seed
        self.events = events if events is not None else []
        self.lost = {}
        self.owed_dm = []           # (addr, peer) of sockets closed while the DM for the peer's DISC was not yet sent
        self.saved = []

    def _window_events(self):
        """log (socket, letter, state of the receive side) for the events of the windowed model:
        x = an I PDU reaches the socket, r = the application takes a message, a = V(RA) moves"""
        D = nfc.llcp.tco.DataLinkConnection
        ev, lost = self.events, self.lost
        dm_sent = {}

        def digest(sock):
            return "%d:%d:%d:%d:%d" % (sum(1 for p in sock.recv_queue if p.name == "I"), sock.recv_confs,
                                       sock.recv_ack, sock.recv_cnt, lost.get(id(sock), 0))
        real_enq, real_recv, real_deq, real_ack = D.enqueue, D.recv, D.dequeue, D.sendack

        def enqueue(sock, rcvd_pdu):
            if rcvd_pdu.name != "I" or not sock.state.ESTABLISHED:
                return real_enq(sock, rcvd_pdu)
            cnt, n = sock.recv_cnt, len(sock.recv_queue)
            r = real_enq(sock, rcvd_pdu)
            if sock.recv_cnt != cnt:
                if len(sock.recv_queue) == n:
                    lost[id(sock)] = lost.get(id(sock), 0) + 1
                ev.append((sock, "x", digest(sock)))
            return r

        def recv(sock):
            r = real_recv(sock)
            if r is not None:
                ev.append((sock, "r", digest(sock)))
            return r

        def dequeue(sock, miu_size, icv_size):
            ack = sock.recv_ack
            r = real_deq(sock, miu_size, icv_size)
            if r is not None and r.name == "DM":
                dm_sent[id(sock)] = dm_sent.get(id(sock), 0) + 1
            if sock.recv_ack != ack:
                ev.append((sock, "a", digest(sock)))
            return r

        def sendack(sock):
            ack = sock.recv_ack
            r = real_ack(sock)
            if sock.recv_ack != ack:
                ev.append((sock, "a", digest(sock)))
            return r
        real_close, owed = D.close, self.owed_dm

        def close(sock):
            # the answer to the peer's DISC is still in the send queue: does it go out, or is it cleared with the queue?
            pending = sum(1 for p in sock.send_queue if p.name == "DM") if sock.state.CLOSE_WAIT and sock.is_bound else 0
            before = dm_sent.get(id(sock), 0)
            r = real_close(sock)
            if pending and dm_sent.get(id(sock), 0) < before + pending:
                owed.append((sock.addr, sock.peer))
            return r
        self.saved.append((D, "close", D.close))
        D.close = close
        for name, fn in (("enqueue", enqueue), ("recv", recv), ("dequeue", dequeue), ("sendack", sendack)):
            self.saved.append((D, name, getattr(D, name)))
            setattr(D, name, fn)

    def __enter__(self):
        import importlib
        shim = ThreadingShim(self.sched)
        clock = Clock(self.sched)
        for mod, attr in PATCHED:
            m = importlib.import_module(mod)
            self.saved.append((m, attr, getattr(m, attr)))
            setattr(m, attr, shim)
        for mod in CLOCKED:
            m = importlib.import_module(mod)
            self.saved.append((m, "time", getattr(m, "time")))
            setattr(m, "time", clock)
        m = nfc.llcp.llc
        self.saved.append((m, "random", m.random))
        m.random = random.Random(self.seed)
        self._window_events()
        return self

    def __exit__(self, *a):
        for m, attr, val in reversed(self.saved):
            setattr(m, attr, val)
        return False


class Stack(object):
    """both devices; `client_role` says which side of the NFC-DEP link runs the client application"""

    def __init__(self, policy, llcp_i, llcp_t, comm="active", seed=0, max_steps=30000):
        self.sched = Sched(policy, max_steps)
        self.air = Air(self.sched)
        self.comm = comm
        self.seed = seed
        self.opts = {"I": dict(llcp_i), "T": dict(llcp_t)}
        self.llc = {}
        self.sent = {"I": [], "T": []}      # messages accepted by llc.send (socket address, octets)
        self.rcvd = {"I": [], "T": []}      # messages returned by llc.recv
        self.connect_result = {}
        self.collects = {"I": 0, "T": 0}
        self.events = []            # (socket | None, letter, digest) see Patches._window_events

    def _instrument(self, side, llc):
        """scheduling hooks at the socket API boundary; the real methods do the work"""
        s = self.sched
        real_send, real_recv, real_poll, real_collect = llc.send, llc.recv, llc.poll, llc.collect
        sent, rcvd = self.sent[side], self.rcvd[side]

        def send(socket, message, flags=0):
            s.preempt_point("send")
            # logged when handed over: send() returns only after the link thread took the PDU, and
            # reports the connection state of that later moment
            entry = (socket.addr, socket.peer, bytes(message))
            sent.append(entry)
            try:
                return real_send(socket, message, flags)
            except Exception:
                sent.remove(entry)
                raise

        def recv(socket):
            s.preempt_point("recv")
            r = real_recv(socket)
            if r is not None:
                rcvd.append((socket.addr, socket.peer, bytes(r)))
            return r

        def poll(socket, event, timeout=None):
            s.preempt_point("poll")
            return real_poll(socket, event, timeout)

        def collect(delay=None):
            p = real_collect(delay)
            self.collects[side] += 1
            if p is None:
                s.idle += 1
            else:
                s.idle = 0
            return p

        llc.send, llc.recv, llc.poll, llc.collect = send, recv, poll, collect

    def run(self, startup, connected):
        """startup[side](llc) is called from on-startup (bind servers), connected[side](llc, spawn)
        from on-connect (start application threads with spawn(name, fn))"""
        s = self.sched
        with Patches(s, self.seed, self.events) as patches:
            self.discards = patches.lost        # id(socket) -> I PDUs dropped by a full receive queue
            self.owed_dm = patches.owed_dm
            for side in "IT":
                clf = nfc.ContactlessFrontend()
                clf.device = AirDevice(self.air, side, self.comm)
                opts = dict(self.opts[side])
                opts["role"] = "initiator" if side == "I" else "target"

                def on_startup(llc, side=side):
                    self.llc[side] = llc
                    self._instrument(side, llc)
                    startup[side](llc)
                    return llc

                def on_connect(llc, side=side):
                    connected[side](llc, lambda name, fn: s.spawn(name, "app", fn))
                    return True
                opts["on-startup"], opts["on-connect"] = on_startup, on_connect

                def link(clf=clf, opts=opts, side=side):
                    r = clf.connect(llcp=opts, terminate=lambda: s.stop)
                    self.connect_result[side] = r
                    return r
                s.spawn("link" + side, "link", link)
            # the Target listens first
            s.threads.reverse()
            verdict = s.run()
        return verdict


# ------------------------------------------------------------------ independent reading of the radio frames
def air_messages(wire):
    """reassemble, from the radio frames alone, the I PDU payloads per (direction, dsap, ssap):
    NFC-DEP information PDUs (chaining) -> LLC PDUs (AGF unpacked) -> I PDUs.
    returns (dict key=(from, dsap, ssap) -> [payload...], list of anomalies)"""
    out, bad = {}, []
    chain = {"I": bytearray(), "T": bytearray()}
    for frm, brty, frame in wire:
        f = bytearray(frame)
        if brty == "106A":
            if not f or f.pop(0) != 0xF0:
                bad.append("106A frame without F0")
                continue
        if not f or f.pop(0) != len(f) + 1:
            bad.append("length byte wrong")
            continue
        if len(f) + 1 > 255:
            bad.append("frame longer than 255")
        if len(f) < 3 or bytes(f[0:2]) not in (b"\xD4\x06", b"\xD5\x07"):
            continue            # ATR / PSL / DSL / RLS
        pfb = f[2]
        body = f[3 + (1 if pfb & 4 else 0) + (1 if pfb & 8 else 0):]
        fmt = pfb >> 4
        if fmt not in (0, 1):
            continue            # ACK / NAK / ATN / RTOX
        chain[frm] += body
        if fmt == 1:
            continue
        sdu, chain[frm] = bytes(chain[frm]), bytearray()
        for p in llc_pdus(sdu, bad):
            dsap, ptype, ssap = p[0] >> 2, ((p[0] & 3) << 2) | (p[1] >> 6), p[1] & 63
            if ptype == 12:
                if len(p) < 3:
                    bad.append("I PDU without sequence field")
                    continue
                out.setdefault((frm, dsap, ssap), []).append((p[2] >> 4, p[2] & 15, bytes(p[3:])))
    return out, bad


def llc_pdus(sdu, bad):
    if len(sdu) < 2:
        bad.append("LLC PDU shorter than its header")
        return []
    dsap, ptype, ssap = sdu[0] >> 2, ((sdu[0] & 3) << 2) | (sdu[1] >> 6), sdu[1] & 63
    if ptype == 2 and dsap == 0 and ssap == 0:
        res, i = [], 2
        while i + 2 <= len(sdu):
            n = sdu[i] * 256 + sdu[i + 1]
            res.append(sdu[i + 2:i + 2 + n])
            i += 2 + n
        if i != len(sdu):
            bad.append("AGF with trailing octets")
        return [p for p in res if len(p) >= 2]
    return [sdu]
