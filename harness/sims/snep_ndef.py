"""NDEF messages of an exact encoded size for the C06 check (built with ndeflib)."""
import ndef

TYPES = ["unknown", "a/b", "text/x-verif", "urn:nfc:ext:x.org:t", "urn:nfc:wkt:Zz"]


def enc(records):
    return b"".join(ndef.message_encoder(records))


def _payload(rng, n):
    k = rng.randrange(4)
    if k == 0:
        return bytes(rng.randrange(256) for _ in range(n))
    if k == 1:
        return bytes((i * 7 + 3) & 255 for i in range(n))
    if k == 2:
        # bytes that look like record headers / SNEP headers
        return bytes(rng.choice([0xD1, 0x10, 0x80, 0x81, 0x00, 0xFF, 0x51, 0x02]) for _ in range(n))
    return bytes([rng.randrange(256)]) * n


def _fill(rng, size, head):
    """append one or two filler records to `head` (list of records) so that the
    encoded message has exactly `size` octets; None if this shape cannot"""
    base = len(enc(head)) if head else 0
    rest = size - base
    if rest == 0 and head:
        return head
    for _ in range(40):
        t = rng.choice(TYPES)
        name = rng.choice(["", "", "0", "id7"])
        tl = 0 if t == "unknown" else len(t.replace("urn:nfc:wkt:", "").replace("urn:nfc:ext:", ""))
        over = 2 + tl + ((1 + len(name)) if name else 0)
        split = rng.random() < 0.3 and rest >= over + 1 + 3 + 1
        want = rest - (rng.randrange(3, min(rest - over - 1, 40) + 1) if split and rest - over - 1 >= 3 else 0)
        p = want - over - 1
        if p < 0:
            continue
        if p > 255:
            p = want - over - 4
            if p < 256:
                continue
        recs = list(head) + [ndef.Record(t, name, _payload(rng, p))]
        if want != rest:
            recs = _fill(rng, size, recs)
            if recs is None:
                continue
        if len(enc(recs)) == size:
            return recs
    return None


def message(rng, size, head=None):
    """records of a valid NDEF message with exactly `size` octets (or None)"""
    if size == 0 and not head:
        return []
    for _ in range(20):
        recs = _fill(rng, size, list(head or []))
        if recs is not None:
            o = enc(recs)
            # the assumption about ndeflib used by the check: decode/encode is the identity here
            if len(o) == size and enc(list(ndef.message_decoder(o, known_types={}))) == o:
                return recs
    return None


def handover_request(rng, size):
    hr = ndef.HandoverRequestRecord("1.2", rng.randrange(65536))
    if rng.random() < 0.5:
        hr.add_alternative_carrier("active", "0")
    recs = message(rng, size, [hr])
    if recs is None:
        return None
    o = enc(recs)
    if enc(list(ndef.message_decoder(o, "relax"))) != o:
        return None
    return recs


def handover_select(rng, size):
    hs = ndef.HandoverSelectRecord("1.2")
    recs = message(rng, size, [hs])
    if recs is None:
        return None
    o = enc(recs)
    if enc(list(ndef.message_decoder(o, "relax"))) != o:
        return None
    return recs
