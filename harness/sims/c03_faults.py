"""C03: Type 2 Tag with 1-4 sectors of 1 KiB behind a fake clf, with a fault script PER exchange() call.

The tag is the state machine of the NFC Forum Type 2 Tag operation specification: READ (16 bytes, roll-over at
the end of the memory), WRITE (one page), SECTOR SELECT packet 1 (ACK, then the tag waits for packet 2) and
packet 2 (passive ACK = silence; an invalid packet 2 is answered with NAK and leaves the sector as it was).
(Re)activation by sense() returns the tag to sector 0.

Fault of one exchange() call (key = number of the call counted from `arm()`):

* ("drop",)        the frame never reaches the tag, the reader runs into its timeout
* ("corrupt", e)   the frame reaches the tag damaged: the tag does not execute it (a pending SECTOR SELECT is
                   abandoned, the sector stays), the reader sees `e` in {"timeout", "transmission", "protocol"}
                   or, with e == "nak", a clean NAK
* ("lost", e)      the tag executes the command, the answer is lost: the reader sees `e` in {"timeout",
                   "transmission", "protocol"}

Every command that the tag EXECUTED is recorded in `trace` as (kind, sector the tag was in, sector the tag object
believed (tag._current_sector, None when no object is attached), page, data); `writes` holds (absolute byte
address, 4 bytes) of the executed WRITEs.
"""
import nfc.clf

ERR = {"timeout": nfc.clf.TimeoutError, "transmission": nfc.clf.TransmissionError, "protocol": nfc.clf.ProtocolError}


class T2SectorSim(object):
    UNIT = 4

    def __init__(self, mem, sdd=b"\x01\x02\x03\x04\x05\x06\x07"):
        assert len(mem) % 4 == 0
        self.mem = bytearray(mem)
        self.sdd = bytes(sdd)
        self.sector = 0
        self.pend = False
        self.obj = None
        self.arm({})

    def arm(self, script):
        self.script = dict(script or {})
        self.n = 0
        self.writes = []
        self.trace = []
        self.kinds = []          # kind of every exchange() call: 'ss1' 'ss2' 'read' 'write' 'other'
        self.senses = 0
        # event no reader can handle (see Model/SectC03): unfaithful passive ack of packet 2 (silence although the
        # tag did not switch, or a clean NAK although it did)
        self.amb_ack = False
        self.amb_sense = False          # kept for callers; a re-activation is handled by the code (belief := 0)

    def target(self):
        return nfc.clf.RemoteTarget("106A", sens_res=bytearray(b"\x44\x00"), sel_res=bytearray(b"\x00"),
                                    sdd_res=bytearray(self.sdd))

    def sense(self, *targets, **kw):
        self.sector = 0
        self.pend = False
        self.senses += 1
        return targets[0] if targets else self.target()

    def believed(self):
        return None if self.obj is None else getattr(self.obj, "_current_sector", None)

    def kind_of(self, data):
        if data[:1] == b"\xC2" and len(data) == 2:
            return "ss1"
        if len(data) == 4 and (self.kinds[-1:] == ["ss1"]):
            return "ss2"
        if data[:1] == b"\x30" and len(data) == 2:
            return "read"
        if data[:1] == b"\xA2" and len(data) == 6:
            return "write"
        return "other"

    def _tag(self, data):
        """the tag executes one intact frame: response bytes, or None for silence"""
        if self.pend:
            self.pend = False
            if len(data) == 4 and data[0] * 1024 < len(self.mem):
                self.trace.append(("select", self.sector, self.believed(), data[0], b""))
                self.sector = data[0]
                return None
            return bytearray([0x00])
        if data[0] == 0x30 and len(data) == 2:
            a = self.sector * 1024 + data[1] * 4
            if a >= len(self.mem) or data[1] * 4 >= 1024:
                return bytearray([0x00])
            d = self.mem[a:a + 16]
            if len(d) < 16:
                d = d + self.mem[0:16 - len(d)]
            self.trace.append(("read", self.sector, self.believed(), data[1], b""))
            return bytearray(d)
        if data[0] == 0xA2 and len(data) == 6:
            a = self.sector * 1024 + data[1] * 4
            if a >= len(self.mem) or data[1] * 4 >= 1024:
                return bytearray([0x00])
            self.mem[a:a + 4] = data[2:6]
            self.writes.append((a, bytes(data[2:6])))
            self.trace.append(("write", self.sector, self.believed(), data[1], bytes(data[2:6])))
            return bytearray([0x0A])
        if data[0] == 0xC2 and len(data) == 2:
            if len(self.mem) > 1024:
                self.pend = True
                return bytearray([0x0A])
            return bytearray([0x00])
        return None

    def exchange(self, data, timeout):
        if self.kind_of(bytes(data)) != "ss2":
            return self._exchange(data)
        # SECTOR SELECT packet 2: was the passive acknowledgement faithful?  Unfaithful: silence although the tag did
        # not switch, or a clean answer although it did.  A damaged answer is not ambiguous: the code forgets the sector.
        ntrace = len(self.trace)
        seen = "error"
        try:
            rsp = self._exchange(data)
            seen = "data"
            return rsp
        except nfc.clf.TimeoutError:
            seen = "silence"
            raise
        finally:
            switched = len(self.trace) > ntrace
            if (seen == "silence" and not switched) or (seen == "data" and switched):
                self.amb_ack = True

    def _exchange(self, data):
        data = bytes(data)
        n = self.n
        self.n += 1
        self.kinds.append(self.kind_of(data))
        f = self.script.get(n)
        if f is None:
            rsp = self._tag(data)
            if rsp is None:
                raise nfc.clf.TimeoutError("no response")
            return rsp
        if f[0] == "drop":
            raise nfc.clf.TimeoutError("frame lost")
        if f[0] == "corrupt":
            self.pend = False
            if f[1] == "nak":
                return bytearray([0x01])
            raise ERR[f[1]]("damaged frame")
        if f[0] == "lost":
            self._tag(data)
            if f[1] == "nak":
                return bytearray([0x01])
            raise ERR[f[1]]("answer lost")
        raise AssertionError(f)


def activate_sector(sim):
    """fresh nfc.tag activation; the simulator records the object's believed sector from now on"""
    import nfc.tag
    sim.sector = 0
    sim.pend = False
    sim.obj = None
    tag = nfc.tag.activate(sim, sim.target())
    sim.obj = tag
    return tag


def sector_layout(rng, sectors, ctl_in_upper=True):
    """well-formed Type 2 Tag image with `sectors` x 1 KiB: CC, optional memory/lock control TLVs whose ranges lie
    inside the data area (some in sector >= 1, not page aligned so that a WRITE straddles them), NDEF TLV, random
    old message.  Returns dict(mem, off, skip, end, areas) - description made here, without nfcpy."""
    from sims.t12_tags import put_ndef
    phys = 1024 * sectors
    # data area: ends inside the last sector; the bytes behind it (configuration pages) hold recognisable values
    units = min(255, rng.choice([(phys - 16) // 8, (phys - 16) // 8 - rng.randrange(1, 12), (phys - 16 - 64) // 8]))
    if sectors > 2:
        units = 255          # CC size byte is one octet: 2040 bytes is the largest declarable data area
    end = 16 + units * 8
    mem = bytearray(rng.randrange(256) for _ in range(phys))
    mem[0:10] = bytes([0x01, 0x02, 0x03, 0x88 ^ 1 ^ 2 ^ 3, 0x04, 0x05, 0x06, 0x07, 0x04 ^ 5 ^ 6 ^ 7, 0x48])
    mem[10:12] = b"\x00\x00"
    mem[12:16] = bytes([0xE1, 0x10, units, 0x00])
    for a in range(end, phys):
        mem[a] = 0xC0 | (a & 0x0F)
    o = 16
    skip = set()
    ctl = []
    nctl = rng.choice([0, 1, 1, 2, 3])
    for _ in range(nctl):
        for attempt in range(30):
            k = rng.choice([1, 2])
            size = rng.randrange(1, 7)
            region = rng.choice(["upper", "upper", "boundary", "lower"]) if ctl_in_upper and end > 1100 else "lower"
            if region == "upper":
                start = rng.randrange(1024 + 8, end - 8)
            elif region == "boundary":
                start = rng.randrange(1024 - 6, 1024 + 3)
            else:
                start = rng.randrange(64, min(end - 8, 1000))
            t = None
            for bpp in range(4, 16):
                pa, bo = start >> bpp, start & ((1 << bpp) - 1)
                if pa <= 15 and bo <= 15:
                    n = size * 8 - (rng.randrange(0, 8) if k == 1 else 0) if k == 1 else size
                    t = bytes([k, 3, pa << 4 | bo, n & 255, bpp])
                    break
            if t is not None:
                mem[o:o + 5] = t
                o += 5
                skip |= set(range(start, start + size))
                ctl.append((k, start, size))
                break
    for _ in range(rng.randrange(0, 4)):
        mem[o] = 0
        o += 1
    free = len([a for a in range(o, end) if a not in skip])
    cap = free - (4 if free > 256 else 2)
    return dict(kind="t2", mem=mem, off=o, skip=skip, end=end, ctl3=ctl, cap=cap, sectors=sectors,
                put=lambda m, data: put_ndef(m, o, skip, data, end))


class KindFaults(object):
    """fault script addressed by exchange KIND: [(kind, ordinal, fault)] - the `ordinal`-th exchange of that kind
    counted from arm() ('any': every exchange counts).  Records what fired in `fired`."""

    def __init__(self, sim, plan):
        self.sim = sim
        self.plan = [[k, o, f] for k, o, f in plan]
        self.fired = []

    def get(self, n, default=None):
        kind = self.sim.kinds[-1]
        hit = None
        for p in self.plan:
            if p[1] is None:
                continue
            if p[0] == "any" or p[0] == kind:
                if p[1] == 0 and hit is None:
                    hit = p[2]
                    p[1] = None
                    self.fired.append((kind, n, hit))
                elif p[1] > 0:
                    p[1] -= 1
        return hit


AIR_TOKEN = {"timeout": "t", "transmission": "x", "protocol": "p", "nak": "n"}


def air_token(f):
    """fault -> token of the drv_c03 `sect` request"""
    if f is None:
        return "o"
    if f[0] == "drop":
        return "d"
    return ("c" if f[0] == "corrupt" else "l") + AIR_TOKEN[f[1]]
