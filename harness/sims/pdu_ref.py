"""Independent reading of the LLCP 1.3 PDU formats (used by the C11 oracle).

Does not import nfcpy.  PDUs are plain tuples ("descriptions"):

  ("symm", d, s)                              ("pax", d, s, version, miux, wks, lto, opt)   (None = absent)
  ("agf", d, s, [items])                      ("ui", d, s, data)
  ("connect", d, s, miu, rw, sn|None)         ("disc", d, s)
  ("cc", d, s, miu, rw)                       ("dm", d, s, reason)
  ("frmr", d, s, flags, ptype, ns, nr, vs, vr, vsa, vra)
  ("snl", d, s, [(tid, sn)], [(tid, sap)])    ("dps", d, s, ecpk|None, rn|None)
  ("i", d, s, ns, nr, data)                   ("rr", d, s, nr)       ("rnr", d, s, nr)
  ("unknown", ptype, d, s, payload)

`ref_decode(octets)` returns a description or None (= not a well-formed PDU).
Receiver rules taken over from the library where the specification leaves the
receiver free: reserved bits are masked, unknown/misplaced parameters are
skipped, a parameter list ends when fewer than two octets remain, the last
occurrence of a parameter wins, octets after the sequence field of RR/RNR and
after the header of DISC are ignored.
"""


def hx(b):
    b = bytes(b)
    return b.hex() if b else "-"


def opt_n(v):
    return "N" if v is None else str(v)


def opt_b(v):
    return "N" if v is None else hx(v)


def lst(items):
    return ",".join(items) if items else "."


def text(p):
    """canonical text, identical to NfcVerif.Pdu.Pdu.text"""
    k = p[0]
    if k == "agf":
        return " / ".join(["agf %d %d" % (p[1], p[2])] + [text(q) for q in p[3]])
    if k == "pax":
        return "pax %d %d " % (p[1], p[2]) + " ".join(opt_n(v) for v in p[3:])
    if k in ("ui",):
        return "ui %d %d %s" % (p[1], p[2], hx(p[3]))
    if k == "connect":
        return "connect %d %d %d %d %s" % (p[1], p[2], p[3], p[4], opt_b(p[5]))
    if k == "snl":
        return "snl %d %d %s %s" % (p[1], p[2], lst(["%d:%s" % (t, hx(n)) for t, n in p[3]]),
                                    lst(["%d:%d" % (t, a) for t, a in p[4]]))
    if k == "dps":
        return "dps %d %d %s %s" % (p[1], p[2], opt_b(p[3]), opt_b(p[4]))
    if k == "i":
        return "i %d %d %d %d %s" % (p[1], p[2], p[3], p[4], hx(p[5]))
    if k == "unknown":
        return "unknown %d %d %d %s" % (p[1], p[2], p[3], hx(p[4]))
    return k + " " + " ".join(str(v) for v in p[1:])


# ------------------------------------------------------------------ reference decoder
def _params(info):
    """TLV list -> [(T, value octets)] or None"""
    out, i = [], 0
    while len(info) - i >= 2:
        t, n = info[i], info[i + 1]
        v = info[i + 2:i + 2 + n]
        if len(v) != n:
            return None
        if (t in (1, 4, 5, 7) and n != 1) or (t in (2, 3, 9) and n != 2) or (t == 8 and n < 1):
            return None
        out.append((t, v))
        i += 2 + n
    return out


def _last(ps, t, default=None):
    for T, v in reversed(ps):
        if T == t:
            return v
    return default


def _num(v, mask=None):
    if v is None:
        return None
    n = int.from_bytes(v, "big")
    return n & mask if mask is not None else n


def ref_decode_simple(b):
    b = bytes(b)
    if len(b) < 2:
        return None
    w = b[0] << 8 | b[1]
    d, t, s, info = w >> 10, w >> 6 & 15, w & 63, b[2:]
    if t == 0:
        return ("symm", 0, 0) if (d, s, info) == (0, 0, b"") else None
    if t in (1, 4, 6, 9, 10):
        if (t in (1, 10) and (d, s) != (0, 0)) or (t == 9 and (d, s) != (1, 1)):
            return None
        ps = _params(info)
        if ps is None:
            return None
        if t == 1:
            return ("pax", d, s, _num(_last(ps, 1)), _num(_last(ps, 2), 0x7FF), _num(_last(ps, 3)),
                    _num(_last(ps, 4)), _num(_last(ps, 7), 7))
        if t in (4, 6):
            miux, rw = _num(_last(ps, 2), 0x7FF), _num(_last(ps, 5), 15)
            miu, rw = 128 + (miux or 0), 1 if rw is None else rw
            return ("connect", d, s, miu, rw, _last(ps, 6)) if t == 4 else ("cc", d, s, miu, rw)
        if t == 9:
            return ("snl", d, s, [(v[0], v[1:]) for T, v in ps if T == 8], [(v[0], v[1]) for T, v in ps if T == 9])
        return ("dps", d, s, _last(ps, 10), _last(ps, 11))
    if t == 2:
        return None
    if t == 3:
        return ("ui", d, s, info)
    if t == 5:
        return ("disc", d, s)
    if t == 7:
        return ("dm", d, s, info[0]) if len(info) == 1 else None
    if t == 8:
        if len(info) != 4:
            return None
        return ("frmr", d, s) + tuple(x for o in info for x in (o >> 4, o & 15))
    if t == 12:
        return ("i", d, s, info[0] >> 4, info[0] & 15, info[1:]) if info else None
    if t in (13, 14):
        return (("rr", "rnr")[t - 13], d, s, info[0] & 15) if info else None
    return ("unknown", t, d, s, info)


def ref_decode(b):
    b = bytes(b)
    if len(b) >= 2 and (b[0] << 8 | b[1]) >> 6 & 15 == 2:
        if (b[0] << 8 | b[1]) & 0xFC3F:
            return None
        items, i = [], 2
        while i < len(b):
            if len(b) - i < 2:
                return None
            n = b[i] << 8 | b[i + 1]
            e = b[i + 2:i + 2 + n]
            if len(e) != n:
                return None
            p = ref_decode_simple(e)
            if p is None:
                return None
            items.append(p)
            i += 2 + n
        return ("agf", 0, 0, items)
    return ref_decode_simple(b)


# ------------------------------------------------------------------ nfcpy objects <-> descriptions
def to_obj(pdu, p):
    """description -> nfcpy PDU object (`pdu` is the nfc.llcp.pdu module)"""
    k = p[0]
    if k == "symm":
        return pdu.Symmetry(p[1], p[2])
    if k == "pax":
        return pdu.ParameterExchange(p[1], p[2], version=p[3], miux=p[4], wks=p[5], lto=p[6], opt=p[7])
    if k == "agf":
        return pdu.AggregatedFrame(p[1], p[2], [to_obj(pdu, q) for q in p[3]])
    if k == "ui":
        return pdu.UnnumberedInformation(p[1], p[2], p[3])
    if k == "connect":
        return pdu.Connect(p[1], p[2], p[3], p[4], p[5])
    if k == "disc":
        return pdu.Disconnect(p[1], p[2])
    if k == "cc":
        return pdu.ConnectionComplete(p[1], p[2], p[3], p[4])
    if k == "dm":
        return pdu.DisconnectedMode(p[1], p[2], p[3])
    if k == "frmr":
        return pdu.FrameReject(*p[1:])
    if k == "snl":
        return pdu.ServiceNameLookup(p[1], p[2], list(p[3]), list(p[4]))
    if k == "dps":
        return pdu.DataProtectionSetup(p[1], p[2], p[3], p[4])
    if k == "i":
        return pdu.Information(p[1], p[2], p[3], p[4], p[5])
    if k == "rr":
        return pdu.ReceiveReady(p[1], p[2], p[3])
    if k == "rnr":
        return pdu.ReceiveNotReady(p[1], p[2], p[3])
    if k == "unknown":
        return pdu.UnknownProtocolDataUnit(p[1], p[2], p[3], p[4])
    raise ValueError(k)


def _b(v):
    return None if v is None else bytes(v)


def from_obj(pdu, o):
    """nfcpy PDU object -> description, reading the *fields* (never `encode`)"""
    t = type(o)
    d, s = o.dsap, o.ssap
    if t is pdu.Symmetry:
        return ("symm", d, s)
    if t is pdu.ParameterExchange:
        return ("pax", d, s, o._version, o._miux, o._wks, o._lto, o._opt)
    if t is pdu.AggregatedFrame:
        return ("agf", d, s, [from_obj(pdu, q) for q in o._aggregate])
    if t is pdu.UnnumberedInformation:
        return ("ui", d, s, bytes(o.data))
    if t is pdu.Connect:
        return ("connect", d, s, o.miu, o.rw, _b(o.sn))
    if t is pdu.Disconnect:
        return ("disc", d, s)
    if t is pdu.ConnectionComplete:
        return ("cc", d, s, o.miu, o.rw)
    if t is pdu.DisconnectedMode:
        return ("dm", d, s, o.reason)
    if t is pdu.FrameReject:
        return ("frmr", d, s, o.rej_flags, o.rej_ptype, o.ns, o.nr, o.vs, o.vr, o.vsa, o.vra)
    if t is pdu.ServiceNameLookup:
        return ("snl", d, s, [(a, bytes(b)) for a, b in o.sdreq], [(a, b) for a, b in o.sdres])
    if t is pdu.DataProtectionSetup:
        return ("dps", d, s, _b(o.ecpk), _b(o.rn))
    if t is pdu.Information:
        return ("i", d, s, o.ns, o.nr, bytes(o.data))
    if t is pdu.ReceiveReady:
        return ("rr", d, s, o.nr)
    if t is pdu.ReceiveNotReady:
        return ("rnr", d, s, o.nr)
    if t is pdu.UnknownProtocolDataUnit:
        return ("unknown", o.ptype, d, s, bytes(o.payload))
    raise ValueError("unexpected PDU class %s" % t)


def contains_nested_agf(p):
    return p[0] == "agf" and any(q[0] == "agf" for q in p[3])


def norm(p):
    """normal form under re-encoding: an empty optional octet string is absent"""
    k = p[0]
    if k == "connect":
        return p[:5] + (p[5] or None,)
    if k == "dps":
        return p[:3] + (p[3] or None, p[4] or None)
    if k == "agf":
        return p[:3] + ([norm(q) for q in p[3]],)
    return p
