"""C09 - deterministic schedules of SEVERAL threads in the real nfc.llcp code.

Every lock (llc.lock, socket.lock) and every condition variable of the code under test
is replaced by a double that is controlled by a scheduler; the threads are real Python
threads but exactly one of them runs at a time (a baton is passed), so an execution is a
pure function of the list of decisions "which enabled thread runs next".

Scheduling points of a thread (where it gives the baton back):

* an OUTERMOST lock acquisition (the thread holds no lock) - point ``L<lock>``,
* a nested acquisition of a lock that another thread holds (the thread is blocked),
* ``Condition.wait()`` - point ``W<cv>:n|t`` (the thread parks, the lock is released
  completely, exactly like the real wait),
* an explicit ``Sched.pause()`` (used by the scripted link thread / the scripted MAC),
* the end of its function.

``Condition.notify(n)`` marks the n LONGEST waiting threads of that condition variable
(the FIFO order of CPython's ``threading.Condition``), ``notify_all()`` marks all of them.
A parked thread is *enabled* when it is marked (or its wait has a time-out) and its lock
is free; a thread at a lock acquisition is enabled when the lock is free.  When no thread
is enabled and some thread has not finished, these threads wait for ever (lost wake-up or
dead-lock) - the caller reports them.

Nothing here reads the clock; the only real time-out is the safety net `STEP_LIMIT`
that turns a thread which blocks outside the doubles into an infrastructure failure.
"""
import _thread
import threading as _th

from common import Infra


class _Sem:
    """binary semaphore on a raw lock (much cheaper than threading.Semaphore); starts at 0"""
    __slots__ = ("l",)

    def __init__(self):
        self.l = _thread.allocate_lock()
        self.l.acquire()

    def acquire(self, timeout=-1):
        return self.l.acquire(True, timeout)

    def release(self):
        self.l.release()

STEP_LIMIT = 40.0       # seconds; never reached unless the code under test blocks outside the doubles


class OutsideBlock(Exception):
    """a thread of the code under test blocks on something that is not one of the doubles (or computes for ever)"""


class SetupBlocks(Exception):
    """code run by the harness thread itself (socket set-up, a terminate() before the calls) would block"""


class Abort(BaseException):
    """raised inside a parked thread when an execution is torn down"""


class SThread:
    def __init__(self, sched, name, fn, atomic=False):
        self.sched, self.name, self.fn, self.atomic = sched, name, fn, atomic
        self.idx = len(sched.threads)
        self.sem = _Sem()
        self.state = "new"          # new | lock | wait | pause | done   ("run" while it has the baton)
        self.want = None            # SLock the thread needs to go on
        self.cv = None
        self.timed = False
        self.notified = False
        self.nested = False
        self.held = 0               # number of distinct locks held
        self.abort = False
        self.result = None          # ("ret", value) | ("exc", exception)
        self.trace = []             # names of the scheduling points passed
        self.spawned_by = None
        self.thread = _th.Thread(target=self._body, name="sched:" + name, daemon=True)
        self.thread.start()

    def _body(self):
        self.sem.acquire()
        try:
            if not self.abort:
                self.state = "run"
                self.result = ("ret", self.fn())
        except Abort:
            self.result = ("abort", None)
        except BaseException as e:  # noqa
            self.result = ("exc", e)
        self.state = "done"
        self.sched.baton.release()

    def yield_(self, state):
        """give the baton back; returns when the scheduler resumes this thread"""
        self.state = state
        self.sched.baton.release()
        self.sem.acquire()
        self.state = "run"
        if self.abort:
            raise Abort()

    def enabled(self):
        if self.state in ("new", "pause"):
            return True
        if self.state == "lock":
            return self.want.owner is None
        if self.state == "wait":
            return (self.notified or self.timed) and self.want.owner is None
        return False

    def where(self):
        if self.state == "wait":
            return "wait:" + self.cv.name
        if self.state == "lock":
            return "lock:" + self.want.name + (" (held by %s)" % self.want.owner.name if self.want.owner else "")
        return self.state


class SLock:
    """re-entrant lock double"""

    def __init__(self, sched, name):
        self.sched, self.name = sched, name
        self.owner = None
        self.depth = 0

    def acquire(self, blocking=True, timeout=-1):
        t = self.sched.current
        if t is None or t.abort:                 # set-up code of the harness / a thread being torn down
            if t is None and self.owner not in (None, "main"):
                raise SetupBlocks("the set-up code needs lock %s held by %s" % (self.name, self.owner.name))
            if t is None:
                self.owner = "main"
                self.depth += 1
            return True
        if self.owner is t:
            self.depth += 1
            return True
        if t.held == 0 and not t.atomic:
            t.want, t.nested = self, False
            t.trace.append("L" + self.name[0])
            t.yield_("lock")
        elif self.owner is not None:
            t.want, t.nested = self, True
            t.yield_("lock")
        if self.owner is not None:
            raise Infra("term_sched: thread %s resumed but lock %s is held by %s" % (t.name, self.name, self.owner))
        self.owner, self.depth = t, 1
        t.held += 1
        t.want = None
        return True

    def release(self):
        t = self.sched.current
        if t is None or t.abort:
            if t is None and self.owner == "main":
                self.depth -= 1
                if self.depth == 0:
                    self.owner = None
            return
        if self.owner is not t:
            raise RuntimeError("cannot release un-acquired lock")
        self.depth -= 1
        if self.depth == 0:
            self.owner = None
            t.held -= 1

    __enter__ = acquire

    def __exit__(self, *a):
        self.release()


class SCondition:
    def __init__(self, sched, lock=None, name="cv?"):
        self.sched = sched
        self.lock = lock if lock is not None else SLock(sched, "cond")
        self.name = name
        self.waiters = []           # parked threads that have not been notified, oldest first
        self.calls = []             # ("notify", n) / ("notify_all", number of waiters) - for the reports

    def acquire(self, *a, **k):
        return self.lock.acquire(*a, **k)

    def release(self):
        self.lock.release()

    def __enter__(self):
        return self.lock.acquire()

    def __exit__(self, *a):
        self.lock.release()

    def wait(self, timeout=None):
        t = self.sched.current
        if t is None:
            raise SetupBlocks("the set-up code (or a terminate() run before the calls) waits on %s" % self.name)
        if t.abort:
            raise Abort()
        if self.lock.owner is not t:
            raise RuntimeError("cannot wait on un-acquired lock")
        depth = self.lock.depth
        self.lock.owner, self.lock.depth = None, 0
        t.held -= 1
        self.waiters.append(t)
        t.cv, t.timed, t.notified, t.want = self, timeout is not None, False, self.lock
        t.trace.append("W%s:%s" % (self.name, "t" if timeout is not None else "n"))
        try:
            t.yield_("wait")
        finally:
            if t in self.waiters:
                self.waiters.remove(t)      # time-out (or torn down)
        if self.lock.owner is not None:
            raise Infra("term_sched: waiter %s resumed but lock %s is held" % (t.name, self.lock.name))
        self.lock.owner, self.lock.depth = t, depth
        t.held += 1
        t.cv, t.want = None, None
        return t.notified

    def notify(self, n=1):
        t = self.sched.current
        if t is not None and not t.abort and self.lock.owner is not t:
            raise RuntimeError("cannot notify on un-acquired lock")
        self.calls.append(("notify", n))
        for w in self.waiters[:n]:
            w.notified = True
        del self.waiters[:n]

    def notify_all(self):
        n = len(self.waiters)
        self.notify(n)
        self.calls[-1] = ("notify_all", n)

    notifyAll = notify_all


class SThreadDouble:
    """stands in for threading.Thread inside snep/server.py and handover/server.py: start() registers the
    target with the scheduler"""
    sched = None

    def __init__(self, group=None, target=None, name=None, args=(), kwargs=None, daemon=None):
        if isinstance(self, _th.Thread):
            # SnepServer / HandoverServer are subclasses of the real Thread class and call `threading.Thread.__init__`
            # through the module attribute: initialise the real object (the harness runs its target itself)
            _th.Thread.__init__(self, group=group, target=target, name=name, args=args, kwargs=kwargs, daemon=True)
            return
        self._target, self._args, self._kwargs = target, args, kwargs or {}
        self.name = name or "thread"
        self.daemon = True
        self.st = None

    def start(self):
        s = SThreadDouble.sched
        target = self._target if self._target is not None else self.run
        self.st = s.spawn("%s#%d" % (getattr(target, "__name__", self.name), len(s.threads)),
                          lambda: target(*self._args, **self._kwargs))
        self.st.spawned_by = s.current

    def run(self):
        pass

    def is_alive(self):
        return self.st is not None and self.st.state != "done"

    def join(self, timeout=None):
        raise Infra("term_sched: join() inside a scheduled thread is not supported")


class _Shim:
    def __init__(self, **over):
        self.__dict__.update(over)

    def __getattr__(self, name):
        return getattr(_th, name)


class _NoSleep:
    import time as _t
    time = staticmethod(_t.time)

    @staticmethod
    def sleep(d):
        pass


class Sched:
    def __init__(self):
        self.baton = _Sem()
        self.current = None
        self.threads = []
        self.decisions = []         # indices of the threads run, in order
        self.choices = []           # for each decision: (tuple of enabled indices, chosen, index run before)
        self.last = None
        self.fair = False           # True: a thread at a pause() point yields (round robin) instead of going on

    # ---- installation into the modules under test
    def install(self):
        import nfc.llcp.tco
        import nfc.llcp.llc
        import nfc.snep.server
        import nfc.handover.server
        s = self
        nfc.llcp.tco.threading = _Shim(Condition=lambda lock=None: SCondition(s, lock), RLock=lambda: SLock(s, "sock"))
        nfc.llcp.llc.threading = _Shim(Condition=lambda lock=None: SCondition(s, lock, "resp"), RLock=lambda: SLock(s, "llc"))
        SThreadDouble.sched = s
        nfc.snep.server.threading = _Shim(Thread=SThreadDouble)
        nfc.handover.server.threading = _Shim(Thread=SThreadDouble)
        nfc.llcp.llc.time = _NoSleep

    @staticmethod
    def uninstall():
        import time
        import nfc.llcp.tco
        import nfc.llcp.llc
        import nfc.snep.server
        import nfc.handover.server
        for m in (nfc.llcp.tco, nfc.llcp.llc, nfc.snep.server, nfc.handover.server):
            m.threading = _th
        nfc.llcp.llc.time = time
        SThreadDouble.sched = None

    @staticmethod
    def name_conditions(tco):
        for n in ("send_ready", "recv_ready", "acks_ready", "send_token"):
            cv = getattr(tco, n, None)
            if isinstance(cv, SCondition):
                cv.name = n

    # ---- threads
    def spawn(self, name, fn, atomic=False):
        t = SThread(self, name, fn, atomic)
        self.threads.append(t)
        return t

    def pause(self):
        """explicit scheduling point of the running thread (scripted link thread / MAC)"""
        t = self.current
        if t is not None and not t.abort:
            t.yield_("pause")

    def enabled(self):
        return [t for t in self.threads if t.enabled()]

    def step(self, t):
        """give the baton to t until its next scheduling point"""
        if not t.enabled():
            raise Infra("term_sched: thread %s is not enabled (%s)" % (t.name, t.where()))
        self.decisions.append(t.idx)
        self.current = t
        t.sem.release()
        if not self.baton.acquire(timeout=STEP_LIMIT):
            t.state = "lost"
            self.current = None
            raise OutsideBlock("thread %s neither reached a scheduling point nor ended within %.0f s: it blocks on something "
                               "other than the locks and condition variables of nfc.llcp (trace %s)" % (t.name, STEP_LIMIT, t.trace[-4:]))
        self.current = None
        self.last = t

    def run(self, prefix=(), max_steps=400):
        """follow `prefix` (indices of threads), then the default policy: go on with the thread that ran last while it
        is enabled, else the enabled thread with the lowest index.  Ends when no thread is enabled.
        Returns "quiescent" or "step-limit"."""
        prefix = list(prefix)
        n = 0
        while True:
            en = self.enabled()
            if not en:
                return "quiescent"
            if n >= max_steps:
                return "step-limit"
            if n < len(prefix):
                cand = [t for t in en if t.idx == prefix[n]]
                if not cand:
                    raise Infra("term_sched: decision %d (thread %d) is not enabled; enabled: %s"
                                % (n, prefix[n], [t.idx for t in en]))
                t = cand[0]
            elif self.last is not None and self.last in en and not (self.last.state == "pause" and self.fair):
                t = self.last
            elif self.last is not None and self.last.state == "pause" and self.fair:
                # the thread gave the processor away (an exchange with the peer takes time): round robin
                after = [x for x in en if x.idx > self.last.idx]
                t = (after or en)[0]
            else:
                t = en[0]
            paused = self.last is not None and self.last.state == "pause" and self.fair
            self.choices.append((tuple(x.idx for x in en), t.idx, self.last.idx if self.last is not None else None, paused))
            self.step(t)
            n += 1

    def stuck(self):
        return [t for t in self.threads if t.state != "done"]

    def teardown(self):
        for t in self.threads:
            if t.state == "lost":
                continue
            if t.state != "done":
                t.abort = True
                self.current = t
                t.sem.release()
                if not self.baton.acquire(timeout=STEP_LIMIT):
                    raise Infra("term_sched: thread %s did not end at teardown" % t.name)
                self.current = None
        for t in self.threads:
            if t.state == "lost":
                continue
            t.thread.join(STEP_LIMIT)
            if t.thread.is_alive():
                raise Infra("term_sched: thread %s did not end" % t.name)


def explore(execute, bound, limit, rng=None, first=(), deviations=0):
    """stateless enumeration of schedules: `execute(prefix)` runs one execution and returns the list `choices`
    [(enabled, chosen, last, last_yielded)] of that run; alternatives are explored depth first while the number of
    preemptions (a thread other than the last one is chosen although the last one is enabled and did not yield) stays
    <= bound and the number of deviations from the round-robin order at the points where a thread yields stays
    <= deviations.  A choice among threads when the last one cannot go on is free.
    Stops after `limit` executions.  Returns the number of executions and whether the enumeration was complete."""
    stack = [list(first)]
    seen = set()
    n = 0
    complete = True
    while stack:
        if n >= limit:
            complete = False
            break
        prefix = stack.pop()
        choices = execute(prefix)
        n += 1
        taken = [c[1] for c in choices]
        pre = dev = 0
        costs = []
        for (e, c, l, y) in choices:
            costs.append((pre, dev))
            if l is not None and l in e:
                if y:
                    after = [x for x in e if x > l]
                    if c != (after or list(e))[0]:
                        dev += 1
                elif c != l:
                    pre += 1
        for pos in range(len(prefix), len(choices)):
            enabled, chosen, last, yielded = choices[pos]
            pre, dev = costs[pos]
            for alt in enabled:
                if alt == chosen:
                    continue
                p2, d2 = pre, dev
                if last is not None and last in enabled:
                    if yielded:
                        after = [x for x in enabled if x > last]
                        if alt != (after or list(enabled))[0]:
                            d2 += 1
                    elif alt != last:
                        p2 += 1
                if p2 > bound or d2 > deviations:
                    continue
                new = tuple(taken[:pos] + [alt])
                if new not in seen:
                    seen.add(new)
                    stack.append(list(new))
        if rng is not None and len(stack) > 4 * limit:
            rng.shuffle(stack)
            del stack[2 * limit:]
            complete = False
    return n, complete
