"""Scripted world for ContactlessFrontend.connect()/sense()/listen()/exchange() (property C18).

Only nfc/clf/__init__.py is under test.  Everything the frontend talks to is
scripted and records one token per interaction into a common log:

* the local device: a `nfc.clf.device.Device` subclass installed through
  `nfc.clf.device.connect` (tokens mute sA sB sF sD lA lB lF lD on off xr:<id> xl:<id>),
* `nfc.tag.activate` is the REAL one of the tree under test (and with it the real activation code
  of tt1/tt2/tt2_nxp/tt3/tt4): the call is logged (act, consumes nothing), the commands it sends
  are `frontend.exchange()` calls (xr:<id>) and nested `frontend.sense()` calls on the scripted
  device; only `Tag.is_present` is a stand-in (one `frontend.exchange()`),
* `nfc.tag.emulate` is the REAL one too (logged as emu, consumes nothing): a real
  `Type3TagEmulation` (its `send_response` is one `frontend.exchange()`) or None,
* `LogicalLinkController.activate` (la:t / la:i) and the `run` it installs (run),
* the `terminate` callable (t0 / t1), `time.sleep` (sleep), the option callbacks
  (cb:<role>:<kind>:<code>).

Every interaction except terminate/sleep/callbacks consumes ONE answer of the
environment script (exhausted script = answer "0").  The index of the consumed
answer is the identity of the object it creates (targets, tags), so identities
agree with the Lean model (Model/Connect.lean) which counts the same way.

Answers (token syntax shared with lean/Drv/C18.lean):
  0            nothing (None / False / normal return)
  F.<sens>.<rid>.<p2p>.<atrlen>[.<var>]   something found / present / activated; as the answer of an
               exchange <sens> is the response data.  var (Type A answers): bit 0 = SEL_RES bit 5
               (ISO-DEP, Type 4A Tag), bit 1 = SDD_RES starts with 08h instead of NXP's 04h
  c  CommunicationError (TimeoutError)      k  BrokenLinkError
  T  TransmissionError                      P  ProtocolError   (sense_* and exchanges; elsewhere nothing)
  u  UnsupportedTargetError                 i  IOError(EIO)
  K  KeyboardInterrupt                      X  SystemExit (run only)
  L  BrokenLinkError raised inside listen_* (F30; other sites: nothing)
  p<n>  run: poll terminate() at most n times, then the peer releases
"""
import errno
import contextlib

VAL_CODES = 7    # callback results: 0 None 1 False 2 True 3 int 0 4 int 1 5 [] 6 "x"


def val_of(code):
    return [None, False, True, 0, 1, [], "x"][code]


def val_truthy(code):
    return code in (2, 4, 6)


def parse_answer(tok):
    if tok.startswith("F."):
        parts = tok.split(".")
        _, sens, rid, p2p, atr = parts[:5]
        return ("F", bytes.fromhex(sens) if sens != "-" else b"", bytes.fromhex(rid) if rid != "-" else b"",
                p2p == "1", int(atr), int(parts[5]) if len(parts) > 5 else 0)
    if tok.startswith("A."):
        return ("A", tok[2:])          # real-LLC runs: activation succeeds, the peer then behaves as the pattern says
    if tok.startswith("p"):
        return ("p", int(tok[1:]))
    return (tok,)


def answer_token(a):
    if a[0] == "F":
        return "F.%s.%s.%d.%d" % (a[1].hex() or "-", a[2].hex() or "-", 1 if a[3] else 0, a[4]) + \
            (".%d" % a[5] if len(a) > 5 and a[5] else "")
    if a[0] == "p":
        return "p%d" % a[1]
    return a[0]


class Runaway(BaseException):
    """raised by the scripted world when a run does not end (the history exceeds LIMIT events):
    a BaseException, so that no handler of the code under test absorbs it"""


LIMIT = 4000


class World(object):
    def __init__(self, env=(), ts=()):
        self.reset(env, ts)

    def reset(self, env=(), ts=()):
        self.env = list(env)
        self.ts = list(ts)
        self.n = 0
        self.log = []
        self.injected = []      # (log position, site, class) of every exception the world raised
        self.cb_args = []       # (role, kind, argument object)
        self.objects = {}       # id -> created object
        self.trace = []         # [token, object produced or None, exception class raised or None] per scripted call
        self.tags = []          # Tag objects the real nfc.tag.activate returned
        self.act_targets = []   # the targets nfc.tag.activate was called with
        self.sense_args = []    # (log position, target object) handed to the device's sense_* methods
        self.startup_targets = None   # the list the rdwr on-startup callback returned (code 0: new objects)
        self.commands = []      # command frames seen by send_cmd_recv_rsp (real-tag runs)
        self.link = []          # NFC-DEP exchanges of the real link loop (real-LLC runs): what the local side sent
        self.term_at = None     # real-LLC busy-traffic runs: terminate() is true from this number of link exchanges on
        self.term_at_n = None   # time-based terminate(): true once this many scripted answers have been consumed
        self.k_pos = None       # ... log position at which that happened
        self.term_cap = 60      # ... or after this many polls (a run without any link cannot go on for ever)
        self.polls = 0
        self.activations = []   # (log position, success) of every NFC-DEP activation attempt (real-LLC runs)

    def pop(self, site):
        if len(self.log) > LIMIT:
            raise Runaway("more than %d events, last: %s" % (LIMIT, " ".join(self.log[-6:])))
        a = self.env.pop(0) if self.env else ("0",)
        i = self.n
        self.n += 1
        if self.term_at_n is not None and self.n == self.term_at_n:
            self.k_pos = len(self.log)
        self.trace.append([site, None, None])
        return a, i

    def note(self, site, cls):
        self.injected.append((len(self.log), site, cls))
        self.trace[-1][2] = cls

    def common_raise(self, a, site):
        """answers that raise at every site"""
        if a[0] == "i":
            self.note(site, "IOError")
            raise IOError(errno.EIO, "scripted I/O error at " + site)
        if a[0] == "K":
            self.note(site, "KeyboardInterrupt")
            raise KeyboardInterrupt()

    def terminate(self):
        if len(self.log) > LIMIT:
            raise Runaway("more than %d events, last: %s" % (LIMIT, " ".join(self.log[-6:])))
        self.polls += 1
        if self.term_at_n is not None:
            b = self.n >= self.term_at_n or self.polls > self.term_cap
        elif self.term_at is not None:
            b = len(self.link) >= self.term_at or self.polls > self.term_cap
        else:
            b = self.ts.pop(0) if self.ts else True
        self.log.append("t1" if b else "t0")
        return b


class FakeTime(object):
    def __init__(self, world):
        self.world, self.now = world, 1000.0

    def time(self):
        self.now += 0.001
        return self.now

    def sleep(self, s):
        self.world[0].log.append("sleep")
        self.now += max(0.0, s)


def make_classes(nfc, world):
    """world: one-element list holding the current World (so that it can be swapped per case)"""
    import nfc.clf
    import nfc.clf.device
    import nfc.tag
    import nfc.llcp.llc

    def W():
        return world[0]

    class FakeDevice(nfc.clf.device.Device):
        def __init__(self):
            self._path, self._vendor_name, self._device_name, self._chipset_name = "fake:0", "Verif", "Scripted", "None"

        def close(self):
            W().log.append("close")

        def _simple(self, tok):
            W().log.append(tok)
            a, i = W().pop(tok)
            W().common_raise(a, tok)
            return a, i

        def mute(self):
            self._simple("mute")

        def turn_on_led_and_buzzer(self):
            self._simple("on")

        def turn_off_led_and_buzzer(self):
            self._simple("off")

        def _sense(self, tok, target, build):
            W().sense_args.append((len(W().log), target))
            a, i = self._simple(tok)
            w = W()
            if a[0] == "F":
                t = build(a)
                t._id = i
                w.objects[i] = t
                w.trace[-1][1] = t
                return t
            if a[0] == "c":
                w.note(tok, "TimeoutError")
                raise nfc.clf.TimeoutError("scripted")
            if a[0] == "k":
                w.note(tok, "BrokenLinkError")
                raise nfc.clf.BrokenLinkError("scripted")
            if a[0] == "T":
                w.note(tok, "TransmissionError")
                raise nfc.clf.TransmissionError("scripted")
            if a[0] == "P":
                w.note(tok, "ProtocolError")
                raise nfc.clf.ProtocolError("scripted")
            if a[0] == "u":
                w.note(tok, "UnsupportedTargetError")
                raise nfc.clf.UnsupportedTargetError("scripted")
            return None

        def sense_tta(self, target):
            return self._sense("sA", target, lambda a: nfc.clf.RemoteTarget(
                target.brty, sens_res=bytearray(a[1]), rid_res=(bytearray(a[2]) if a[2] else None),
                sel_res=bytearray([(0x40 if a[3] else 0x00) | (0x20 if a[5] & 1 else 0x00)]),
                sdd_res=bytearray((b"\x08" if a[5] & 2 else b"\x04") + b"\x01\x02\x03\x04\x05\x06")))

        def sense_ttb(self, target):
            return self._sense("sB", target, lambda a: nfc.clf.RemoteTarget(
                target.brty, sensb_res=bytearray(b"\x50" + bytes(11))))

        def sense_ttf(self, target):
            return self._sense("sF", target, lambda a: nfc.clf.RemoteTarget(
                target.brty, sensf_res=bytearray(b"\x01" + (b"\x01\xFE" if a[3] else b"\x01\x01") + bytes(14))))

        def sense_dep(self, target):
            return self._sense("sD", target, lambda a: nfc.clf.RemoteTarget(
                target.brty, atr_req=target.atr_req, atr_res=bytearray(b"\xD5\x01" + bytes(15)),
                **({"sel_res": bytearray([0x40])} if a[3] else {})))

        def _listen(self, tok, target, build):
            a, i = self._simple(tok)
            w = W()
            if a[0] == "F":
                t = build(a)
                t._id = i
                w.objects[i] = t
                w.trace[-1][1] = t
                return t
            if a[0] == "L":
                w.note(tok, "BrokenLinkError@listen")
                raise nfc.clf.BrokenLinkError("scripted RFOFF inside listen")
            if a[0] == "u":
                w.note(tok, "UnsupportedTargetError")
                raise nfc.clf.UnsupportedTargetError("scripted")
            return None

        def listen_tta(self, target, timeout):
            return self._listen("lA", target, lambda a: nfc.clf.LocalTarget(target.brty, tt2_cmd=bytearray(b"\x30\x00")))

        def listen_ttb(self, target, timeout):
            return self._listen("lB", target, lambda a: nfc.clf.LocalTarget(target.brty))

        def listen_ttf(self, target, timeout):
            # p2p flag of the answer: the driver captured no Type 3 Tag command
            return self._listen("lF", target, lambda a: nfc.clf.LocalTarget(
                target.brty, sensf_res=bytearray(target.sensf_res or (b"\x01" + bytes(18))),
                tt3_cmd=(bytearray() if a[3] else bytearray(b"\x06" + bytes(8)))))

        def listen_dep(self, target, timeout):
            return self._listen("lD", target, lambda a: nfc.clf.LocalTarget(
                "106A", atr_res=target.atr_res, dep_req=bytearray(b"\xD4\x06\x00"),
                **({"atr_req": bytearray(a[4])} if a[4] else {})))

        def _xchg(self, tok, target):
            tok = "%s:%s" % (tok, getattr(target, "_id", "?"))
            a, i = self._simple(tok)
            w = W()
            if a[0] == "F":
                return bytearray(a[1])
            if a[0] == "k":
                w.note(tok, "BrokenLinkError")
                raise nfc.clf.BrokenLinkError("scripted")
            if a[0] == "T":
                w.note(tok, "TransmissionError")
                raise nfc.clf.TransmissionError("scripted")
            if a[0] == "P":
                w.note(tok, "ProtocolError")
                raise nfc.clf.ProtocolError("scripted")
            w.note(tok, "TimeoutError")
            raise nfc.clf.TimeoutError("scripted")

        def send_cmd_recv_rsp(self, target, data, timeout):
            return self._xchg("xr", target)

        def send_rsp_recv_cmd(self, target, data, timeout):
            return self._xchg("xl", target)

        def get_max_send_data_size(self, target):
            return 290

        def get_max_recv_data_size(self, target):
            return 290

    def is_present(tag):
        """stand-in for Tag.is_present: the presence check is one exchange() through the frontend"""
        try:
            return tag.clf.exchange(b"\x30\x00", 0.1) is not None
        except nfc.clf.CommunicationError:
            return False

    real_activate = nfc.tag.activate

    def activate(clf, target):
        """the REAL nfc.tag.activate; the call is an event of the history"""
        W().log.append("act")
        W().act_targets.append(target)
        tag = real_activate(clf, target)
        if tag is not None:
            W().tags.append(tag)
        return tag

    real_emulate = nfc.tag.emulate

    def emulate(clf, target):
        """the REAL nfc.tag.emulate; the call is an event of the history"""
        W().log.append("emu")
        emu = real_emulate(clf, target)
        if emu is not None:
            W().tags.append(emu)
        return emu

    def llc_activate(self, mac, **options):
        w = W()
        tok = "la:t" if isinstance(mac, nfc.dep.Target) else "la:i"
        w.log.append(tok)
        a, i = w.pop(tok)
        w.common_raise(a, tok)

        def run(terminate=lambda: False):
            w2 = W()
            w2.log.append("run")
            a2, _ = w2.pop("run")
            w2.common_raise(a2, "run")
            if a2[0] == "X":
                w2.note("run", "SystemExit")
                raise SystemExit
            if a2[0] == "p":
                for _ in range(a2[1]):
                    if terminate():
                        break
        if a[0] == "F":
            self.run = run
            return True
        return False

    return FakeDevice, is_present, activate, emulate, llc_activate


@contextlib.contextmanager
def installed(nfc, world):
    """patch the collaborators of nfc.clf.ContactlessFrontend; yields a factory for opened frontends"""
    import nfc.clf
    import nfc.clf.device
    import nfc.tag
    import nfc.dep
    import nfc.llcp.llc
    FakeDevice, is_present, activate, emulate, llc_activate = make_classes(nfc, world)
    LLC = nfc.llcp.llc.LogicalLinkController
    saved = (nfc.clf.device.connect, nfc.clf.time, nfc.tag.activate, nfc.tag.emulate, LLC.activate)
    saved_present = nfc.tag.Tag.__dict__["is_present"]
    nfc.clf.device.connect = lambda path: FakeDevice()
    nfc.clf.time = FakeTime(world)
    nfc.tag.activate = activate
    nfc.tag.emulate = emulate
    nfc.tag.Tag.is_present = property(is_present)
    LLC.activate = llc_activate
    try:
        def new_clf():
            clf = nfc.clf.ContactlessFrontend()
            if not clf.open("fake"):
                raise RuntimeError("scripted device did not open")
            return clf
        yield new_clf
    finally:
        (nfc.clf.device.connect, nfc.clf.time, nfc.tag.activate, nfc.tag.emulate, LLC.activate) = saved
        nfc.tag.Tag.is_present = saved_present


class QuietTime(object):
    """virtual clock for nfc.llcp.llc (collect() sleeps between PDUs): no waiting, nothing logged"""
    def __init__(self):
        self.now = 5000.0

    def time(self):
        self.now += 0.001
        return self.now

    def sleep(self, s):
        self.now += max(0.0, s)


@contextlib.contextmanager
def installed_real_llc(nfc, world):
    """like `installed`, but LogicalLinkController.activate and the run loops are the REAL ones:
    only the NFC-DEP MAC below them is scripted (nfc.dep.Initiator/Target.activate, exchange,
    deactivate).  An activation attempt logs la:t / la:i and consumes one answer:
      F.<..>.<..>.<..>.<k>  the peer answers ATR with LLCP general bytes, then k SYMM PDUs, then is gone
      A.<pattern>           the same with one letter per exchange the peer answers: s SYMM, c CONNECT by name for
                            an unknown service (the local link layer then has a DM to send: busy in both
                            directions), u UI for an unbound address (received, nothing to send), d DISC
      i / K                 IOError / KeyboardInterrupt        anything else: nobody there (None)
    exchange() is recorded in world.link (not in the log) and consumes nothing."""
    import nfc.clf
    import nfc.clf.device
    import nfc.dep
    import nfc.llcp.llc
    FakeDevice = make_classes(nfc, world)[0]

    def W():
        return world[0]

    def make_activate(tok):
        def activate(self, *args, **options):
            w = W()
            w.log.append(tok)
            a, i = w.pop(tok)
            w.common_raise(a, tok)
            ok = a[0] in ("F", "A")
            w.activations.append((len(w.log) - 1, ok))
            if not ok:
                return None
            self._pattern = list(a[1]) if a[0] == "A" else ["s"] * a[4]
            self.rwt = 0.001
            self.miu = 248
            self.did = None
            # LLCP magic + version 1.3 + MIUX 120 + LTO 500 ms: a well-formed PAX without DPC
            return bytearray(b"Ffm" + bytes([1, 1, 0x13, 2, 2, 0x00, 0x78, 4, 1, 50]))
        return activate

    SN = b"urn:nfc:sn:nosuch"
    PEER = {"s": b"\x00\x00", "c": bytes([0x05, 0x20, 0x06, len(SN)]) + SN, "u": b"\x40\xE0x", "d": b"\x01\x40"}

    def exchange(self, data, timeout):
        w = W()
        if len(w.link) > LIMIT:
            raise Runaway("more than %d link exchanges" % LIMIT)
        w.link.append(bytes(data).hex() if data is not None else "-")   # link-level traffic: not in connect()'s history
        if data is not None and bytes(data[:2]) == b"\x01\x40":          # our DISC: the peer confirms with DM
            return bytearray(b"\x01\xC0\x00")
        pattern = getattr(self, "_pattern", [])
        if pattern:
            return bytearray(PEER[pattern.pop(0)])
        return None

    def deactivate(self, *a, **k):
        return None

    I, T = nfc.dep.Initiator, nfc.dep.Target
    saved = (nfc.clf.device.connect, nfc.clf.time, nfc.llcp.llc.time,
             I.activate, I.exchange, I.deactivate, T.activate, T.exchange, T.deactivate)
    nfc.clf.device.connect = lambda path: FakeDevice()
    nfc.clf.time = FakeTime(world)
    nfc.llcp.llc.time = QuietTime()
    I.activate, I.exchange, I.deactivate = make_activate("la:i"), exchange, deactivate
    T.activate, T.exchange, T.deactivate = make_activate("la:t"), exchange, deactivate
    try:
        def new_clf():
            clf = nfc.clf.ContactlessFrontend()
            if not clf.open("fake"):
                raise RuntimeError("scripted device did not open")
            return clf
        yield new_clf
    finally:
        (nfc.clf.device.connect, nfc.clf.time, nfc.llcp.llc.time,
         I.activate, I.exchange, I.deactivate, T.activate, T.exchange, T.deactivate) = saved


# ----------------------------------------------------------------------------- targets for sense()/listen()
def remote_target(nfc, tok, idx=None):
    """a<n> 106A with sel_req of n bytes | b | f | d<n> atr_req of n bytes | x unknown technology | n not a RemoteTarget"""
    import nfc.clf
    if tok[0] == "a":
        n = int(tok[1:] or 0)
        t = nfc.clf.RemoteTarget("106A", **({"sel_req": bytearray(n)} if n else {}))
    elif tok == "b":
        t = nfc.clf.RemoteTarget("106B")
    elif tok == "f":
        t = nfc.clf.RemoteTarget("212F")
    elif tok[0] == "d":
        t = nfc.clf.RemoteTarget("106A", atr_req=bytearray(int(tok[1:])))
    elif tok == "x":
        t = nfc.clf.RemoteTarget("106X")
    elif tok == "n":
        t = nfc.clf.LocalTarget("106A")
    else:
        raise ValueError(tok)
    t._idx = idx
    return t


def local_target(nfc, tok):
    import nfc.clf
    if tok == "d":
        return nfc.clf.LocalTarget("106A", atr_res=bytearray(b"\xD5\x01" + bytes(15)), sens_res=bytearray(b"\x01\x01"),
                                   sdd_res=bytearray(b"\x08\x01\x02\x03"), sel_res=bytearray(b"\x40"),
                                   sensf_res=bytearray(b"\x01\x01\xFE" + bytes(16)))
    return nfc.clf.LocalTarget({"a": "106A", "b": "106B", "f": "212F", "x": "106X"}[tok])


def target_token(t):
    """canonical form of frontend.target / a returned target"""
    import nfc.clf
    if t is None:
        return "none"
    if isinstance(t, nfc.clf.RemoteTarget):
        return "r%s" % getattr(t, "_id", "?")
    if isinstance(t, nfc.clf.LocalTarget):
        return "l%s" % getattr(t, "_id", "?")
    return "?" + type(t).__name__


# ----------------------------------------------------------------------------- connect() option records
class ConnSpec(object):
    """option record in the shape shared with the Lean driver.

    rdwr: None | dict(su, tg, di, co, re, it, bp)   su: '-' absent | 0 proper list | 1 [] | 2 list of str | 3 int 1 | 4 None
                                                    | 5 the list it was given, attributes set in place (documented usage)
    llcp: None | dict(su, co, re, role)             su: '-' | 0 the llc | 1 None | 2 True           role: '-' | t | i | x
    card: None | dict(su, kind, di, co, re)         su: '-' | 0 LocalTarget(kind) | 1 None | 2 a RemoteTarget
                                                    | 3 the LocalTarget it was given, filled in place (documented usage)
    callbacks di/co/re: '-' absent | 0..6 result code (val_of)
    """

    def __init__(self, rdwr=None, llcp=None, card=None):
        self.rdwr, self.llcp, self.card = rdwr, llcp, card

    @staticmethod
    def _f(x):
        return "-" if x == "-" or x is None else str(x)

    def token(self):
        r = "-" if self.rdwr is None else ";".join([self._f(self.rdwr["su"]), ",".join(self.rdwr["tg"]) or "-",
                                                    self._f(self.rdwr["di"]), self._f(self.rdwr["co"]),
                                                    self._f(self.rdwr["re"]), str(self.rdwr["it"]), str(self.rdwr["bp"])])
        l = "-" if self.llcp is None else ";".join([self._f(self.llcp["su"]), self._f(self.llcp["co"]),
                                                    self._f(self.llcp["re"]), self.llcp["role"]])
        c = "-" if self.card is None else ";".join([self._f(self.card["su"]), self.card["kind"], self._f(self.card["di"]),
                                                    self._f(self.card["co"]), self._f(self.card["re"])])
        return "%s %s %s" % (r, l, c)


def build_options(nfc, world, spec):
    """real option dictionaries for ContactlessFrontend.connect from a ConnSpec"""
    import nfc.clf
    opts = {}

    def cb(role, kind, code):
        def f(arg):
            w = world[0]
            w.log.append("cb:%s:%s:%s" % (role, kind, code))
            w.cb_args.append((role, kind, arg))
            return val_of(code)
        return f

    def put(d, role, kind, key, code):
        if code != "-":
            d[key] = cb(role, kind, int(code))

    if spec.rdwr is not None:
        s = spec.rdwr
        d = {"iterations": s["it"], "interval": 0.05, "beep-on-connect": bool(s["bp"])}
        if s["su"] in ("-", 5):
            # default on-startup: the targets come from the 'targets' strings; attributes cannot be given this way
            d["targets"] = [{"a": "106A", "b": "106B", "f": "212F", "x": "106X", "d": "106A"}[t[0]] for t in s["tg"]]
        if s["su"] == 5:
            def on_startup_inplace(targets, tg=s["tg"]):
                w = world[0]
                w.log.append("cb:rdwr:startup:5")
                w.cb_args.append(("rdwr", "startup", targets))
                for t, tok in zip(targets, tg):
                    ref = remote_target(nfc, tok)
                    t.sel_req, t.atr_req = ref.sel_req, ref.atr_req
                return targets
            d["on-startup"] = on_startup_inplace
        elif s["su"] != "-":
            code = int(s["su"])

            def on_startup(targets, code=code, tg=s["tg"]):
                w = world[0]
                w.log.append("cb:rdwr:startup:%s" % code)
                w.cb_args.append(("rdwr", "startup", targets))
                if code == 0:
                    w.startup_targets = [remote_target(nfc, t, i) for i, t in enumerate(tg)]
                    return w.startup_targets
                return [None, [], ["106A"], 1, None][code]
            d["on-startup"] = on_startup
        put(d, "rdwr", "discover", "on-discover", s["di"])
        put(d, "rdwr", "connect", "on-connect", s["co"])
        put(d, "rdwr", "release", "on-release", s["re"])
        opts["rdwr"] = d
    if spec.llcp is not None:
        s = spec.llcp
        d = {}
        if s["su"] != "-":
            code = int(s["su"])

            def llc_startup(llc, code=code):
                w = world[0]
                w.log.append("cb:llcp:startup:%s" % code)
                w.cb_args.append(("llcp", "startup", llc))
                return [llc, None, True][code]
            d["on-startup"] = llc_startup
        put(d, "llcp", "connect", "on-connect", s["co"])
        put(d, "llcp", "release", "on-release", s["re"])
        if s["role"] != "-":
            d["role"] = {"t": "target", "i": "initiator", "x": "both"}[s["role"]]
        opts["llcp"] = d
    if spec.card is not None:
        s = spec.card
        d = {"timeout": 0.05}
        if s["su"] != "-":
            code = int(s["su"])

            def card_startup(target, code=code, kind=s["kind"]):
                w = world[0]
                w.log.append("cb:card:startup:%s" % code)
                w.cb_args.append(("card", "startup", target))
                if code == 3:
                    ref = local_target(nfc, kind)
                    target.brty = ref.brty
                    for k, v in ref.__dict__.items():
                        if k != "_brty_send" and k != "_brty_recv" and not k.startswith("_"):
                            setattr(target, k, v)
                    return target
                return [local_target(nfc, kind), None, nfc.clf.RemoteTarget("106A")][code]
            d["on-startup"] = card_startup
        put(d, "card", "discover", "on-discover", s["di"])
        put(d, "card", "connect", "on-connect", s["co"])
        put(d, "card", "release", "on-release", s["re"])
        opts["card"] = d
    return opts


def outcome_token(nfc, world, fn):
    """run fn() and canonicalise what connect() gave back"""
    import common
    w = world[0]
    try:
        r = fn()
    except BaseException as e:  # noqa  (SystemExit and KeyboardInterrupt are outcomes here)
        return "exc " + common.exc_name(e), e
    if r is None:
        return "ok None", r
    if r is False:
        return "ok False", r
    for (role, kind, arg) in w.cb_args:
        if kind == "connect" and arg is r:
            return "ok obj:" + role, r
    if any(t is r for t in w.tags):
        import nfc.tag
        return "ok obj:" + ("card" if isinstance(r, nfc.tag.TagEmulation) else "rdwr"), r
    import nfc.llcp.llc
    if isinstance(r, nfc.llcp.llc.LogicalLinkController):
        return "ok obj:llcp", r
    for code in range(VAL_CODES):
        v = val_of(code)
        if type(v) is type(r) and v == r:
            return "ok val:%d" % code, r
    return "ok ?%r" % (r,), r
