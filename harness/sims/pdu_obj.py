"""LLCP PDU objects under attribute assignment and repeated observation (C11).

Operations on one real `nfc.llcp.pdu` object, their text for the `seq` request of
`drv_c11` (model `NfcVerif.Pdu.Obj`), boundary-value tables for every attribute of
every PDU class, the exhaustive default/zero/maximum/absent grids, and a validity
predicate written from the property's quantifier (independent of the Lean `Valid`).

An operation is a tuple:
  ("set", attr, value)      pdu.<attr> = value     (attr "version": pax.version = (a, b);
                                                    "sdreq+" / "sdres+": pdu.sdreq.append(value))
  ("seti", i, attr, value)  agf._aggregate[i].<attr> = value
  ("app", description)      agf.append(pdu)
  ("enc",) ("len",) ("hdr",) ("state",) ("str",) ("get", prop) ("eq", description)
"""
import itertools

from sims import pdu_ref as R

OBSERVERS = ("enc", "len", "hdr", "state", "str", "eq", "get")

# attribute name in the op text -> Python attribute
PYATTR = {"rej_flags": "rej_flags", "rej_ptype": "rej_ptype"}

NAT_ATTRS = {"dsap", "ssap", "ns", "nr", "miu", "rw", "reason", "rej_flags", "rej_ptype", "vs", "vr", "vsa", "vra",
             "wks", "lto", "lsc", "dpc", "ptype"}
ONAT_ATTRS = {"_version", "_miux", "_wks", "_lto", "_opt"}
BYTES_ATTRS = {"data", "payload"}
OBYTES_ATTRS = {"sn", "ecpk", "rn"}

FREE_SAP = ("ui", "connect", "disc", "cc", "dm", "frmr", "i", "rr", "rnr", "unknown")


# ------------------------------------------------------------------ validity (the quantifier of the round trip)
def _name_ok(v):
    return v is None or 1 <= len(v) <= 255


def is_valid(p, item_len=None):
    """valid field values: SAP 0..63 (fixed SAPs for SYMM/PAX/AGF/DPS = 0, SNL = 1), N(S)/N(R) 0..15, MIU 128..2175,
    RW 0..15, VERSION/LTO 0..255, MIUX 0..0x7FF, WKS 16 bit, OPT 0..7, names 1..255 octets, SDREQ names 0..254"""
    k = p[0]
    d, s = (p[2], p[3]) if k == "unknown" else (p[1], p[2])
    if not (isinstance(d, int) and isinstance(s, int)):
        return False
    if k in ("symm", "pax", "agf", "dps"):
        if (d, s) != (0, 0):
            return False
    elif k == "snl":
        if (d, s) != (1, 1):
            return False
    elif not (0 <= d <= 63 and 0 <= s <= 63):
        return False
    rng = lambda v, hi: isinstance(v, int) and 0 <= v <= hi
    orng = lambda v, hi: v is None or rng(v, hi)
    if k == "pax":
        return orng(p[3], 255) and orng(p[4], 0x7FF) and orng(p[5], 0xFFFF) and orng(p[6], 255) and orng(p[7], 7)
    if k == "connect":
        return rng(p[3], 2175) and p[3] >= 128 and rng(p[4], 15) and _name_ok(p[5])
    if k == "cc":
        return rng(p[3], 2175) and p[3] >= 128 and rng(p[4], 15)
    if k == "dm":
        return rng(p[3], 255)
    if k == "frmr":
        return all(rng(v, 15) for v in p[3:])
    if k == "snl":
        return (all(rng(t, 255) and len(n) <= 254 for t, n in p[3]) and
                all(rng(t, 255) and rng(a, 255) for t, a in p[4]))
    if k == "dps":
        return _name_ok(p[3]) and _name_ok(p[4])
    if k == "i":
        return rng(p[3], 15) and rng(p[4], 15)
    if k in ("rr", "rnr"):
        return rng(p[3], 15)
    if k == "unknown":
        return p[1] in (11, 15)
    if k == "agf":
        return all(q[0] != "agf" and is_valid(q) and (item_len is None or item_len(q) <= 65535) for q in p[3])
    return True   # symm, ui, disc


# ------------------------------------------------------------------ text of operations
def val_text(attr, v):
    if attr in NAT_ATTRS:
        return str(v)
    if attr in ONAT_ATTRS:
        return R.opt_n(v)
    if attr in BYTES_ATTRS:
        return R.hx(v)
    if attr in OBYTES_ATTRS:
        return R.opt_b(v)
    if attr == "version":
        return "%d:%d" % v
    if attr == "sdreq":
        return R.lst(["%d:%s" % (t, R.hx(n)) for t, n in v])
    if attr == "sdres":
        return R.lst(["%d:%d" % (t, a) for t, a in v])
    if attr == "sdreq+":
        return "%d:%s" % (v[0], R.hx(v[1]))
    if attr == "sdres+":
        return "%d:%d" % v
    raise ValueError(attr)


def op_text(op):
    k = op[0]
    if k == "set":
        return "set %s %s" % (op[1], val_text(op[1], op[2]))
    if k == "seti":
        return "seti %d %s %s" % (op[1], op[2], val_text(op[2], op[3]))
    if k == "app":
        return "app " + R.text(op[1])
    if k == "eq":
        return "eq " + R.text(op[1])
    if k == "get":
        return "get " + op[1]
    return k


def seq_text(desc, ops):
    return " ;; ".join(["seq " + R.text(desc)] + [op_text(o) for o in ops])


# ------------------------------------------------------------------ operations on the real object
def _assign(obj, attr, v):
    if attr == "sdreq+":
        obj.sdreq.append(v)
    elif attr == "sdres+":
        obj.sdres.append(v)
    elif attr in ("sdreq", "sdres"):
        setattr(obj, attr, list(v))
    else:
        setattr(obj, PYATTR.get(attr, attr), v)


def apply_real(P, obj, op, exc_name, flip=0):
    """perform `op` on the real object; -> reply text in the form of NfcVerif.Pdu.Obj.Reply.text"""
    k = op[0]
    try:
        if k == "set":
            _assign(obj, op[1], op[2])
            return "-"
        if k == "seti":
            _assign(obj._aggregate[op[1]], op[2], op[3])
            return "-"
        if k == "app":
            obj.append(R.to_obj(P, op[1]))
            return "-"
        if k == "enc":
            e = P.encode(obj) if flip & 1 else obj.encode()
            if not isinstance(e, (bytes, bytearray)):
                return "exc not-bytes:" + type(e).__name__
            return "ok " + R.hx(e)
        if k == "len":
            return "ok %d" % len(obj)
        if k == "hdr":
            e = obj.encode_header()
            if not isinstance(e, (bytes, bytearray)):
                return "exc not-bytes:" + type(e).__name__
            return "ok " + R.hx(e)
        if k == "eq":
            other = R.to_obj(P, op[1])
            r = (obj == other) if not flip & 2 else not (obj != other)
            return "ok T" if r is True else "ok F" if r is False else "exc not-bool:" + type(r).__name__
        if k == "get":
            v = getattr(obj, op[1])
            return "ok %d:%d" % (tuple(v) if op[1] == "version" else (v, 0))
        if k == "state":
            return "ok " + R.text(R.from_obj(P, obj))
        if k == "str":
            str(obj)
            return "-"
    except Exception as e:  # noqa
        return "exc " + exc_name(e)
    raise ValueError(k)


# ------------------------------------------------------------------ boundary values per attribute
SAPS = [0, 1, 2, 31, 32, 62, 63]
NIB = [0, 1, 7, 8, 14, 15]
NAMES = [b"x", b"urn:nfc:sn:snep", bytes(range(1, 255)) + b"z"]          # 1, 15, 255 octets

VALUES = {   # attr -> (valid values, out-of-range values)
    "dsap": (SAPS, [64, 65, 255, 1000]), "ssap": (SAPS, [64, 200]),
    "ns": (NIB, [16, 17, 255]), "nr": (NIB, [16, 255, 256]),
    "rw": ([0, 1, 2, 7, 14, 15], [16, 17, 255, 256]),
    "reason": ([0, 1, 2, 3, 0x10, 0x11, 0x20, 0x21, 127, 128, 254, 255], [256, 1000]),
    "rej_flags": (NIB, [16, 31, 256]), "rej_ptype": (NIB, [16, 255]),
    "vs": (NIB, [16]), "vr": (NIB, [16]), "vsa": (NIB, [16]), "vra": (NIB, [16, 4096]),
    "data": ([b"", b"\x00", b"ab", bytes(range(40)), bytes(128)], []),
    "payload": ([b"", b"\x00", b"xyz", bytes(range(40))], []),
    "sn": ([None] + NAMES + [b"urn:nfc:sn:x"], [b"", bytes(256), bytes(300)]),
    "ecpk": ([None, b"\x01", bytes(range(64)), bytes(255)], [b"", bytes(256)]),
    "rn": ([None, b"\x02", bytes(range(8)), bytes(255)], [b"", bytes(256)]),
    "_version": ([None, 0, 1, 0x10, 0x11, 0x13, 0x20, 255], [256, 1000]),
    "_miux": ([None, 0, 1, 120, 0x7FE, 0x7FF], [0x800, 65535, 65536]),
    "_wks": ([None, 0, 1, 2, 0x13, 0x8000, 0xFFFE, 0xFFFF], [65536, 70000]),
    "_lto": ([None, 0, 1, 9, 10, 11, 100, 254, 255], [256, 1000]),
    "_opt": ([None, 0, 1, 2, 3, 4, 5, 6, 7], [8, 255, 256]),
    "ptype": ([11, 15], [0, 2, 12, 16, 1023, 1024]),
    "sdreq": ([[], [(0, b"")], [(1, b"urn:nfc:sn:snep")], [(255, bytes(254))], [(1, b"a"), (2, b""), (3, b"bc")]],
              [[(256, b"a")], [(1, bytes(255))]]),
    "sdres": ([[], [(0, 0)], [(255, 63)], [(1, 16), (2, 255), (3, 0)]], [[(256, 1)], [(1, 256)]]),
    "sdreq+": ([(0, b""), (255, b"urn:nfc:sn:handover"), (7, bytes(254))], [(256, b""), (1, bytes(255))]),
    "sdres+": ([(0, 0), (255, 255), (9, 32)], [(256, 0), (0, 256)]),
}
# attributes whose meaning depends on the class
MIU_ATTR = ([128, 129, 130, 248, 1000, 2174, 2175], [0, 1, 127, 2176, 128 + 65535, 128 + 65536, 10 ** 6])
PAX_PROPS = {   # property setters of ParameterExchange: every value is accepted and masked
    "miu": ([128, 129, 248, 2175, 0, 1, 127], [2176, 128 + 0x800, 128 + 65535, 128 + 65536]),
    "wks": ([0, 1, 0x13, 0xFFFF, 0x10000, 0x1FFFF], []),
    "lto": ([0, 9, 10, 19, 100, 500, 2550, 2559, 2560, 5000], []),
    "lsc": ([0, 1, 2, 3, 4, 7, 255], []),
    "dpc": ([0, 1, 2], []),
    "version": ([(1, 0), (1, 1), (1, 3), (0, 0), (15, 15), (16, 16), (255, 255)], []),
}

ATTRS = {   # kind -> attributes the encoder of the class reads
    "symm": ["dsap", "ssap"],
    "pax": ["dsap", "ssap", "_version", "_miux", "_wks", "_lto", "_opt", "miu", "wks", "lto", "lsc", "dpc", "version"],
    "ui": ["dsap", "ssap", "data"],
    "connect": ["dsap", "ssap", "miu", "rw", "sn"],
    "disc": ["dsap", "ssap"],
    "cc": ["dsap", "ssap", "miu", "rw"],
    "dm": ["dsap", "ssap", "reason"],
    "frmr": ["dsap", "ssap", "rej_flags", "rej_ptype", "ns", "nr", "vs", "vr", "vsa", "vra"],
    "snl": ["dsap", "ssap", "sdreq", "sdres", "sdreq+", "sdres+"],
    "dps": ["dsap", "ssap", "ecpk", "rn"],
    "i": ["dsap", "ssap", "ns", "nr", "data"],
    "rr": ["dsap", "ssap", "nr"],
    "rnr": ["dsap", "ssap", "nr"],
    "unknown": ["dsap", "ssap", "payload", "ptype"],
    "agf": ["dsap", "ssap"],
}
# attributes that other classes read: assigning them to a class that does not is a stray attribute (no effect)
STRAY = {"ui": ["rw", "reason"], "disc": ["data", "nr"], "dm": ["rw", "data"], "symm": ["data"], "cc": ["sn"],
         "connect": ["reason", "data"], "dps": ["sn"], "snl": ["data"], "frmr": ["reason"], "i": ["rw", "payload"],
         "rr": ["data", "rw"], "rnr": ["data", "reason"], "unknown": ["data"], "pax": ["rw", "sn"]}


def values(kind, attr):
    """(valid, out-of-range) values of `attr` on a PDU of `kind`"""
    if kind == "pax" and attr in PAX_PROPS:
        return PAX_PROPS[attr]
    if attr == "miu":
        return MIU_ATTR
    if attr in ("dsap", "ssap") and kind not in FREE_SAP:
        fixed = 1 if kind == "snl" else 0
        return [fixed], [v for v in (0, 1, 2, 63, 64) if v != fixed]
    return VALUES[attr]


BASES = {   # two valid base objects per kind (defaults / non-defaults)
    "symm": [("symm", 0, 0)],
    "pax": [("pax", 0, 0, None, None, None, None, None), ("pax", 0, 0, 0x13, 120, 0x13, 10, 3),
            ("pax", 0, 0, 0x11, 0, 0, 0, 0)],
    "ui": [("ui", 32, 16, b"data"), ("ui", 1, 63, b"")],
    "connect": [("connect", 1, 32, 128, 1, b"urn:nfc:sn:snep"), ("connect", 16, 33, 2175, 0, None)],
    "disc": [("disc", 32, 16), ("disc", 0, 63)],
    "cc": [("cc", 32, 4, 128, 1), ("cc", 4, 32, 248, 15)],
    "dm": [("dm", 32, 4, 0), ("dm", 4, 32, 0x21)],
    "frmr": [("frmr", 32, 4, 1, 12, 1, 2, 3, 4, 5, 6), ("frmr", 4, 32, 0, 0, 0, 0, 0, 0, 0, 0)],
    "snl": [("snl", 1, 1, [], []), ("snl", 1, 1, [(1, b"urn:nfc:sn:snep")], [(2, 16)])],
    "dps": [("dps", 0, 0, None, None), ("dps", 0, 0, bytes(range(64)), bytes(range(8)))],
    "i": [("i", 32, 16, 0, 0, b"data"), ("i", 16, 32, 5, 9, b"")],
    "rr": [("rr", 32, 16, 0), ("rr", 16, 32, 11)],
    "rnr": [("rnr", 32, 16, 5), ("rnr", 16, 32, 0)],
    "unknown": [("unknown", 11, 20, 21, b"xyz"), ("unknown", 15, 1, 1, b"")],
}
AGF_BASES = [("agf", 0, 0, []), ("agf", 0, 0, [("disc", 1, 2)]),
             ("agf", 0, 0, [("i", 32, 16, 1, 2, b"ab"), ("rr", 16, 32, 3), ("connect", 1, 32, 128, 1, b"urn:nfc:sn:snep")])]
KINDS = list(BASES)


def field_value(desc, attr):
    """current value of the plain attribute `attr` in a description (None when it is not a plain field)"""
    pos = {"pax": {"_version": 3, "_miux": 4, "_wks": 5, "_lto": 6, "_opt": 7},
           "ui": {"data": 3}, "connect": {"miu": 3, "rw": 4, "sn": 5}, "cc": {"miu": 3, "rw": 4}, "dm": {"reason": 3},
           "frmr": {"rej_flags": 3, "rej_ptype": 4, "ns": 5, "nr": 6, "vs": 7, "vr": 8, "vsa": 9, "vra": 10},
           "snl": {"sdreq": 3, "sdres": 4}, "dps": {"ecpk": 3, "rn": 4}, "i": {"ns": 3, "nr": 4, "data": 5},
           "rr": {"nr": 3}, "rnr": {"nr": 3}, "unknown": {"payload": 4, "ptype": 1}}
    k = desc[0]
    if attr in ("dsap", "ssap"):
        return desc[(1 if attr == "dsap" else 2) + (k == "unknown")]
    i = pos.get(k, {}).get(attr)
    return None if i is None else desc[i]


def observer(rng, desc=None, kind=None):
    r = rng.random()
    if r < 0.3:
        return ("enc",)
    if r < 0.45:
        return ("len",)
    if r < 0.55:
        return ("hdr",)
    if r < 0.65:
        return ("str",)
    if r < 0.75:
        return ("state",)
    if r < 0.82 and kind == "pax":
        return ("get", rng.choice(["version", "miu", "wks", "lto", "lsc", "dpc"]))
    return ("eq", desc if desc is not None else ("symm", 0, 0))


def assign_neighbourhood(kind, with_invalid=False):
    """every (base, pre-observer, attr, value) of the 'observe, assign, observe' pattern for one class"""
    for base in BASES[kind]:
        for attr in ATTRS[kind]:
            good, bad = values(kind, attr)
            for v in list(good) + (list(bad) if with_invalid else []):
                if field_value(base, attr) == v and attr not in ("sdreq+", "sdres+"):
                    continue
                yield base, attr, v


def pre_observers(base):
    return [None, ("enc",), ("len",), ("hdr",), ("eq", base), ("str",), ("state",)]


# ------------------------------------------------------------------ exhaustive boundary grids for encode / len / round trip
def grid(thorough=False):
    """valid PDU descriptions: every optional parameter of every PDU type at its default, at zero, at its maximum
    and absent, combined exhaustively per type; full sweeps of every one-octet / nibble field"""
    T = thorough
    yield ("symm", 0, 0)
    # PAX: product of the boundary values of the five parameters
    for ver, miux, wks, lto, opt in itertools.product(
            (None, 0, 0x10, 0x13, 255), (None, 0, 1, 0x7FF), (None, 0, 1, 0x13, 0xFFFF),
            (None, 0, 9, 10, 11, 255), (None, 0, 1, 2, 3, 4, 7)):
        yield ("pax", 0, 0, ver, miux, wks, lto, opt)
    # PAX: every value of each one-octet parameter, the others all absent / all present
    for ctx in ((None, None, None, None, None), (0x13, 120, 0x13, 100, 3)):
        for v in range(256):
            yield ("pax", 0, 0, v) + ctx[1:]
            yield ("pax", 0, 0) + ctx[:3] + (v,) + ctx[4:]
        for v in range(8):
            yield ("pax", 0, 0) + ctx[:4] + (v,)
        for v in (range(0x800) if T else list(range(0, 0x800, 37)) + [0x7FF, 0xFF, 0x100, 0x3FF, 0x400]):
            yield ("pax", 0, 0, ctx[0], v) + ctx[2:]
        for v in ([1 << i for i in range(16)] + [(1 << i) - 1 for i in range(17)] + [0xFFFE, 0x8001, 0x00FF, 0xFF00, 0x0100]):
            yield ("pax", 0, 0) + ctx[:2] + (v,) + ctx[3:]
    if T:
        for v in range(65536):
            yield ("pax", 0, 0, None, None, v, None, None)
    # CONNECT / CC
    names = (None,) + tuple(NAMES) + (b"urn:nfc:sn:x" * 21,)           # absent, 1, 15, 255, 252 octets
    for d, s in itertools.product((0, 1, 63), repeat=2):
        for miu in (128, 129, 248, 128 + 0x7FE, 128 + 0x7FF):
            for rw in (0, 1, 2, 15):
                yield ("cc", d, s, miu, rw)
                for sn in names:
                    yield ("connect", d, s, miu, rw, sn)
    for miu in (range(128, 2176) if T else list(range(128, 2176, 29)) + [255, 256, 257, 383, 384, 1151, 1152, 2175]):
        yield ("connect", 1, 32, miu, 1, None)
        yield ("connect", 1, 32, miu, 0, b"urn:nfc:sn:snep")
        yield ("cc", 32, 1, miu, 1)
        yield ("cc", 32, 1, miu, 15)
    for rw in range(16):
        for miu in (128, 2175):
            yield ("connect", 4, 32, miu, rw, None)
            yield ("connect", 4, 32, miu, rw, b"urn:nfc:sn:snep")
            yield ("cc", 32, 4, miu, rw)
    for n in (1, 2, 3, 127, 128, 253, 254, 255):
        yield ("connect", 1, 32, 128, 1, bytes([0x61]) * n)
        yield ("connect", 1, 32, 2175, 0, bytes(n))
    # header: every DSAP x SSAP for one class, the diagonal and the borders for the others
    for d in range(64):
        for s in range(64):
            yield ("disc", d, s)
    for k in ("ui", "dm", "rr", "rnr", "i", "connect", "cc", "frmr", "unknown"):
        for d, s in [(x, 63 - x) for x in range(64)] + [(0, 0), (63, 63), (0, 63), (63, 0), (1, 1)]:
            yield {"ui": ("ui", d, s, b"ab"), "dm": ("dm", d, s, 1), "rr": ("rr", d, s, 5), "rnr": ("rnr", d, s, 10),
                   "i": ("i", d, s, 3, 4, b"\x01"), "connect": ("connect", d, s, 128, 1, None), "cc": ("cc", d, s, 128, 1),
                   "frmr": ("frmr", d, s, 1, 2, 3, 4, 5, 6, 7, 8), "unknown": ("unknown", 11, d, s, b"p")}[k]
    # DM: every reason
    for r in range(256):
        yield ("dm", 32, 4, r)
    # FRMR: all-zero / all-ones grid over the eight nibbles, then every value of each nibble
    for bits in itertools.product((0, 15), repeat=8):
        yield ("frmr", 32, 4) + bits
    for i in range(8):
        for v in range(16):
            for ctx in (0, 15, 5):
                f = [ctx] * 8
                f[i] = v
                yield ("frmr", 4, 32) + tuple(f)
    # I: every N(S) x N(R); RR / RNR every N(R)
    for ns in range(16):
        for nr in range(16):
            yield ("i", 32, 16, ns, nr, b"")
            yield ("i", 16, 32, ns, nr, b"\xff")
    for nr in range(16):
        for d, s in ((32, 16), (0, 0), (63, 63)):
            yield ("rr", d, s, nr)
            yield ("rnr", d, s, nr)
    # UI / I / unknown payload lengths
    for n in (0, 1, 2, 127, 128, 129, 255, 256, 2174, 2175, 2176):
        yield ("ui", 1, 1, bytes([n & 255]) * n)
        yield ("i", 1, 1, 15, 15, bytes([n & 255]) * n)
        yield ("unknown", 15, 1, 1, bytes([n & 255]) * n)
    # SNL: lists empty / one / many, tid 0 / 255, names empty / one octet / maximum
    reqs = ([], [(0, b"")], [(255, b"a")], [(0, bytes(254))], [(255, b"urn:nfc:sn:snep")],
            [(0, b""), (255, b""), (1, b"a")], [(i, bytes([65 + i]) * i) for i in range(8)])
    ress = ([], [(0, 0)], [(255, 255)], [(0, 63), (255, 0)], [(i, 63 - i) for i in range(8)])
    for q in reqs:
        for r in ress:
            yield ("snl", 1, 1, list(q), list(r))
    for tid in range(256):
        yield ("snl", 1, 1, [(tid, b"x")], [(255 - tid, tid)])
    # DPS: ECPK / RN absent, one octet, typical, full length
    for ecpk in (None, b"\x00", b"\x01", bytes(range(64)), bytes(254), bytes(255)):
        for rn in (None, b"\x00", bytes(range(8)), bytes(255)):
            yield ("dps", 0, 0, ecpk, rn)
    # unknown types
    for t in (11, 15):
        for d, s in ((0, 0), (63, 63), (20, 21)):
            yield ("unknown", t, d, s, b"")
            yield ("unknown", t, d, s, b"xyz")


def agf_grid(simple):
    """aggregates: empty / one / many, built from `simple` (a list of valid non-aggregate descriptions)"""
    yield ("agf", 0, 0, [])
    for q in simple:
        yield ("agf", 0, 0, [q])
    for i in range(0, len(simple) - 1, 2):
        yield ("agf", 0, 0, [simple[i], simple[i + 1]])
    for i in range(0, len(simple) - 4, 5):
        yield ("agf", 0, 0, simple[i:i + 5])
    yield ("agf", 0, 0, list(simple[:40]))


# ------------------------------------------------------------------ TLV pool for the parameter-list PDU types (decode side)
TLV_POOL = [bytes.fromhex(h) for h in (
    # well formed
    "010113", "02020000", "020207ff", "0202ffff", "03020013", "04010a", "040100", "0401ff", "050100", "050101",
    "05010f", "0501f3", "0600", "060141", "070100", "070103", "0701ff", "080141", "0803024142", "09020311",
    "0a00", "0a0101", "0b00", "0b0102", "0000", "0c00", "ff01aa",
    # malformed
    "0100", "010200", "0200", "020100", "0300", "0400", "040200", "0500", "0700", "0800", "0900", "090103",
    "0802", "09", "0a02ff", "0602")]


def tlv_bodies(depth):
    for n in range(depth + 1):
        for combo in itertools.product(TLV_POOL, repeat=n):
            yield b"".join(combo)


# ------------------------------------------------------------------ aggregates: products of length-prefixed elements
AGF_ELEMENTS = [bytes.fromhex(h) for h in (
    "0000", "0541", "0f4405", "0f8405", "01c011", "8300ab", "0cc1", "0cc141", "11200202007805010f", "1120060141",
    "81840501f0", "06410803024142", "064109020311", "02800a0101", "0040040164", "0200010203040506", "0ec1",
    # malformed on their own
    "", "00", "0080", "008000020000", "11200202", "01c0", "0f44", "02001122334455", "0641", "00400401")]
AGF_ELEMENTS[16:17] = [bytes.fromhex("0ec1"), bytes.fromhex("0bc1aabb")]


def agf_entries():
    for e in AGF_ELEMENTS:
        for n in sorted({len(e), len(e) + 1, max(0, len(e) - 1), 0, 0xFFFF}):
            yield n.to_bytes(2, "big") + e


def agf_bodies(depth):
    entries = list(agf_entries())
    for k in range(depth + 1):
        for combo in itertools.product(entries, repeat=k):
            yield b"".join(combo)


# ------------------------------------------------------------------ PAX properties: get-after-set, stated without the model
def pax_expect(attr, v, before):
    """properties expected after `pax.<attr> = v` given the properties before (dict); None when `v` is outside the
    documented range of the property (the masks are then the model's business, not the oracle's)"""
    if any(isinstance(x, str) for x in before.values()):
        return None
    want = dict(before)
    if attr == "lsc":
        if not 0 <= v <= 3:
            return None
        want["lsc"] = v
    elif attr == "dpc":
        if v not in (0, 1):
            return None
        want["dpc"] = v
    elif attr == "lto":
        if v % 10 or not 0 <= v <= 2550:
            return None
        want["lto"] = v
    elif attr == "wks":
        if not 0 <= v <= 0xFFFF:
            return None
        want["wks"] = v
    elif attr == "miu":
        if not 128 <= v <= 2175:
            return None
        want["miu"] = v
    elif attr == "version":
        if not (0 <= v[0] <= 15 and 0 <= v[1] <= 15):
            return None
        want["version"] = tuple(v)
    else:
        return None
    return want
