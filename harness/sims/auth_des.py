"""DES / two-key triple DES written from FIPS PUB 46-3 (tables typed from the
standard), on 64-bit integers.  Independent of pyDes (which nfcpy uses) and of
the Lean model (NfcVerif.Model.Des): three implementations are compared by the
C20 check.  Also the FeliCa Lite / Lite-S MAC as the user manuals describe it
(all quantities little-endian 64-bit words, no byte-string reversal)."""

import functools

IP = [58, 50, 42, 34, 26, 18, 10, 2, 60, 52, 44, 36, 28, 20, 12, 4, 62, 54, 46, 38, 30, 22, 14, 6,
      64, 56, 48, 40, 32, 24, 16, 8, 57, 49, 41, 33, 25, 17, 9, 1, 59, 51, 43, 35, 27, 19, 11, 3,
      61, 53, 45, 37, 29, 21, 13, 5, 63, 55, 47, 39, 31, 23, 15, 7]
FP = [40, 8, 48, 16, 56, 24, 64, 32, 39, 7, 47, 15, 55, 23, 63, 31, 38, 6, 46, 14, 54, 22, 62, 30,
      37, 5, 45, 13, 53, 21, 61, 29, 36, 4, 44, 12, 52, 20, 60, 28, 35, 3, 43, 11, 51, 19, 59, 27,
      34, 2, 42, 10, 50, 18, 58, 26, 33, 1, 41, 9, 49, 17, 57, 25]
E = [32, 1, 2, 3, 4, 5, 4, 5, 6, 7, 8, 9, 8, 9, 10, 11, 12, 13, 12, 13, 14, 15, 16, 17,
     16, 17, 18, 19, 20, 21, 20, 21, 22, 23, 24, 25, 24, 25, 26, 27, 28, 29, 28, 29, 30, 31, 32, 1]
P = [16, 7, 20, 21, 29, 12, 28, 17, 1, 15, 23, 26, 5, 18, 31, 10,
     2, 8, 24, 14, 32, 27, 3, 9, 19, 13, 30, 6, 22, 11, 4, 25]
PC1 = [57, 49, 41, 33, 25, 17, 9, 1, 58, 50, 42, 34, 26, 18, 10, 2, 59, 51, 43, 35, 27, 19, 11, 3, 60, 52, 44, 36,
       63, 55, 47, 39, 31, 23, 15, 7, 62, 54, 46, 38, 30, 22, 14, 6, 61, 53, 45, 37, 29, 21, 13, 5, 28, 20, 12, 4]
PC2 = [14, 17, 11, 24, 1, 5, 3, 28, 15, 6, 21, 10, 23, 19, 12, 4, 26, 8, 16, 7, 27, 20, 13, 2,
       41, 52, 31, 37, 47, 55, 30, 40, 51, 45, 33, 48, 44, 49, 39, 56, 34, 53, 46, 42, 50, 36, 29, 32]
SHIFTS = [1, 1, 2, 2, 2, 2, 2, 2, 1, 2, 2, 2, 2, 2, 2, 1]
SBOX = [
    [14, 4, 13, 1, 2, 15, 11, 8, 3, 10, 6, 12, 5, 9, 0, 7, 0, 15, 7, 4, 14, 2, 13, 1, 10, 6, 12, 11, 9, 5, 3, 8,
     4, 1, 14, 8, 13, 6, 2, 11, 15, 12, 9, 7, 3, 10, 5, 0, 15, 12, 8, 2, 4, 9, 1, 7, 5, 11, 3, 14, 10, 0, 6, 13],
    [15, 1, 8, 14, 6, 11, 3, 4, 9, 7, 2, 13, 12, 0, 5, 10, 3, 13, 4, 7, 15, 2, 8, 14, 12, 0, 1, 10, 6, 9, 11, 5,
     0, 14, 7, 11, 10, 4, 13, 1, 5, 8, 12, 6, 9, 3, 2, 15, 13, 8, 10, 1, 3, 15, 4, 2, 11, 6, 7, 12, 0, 5, 14, 9],
    [10, 0, 9, 14, 6, 3, 15, 5, 1, 13, 12, 7, 11, 4, 2, 8, 13, 7, 0, 9, 3, 4, 6, 10, 2, 8, 5, 14, 12, 11, 15, 1,
     13, 6, 4, 9, 8, 15, 3, 0, 11, 1, 2, 12, 5, 10, 14, 7, 1, 10, 13, 0, 6, 9, 8, 7, 4, 15, 14, 3, 11, 5, 2, 12],
    [7, 13, 14, 3, 0, 6, 9, 10, 1, 2, 8, 5, 11, 12, 4, 15, 13, 8, 11, 5, 6, 15, 0, 3, 4, 7, 2, 12, 1, 10, 14, 9,
     10, 6, 9, 0, 12, 11, 7, 13, 15, 1, 3, 14, 5, 2, 8, 4, 3, 15, 0, 6, 10, 1, 13, 8, 9, 4, 5, 11, 12, 7, 2, 14],
    [2, 12, 4, 1, 7, 10, 11, 6, 8, 5, 3, 15, 13, 0, 14, 9, 14, 11, 2, 12, 4, 7, 13, 1, 5, 0, 15, 10, 3, 9, 8, 6,
     4, 2, 1, 11, 10, 13, 7, 8, 15, 9, 12, 5, 6, 3, 0, 14, 11, 8, 12, 7, 1, 14, 2, 13, 6, 15, 0, 9, 10, 4, 5, 3],
    [12, 1, 10, 15, 9, 2, 6, 8, 0, 13, 3, 4, 14, 7, 5, 11, 10, 15, 4, 2, 7, 12, 9, 5, 6, 1, 13, 14, 0, 11, 3, 8,
     9, 14, 15, 5, 2, 8, 12, 3, 7, 0, 4, 10, 1, 13, 11, 6, 4, 3, 2, 12, 9, 5, 15, 10, 11, 14, 1, 7, 6, 0, 8, 13],
    [4, 11, 2, 14, 15, 0, 8, 13, 3, 12, 9, 7, 5, 10, 6, 1, 13, 0, 11, 7, 4, 9, 1, 10, 14, 3, 5, 12, 2, 15, 8, 6,
     1, 4, 11, 13, 12, 3, 7, 14, 10, 15, 6, 8, 0, 5, 9, 2, 6, 11, 13, 8, 1, 4, 10, 7, 9, 5, 0, 15, 14, 2, 3, 12],
    [13, 2, 8, 4, 6, 15, 11, 1, 10, 9, 3, 14, 5, 0, 12, 7, 1, 15, 13, 8, 10, 3, 7, 4, 12, 5, 6, 11, 0, 14, 9, 2,
     7, 11, 4, 1, 9, 12, 14, 2, 0, 6, 10, 13, 15, 3, 5, 8, 2, 1, 14, 7, 4, 10, 8, 13, 15, 12, 9, 0, 3, 5, 6, 11],
]


def _perm(x, width, table):
    """bit 1 of the standard = most significant bit of a `width`-bit word"""
    r = 0
    for t in table:
        r = (r << 1) | ((x >> (width - t)) & 1)
    return r


@functools.lru_cache(maxsize=4096)
def _subkeys(key64):
    """K1..K16 (memoised: the simulated tags recompute the same session keys over and over)"""
    cd = _perm(key64, 64, PC1)
    c, d = cd >> 28, cd & 0xFFFFFFF
    out = []
    for s in SHIFTS:
        c = ((c << s) | (c >> (28 - s))) & 0xFFFFFFF
        d = ((d << s) | (d >> (28 - s))) & 0xFFFFFFF
        out.append(_perm((c << 28) | d, 56, PC2))
    return tuple(out)


def _f(r, k):
    x = _perm(r, 32, E) ^ k
    o = 0
    for i in range(8):
        six = (x >> (42 - 6 * i)) & 0x3F
        row = ((six >> 4) & 2) | (six & 1)
        col = (six >> 1) & 0xF
        o = (o << 4) | SBOX[i][row * 16 + col]
    return _perm(o, 32, P)


def _crypt(block64, keys):
    x = _perm(block64, 64, IP)
    l, r = x >> 32, x & 0xFFFFFFFF
    for k in keys:
        l, r = r, l ^ _f(r, k)
    return _perm((r << 32) | l, 64, FP)


def des_enc(key64, block64):
    return _crypt(block64, _subkeys(key64))


def des_dec(key64, block64):
    return _crypt(block64, _subkeys(key64)[::-1])


@functools.lru_cache(maxsize=65536)
def tdes2_enc(k1, k2, block64):
    """two-key triple DES, EDE"""
    return des_enc(k1, des_dec(k2, des_enc(k1, block64)))


def tdes2_dec(k1, k2, block64):
    return des_dec(k1, des_enc(k2, des_dec(k1, block64)))


# ---- FeliCa Lite / Lite-S message authentication (user manual sections "MAC generation")
def le(b):
    return int.from_bytes(bytes(b), "little")


def session_key(ck_block, rc_block):
    """CK block (CK1 | CK2) and RC block (RC1 | RC2) as stored on the tag -> (SK1, SK2) as words"""
    ck1, ck2 = le(ck_block[0:8]), le(ck_block[8:16])
    rc1, rc2 = le(rc_block[0:8]), le(rc_block[8:16])
    sk1 = tdes2_enc(ck1, ck2, rc1)
    sk2 = tdes2_enc(ck1, ck2, rc2 ^ sk1)
    return sk1, sk2


def lite_mac(ck_block, rc_block, data):
    """MAC of a read: chain over the 8-byte halves of the block data, start value RC1, key SK1,SK2,SK1"""
    sk1, sk2 = session_key(ck_block, rc_block)
    x = le(rc_block[0:8])
    for i in range(0, len(data), 8):
        x = tdes2_enc(sk1, sk2, x ^ le(data[i:i + 8]))
    return x.to_bytes(8, "little")


def lite_s_mac_a_write(ck_block, rc_block, wcnt3, block_number, data16):
    """MAC_A of a write: first word WCNT[0..2],00,block,00,91,00; key SK2,SK1,SK2; start value RC1"""
    sk1, sk2 = session_key(ck_block, rc_block)
    x = le(rc_block[0:8])
    head = bytes(wcnt3[0:3]) + bytes([0, block_number, 0, 0x91, 0])
    for word in (le(head), le(data16[0:8]), le(data16[8:16])):
        x = tdes2_enc(sk2, sk1, x ^ word)
    return x.to_bytes(8, "little")
