"""Plain-memory Type 1 / Type 2 tag simulators behind a fake clf, plus the
layout generator shared by the checks C01, C02, C03 (Type 1/2 part).

A simulator is the `clf` object handed to nfc.tag.activate(): it answers
exchange()/sense().  It stores what is written and returns what is stored
(no one-way lock bits).  Every state-changing command is recorded in
`writes` as (byte address, data bytes).  `arm(k)` makes the tag leave the
field right after the k-th state-changing command counted from the call
(k = 0: before the next one): from then on every command times out.
"""
import nfc
import nfc.clf
import nfc.tag


class Gone(Exception):
    pass


class T2Sim(object):
    """NFC Forum Type 2 Tag: READ (16 byte, roll-over to page 0 at the end of
    memory), WRITE (4 byte page), SECTOR SELECT (1 KiB sectors)."""
    UNIT = 4

    def __init__(self, mem, sdd=b"\x01\x02\x03\x04\x05\x06\x07"):
        assert len(mem) % 4 == 0
        self.mem = bytearray(mem)
        self.writes = []          # (byte address, 4 bytes)
        self.cut = None
        self.dead = False
        self.sector = 0
        self.pending_sector = False
        self.ncmd = 0
        self.sdd = bytes(sdd)
        self.lose_at = None
        self.lose_left = 0

    def lose(self, k, attempts=3):
        """the state-changing command that would be number k (0-based, counted from now) is lost:
        it and its retransmissions (`attempts` in all) time out and nothing is stored; the tag
        stays in the field"""
        self.writes = []
        self.lose_at, self.lose_left = k, attempts

    def _lost(self):
        if self.lose_at is not None and len(self.writes) == self.lose_at:
            self.lose_left -= 1
            if self.lose_left <= 0:
                self.lose_at = None
            return True
        return False

    def target(self):
        return nfc.clf.RemoteTarget("106A", sens_res=bytearray(b"\x44\x00"), sel_res=bytearray(b"\x00"),
                                    sdd_res=bytearray(self.sdd))

    def arm(self, k):
        self.cut = k
        self.writes = []

    def _alive(self):
        if self.cut is not None and len(self.writes) >= self.cut:
            self.dead = True
        if self.dead:
            raise nfc.clf.TimeoutError("tag left the field")

    def sense(self, *targets, **kw):
        if self.dead or (self.cut is not None and len(self.writes) >= self.cut):
            return None
        self.sector = 0
        return targets[0] if targets else self.target()

    def exchange(self, data, timeout):
        self._alive()
        self.ncmd += 1
        data = bytes(data)
        if self.pending_sector:
            # SECTOR SELECT packet 2: passive ACK = no response within 1 ms
            self.pending_sector = False
            if len(data) == 4 and data[0] * 1024 < len(self.mem):
                self.sector = data[0]
                raise nfc.clf.TimeoutError("passive ack")
            return bytearray([0x00])
        if data[0] == 0x30 and len(data) == 2:
            a = self.sector * 1024 + data[1] * 4
            if a >= len(self.mem) or data[1] * 4 >= 1024:
                return bytearray([0x00])    # NAK
            d = self.mem[a:a + 16]
            if len(d) < 16:
                d = d + self.mem[0:16 - len(d)]
            return bytearray(d)
        if data[0] == 0xA2 and len(data) == 6:
            a = self.sector * 1024 + data[1] * 4
            if a >= len(self.mem):
                return bytearray([0x00])
            if self._lost():
                raise nfc.clf.TimeoutError("command lost")
            self.mem[a:a + 4] = data[2:6]
            self.writes.append((a, bytes(data[2:6])))
            return bytearray([0x0A])
        if data[0] == 0xC2 and len(data) == 2:
            if len(self.mem) > 1024:
                self.pending_sector = True
                return bytearray([0x0A])
            return bytearray([0x00])
        raise nfc.clf.TimeoutError("unsupported command")


class T1Sim(object):
    """NFC Forum Type 1 Tag (Topaz): RALL, READ, WRITE-E/NE, RSEG, READ8,
    WRITE-E8/NE8.  Static memory: 120 byte + block 15 when len(mem) >= 128."""

    def __init__(self, hr, mem, uid=b"\x01\x02\x03\x04"):
        assert len(mem) >= 120 and len(mem) % 8 == 0
        self.hr = bytes(hr)
        self.mem = bytearray(mem)
        self.writes = []
        self.cut = None
        self.dead = False
        self.ncmd = 0
        self.uid = bytes(uid)
        self.lose_at = None
        self.lose_left = 0

    lose = T2Sim.lose
    _lost = T2Sim._lost

    @property
    def UNIT(self):
        return 8 if (self.hr[0] >> 4 == 1 and self.hr[0] & 15 != 1) else 1

    def target(self):
        return nfc.clf.RemoteTarget("106A", sens_res=bytearray(b"\x00\x0C"),
                                    rid_res=bytearray(self.hr + self.uid))

    def arm(self, k):
        self.cut = k
        self.writes = []

    def _alive(self):
        if self.cut is not None and len(self.writes) >= self.cut:
            self.dead = True
        if self.dead:
            raise nfc.clf.TimeoutError("tag left the field")

    def sense(self, *targets, **kw):
        return None if self.dead else (targets[0] if targets else self.target())

    def _w(self, addr, data, erase):
        if self._lost():
            raise nfc.clf.TimeoutError("command lost")
        if not erase:
            data = bytes(a | b for a, b in zip(self.mem[addr:addr + len(data)], data))
        self.mem[addr:addr + len(data)] = data
        self.writes.append((addr, bytes(data)))

    def exchange(self, data, timeout):
        self._alive()
        self.ncmd += 1
        data = bytes(data)
        c = data[0]
        if c == 0x00 and len(data) == 7:
            return bytearray(self.hr + bytes(self.mem[0:120]))
        if c == 0x01 and len(data) == 7:
            if data[1] >= min(128, len(self.mem)):
                raise nfc.clf.TimeoutError
            return bytearray([data[1], self.mem[data[1]]])
        if c in (0x53, 0x1A) and len(data) == 7:
            if data[1] >= min(128, len(self.mem)):
                raise nfc.clf.TimeoutError
            self._w(data[1], data[2:3], c == 0x53)
            return bytearray([data[1], self.mem[data[1]]])
        if c == 0x10 and len(data) == 14:
            g = data[1] >> 4
            if g * 128 >= len(self.mem) or len(self.mem) < 128:
                raise nfc.clf.TimeoutError
            return bytearray([data[1]]) + self.mem[g * 128:(g + 1) * 128]
        if c == 0x02 and len(data) == 14:
            b = data[1]
            if b * 8 >= len(self.mem):
                raise nfc.clf.TimeoutError
            return bytearray([b]) + self.mem[b * 8:b * 8 + 8]
        if c in (0x54, 0x1B) and len(data) == 14:
            b = data[1]
            if b * 8 >= len(self.mem):
                raise nfc.clf.TimeoutError
            self._w(b * 8, data[2:10], c == 0x54)
            return bytearray([b]) + self.mem[b * 8:b * 8 + 8]
        raise nfc.clf.TimeoutError("unsupported command")


def activate(sim):
    """fresh nfc.tag activation on the simulator's current memory"""
    sim.cut = None
    sim.dead = False
    if isinstance(sim, T2Sim):
        sim.sector = 0
        sim.pending_sector = False
    return nfc.tag.activate(sim, sim.target())


def clone(sim, mem=None):
    if isinstance(sim, T2Sim):
        return T2Sim(sim.mem if mem is None else mem, sim.sdd)
    return T1Sim(sim.hr, sim.mem if mem is None else mem, sim.uid)


# ------------------------------------------------------------------ layouts
def ctl_tlv(kind, start, size, bits=None):
    """lock (1) / memory (2) control TLV reserving `size` bytes from `start`;
    None if the position cannot be expressed.  A lock control TLV counts lock
    BITS: `bits` (any value with ceil(bits/8) == size) defaults to size*8."""
    for bpp in range(0, 16):
        pa, bo = start >> bpp, start & ((1 << bpp) - 1)
        if pa <= 15 and bo <= 15:
            n = (size * 8 if bits is None else bits) if kind == 1 else size
            if not 1 <= n <= 256 or (kind == 1 and (n + 7) // 8 != size):
                return None
            return bytes([kind, 3, pa << 4 | bo, n & 255, bpp])
    return None


def lock_bits(rng, size):
    """a lock bit count that needs `size` lock bytes; mostly NOT a multiple of 8"""
    return size * 8 - (rng.randrange(1, 8) if rng.random() < 0.7 else 0)


def put_ndef(mem, off, skip, data, end):
    """store an NDEF TLV with `data` at `off` the way a correct writer would;
    returns False if it does not fit"""
    hdr = [3, len(data)] if len(data) < 255 else [3, 0xFF, len(data) >> 8, len(data) & 255]
    for i, b in enumerate(hdr):
        if off + i in skip or off + i >= end:
            return False
    a = off + len(hdr)
    img = bytearray(mem)
    img[off:a] = bytes(hdr)
    for b in data:
        while a in skip:
            a += 1
        if a >= end:
            return False
        img[a] = b
        a += 1
    while a in skip:
        a += 1
    if a < end:
        img[a] = 0xFE
    mem[:] = img
    return True


def gen_layout(rng, kind, big=False):
    """random well-formed layout. kind: 't2' | 't1s' (static Topaz, byte writes)
    | 't1d' (dynamic, 8-byte block writes).
    returns dict(kind, sim-args, mem, off, skip(set), end, descr)"""
    if kind == "t2":
        units = rng.choice([6, 6, 12, 18, 32, 40, 62] + ([110, 127, 128, 200, 255] if big else [62]))
        end = 16 + units * 8
        extra = rng.choice([0, 0, 4, 8, 12, 16, 20, 32])
        phys = end + extra
        if rng.random() < 0.7:
            phys += (-phys) % 16  # otherwise the last 16-byte READ rolls over to page 0 (as real tags do)
        mem = bytearray(rng.randrange(256) for _ in range(phys))
        mem[12:16] = bytes([0xE1, 0x10, units, 0x00])
        o = 16
        skip = set()
    else:
        if kind == "t1s":
            end, phys, hr = 120, 120, b"\x11\x48"
        else:
            blocks = rng.choice([15, 32, 64, 64, 64] + ([128, 256] if big else []))
            end = blocks * 8
            phys = max(128, end + (-end) % 128)
            hr = b"\x12\x4C"
        mem = bytearray(rng.randrange(256) for _ in range(phys))
        mem[0:8] = b"\x01\x02\x03\x04\x05\x06\x07\x00"
        mem[8:12] = bytes([0xE1, 0x10, end // 8 - 1, 0x00])
        o = 12
        skip = set(range(104, 120 if end == 120 else 128))
    start0 = o
    nctl = rng.choice([0, 0, 1, 1, 2, 3])
    if kind == "t1s":
        nctl = rng.choice([0, 0, 0, 1])
    nulls = rng.randrange(0, 8)
    if rng.random() < 0.08 and end - start0 - 5 * nctl < 200:
        # NDEF TLV in the last bytes of the data area
        nulls = max(0, end - rng.choice([2, 2, 3, 4, 6]) - start0 - 5 * nctl)
    o_pred = start0 + 5 * nctl + nulls
    places = []
    for _ in range(nctl):
        for attempt in range(20):
            k = rng.choice([1, 2])
            where = rng.choice(["inside", "inside", "near", "hdr", "after", "beyond", "before"])
            size = rng.randrange(1, 13)
            if where == "inside":
                start = rng.randrange(min(start0 + 24, end - 1), max(start0 + 25, end - 4))
            elif where == "near":
                start = rng.randrange(o_pred + 4, o_pred + 24)
            elif where == "hdr":
                # directly behind the 1-byte length field (legal while the message is short)
                start, size = o_pred + rng.choice([2, 2, 3]), rng.randrange(1, 4)
            elif where == "after":
                start = end - rng.randrange(0, 6)
            elif where == "beyond":
                start = end + rng.randrange(0, 40)
            else:
                start = rng.randrange(0, start0)
            t = ctl_tlv(k, start, size, lock_bits(rng, size) if k == 1 else None)
            if t is not None:
                places.append((k, start, size, t))
                break
        else:
            places.append((2, 0, 1, ctl_tlv(2, 0, 1)))
    for k, start, size, t in places:
        mem[o:o + 5] = t
        o += 5
        skip |= set(range(start, start + size))
    for _ in range(nulls):
        if o < len(mem):
            mem[o] = 0
        o += 1
    while o in skip:
        o += 1
    # well-formedness: nothing reserved on the TLV structure up to the NDEF TLV's tag and
    # (1-byte) length field; hdr3: also the two extra bytes of the 3-byte length format are free
    hdr_free = all(a not in skip for a in range(start0, o + 2))
    hdr3 = hdr_free and all(a not in skip for a in (o + 2, o + 3)) and o + 4 <= end
    ok = hdr_free and o + 2 <= end
    d = dict(kind=kind, mem=mem, off=o, skip=skip, end=end, ok=ok, hdr3=hdr3, nctl=len(places))
    if kind != "t2":
        d["hr"] = hr
    return d


def gen_boundary_layout(rng, kind, target_free):
    """well-formed layout with exactly `target_free` non-reserved bytes from the NDEF TLV
    to the end of the data area (capacity / length-format thresholds); kind 't2' | 't1d'"""
    for attempt in range(200):
        nctl = rng.choice([0, 1, 1, 2])
        if kind == "t2":
            units = (target_free + 5 * nctl + 40) // 8 + rng.randrange(0, 3)
            if units > 255:
                continue
            end = 16 + units * 8
            phys = end + rng.choice([0, 4, 8, 16])
            mem = bytearray(rng.randrange(256) for _ in range(phys))
            mem[12:16] = bytes([0xE1, 0x10, units, 0x00])
            o, skip = 16, set()
        else:
            blocks = max(16, (target_free + 5 * nctl + 64) // 8 + rng.randrange(0, 3))
            if blocks > 256:
                continue
            end = blocks * 8
            phys = max(128, end + (-end) % 128)
            mem = bytearray(rng.randrange(256) for _ in range(phys))
            mem[0:8] = b"\x01\x02\x03\x04\x05\x06\x07\x00"
            mem[8:12] = bytes([0xE1, 0x10, blocks - 1, 0x00])
            o, skip = 12, set(range(104, 128))
        start0 = o
        ok = True
        for _ in range(nctl):
            k = rng.choice([1, 1, 2])
            size = rng.randrange(1, 9)
            where = rng.choice(["inside", "inside", "after", "beyond"])
            start = (rng.randrange(start0 + 60, end - 8) if where == "inside" and end - 8 > start0 + 60 else
                     end - rng.randrange(0, 6) if where == "after" else end + rng.randrange(0, 30))
            t = ctl_tlv(k, start, size, lock_bits(rng, size) if k == 1 else None)
            if t is None:
                ok = False
                break
            mem[o:o + 5] = t
            o += 5
            skip |= set(range(start, start + size))
        if not ok:
            continue
        # NULL TLV padding chosen so that the free byte count hits the target
        for nulls in range(0, 80):
            oo = o + nulls
            if any(a in skip for a in range(start0, oo + 2)) or oo + 2 > end:
                break
            if len([a for a in range(oo, end) if a not in skip]) == target_free:
                for a in range(o, oo):
                    mem[a] = 0
                hdr3 = oo + 4 <= end and oo + 2 not in skip and oo + 3 not in skip
                d = dict(kind=kind, mem=mem, off=oo, skip=skip, end=end, ok=True, hdr3=hdr3, nctl=nctl)
                if kind != "t2":
                    d["hr"] = b"\x12\x4C"
                return d
    raise RuntimeError("boundary layout generator exhausted for %s/%d" % (kind, target_free))


def f1_present():
    """does this tree still have the empty-message defect F1 (UnboundLocalError)?"""
    mem = bytearray(64)
    mem[12:19] = bytes([0xE1, 0x10, 6, 0, 3, 0, 0xFE])
    sim = T2Sim(mem)
    nd = activate(sim).ndef
    try:
        nd.octets = b""
        return False
    except UnboundLocalError:
        return True


def make_sim(lay, mem=None):
    m = lay["mem"] if mem is None else mem
    if lay["kind"] == "t2":
        return T2Sim(m, lay.get("sdd", b"\x01\x02\x03\x04\x05\x06\x07"))
    return T1Sim(lay["hr"], m)
