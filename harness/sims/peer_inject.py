"""Byte injectors for property C07: the remote peer is replaced by a script of raw
octet strings that is fed to the REAL nfcpy code at every protocol position where
the peer speaks.  Nothing here can block: every wait is replaced (virtual clock,
scripted exchange, conditions whose untimed wait() raises `Hang`).

positions
  dep_decode            Initiator/Target.decode_frame on one frame (106A / 212F framing)
  dep_initiator         Initiator.activate (passive, ATR_RES [+ PSL_RES] frames from the script,
                        or active: sense() hands back the ATR_RES octets) -> exchange -> deactivate
  dep_target            Target.activate (ATR_REQ + first DEP_REQ as delivered by listen())
                        -> exchange()* -> deactivate, optionally send_timeout_extension
  llc_activate          LogicalLinkController.activate with the general bytes of the peer
  t3_command            Type3TagEmulation.process_command
  snep_server / handover_server / snep_client   the real serve loops on a scripted socket
"""
import collections
import errno
import logging

import nfc
import nfc.clf
import nfc.dep
import nfc.llcp
import nfc.llcp.llc
import nfc.llcp.pdu
import nfc.llcp.tco

from common import exc_name, hx

logging.disable(logging.CRITICAL)


class FormatProbe(logging.Handler):
    """Logging as an application with debug logging would have it: every record the code emits is
    formatted (`record.getMessage()`, i.e. `msg % args` with str()/repr() of PDUs, sockets, targets).
    A formatting failure is recorded, not raised (logging.StreamHandler reports it on stderr)."""

    def __init__(self):
        logging.Handler.__init__(self, level=1)
        self.errors = []
        self.records = 0

    def emit(self, record):
        self.records += 1
        try:
            record.getMessage()
        except Exception as e:  # noqa
            self.errors.append((exc_name(e), "%s:%d" % (record.pathname.split("/nfc/")[-1], record.lineno), str(record.msg)[:60]))

    def take(self):
        e, self.errors = self.errors, []
        return e


PROBE = FormatProbe()


def enable_logging():
    """all nfc loggers at the lowest level, records formatted by PROBE, nothing printed"""
    logging.disable(logging.NOTSET)
    lg = logging.getLogger("nfc")
    lg.setLevel(1)
    lg.propagate = False
    if PROBE not in lg.handlers:
        lg.addHandler(PROBE)
    return PROBE


def disable_logging():
    logging.disable(logging.CRITICAL)


class Hang(BaseException):
    """the code under test entered a wait that nobody can end"""


class Budget(BaseException):
    """the code under test did not stop exchanging frames (a loop without bound)"""


class VClock(object):
    """virtual time: every look at the clock costs 5 ms, sleep() advances"""

    def __init__(self):
        self.t = 1000.0
        self.looks = 0

    def time(self):
        self.looks += 1
        if self.looks > 200000:
            raise Budget("clock polled without end")
        self.t += 0.005
        return self.t

    def sleep(self, d):
        self.t += max(0, d)


def patch_clock():
    c = VClock()
    nfc.dep.time = c
    nfc.llcp.llc.time = c
    nfc.clf.time = c
    return c


def outcome(fn, show=None):
    try:
        r = fn()
    except (Hang, Budget) as e:     # the code under test does not come to an end on its own
        return "exc " + type(e).__name__
    except Exception as e:  # noqa
        return "exc " + exc_name(e)
    if r is None:
        return "ok none"
    if show:
        return "ok " + show(r)
    if isinstance(r, (bytes, bytearray)):
        return "ok " + hx(r)
    return "ok " + str(r)


# ------------------------------------------------------------------ NFC-DEP
class _Tgt(object):
    def __init__(self, brty):
        self.brty = brty
        self.atr_res = None
        self.sel_res = bytearray(b"\x40")
        self.sens_res = bytearray(b"\x01\x01")
        self.sensf_res = bytearray(b"\x01\x01\xFE" + bytes(15))


class ScriptClf(object):
    """clf double: exchange() hands out the scripted frames.  An item is an octet
    string (delivered), or one of 'T' (TimeoutError), 'X' (TransmissionError),
    'B' (BrokenLinkError).  When the script is exhausted the peer is silent:
    TimeoutError for ever."""

    def __init__(self, script, sense=None, listen=None):
        self.script = collections.deque(script)
        self.sent = []
        self.sense_result = sense
        self.listen_result = listen
        self.calls = 0

    def sense(self, *targets, **options):
        r, self.sense_result = self.sense_result, None
        return r

    def listen(self, target, timeout):
        return self.listen_result

    def exchange(self, data, timeout):
        self.calls += 1
        if self.calls > 5000:
            raise Budget("more than 5000 frames exchanged")
        self.sent.append(None if data is None else bytes(data))
        if not self.script:
            raise nfc.clf.TimeoutError("scripted peer is silent")
        item = self.script.popleft()
        if item == "T":
            raise nfc.clf.TimeoutError("scripted")
        if item == "X":
            raise nfc.clf.TransmissionError("scripted")
        if item == "B":
            raise nfc.clf.BrokenLinkError("scripted")
        return bytearray(item)


def pdu_canon(p, framing_rest=None):
    """canonical text of a decoded dep PDU object (matches Drv/C07 `showDep`)"""
    n = type(p).__name__
    if n in ("DEP_REQ", "DEP_RES"):
        return "dep %d %d %s %s %s" % (p.pfb.fmt, p.pfb.pni, "-" if p.did is None else "%02x" % p.did,
                                         "-" if p.nad is None else "%02x" % p.nad, hx(p.data))
    if n in ("DSL_REQ", "DSL_RES"):
        return "dsl %s" % ("-" if p.did is None else "%02x" % p.did)
    if n in ("RLS_REQ", "RLS_RES"):
        return "rls %s" % ("-" if p.did is None else "%02x" % p.did)
    if n in ("ATR_REQ", "ATR_RES"):
        extra = [p.to] if n == "ATR_RES" else []
        return "atr %s %s %s" % (hx(p.nfcid3), hx(bytes([p.did, p.bs, p.br] + extra + [p.pp])), hx(p.gb))
    if n == "PSL_REQ":
        return "psl %s" % hx(bytes([p.did, p.brs, p.fsl]))
    if n == "PSL_RES":
        return "psl %s" % hx(bytes([p.did]))
    return "?" + n


def dep_decode(req, brty, frame):
    """decode_frame of the Target (req=True) or Initiator (req=False)"""
    side = nfc.dep.Target(None) if req else nfc.dep.Initiator(None)
    side.target = _Tgt(brty)
    return outcome(lambda: side.decode_frame(bytearray(frame)), pdu_canon)


def dep_initiator(brty, script, did=None, nad=None, brs=0, active_atr=None, payloads=(b"\x00\x00",), release=True):
    """run activate -> exchange(payloads...) -> deactivate against the scripted peer.
    returns (list of step outcomes, clf)"""
    patch_clock()
    steps = []
    if active_atr is not None:
        t = _Tgt(brty)
        t.atr_res = bytearray(active_atr)
        clf = ScriptClf(script, sense=t)
        ini = nfc.dep.Initiator(clf)
        opts = dict(acm=True)
        tg = None
    else:
        clf = ScriptClf(script)
        ini = nfc.dep.Initiator(clf)
        tg = _Tgt(brty)
        opts = dict(acm=False)
    if did is not None:
        opts["did"] = did
    if nad is not None:
        opts["nad"] = nad
    r = outcome(lambda: ini.activate(tg, brs=brs, gbi=b"Ffm\x01\x01\x11", **opts))
    steps.append(("activate", r))
    if r.startswith("ok") and r != "ok none":
        for p in payloads:
            r = outcome(lambda: ini.exchange(p, 1.0))
            steps.append(("exchange", r))
            if not r.startswith("ok"):
                break
        steps.append(("deactivate", outcome(lambda: ini.deactivate(release))))
    return steps, clf


def dep_target(brty, atr_req, first, script, payloads=(b"\x00\x00",), rtox=None):
    """Target.activate with what listen() delivers (ATR_REQ, first DEP_REQ), then
    exchange(None), exchange(payload).., deactivate"""
    patch_clock()
    lt = nfc.clf.LocalTarget(brty, atr_req=bytearray(atr_req), dep_req=bytearray(first))
    if brty == "106A":
        lt.sens_res = bytearray(b"\x01\x01")
    else:
        lt.sensf_res = bytearray(b"\x01\x01\xFE" + bytes(15))
    clf = ScriptClf(script, listen=lt)
    tgt = nfc.dep.Target(clf)
    steps = []
    r = outcome(lambda: tgt.activate(1.0, gbt=b"Ffm\x01\x01\x11"))
    steps.append(("activate", r))
    if r.startswith("ok") and r != "ok none":
        r = outcome(lambda: tgt.exchange(None, 1.0))
        steps.append(("exchange", r))
        if r.startswith("ok") and r != "ok none":
            if rtox is not None:
                r = outcome(lambda: tgt.send_timeout_extension(rtox))
                steps.append(("rtox", r))
            for p in payloads:
                if not (r.startswith("ok") and r != "ok none"):
                    break
                r = outcome(lambda: tgt.exchange(p, 1.0))
                steps.append(("exchange", r))
        steps.append(("deactivate", outcome(lambda: tgt.deactivate())))
    return steps, clf


# ------------------------------------------------------------------ LLCP activation (general bytes)
class _MacI(nfc.dep.Initiator):
    def __init__(self, gb):
        nfc.dep.Initiator.__init__(self, None)
        self._gb = gb
        self.rwt = 0.01

    def activate(self, target=None, **options):
        return None if self._gb is None else bytearray(self._gb)


class _MacT(nfc.dep.Target):
    def __init__(self, gb):
        nfc.dep.Target.__init__(self, None)
        self._gb = gb
        self.rwt = 0.01

    def activate(self, timeout=None, **options):
        return None if self._gb is None else bytearray(self._gb)


def llc_activate(initiator, gb):
    """LogicalLinkController.activate() with the peer's general bytes -> outcome text
    'ok <True|False> ver=.. miu=.. lto=.. wks=.. lsc=.. dpc=..'"""
    llc = nfc.llcp.llc.LogicalLinkController(miu=248, sec=False)
    mac = (_MacI if initiator else _MacT)(gb)

    def show(r):
        if not r:
            return "False"
        c = llc.cfg
        v = c["rcvd-ver"]
        return "True ver=%d miu=%d lto=%d wks=%d lsc=%d dpc=%d" % (v[0] * 16 + v[1], c["send-miu"], c["recv-lto"],
                                                                  c["send-wks"], c["send-lsc"], c["llcp-dpc"])
    try:
        r = llc.activate(mac)
    except Exception as e:  # noqa
        return "exc " + exc_name(e), llc
    return "ok " + show(r), llc


# ------------------------------------------------------------------ emulated Type 3 Tag
def t3_command(link, cmd):
    """process_command on the emulation of an EmuLink (sims.t34_sims) -> outcome text of Drv `t3.raw`"""
    before = bytes(link.store)
    del link.calls[:]
    try:
        rsp = link.emu.process_command(bytearray(cmd))
    except Exception as e:  # noqa
        return "exc " + exc_name(e), before == bytes(link.store)
    return "ok %s store=%s calls=%s" % ("none" if rsp is None else hx(rsp), hx(link.store), ",".join(link.calls) or "-"), True


# ------------------------------------------------------------------ SNEP / handover on a scripted socket
class ScriptSocket(object):
    """what `_serve`/`serve`/the client functions need from an `nfc.llcp.Socket`: the peer's
    fragments are scripted; after the last one the peer has closed the connection
    (poll -> False, recv -> None).  Nothing blocks."""

    def __init__(self, fragments, send_miu=128):
        self.inbox = collections.deque(bytes(f) for f in fragments)
        self.send_miu = send_miu
        self.sent = []
        self.closed = False
        self.ops = 0

    def _tick(self):
        self.ops += 1
        if self.ops > 20000:
            raise Budget("socket used 20000 times")

    def getpeername(self):
        return 32

    def getsockname(self):
        return 4

    def getsockopt(self, option):
        if option == nfc.llcp.SO_SNDMIU:
            return self.send_miu
        return 128

    def setsockopt(self, option, value):
        return value

    def connect(self, name):
        pass

    def poll(self, event, timeout=None):
        self._tick()
        if self.closed:
            raise nfc.llcp.Error(errno.ESHUTDOWN)
        return bool(self.inbox)

    def recv(self):
        self._tick()
        if self.closed:
            raise nfc.llcp.Error(errno.ESHUTDOWN)
        return self.inbox.popleft() if self.inbox else None

    def send(self, data, flags=0):
        self._tick()
        if not isinstance(data, (bytes, bytearray)):
            raise TypeError("message data must be a bytes-like object")
        if self.closed:
            raise nfc.llcp.Error(errno.ESHUTDOWN)
        if len(data) > self.send_miu:
            raise nfc.llcp.Error(errno.EMSGSIZE)
        self.sent.append(bytes(data))
        return True

    def close(self):
        self.closed = True


class _NoLLC(object):
    """SnepServer/HandoverServer constructors only create and bind a listen socket"""

    def socket(self, t):
        return object()

    def setsockopt(self, s, o, v):
        return v

    def getsockopt(self, s, o):
        return 128

    def bind(self, s, a=None):
        pass

    def listen(self, s, b):
        pass

    def getsockname(self, s):
        return 4

    def close(self, s):
        pass


def snep_server(fragments, send_miu=128, max_len=1024):
    import nfc.snep
    srv = nfc.snep.SnepServer(_NoLLC(), max_acceptable_length=max_len)
    sock = ScriptSocket(fragments, send_miu)
    r = outcome(lambda: srv._serve(sock))
    return r, sock


def handover_server(fragments, send_miu=128):
    import nfc.handover
    srv = nfc.handover.HandoverServer(_NoLLC())
    sock = ScriptSocket(fragments, send_miu)
    r = outcome(lambda: srv.serve(sock))
    return r, sock


def snep_client(fragments, op="get", send_miu=128, acceptable=1024, octets=b"\xd0\x00\x00"):
    """SnepClient.get_octets / put_octets with an already connected scripted socket"""
    import nfc.snep
    cl = nfc.snep.SnepClient(None, acceptable)
    sock = ScriptSocket(fragments, send_miu)
    cl.socket, cl.send_miu = sock, send_miu
    if op == "get":
        r = outcome(lambda: cl.get_octets(octets, 0.1))
    else:
        r = outcome(lambda: cl.put_octets(octets, 0.1))
    return r, sock


# ------------------------------------------------------------------ Type 3 Tag emulation with any set of services
class GenEmu(object):
    """A real ``Type3TagEmulation`` whose services come from a table [(service code, mode)] - the
    Python twin of ``PeerT3.storeSvc``: 'rw' blocks of the store, 'ro' readable only (write callback
    returns False), 'even' only even block numbers exist, 'deflt' = add_service(code, None, None).
    ``sensf_res`` may be short: IDm/PMm/system code are the slices the constructor takes."""

    def __init__(self, store, table, sensf_res):
        import nfc.tag.tt3
        self.store = bytearray(store)
        self.calls = []
        self.table = list(table)
        tgt = nfc.clf.LocalTarget("212F", sensf_res=bytearray(sensf_res), tt3_cmd=bytearray(b"\x00\x12\xFC\x00\x00"))
        self.emu = nfc.tag.tt3.Type3TagEmulation(self, tgt)
        for code, mode in table:
            if mode == "deflt":
                self.emu.add_service(code, None, None)
            else:
                self.emu.add_service(code, self._reader(mode), self._writer(mode))

    def ids(self):
        return "%s/%s/%s" % (hx(self.emu.idm), hx(self.emu.pmm), hx(self.emu.sys))

    def tabtext(self):
        return ",".join("%d:%s" % cm for cm in self.table) or "-"

    def _reader(self, mode):
        def read(block_number, rb, re):
            self.calls.append("r%d:%d:%d" % (block_number, rb, re))
            if mode == "even" and block_number % 2:
                return None
            if block_number < len(self.store) / 16:
                return self.store[block_number * 16:(block_number + 1) * 16]
        return read

    def _writer(self, mode):
        def write(block_number, block_data, wb, we):
            self.calls.append("w%d:%d:%d" % (block_number, wb, we))
            if mode == "ro" or (mode == "even" and block_number % 2):
                return False
            if block_number < len(self.store) / 16:
                self.store[block_number * 16:(block_number + 1) * 16] = block_data
                return True
        return write

    def command(self, cmd):
        """-> outcome text of Drv `t3g` (callback log omitted when a default-callback service is present)"""
        del self.calls[:]
        try:
            rsp = self.emu.process_command(bytearray(cmd))
        except Exception as e:  # noqa
            return "exc " + exc_name(e)
        if rsp is not None and not isinstance(rsp, (bytes, bytearray)):
            return "bad-return %r" % (rsp,)
        return "ok %s store=%s calls=%s" % ("none" if rsp is None else hx(rsp), hx(self.store), ",".join(self.calls) or "-")


# ------------------------------------------------------------------ SNEP server with the application side recorded
class _NdefProxy(object):
    """stands in for the `ndef` module inside nfc.snep.server during a correspondence run: the real
    decoder/encoder do the work, what they did with each information field is written into `table`
    ('<g|p>:<octets>' -> D | V | E | c<code> | d<octets>), the input the Lean model needs for `App`"""

    def __init__(self, table):
        import ndef
        self._ndef = ndef
        self.table = table
        self.cur = b""
        self.DecodeError = ndef.DecodeError
        self.EncodeError = ndef.EncodeError

    def _both(self, v):
        self.table["g:" + hx(self.cur)] = v
        self.table["p:" + hx(self.cur)] = v

    def message_decoder(self, octets, *args, **kwargs):
        self.cur = bytes(octets)
        try:
            recs = list(self._ndef.message_decoder(octets, *args, **kwargs))
        except self._ndef.DecodeError:
            self._both("D")
            raise
        except ValueError:
            self._both("V")
            raise
        return iter(recs)

    def message_encoder(self, records):
        try:
            out = b"".join(self._ndef.message_encoder(records))
        except self._ndef.EncodeError:
            self.table["g:" + hx(self.cur)] = "E"
            raise
        self.table["g:" + hx(self.cur)] = "d" + hx(out)
        return [out]


def _tie_server(mode, max_len, table):
    import ndef
    import nfc.snep
    import nfc.snep.server as S
    proxy = _NdefProxy(table)

    class Srv(nfc.snep.SnepServer):
        def process_get_request(self, records):
            if mode == "enc":
                table["g:" + hx(proxy.cur)] = "E"
                raise ndef.EncodeError("resource not available")
            if mode == "echo" and records:
                return list(records)
            r = nfc.snep.SnepServer.process_get_request(self, records)
            table["g:" + hx(proxy.cur)] = "c%d" % r
            return r

        def process_put_request(self, records):
            if mode == "enc":
                table["p:" + hx(proxy.cur)] = "V"
                raise ValueError("application does not like the message")
            r = nfc.snep.SnepServer.process_put_request(self, records)
            table["p:" + hx(proxy.cur)] = "c%d" % r
            return r
    return Srv(_NoLLC(), max_acceptable_length=max_len), proxy, S


def table_text(table):
    return ",".join("%s=%s" % kv for kv in sorted(table.items())) or "-"


def snep_request_tie(data, mode="default"):
    """process_snep_request(bytearray(data)) -> (outcome text, table text)"""
    table = {}
    srv, proxy, S = _tie_server(mode, 0x100000, table)
    orig = S.ndef
    S.ndef = proxy
    try:
        r = outcome(lambda: srv.process_snep_request(bytearray(data)))
    finally:
        S.ndef = orig
    return r, table_text(table)


def snep_serve_tie(fragments, send_miu=128, max_len=1024, mode="default"):
    """_serve on a scripted socket -> (outcome text 'ok <sent,..>' | 'exc <Name>', table text, socket)"""
    table = {}
    srv, proxy, S = _tie_server(mode, max_len, table)
    sock = ScriptSocket(fragments, send_miu)
    orig = S.ndef
    S.ndef = proxy
    try:
        r = outcome(lambda: srv._serve(sock))
    finally:
        S.ndef = orig
    if r == "ok none":
        r = "ok " + (",".join(hx(m) for m in sock.sent) or "none")
    return r, table_text(table), sock


def snep_client_tie(fragments, op="get", acceptable=1024, send_miu=128):
    """get_octets / put_octets on a connected scripted socket -> outcome text of Drv `snepcli`"""
    import nfc.snep
    cl = nfc.snep.SnepClient(None, acceptable)
    sock = ScriptSocket(fragments, send_miu)
    cl.socket, cl.send_miu = sock, send_miu
    try:
        r = cl.get_octets(b"\xd0\x00\x00", 0.1) if op == "get" else cl.put_octets(b"\xd0\x00\x00", 0.1)
    except nfc.snep.SnepError as e:
        return "ok snep %d" % e.errno, sock
    except (Hang, Budget) as e:
        return "exc " + type(e).__name__, sock
    except Exception as e:  # noqa
        return "exc " + exc_name(e), sock
    if r is None:
        return "ok none", sock
    if r is True:
        return "ok true", sock
    if r is False:
        return "ok false", sock
    if isinstance(r, (bytes, bytearray)):
        return "ok data " + hx(r), sock
    return "bad-return %r" % (r,), sock


def handover_client(fragments, timeout=None, send_miu=128):
    """HandoverClient.recv_records on a connected scripted socket"""
    import nfc.handover
    cl = nfc.handover.HandoverClient(None)
    sock = ScriptSocket(fragments, send_miu)
    cl.socket = sock
    return outcome(lambda: cl.recv_records(timeout), show=lambda r: "records %d" % len(r)), sock
