import NfcVerif.Model.AdvOps
open NfcVerif NfcVerif.Adv

def MOD : Nat := 1000000007

def cmdHash (cmds : List Bytes) : Nat :=
  cmds.foldl (fun h c => c.foldl (fun h b => (h * 257 + b) % MOD) ((h * 257 + 256) % MOD)) 7

def parseScript (s : String) : Option (Array (Option Bytes)) :=
  if s = "." then some #[] else
  (s.splitOn ",").foldl (fun acc x =>
    match acc with
    | none => none
    | some a => if x = "~" then some (a.push none) else (parseHex x).map (fun b => a.push (some b))) (some #[])

def scriptTag (a : Array (Option Bytes)) : Tag := fun n => (a[n]?).join

def showNdef : Option Ndef → String
  | none => "none"
  | some d =>
    let o := if d.octets.length ≤ 40 then toHex d.octets else s!"#{cmdHash [d.octets]}"
    s!"len={d.length} cap={d.cap} r={if d.readable then 1 else 0} w={if d.writeable then 1 else 0} oct={o}"

def parseOps (s : String) : Option (List Op) :=
  s.toList.foldr (fun c acc =>
    match acc with
    | none => none
    | some l =>
      if c = 'n' then some (Op.ndef :: l) else if c = 'h' then some (Op.changed :: l)
      else if c = 'p' then some (Op.present :: l) else none) (some [])

/-- results oldest first, one word per operation -/
def showRes : List Op → List Res → List String
  | op :: ops, r :: rs =>
    (match op, r with
     | .ndef, .ndef d => "n=" ++ showNdef d
     | .changed, .ndef d => "h=" ++ showNdef d
     | .changed, .skip => "h=-"
     | .present, .present b => if b then "p=1" else "p=0"
     | _, _ => "?") :: showRes ops rs
  | _, _ => []

structure Out where
  canon : String
  w : W
  fuelOut : Bool := false

def runCase (t : Tag) (g : Target) (maxSend maxRecv F : Nat) (sticky : Bool) (fx : IsoDepR.Fix) (ops : List Op) : Out :=
  match session t g maxSend maxRecv fx F sticky ops with
  | (.error e, w) => ⟨"exc " ++ e.name, w, e == .outOfFuel⟩
  | (.ok none, w) => ⟨"none", w, false⟩
  | (.ok (some (cls, rs)), w) => ⟨" ".intercalate (s!"tag {cls}" :: showRes ops rs), w, false⟩

def handle (line : String) : String :=
  match line.splitOn " " with
  | ["run", tech, sens, sel, sdd, rid, sensb, sensf, ms, mr, budget, flags, ops, script] =>
    match tech.toNat?, parseHex sens, parseHex sel, parseHex sdd, parseHex rid, parseHex sensb, parseHex sensf,
          ms.toNat?, mr.toNat?, budget.toNat?, parseScript script, parseOps ops with
    | some tech, some sens, some sel, some sdd, some rid, some sensb, some sensf, some ms, some mr, some budget, some sc,
      some ops =>
      let g : Target := ⟨tech, sens, sel, sdd, rid, sensb, sensf⟩
      let has (c : Char) : Bool := flags.toList.contains c
      let o := runCase (scriptTag sc) g ms mr (budget + 1000) (has 's') ⟨has 'w', has 'a', has 'c'⟩ ops
      if o.fuelOut ∨ o.w.n > budget then "loop"
      else s!"{o.canon} n={o.w.n} h={cmdHash o.w.log.reverse}"
    | _, _, _, _, _, _, _, _, _, _, _, _ => "bad-op"
  | _ => "bad-op"

def main : IO Unit := runDriver handle
