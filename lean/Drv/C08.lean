import NfcVerif.Model.AdvT34
open NfcVerif NfcVerif.Adv

def MOD : Nat := 1000000007

def cmdHash (cmds : List Bytes) : Nat :=
  cmds.foldl (fun h c => c.foldl (fun h b => (h * 257 + b) % MOD) ((h * 257 + 256) % MOD)) 7

def parseScript (s : String) : Option (Array (Option Bytes)) :=
  if s = "." then some #[] else
  (s.splitOn ",").foldl (fun acc x =>
    match acc with
    | none => none
    | some a => if x = "~" then some (a.push none) else (parseHex x).map (fun b => a.push (some b))) (some #[])

def scriptTag (a : Array (Option Bytes)) : Tag := fun n => (a[n]?).join

def showNdef : Option Ndef → String
  | none => "none"
  | some d =>
    let o := if d.octets.length ≤ 40 then toHex d.octets else s!"#{cmdHash [d.octets]}"
    s!"len={d.length} cap={d.cap} r={if d.readable then 1 else 0} w={if d.writeable then 1 else 0} oct={o}"

structure Out where
  canon : String
  w : W
  fuelOut : Bool := false

def excOut (e : Exc) (w : W) : Out := ⟨"exc " ++ e.name, w, e == .outOfFuel⟩

/-- `tag.ndef`, then `ndef.has_changed` when an NDEF object exists -/
def twice {σ} (cls : String) (read1 : Unit → Py (Option Ndef) × σ) (read2 : σ → Py (Option Ndef) × σ)
    (wOf : σ → W) : Out :=
  match read1 () with
  | (.error e, s) => excOut e (wOf s)
  | (.ok none, s) => ⟨s!"tag {cls} first=none second=-", wOf s, false⟩
  | (.ok (some d), s) =>
    match read2 s with
    | (.error e, s') => excOut e (wOf s')
    | (.ok r, s') => ⟨s!"tag {cls} first={showNdef (some d)} second={showNdef r}", wOf s', false⟩

def runCase (t : Tag) (g : Target) (maxSend maxRecv F : Nat) (sticky : Bool) : Out :=
  match activate t maxSend maxRecv g W.init with
  | (.error e, w) => excOut e w
  | (.ok none, w) => ⟨"none", w, false⟩
  | (.ok (some (.t1 cls uid)), w) =>
    twice cls (fun _ => readNdef1 t uid w) (fun s => readNdef1 t uid s.w) (·.w)
  | (.ok (some (.t2 cls)), w) =>
    twice cls (fun _ => readNdef2 t w 0 true) (fun s => readNdef2 t s.w s.sector s.alive) (·.w)
  | (.ok (some (.t3 cls idm pmm sys)), w) =>
    twice cls (fun _ => readNdef3 t { w := w, idm := idm, pmm := pmm, sys := sys }) (fun s => readNdef3 t s) (·.w)
  | (.ok (some (.t4 cls pcd)), w) =>
    let X := isoX t F sticky
    let s0 : S4 := { world := toWorld w, pcd := pcd, errno := none }
    match readNdef4 X none s0 with
    | (s, .error e) => excOut e (ofWorld s.world)
    | (s, .ok none) => ⟨s!"tag {cls} first=none second=-", ofWorld s.world, false⟩
    | (s, .ok (some (d, i))) =>
      match readNdef4 X (some i) s with
      | (s', .error e) => excOut e (ofWorld s'.world)
      | (s', .ok r) => ⟨s!"tag {cls} first={showNdef (some d)} second={showNdef (r.map (·.1))}", ofWorld s'.world, false⟩

def handle (line : String) : String :=
  match line.splitOn " " with
  | ["run", tech, sens, sel, sdd, rid, sensb, sensf, ms, mr, budget, sticky, script] =>
    match tech.toNat?, parseHex sens, parseHex sel, parseHex sdd, parseHex rid, parseHex sensb, parseHex sensf,
          ms.toNat?, mr.toNat?, budget.toNat?, parseScript script with
    | some tech, some sens, some sel, some sdd, some rid, some sensb, some sensf, some ms, some mr, some budget, some sc =>
      let g : Target := ⟨tech, sens, sel, sdd, rid, sensb, sensf⟩
      let o := runCase (scriptTag sc) g ms mr (budget + 1000) (sticky == "1")
      if o.fuelOut ∨ o.w.n > budget then "loop"
      else s!"{o.canon} n={o.w.n} h={cmdHash o.w.log.reverse}"
    | _, _, _, _, _, _, _, _, _, _, _ => "bad-op"
  | _ => "bad-op"

def main : IO Unit := runDriver handle
