import NfcVerif.Model.T3
import NfcVerif.Model.T4
import NfcVerif.Model.T3Emu
import NfcVerif.Model.T3Format
/-!
Line-protocol driver of the Type 3 / Type 4 tag models (parts `t34` of C01, C02, C03).

  t3.see <mem>                     -> ok <seen> | exc <Name>
  t3.set <mem> <data>              -> none | <res> cmds=<blk>+<n>:<hex>,.. mem=<hex>   | exc <Name>
  t4.see <nl><sa> <cc> <file> <fid> <mle> <mlc>
  t4.set <nl><sa> <cc> <file> <fid> <mle> <mlc> <data>  -> none | <res> cmds=<off>:<hex>,.. mem=<hex>
(<nl><sa>: three characters 0/1, the repairs present in the tree: NLEN loop, short APDU limits, capacity
 within the 16 bit offset)
  t3.format <repaired 0|1> <mem> <limR> <limW> <version|none> <wipe|none>
                                   -> <ok true|ok false|exc Name> cmds=<b.b.b>:<hex>,.. mem=<hex>
  t3e.enc r|w <idm> <service code> <b1,b2,..|-> <data>   -> ok <frame> | exc <Name>
  t3e.raw <F23 repaired 0|1> <idm+pmm+sys> <store> <cmd>  -> ok <rsp|none> store=<hex> calls=<r|w><bn>:<begin>:<end>,.. | exc <Name>
-/
open NfcVerif NfcVerif.T34

def showRes : Py Unit → String
  | .ok _ => "ok"
  | .error e => "exc " ++ e.name

def joinC (l : List String) : String := if l.isEmpty then "-" else ",".intercalate l

def t3Trace (t : T3.Trace) : String :=
  showRes t.res ++ " cmds=" ++ joinC (t.sent.map fun c => s!"{c.blk}+{c.n}:{toHex c.data}") ++ " mem=" ++ toHex t.mem

def t4Trace (t : T4.Trace) : String :=
  showRes t.res ++ " cmds=" ++ joinC (t.sent.map fun c => s!"{c.off}:{toHex c.data}") ++ " mem=" ++ toHex t.file

def optNat (s : String) : Option (Option Nat) := if s = "none" then some none else s.toNat?.map some

def t3Format (rep : Bool) (m : Bytes) (lr lw : Nat) (v w : Option Nat) : String :=
  let t := T3.format rep ⟨m, lr, lw⟩ v w
  (match t.res with | .ok b => (if b then "ok true" else "ok false") | .error e => "exc " ++ e.name)
    ++ " cmds=" ++ joinC (t.sent.map fun c => ".".intercalate (c.blocks.map toString) ++ ":" ++ toHex c.data)
    ++ " mem=" ++ toHex t.mem

def parseVar (s : String) : Option T4.Variant :=
  match s.toList with
  | [a, b, c] => some ⟨a = '1', b = '1', c = '1'⟩
  | _ => none

def card (cc file fid mle mlc : String) : Option T4.Card :=
  match parseHex cc, parseHex file, parseHex fid, mle.toNat?, mlc.toNat? with
  | some cc, some f, some fid, some e, some c => some ⟨cc, f, fid, e, c⟩
  | _, _, _, _, _ => none

def parseNats (s : String) : Option (List Nat) :=
  if s = "-" then some [] else (s.splitOn ",").mapM String.toNat?

def showCall (c : T3Emu.Call) : String :=
  s!"{if c.w then "w" else "r"}{c.bn}:{if c.b then 1 else 0}:{if c.e then 1 else 0}"

def emuRaw (f23 : Bool) (ids store cmd : Bytes) : String :=
  let e : T3Emu.Emu := ⟨ids.take 8, (ids.drop 8).take 8, ids.drop 16, store⟩
  match T3Emu.processCommandR f23 e cmd with
  | .error x => "exc " ++ x.name
  | .ok (r, st, log) =>
    "ok " ++ (match r with | none => "none" | some b => toHex b) ++ " store=" ++ toHex st
      ++ " calls=" ++ joinC (log.map showCall)

def handle (line : String) : String :=
  match line.splitOn " " with
  | ["t3.see", m] => match parseHex m with
    | some m => showPy showSeen (T3.see m) | _ => "bad-op"
  | ["t3.set", m, d] => match parseHex m, parseHex d with
    | some m, some d => (match T3.setOctets m d with
      | .error e => "exc " ++ e.name
      | .ok none => "none"
      | .ok (some t) => t3Trace t)
    | _, _ => "bad-op"
  | ["t3.format", r, m, lr, lw, v, w] => match parseHex m, lr.toNat?, lw.toNat?, optNat v, optNat w with
    | some m, some lr, some lw, some v, some w => t3Format (r = "1") m lr lw v w
    | _, _, _, _, _ => "bad-op"
  | ["t4.see", v, cc, f, fid, e, c] => match parseVar v, card cc f fid e c with
    | some v, some cd => showPy showSeen (T4.see v cd) | _, _ => "bad-op"
  | ["t4.set", v, cc, f, fid, e, c, d] => match parseVar v, card cc f fid e c, parseHex d with
    | some v, some cd, some d => (match T4.setOctets v cd d with
      | .error e => "exc " ++ e.name
      | .ok none => "none"
      | .ok (some t) => t4Trace t)
    | _, _, _ => "bad-op"
  | ["t3e.enc", k, idm, sc, bl, d] => match parseHex idm, sc.toNat?, parseNats bl, parseHex d with
    | some idm, some sc, some bl, some d =>
      showPy toHex (if k = "w" then T3Emu.encWrite idm sc bl d else T3Emu.encRead idm sc bl)
    | _, _, _, _ => "bad-op"
  | ["t3e.raw", f, ids, st, cmd] => match parseHex ids, parseHex st, parseHex cmd with
    | some ids, some st, some cmd => emuRaw (f = "1") ids st cmd
    | _, _, _ => "bad-op"
  | _ => "bad-op"

def main : IO Unit := runDriver handle
