import NfcVerif.Model.CtlC03
import NfcVerif.Model.SessC03
import NfcVerif.Model.SectC03
open NfcVerif NfcVerif.Tlv

/-! line-protocol driver for the C03 additions: control TLV ranges, vendor format, protect -/

def cfgOf3 (k : String) : Option Cfg :=
  if k = "t2" then some t2Cfg else if k = "t1s" then some (t1Cfg 1) else if k = "t1d" then some (t1Cfg 8) else none

def insRange3 (r : Nat × Nat) : List (Nat × Nat) → List (Nat × Nat)
  | [] => [r]
  | x :: xs => if r.1 ≤ x.1 then r :: x :: xs else x :: insRange3 r xs

def mergeRanges3 : List (Nat × Nat) → List (Nat × Nat)
  | [] => []
  | [x] => [x]
  | x :: y :: rest => if y.1 ≤ x.2 then mergeRanges3 ((x.1, max x.2 y.2) :: rest) else x :: mergeRanges3 (y :: rest)
termination_by l => l.length

def canonSkip3 (s : Skip) : String :=
  let rs := mergeRanges3 ((s.filter fun r => r.1 < r.2).foldr insRange3 [])
  if rs.isEmpty then "-" else ",".intercalate (rs.map fun r => s!"{r.1}-{r.2}")

def showCmds3 (cs : List Cmd) : String :=
  if cs.isEmpty then "-" else ",".intercalate (cs.map fun c => s!"{c.1}:{toHex c.2}")

def showBool : Py Bool → String
  | .ok true => "true"
  | .ok false => "false"
  | .error e => "exc " ++ e.name

def showLayout (r : Py (Option Layout)) : String :=
  match r with
  | .error e => "exc " ++ e.name
  | .ok none => "none"
  | .ok (some L) =>
    s!"L {L.off} {L.cap} {if L.readable then 1 else 0} {if L.writeable then 1 else 0} {L.areaEnd} {canonSkip3 L.skip} {toHex L.ndef}"

def showRead3 (c : Cfg) (m : Bytes) : String :=
  if c.t1 then showLayout (readNdef c m) else showLayout (readNdefT2 m)

/-- the 256 ranges of one (type, d0, d2): size field 0 .. 255 -/
def doCtl (limit : Nat) (lock : Bool) (d0 d2 : Nat) : String :=
  ",".intercalate ((List.range 256).map fun d1 =>
    match ctlRange lock limit [d0, d1, d2] with
    | .ok rg => s!"{rg.1}-{rg.2}"
    | .error e => "exc " ++ e.name)

def doFormatT1V (k : String) (m : Bytes) (wipe version : Option Nat) : String :=
  let r := if k = "t1s" then formatTopazV m version wipe else formatTopaz512V m version wipe
  let c := if k = "t1s" then t1Cfg 1 else t1Cfg 8
  match r with
  | .error e => "exc " ++ e.name
  | .ok none => s!"false | - | {showRead3 c m}"
  | .ok (some m') =>
    let cmds := diffUnits c.unit m m'
    s!"true | {showCmds3 cmds} | {showRead3 c (apply m cmds)}"

def showOp (o : OpOut) (tail : String) : String :=
  s!"{showBool o.res} | {showCmds3 o.cmds} | {tail}"

def optNat (i : Int) : Option Nat := if i < 0 then none else some i.toNat

def klassOf (k : String) : Option Klass :=
  if k = "t2" then some .t2 else if k = "t1" then some .t1 else if k = "topaz" then some .topaz
  else if k = "topaz512" then some .topaz512 else none

/-- `r` | `w<hex>` | `f<version>:<wipe>` (-1 = None) | `p` -/
def parseOp (t : String) : Option Op :=
  if t = "r" then some .read
  else if t = "p" then some .protect
  else if t.startsWith "w" then (parseHex (t.drop 1).toString).map Op.write
  else if t.startsWith "f" then
    match ((t.drop 1).toString).splitOn ":" with
    | [v, w] => match v.toInt?, w.toInt? with
      | some v, some w => some (.format (optNat v) (optNat w))
      | _, _ => none
    | _ => none
  else none

def doSeq (k : Klass) (m : Bytes) (ops : List Op) : String :=
  let r := run k true ⟨m, none⟩ ops
  let steps := r.1.map fun o => s!"{showBool o.res} {showCmds3 o.cmds}"
  " ; ".intercalate steps ++ " | " ++ showRead3 k.cfg r.2.tag


/-! ## `sect`: histories on a multi-sector Type 2 Tag with a fault per exchange (Model/SectC03) -/
namespace SectDrv
open NfcVerif.SectC03

def rerrOf : Char → Option RErr
  | 't' => some .timeout | 'x' => some .transmission | 'p' => some .protocol | 'n' => some .nak | _ => none

def airOf (t : String) : Option Air :=
  match t.toList with
  | ['o'] => some .ok
  | ['d'] => some .drop
  | ['c', e] => (rerrOf e).map Air.corrupt
  | ['l', e] => (rerrOf e).map Air.lost
  | _ => none

def scriptOf (s : String) : Option (List Air) :=
  if s = "-" then some [] else (s.splitOn ",").mapM airOf

def opOf (t : String) : Option SectC03.Op :=
  match t.toList with
  | ['y'] => some SectC03.Op.sync
  | 'g' :: r => (String.ofList r).toNat?.map SectC03.Op.get
  | 'S' :: r => (String.ofList r).toNat?.map SectC03.Op.sel
  | 'R' :: r => (String.ofList r).toNat?.map SectC03.Op.rd
  | 's' :: r => match (String.ofList r).splitOn ":" with
    | [a, v] => match a.toNat?, v.toNat? with
      | some a, some v => some (SectC03.Op.set a v) | _, _ => none
    | _ => none
  | 'W' :: r => match (String.ofList r).splitOn ":" with
    | [p, d] => match p.toNat?, parseHex d with
      | some p, some d => some (SectC03.Op.wr p d) | _, _ => none
    | _ => none
  | _ => none

def showRes : SectC03.Res → String
  | .unit => "ok"
  | .nat n => s!"ok {n}"
  | .bytes b => "ok " ++ toHex b
  | .exc e => "exc " ++ e.name

def showBel : Option Nat → String
  | some n => toString n
  | none => "-1"

def showEv (e : SectC03.Ev) : String :=
  let k := match e.kind with | .read => "r" | .write => "w" | .select => "s"
  s!"{k}:{e.real}:{showBel e.bel}:{e.page % 256}:{toHex e.data}"

def doSect (m : Bytes) (script : List Air) (ops : List SectC03.Op) : String :=
  let r := SectC03.run (SectC03.fresh m script) ops
  let w := r.1.1
  let tr := w.trace.reverse
  "; ".intercalate (r.2.map showRes) ++ " | " ++ (if tr.isEmpty then "-" else ",".intercalate (tr.map showEv))
    ++ s!" | {w.tag.sector} {showBel w.cur} {if w.tag.pend then 1 else 0} {if w.amb then 1 else 0} {r.1.2.fromTag.length}"
end SectDrv

def handle (line : String) : String :=
  match line.splitOn " " with
  | ["ctl", k, t, d0, d2] => match t.toNat?, d0.toNat?, d2.toNat? with
    | some t, some d0, some d2 => doCtl (if k = "t1" then 0x800 else 0x100000) (t = 1) d0 d2
    | _, _, _ => "bad-op"
  | ["hyp", k, mh] => match cfgOf3 k, parseHex mh with
    | some c, some m => (match readNdef c m with
      | .ok (some L) => if chainOk c m L.areaEnd then "1" else "0"
      | _ => "0")
    | _, _ => "bad-op"
  | ["ft1v", k, mh, w, v] => match parseHex mh, w.toInt?, v.toInt? with
    | some m, some w, some v => doFormatT1V k m (optNat w) (optNat v) | _, _, _ => "bad-op"
  | ["nf", fh, mh, w] => match parseHex fh, parseHex mh, w.toInt? with
    | some f, some m, some w =>
      let o := if f.isEmpty then formatT2Out m (optNat w) else formatNxp f m (optNat w)
      showOp o (showRead3 t2Cfg (apply m o.cmds))
    | _, _, _ => "bad-op"
  | ["seq", k, mh, ops] => match klassOf k, parseHex mh, (ops.splitOn ",").mapM parseOp with
    | some k, some m, some ops => doSeq k m ops
    | _, _, _ => "bad-op"
  | ["sect", mh, sc, ops] => match parseHex mh, SectDrv.scriptOf sc, (ops.splitOn ",").mapM SectDrv.opOf with
    | some m, some sc, some ops => SectDrv.doSect m sc ops
    | _, _, _ => "bad-op"
  | ["pt2", mh] => match parseHex mh with
    | some m => let o := protectT2 m; showOp o (toHex (apply m o.cmds))
    | none => "bad-op"
  | ["pnxp", k, p, mh] => match p.toNat?, parseHex mh with
    | some p, some m =>
      let kind := if k = "ulc" then NxpKind.ulc else if k = "n203" then NxpKind.n203 else NxpKind.n21x p
      let o := protectNxp kind m
      showOp o (toHex (nxpApply m o.cmds))
    | _, _ => "bad-op"
  | ["pt1", k, mh] => match parseHex mh with
    | some m =>
      let kind := if k = "topaz" then T1Kind.topaz else if k = "topaz512" then T1Kind.topaz512 else T1Kind.generic
      let o := protectT1 kind (if k = "topaz" then 1 else 8) m
      showOp o (toHex (apply m o.cmds))
    | none => "bad-op"
  | _ => "bad-op"

def main : IO Unit := runDriver handle
