import NfcVerif.Model.Des
import NfcVerif.Model.Auth
import NfcVerif.Model.AuthHist
import NfcVerif.Model.AuthNdef
open NfcVerif NfcVerif.Des NfcVerif.Mac NfcVerif.Auth NfcVerif.AuthCard NfcVerif.AuthHist NfcVerif.AuthNdef

def C3 : Cipher := tdesBytes

def hexes (ws : List String) : Option (List Bytes) := ws.mapM parseHex

def showBool : Py Bool → String := showPy (fun b => if b then "true" else "false")

/-! ## histories: `hist S<0|1> G<0|1: session forgotten when an authentication starts> I<idm> F<rcWritten><extAuth> B<nn>=<16 octets>... <ops>... <rules>...`

ops   `a:<pw>:<rc>` authenticate, `r:<blocks>` read_with_mac, `w:<data>:<block>` write_with_mac,
      `q:<blocks>` read_without_mac, `p:<data>:<block>` write_without_mac,
      `t:<pw|None>:<rp>:<pf>:<rc>` protect, `n` tag.ndef (octets), `h` tag.ndef.has_changed, `f:<wipe|None>` format, `s:<nn>:<16 octets>` block nn of the card is replaced (world event)
rules `x:<c|r>:<exchange>:<^mask | drop | =frame>`
reply `<result>;... | <command>;... | <card state>` -/

structure Script where
  liteS : Bool := false
  forget : Bool := false
  noneOk : Bool := false
  sys12fc : Bool := false
  idm : Bytes := []
  rcWritten : Bool := false
  extAuth : Bool := false
  blocks : List (Nat × Bytes) := []
  ops : List (NOp (Card × Nat)) := []
  rules : List Rule := []

def hexNat (s : String) : Option Nat := (parseHex s).map beNat

def parseOp (fields : List String) : Option (NOp (Card × Nat)) :=
  match fields with
  | ["a", pw, rc] => do some (.auth (← parseHex pw) (← parseHex rc))
  | ["r", bl] => do some (.low (.readMac (← parseHex bl)))
  | ["w", d, b] => do some (.low (.writeMac (← parseHex d) (← hexNat b)))
  | ["q", bl] => do some (.low (.readPlain (← parseHex bl)))
  | ["p", d, b] => do some (.low (.writePlain (← parseHex d) (← hexNat b)))
  | ["n"] => some .ndef
  | ["h"] => some .changed
  | ["f", w] => do
    let w ← if w = "None" then some none else (hexNat w).map some
    some (.format w)
  | ["t", pw, rp, pf, rc] => do
    let pw ← if pw = "None" then some none else (parseHex pw).map some
    some (.protect pw (rp != "0") (← hexNat pf) (← parseHex rc))
  | ["s", n, d] => do
    let n ← hexNat n
    let d ← parseHex d
    some (.low (.world fun w => (w.1.set n d, w.2)))
  | _ => none

def parseRule (fields : List String) : Option Rule :=
  match fields with
  | ["x", dir, i, act] => do
    let n ← i.toNat?
    let a ← if act = "drop" then some Action.drop
      else if act.startsWith "^" then (parseHex (act.drop 1).toString).map Action.xor
      else if act.startsWith "=" then (parseHex (act.drop 1).toString).map Action.replace
      else none
    some ⟨dir = "r", n, a⟩
  | _ => none

def parseScript : List String → Script → Option Script
  | [], sc => some sc
  | tok :: rest, sc =>
    if tok = "S0" then parseScript rest { sc with liteS := false }
    else if tok = "S1" then parseScript rest { sc with liteS := true }
    else if tok = "G0" then parseScript rest { sc with forget := false }
    else if tok = "G1" then parseScript rest { sc with forget := true }
    else if tok = "N0" then parseScript rest { sc with noneOk := false }
    else if tok = "N1" then parseScript rest { sc with noneOk := true }
    else if tok = "Y0" then parseScript rest { sc with sys12fc := false }
    else if tok = "Y1" then parseScript rest { sc with sys12fc := true }
    else if tok.startsWith "I" then
      match parseHex (tok.drop 1).toString with
      | some i => parseScript rest { sc with idm := i }
      | none => none
    else if tok.startsWith "F" then
      parseScript rest { sc with rcWritten := (tok.drop 1).toString.startsWith "1", extAuth := (tok.drop 2).toString.startsWith "1" }
    else if tok.startsWith "B" then
      match (tok.drop 1).toString.splitOn "=" with
      | [n, d] =>
        match hexNat n, parseHex d with
        | some n, some d => parseScript rest { sc with blocks := sc.blocks ++ [(n, d)] }
        | _, _ => none
      | _ => none
    else
      let fields := tok.splitOn ":"
      match parseOp fields, parseRule fields with
      | some op, _ => parseScript rest { sc with ops := sc.ops ++ [op] }
      | none, some r => parseScript rest { sc with rules := sc.rules ++ [r] }
      | none, none => none

def showRes : Py NRes → String
  | .ok (.bool b) => if b then "true" else "false"
  | .ok (.data none) => "none"
  | .ok (.data (some d)) => toHex d
  | .ok (.obool none) => "none"
  | .ok (.obool (some b)) => if b then "true" else "false"
  | .ok .unit => "unit"
  | .error e => "exc:" ++ e.name

def cardDigest (c : Card) : String :=
  let nums := List.range 15 ++ [0x80, 0x82, 0x83, 0x84, 0x85, 0x86, 0x87, 0x88] ++ (if c.liteS then [0x90] else [])
  toHex ([if c.rcWritten then 1 else 0, if c.extAuth then 1 else 0] ++ nums.flatMap c.blk)

def runScript (sc : Script) : String :=
  let card := Card.ofBlocks sc.liteS sc.idm sc.blocks sc.rcWritten sc.extAuth
  let r := nrun C3 sc.forget sc.noneOk (cardAir C3 sc.rules) sc.idm sc.liteS sc.ops
    ⟨⟨Reader.init, (card, 0), []⟩, none, false, sc.sys12fc⟩
  ";".intercalate (r.1.map showRes) ++ " | " ++ ";".intercalate (r.2.st.tr.map fun e => toHex e.1)
    ++ " | " ++ cardDigest r.2.st.w.1 ++ " " ++ (if r.2.st.rd.authed then "1" else "0") ++ " "
    ++ (match r.2.st.rd.sess with | some s => toHex s.sk ++ ":" ++ toHex s.iv | none => "nosess")
    ++ " ndef=" ++ (match r.2.ndef with | some d => toHex d | none => "none")
    ++ " mac=" ++ (if r.2.useMac then "1" else "0")

/-! `cache <op> ...`: the NDEF cache of `Tag`; ops `n:<fetch|none>`, `a:<t|f|e>`, `t:<t|f|e>`, `f:<t|f|e>` -/
def parseCOp (tok : String) : Option TagCache.COp :=
  let out : String → Option (Py Bool) := fun v =>
    if v = "t" then some (.ok true) else if v = "f" then some (.ok false) else if v = "e" then some (.error (.tagCmd 0)) else none
  match tok.splitOn ":" with
  | ["n", f] => if f = "none" then some (.ndef none) else (parseHex f).map fun d => .ndef (some d)
  | ["a", v] => (out v).map .auth
  | ["t", v] => (out v).map .protect
  | ["f", v] => (out v).map .format
  | _ => none

def showCRes (r : TagCache.CRes) : String :=
  (match r.value with
   | .ok none => "none"
   | .ok (some d) => toHex d
   | .error e => "exc:" ++ e.name) ++ (if r.fetched then "/f" else "/c")

def handle (line : String) : String :=
  match line.splitOn " " with
  | "cache" :: toks =>
    match toks.mapM parseCOp with
    | some ops => " ".intercalate ((TagCache.crun ops none).1.map showCRes)
    | none => "bad-op"
  | "hist" :: toks =>
    match parseScript toks {} with
    | some sc => runScript sc
    | none => "bad-op"
  | "card" :: toks =>
    -- one command to the card: `card <script tokens without ops> c:<frame>`
    match toks.getLast?, parseScript toks.dropLast {} with
    | some c, some sc =>
      match parseHex ((c.drop 2).toString) with
      | some cmd =>
        let r := (Card.ofBlocks sc.liteS sc.idm sc.blocks sc.rcWritten sc.extAuth).command C3 cmd
        (match r.1 with | some f => toHex f | none => "none") ++ " " ++ cardDigest r.2
      | none => "bad-op"
    | _, _ => "bad-op"
  | op :: args =>
    match op, args, hexes args with
    | "des.enc", _, some [k, b] => "ok " ++ toHex (desBytes k b)
    | "des.dec", _, some [k, b] => "ok " ++ toHex (desDecBytes k b)
    | "tdes.enc", _, some [k, b] => "ok " ++ toHex (tdesBytes k b)
    | "tdes.dec", _, some [k, b] => "ok " ++ toHex (tdesDecBytes k b)
    | "mac", _, some [d, k, iv, f] => showPy toHex (generateMac C3 d k iv (f != [0]))
    | "sk", _, some [k, rc] => showPy toHex (sessionKey C3 k rc)
    | "lite.cmds", _, some [idm, pw, rc] =>
      showPy (fun (a, b, c) => toHex a ++ " " ++ toHex b ++ " " ++ toHex c)
        (liteProtectKeyCmd idm pw >>= fun p => liteChallengeCmd idm rc >>= fun a =>
          readCmd idm [0x82, 0x81] >>= fun b => .ok (p, a, b))
    | "lite.auth", _, some [idm, pw, rc, r1, r2] =>
      showPy (fun (r : Bool × Option Session) => match r with
          | (true, some s) => "true " ++ toHex s.sk ++ " " ++ toHex s.iv
          | (true, none) => "true"
          | (false, _) => "false")
        (liteAuthenticate C3 idm pw rc r1 r2)
    | "lite.protect", [i, p], _ =>
      match parseHex i, (if p = "None" then some none else (parseHex p).map some) with
      | some idm, some pw =>
        showPy (fun (r : Option Bytes) => match r with | none => "none" | some c => toHex c) (liteProtectKeyWrite idm pw)
      | _, _ => "bad-op"
    | "lite.rwmcmd", _, some [idm, blocks] => showPy toHex (readCmd idm (blocks ++ [0x81]))
    | "lite.rwm", _, some [idm, sk, iv, blocks, rsp] =>
      showPy (fun (r : Option Bytes) => match r with | none => "none" | some d => toHex d)
        (readWithMac C3 idm (if sk = [] then none else some ⟨sk, iv⟩) blocks rsp)
    | "lites.auth", _, some [idm, pw, rc, r1, r2, r3, r4, r5] =>
      showBool (liteSAuthenticate C3 idm pw rc r1 r2 r3 r4 r5)
    | "lites.wwm", _, some [idm, sk, iv, data, block, rspW] =>
      showPy toHex (writeWithMacCmd C3 idm (if sk = [] then none else some ⟨sk, iv⟩) data (beNat block) rspW)
    | "ntag.cmd", _, some [pw] => showPy (fun k => toHex (ntagAuthCmd k)) (ntagKey pw)
    | "ntag.auth", [p, e], _ =>
      match parseHex p with
      | none => "bad-op"
      | some pw =>
        if e.startsWith "E" then
          match (e.drop 1).toString.toInt? with
          | some n => showBool (ntagAuthenticate pw (.error (.tagCmd n)))
          | none => "bad-op"
        else match parseHex e with
          | some r => showBool (ntagAuthenticate pw (.ok r))
          | none => "bad-op"
    | "ntag.protect", _, some [pw, rp, pf, cfg] =>
      showPy (fun ps => " ".intercalate (ps.map toHex)) (ntagProtectPages pw (rp != [0]) (beNat pf) cfg)
    | "ntag.tag", _, some [pwd, pack, cmd] => "ok " ++ toHex (NtagTag.respond ⟨pwd, pack⟩ cmd)
    | "tag.mac", _, some [ck, rc, data] => "ok " ++ toHex (LiteTag.mac C3 ⟨ck, rc, []⟩ (chunks8 data))
    | "tag.maca", _, some [ck, rc, wcnt, block, data] =>
      "ok " ++ toHex (LiteTag.macA C3 ⟨ck, rc, wcnt⟩ (beNat block) data)
    | "tag.frame", _, some [ck, rc, idm, n, data] =>
      "ok " ++ toHex (LiteTag.readFrame C3 ⟨ck, rc, []⟩ idm (beNat n) data)
    | _, _, _ => "bad-op"
  | _ => "bad-op"

def main : IO Unit := runDriver handle
