import NfcVerif.Model.Des
import NfcVerif.Model.Auth
open NfcVerif NfcVerif.Des NfcVerif.Mac NfcVerif.Auth

def C3 : Cipher := tdesBytes

def hexes (ws : List String) : Option (List Bytes) := ws.mapM parseHex

def showBool : Py Bool → String := showPy (fun b => if b then "true" else "false")

def handle (line : String) : String :=
  match line.splitOn " " with
  | op :: args =>
    match op, args, hexes args with
    | "des.enc", _, some [k, b] => "ok " ++ toHex (desBytes k b)
    | "des.dec", _, some [k, b] => "ok " ++ toHex (desDecBytes k b)
    | "tdes.enc", _, some [k, b] => "ok " ++ toHex (tdesBytes k b)
    | "tdes.dec", _, some [k, b] => "ok " ++ toHex (tdesDecBytes k b)
    | "mac", _, some [d, k, iv, f] => showPy toHex (generateMac C3 d k iv (f != [0]))
    | "sk", _, some [k, rc] => showPy toHex (sessionKey C3 k rc)
    | "lite.cmds", _, some [idm, pw, rc] =>
      showPy (fun (a, b, c) => toHex a ++ " " ++ toHex b ++ " " ++ toHex c)
        (liteProtectKeyCmd idm pw >>= fun p => liteChallengeCmd idm rc >>= fun a =>
          readCmd idm [0x82, 0x81] >>= fun b => .ok (p, a, b))
    | "lite.auth", _, some [idm, pw, rc, r1, r2] =>
      showPy (fun (r : Bool × Option Session) => match r with
          | (true, some s) => "true " ++ toHex s.sk ++ " " ++ toHex s.iv
          | (true, none) => "true"
          | (false, _) => "false")
        (liteAuthenticate C3 idm pw rc r1 r2)
    | "lite.protect", [i, p], _ =>
      match parseHex i, (if p = "None" then some none else (parseHex p).map some) with
      | some idm, some pw =>
        showPy (fun (r : Option Bytes) => match r with | none => "none" | some c => toHex c) (liteProtectKeyWrite idm pw)
      | _, _ => "bad-op"
    | "lite.rwmcmd", _, some [idm, blocks] => showPy toHex (readCmd idm (blocks ++ [0x81]))
    | "lite.rwm", _, some [idm, sk, iv, blocks, rsp] =>
      showPy (fun (r : Option Bytes) => match r with | none => "none" | some d => toHex d)
        (readWithMac C3 idm (if sk = [] then none else some ⟨sk, iv⟩) blocks rsp)
    | "lites.auth", _, some [idm, pw, rc, r1, r2, r3, r4, r5] =>
      showBool (liteSAuthenticate C3 idm pw rc r1 r2 r3 r4 r5)
    | "lites.wwm", _, some [idm, sk, iv, data, block, rspW] =>
      showPy toHex (writeWithMacCmd C3 idm (if sk = [] then none else some ⟨sk, iv⟩) data (beNat block) rspW)
    | "ntag.cmd", _, some [pw] => showPy (fun k => toHex (ntagAuthCmd k)) (ntagKey pw)
    | "ntag.auth", [p, e], _ =>
      match parseHex p with
      | none => "bad-op"
      | some pw =>
        if e.startsWith "E" then
          match (e.drop 1).toString.toInt? with
          | some n => showBool (ntagAuthenticate pw (.error (.tagCmd n)))
          | none => "bad-op"
        else match parseHex e with
          | some r => showBool (ntagAuthenticate pw (.ok r))
          | none => "bad-op"
    | "ntag.protect", _, some [pw, rp, pf, cfg] =>
      showPy (fun ps => " ".intercalate (ps.map toHex)) (ntagProtectPages pw (rp != [0]) (beNat pf) cfg)
    | "ntag.tag", _, some [pwd, pack, cmd] => "ok " ++ toHex (NtagTag.respond ⟨pwd, pack⟩ cmd)
    | "tag.mac", _, some [ck, rc, data] => "ok " ++ toHex (LiteTag.mac C3 ⟨ck, rc, []⟩ (chunks8 data))
    | "tag.maca", _, some [ck, rc, wcnt, block, data] =>
      "ok " ++ toHex (LiteTag.macA C3 ⟨ck, rc, wcnt⟩ (beNat block) data)
    | "tag.frame", _, some [ck, rc, idm, n, data] =>
      "ok " ++ toHex (LiteTag.readFrame C3 ⟨ck, rc, []⟩ idm (beNat n) data)
    | _, _, _ => "bad-op"
  | _ => "bad-op"

def main : IO Unit := runDriver handle
