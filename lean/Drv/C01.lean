import NfcVerif.Model.HistC01
import NfcVerif.Model.T3LinkC01
open NfcVerif NfcVerif.Tlv NfcVerif.T34 NfcVerif.Hist

/-!
Line-protocol driver of the C01 models that are not part of the shared drivers `drv_t12` / `drv_t34`:

  h12 <t2|t1s|t1d> <mem> <attempts>   history of assignments through one Type 1 / Type 2 Tag object
  h12r ...                             the same on a tree with the repair of t12-empty-after-unacknowledged-length-write
  h3  <mem> <attempts>                 ... Type 3 Tag object (also the emulated tag: mem = block store)
  h4  <var> <cc> <file> <fid> <mle> <mlc> <attempts>
        -> <res> <cmds> | ... | <what a fresh reader sees>      (none / exc Name when activation finds no NDEF)
     attempts = <hex>:<n | l<k> | e<k>>,...   n: no fault, l<k>: command k not executed, e<k>: executed, answer lost
  lnk.see <idm+pmm+sys> <store>        Type 3 reader model talking to the emulation model frame by frame
  lnk.set <idm+pmm+sys> <store> <data> -> <res> frames=<n> store=<hex> | none | exc Name
-/

def cfgOf (k : String) : Option Cfg :=
  if k = "t2" then some t2Cfg else if k = "t1s" then some (t1Cfg 1) else if k = "t1d" then some (t1Cfg 8) else none

def insRange (r : Nat × Nat) : List (Nat × Nat) → List (Nat × Nat)
  | [] => [r]
  | x :: xs => if r.1 ≤ x.1 then r :: x :: xs else x :: insRange r xs

def mergeRanges : List (Nat × Nat) → List (Nat × Nat)
  | [] => []
  | [x] => [x]
  | x :: y :: rest => if y.1 ≤ x.2 then mergeRanges ((x.1, max x.2 y.2) :: rest) else x :: mergeRanges (y :: rest)
termination_by l => l.length

def canonSkip (s : Skip) : String :=
  let rs := mergeRanges ((s.filter fun r => r.1 < r.2).foldr insRange [])
  if rs.isEmpty then "-" else ",".intercalate (rs.map fun r => s!"{r.1}-{r.2}")

def joinC (l : List String) : String := if l.isEmpty then "-" else ",".intercalate l

def showRes : Py Unit → String
  | .ok _ => "ok"
  | .error (.tagCmd _) => "fail"
  | .error e => "exc " ++ e.name

def showRead (c : Cfg) (m : Bytes) : String :=
  match readBack c m with
  | .error e => "exc " ++ e.name
  | .ok none => "none"
  | .ok (some L) =>
    s!"L {L.off} {L.cap} {if L.readable then 1 else 0} {if L.writeable then 1 else 0} {L.areaEnd} {canonSkip L.skip} {toHex L.ndef}"

def parseFault (s : String) : Option (Option Fault) :=
  if s = "n" then some none
  else match s.toList with
    | 'l' :: r => (String.ofList r).toNat?.map fun k => some ⟨k, false⟩
    | 'e' :: r => (String.ofList r).toNat?.map fun k => some ⟨k, true⟩
    | _ => none

def parseAttempts (s : String) : Option (List (Bytes × Option Fault)) :=
  (s.splitOn ",").mapM fun a =>
    match a.splitOn ":" with
    | [d, f] => match parseHex d, parseFault f with
      | some d, some f => some (d, f)
      | _, _ => none
    | _ => none

def h12 (rep : Bool) (c : Cfg) (m : Bytes) (atts : List (Bytes × Option Fault)) : String :=
  match readNdef c m with
  | .error e => "exc " ++ e.name
  | .ok none => "none"
  | .ok (some L) =>
    let r : Bytes × List (List Cmd × Py Unit) :=
      if rep then (let x := historyR c L (freshR m) atts; (x.1.tag, x.2))
      else (let x := history c L (fresh m) atts; (x.1.tag, x.2))
    " | ".intercalate ((r.2.map fun a => showRes a.2 ++ " " ++ joinC (a.1.map fun x => s!"{x.1}:{toHex x.2}"))
      ++ [showRead c r.1])

def h3 (m : Bytes) (atts : List (Bytes × Option Fault)) : String :=
  match T3.readNdef m with
  | .error e => "exc " ++ e.name
  | .ok none => "none"
  | .ok (some nd) =>
    let r := t3History nd.seen m atts
    " | ".intercalate ((r.2.map fun a => showRes a.2 ++ " " ++ joinC (a.1.map fun c => s!"{c.blk}+{c.n}:{toHex c.data}"))
      ++ [showPy showSeen (T3.see r.1)])

def parseVar (s : String) : Option T4.Variant :=
  match s.toList with
  | [a, b, c] => some ⟨a = '1', b = '1', c = '1'⟩
  | _ => none

def h4 (v : T4.Variant) (cd : T4.Card) (atts : List (Bytes × Option Fault)) : String :=
  match T4.readNdef v cd with
  | .error e => "exc " ++ e.name
  | .ok none => "none"
  | .ok (some nd) =>
    let r := t4History v cd nd cd.file atts
    " | ".intercalate ((r.2.map fun a => showRes a.2 ++ " " ++ joinC (a.1.map fun c => s!"{c.off}:{toHex c.data}"))
      ++ [showPy showSeen (T4.see v { cd with file := r.1 })])

def emuOf (ids store : Bytes) : T3Emu.Emu := ⟨ids.take 8, (ids.drop 8).take 8, ids.drop 16, store⟩

def handle (line : String) : String :=
  match line.splitOn " " with
  | ["h12", k, mh, a] => match cfgOf k, parseHex mh, parseAttempts a with
    | some c, some m, some a => h12 false c m a | _, _, _ => "bad-op"
  | ["h12r", k, mh, a] => match cfgOf k, parseHex mh, parseAttempts a with
    | some c, some m, some a => h12 true c m a | _, _, _ => "bad-op"
  | ["h3", mh, a] => match parseHex mh, parseAttempts a with
    | some m, some a => h3 m a | _, _ => "bad-op"
  | ["h4", v, cc, f, fid, e, c, a] =>
    match parseVar v, parseHex cc, parseHex f, parseHex fid, e.toNat?, c.toNat?, parseAttempts a with
    | some v, some cc, some f, some fid, some e, some c, some a => h4 v ⟨cc, f, fid, e, c⟩ a
    | _, _, _, _, _, _, _ => "bad-op"
  | ["lnk.see", ids, st] => match parseHex ids, parseHex st with
    | some ids, some st => showPy showSeen (T3Link.see (emuOf ids st)) | _, _ => "bad-op"
  | ["lnk.set", ids, st, d] => match parseHex ids, parseHex st, parseHex d with
    | some ids, some st, some d => (match T3Link.setOctets (emuOf ids st) d with
      | .error e => "exc " ++ e.name
      | .ok none => "none"
      | .ok (some t) => showRes t.res ++ s!" frames={t.frames} store=" ++ toHex t.emu.store)
    | _, _, _ => "bad-op"
  | _ => "bad-op"

def main : IO Unit := runDriver handle
