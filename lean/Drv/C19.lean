import NfcVerif.Model.Activate
open NfcVerif NfcVerif.Activate

/-! line protocol of the activation model (property C19)

    act <tech:3 bits> <active 0|1> <given N|0|1|2> <13 tokens side I> <13 tokens side T> <nfcid3 hex> <rnd6 hex>
        side = brs lri lrt rwt acm did nad miu lto lsc agf sec saps   (N = None, saps = a,b,c or -)
    llc <miu> <lto> <lsc> <agf> <sec> <saps> <peer gb hex>
-/

def optInt (s : String) : Option (Option Int) :=
  if s = "N" then some none else s.toInt?.map some

def boolTok (s : String) : Option Bool :=
  if s = "1" then some true else if s = "0" then some false else none

def sapsTok (s : String) : Option (List Nat) :=
  if s = "-" then some [] else (s.splitOn ",").mapM (·.toNat?)

def parseLlc : List String → Option LlcOpts
  | [miu, lto, lsc, agf, sec, saps] => do
    pure ⟨← miu.toInt?, ← lto.toInt?, ← lsc.toInt?, ← boolTok agf, ← boolTok sec, ← sapsTok saps⟩
  | _ => none

def parseSide : List String → Option Side
  | [brs, lri, lrt, rwt, acm, did, nad, miu, lto, lsc, agf, sec, saps] => do
    let d : DepOpts := ⟨← brs.toInt?, ← lri.toInt?, ← lrt.toInt?, ← rwt.toInt?, ← boolTok acm, ← optInt did, ← optInt nad⟩
    let l ← parseLlc [miu, lto, lsc, agf, sec, saps]
    pure ⟨d, l⟩
  | _ => none

def b01 (b : Bool) : String := if b then "1" else "0"
def showOptI : Option Int → String
  | none => "N" | some v => toString v
def showOptN : Option Nat → String
  | none => "N" | some v => toString v

def showLlc : Option LlcHeld → String
  | none => "nolink"
  | some h => s!"{h.recvMiu},{h.sendLto},{b01 h.agf},{b01 h.sec},{h.ver.1}.{h.ver.2},{h.sendMiu},{h.recvLto},{h.sendWks},{h.sendLsc},{h.dpc}"

def showI : Py (Option (IHeld × Option LlcHeld)) → String
  | .error e => "exc:" ++ e.name
  | .ok none => "none"
  | .ok (some (h, l)) =>
    s!"{h.miu},{h.wt},{h.brty},{showOptI h.did},{showOptI h.nad},{b01 h.acm},{h.brs},{h.lri};{showLlc l}"

def showT : Py (Option (THeld × Option LlcHeld)) → String
  | .error e => "exc:" ++ e.name
  | .ok none => "none"
  | .ok (some (h, l)) =>
    s!"{h.miu},{h.wt},{h.brty},{showOptN h.did},{b01 h.acm},{h.lrt};{showLlc l}"

def showWire (w : List (Nat × Bytes)) : String :=
  if w.isEmpty then "-" else ",".intercalate (w.map fun (b, d) => s!"{b}:{toHex d}")

def techTok (s : String) (active : Bool) : Option AirCfg :=
  match s.toList with
  | [a, b, c] => some ⟨a == '1', b == '1', c == '1', active⟩
  | _ => none

def givenTok (s : String) : Option (Option Nat) :=
  if s = "N" then some none else s.toNat?.map some

def handle (line : String) : String :=
  match line.splitOn " " with
  | "act" :: tech :: active :: given :: rest =>
    if rest.length ≠ 28 then "bad-op" else
    match boolTok active with
    | none => "bad-op"
    | some act =>
      match techTok tech act, givenTok given, parseSide (rest.take 13), parseSide ((rest.drop 13).take 13),
            parseHex (rest.getD 26 ""), parseHex (rest.getD 27 "") with
      | some air, some g, some i, some t, some id3, some rnd =>
        let o := activate air g i t id3 rnd
        s!"I={showI o.ini} T={showT o.tgt} W={showWire o.wire}"
      | _, _, _, _, _, _ => "bad-op"
  | ["llc", miu, lto, lsc, agf, sec, saps, gb] =>
    match parseLlc [miu, lto, lsc, agf, sec, saps], parseHex gb with
    | some o, some g =>
      let sent := showPy toHex (encodeGb (sendPax o))
      let link := match llcLink o g with
        | .error e => "exc:" ++ e.name
        | .ok l => showLlc l
      s!"{sent} {link}"
    | _, _ => "bad-op"
  | _ => "bad-op"

def main : IO Unit := runDriver handle
