import NfcVerif.Gen.FnDispatch
/-!
Line-protocol driver for the translator self-test (`harness/translate_fn_selftest.py`):
`<lean function name> <arg> ...` -> `ok <canonical value>` / `exc <Exc.name>`.
-/
open NfcVerif

def main : IO Unit :=
  runDriver fun line =>
    match line.splitOn " " with
    | name :: args => Gen.FnDispatch.run name args
    | [] => "unknown"
