import NfcVerif.Model.Collect
open NfcVerif NfcVerif.Collect

/-! line protocol:
  collect <sendMiu> <icv> <agf 0|1> <entry>|<entry>|...
  entry  := S;<sock>;...;L=<pdus>      (ServiceAccessPoint)   |  D;<nres>;<tid.nl,...>;<pdus>   (ServiceDiscovery)
  sock   := raw=<pdus> | ldl=<pdus> | dlc<e><b><s>.<rw>.<cnt>.<ack>.<confs>=<pdus>      (flags 0/1)
  pdus   := "-" | kind.hdr.len.id,...
reply: `none` | `single <pdu>` | `agf <pdus>` followed by ` # ` and the new state in the same syntax -/

def kindOf : String → Option Kind
  | "ui" => some .ui | "i" => some .i | "rr" => some .rr | "dm" => some .dm
  | "frmr" => some .frmr | "snl" => some .snl | "other" => some .other | _ => none
def kindStr : Kind → String
  | .ui => "ui" | .i => "i" | .rr => "rr" | .dm => "dm" | .frmr => "frmr" | .snl => "snl" | .other => "other"

def parsePdu (s : String) : Option QPdu :=
  match s.splitOn "." with
  | [k, h, l, i] => match kindOf k, h.toNat?, l.toNat?, i.toNat? with
    | some k, some h, some l, some i => some ⟨k, h, l, i⟩
    | _, _, _, _ => none
  | _ => none
def parsePdus (s : String) : Option (List QPdu) :=
  if s = "-" then some [] else (s.splitOn ",").mapM parsePdu
def showPdu (p : QPdu) : String := s!"{kindStr p.kind}.{p.hdr}.{p.len}.{p.id}"
def showPdus (l : List QPdu) : String := if l.isEmpty then "-" else ",".intercalate (l.map showPdu)

def bit (c : Char) : Bool := c = '1'
def bstr (b : Bool) : String := if b then "1" else "0"

def parseSock (s : String) : Option Sock :=
  match s.splitOn "=" with
  | [t, q] => match parsePdus q with
    | none => none
    | some q =>
      if t = "raw" then some (.raw q) else if t = "ldl" then some (.ldl q)
      else match t.splitOn "." with
        | [f, rw, cnt, ack, confs] =>
          match f.toList, rw.toNat?, cnt.toNat?, ack.toNat?, confs.toNat? with
          | ['d', 'l', 'c', e, b, s], some rw, some cnt, some ack, some confs =>
            some (.dlc (bit e) (bit b) (bit s) rw cnt ack confs q)
          | _, _, _, _, _ => none
        | _ => none
  | _ => none
def showSock : Sock → String
  | .raw q => "raw=" ++ showPdus q
  | .ldl q => "ldl=" ++ showPdus q
  | .dlc e b s rw cnt ack confs q =>
    "dlc" ++ bstr e ++ bstr b ++ bstr s ++ s!".{rw}.{cnt}.{ack}.{confs}=" ++ showPdus q

def parseReq (s : String) : Option (List (Nat × Nat)) :=
  if s = "-" then some [] else
  (s.splitOn ",").mapM fun x => match x.splitOn "." with
    | [a, b] => match a.toNat?, b.toNat? with | some a, some b => some (a, b) | _, _ => none
    | _ => none
def showReq (l : List (Nat × Nat)) : String :=
  if l.isEmpty then "-" else ",".intercalate (l.map fun x => s!"{x.1}.{x.2}")

def parseEnt (s : String) : Option Ent :=
  match s.splitOn ";" with
  | "D" :: [n, req, dm] => match n.toNat?, parseReq req, parsePdus dm with
    | some n, some req, some dm => some (.sd ⟨List.replicate n 0, req, dm⟩)
    | _, _, _ => none
  | "S" :: rest =>
    match rest.reverse with
    | l :: socks =>
      match (l.splitOn "="), socks.reverse.mapM parseSock with
      | ["L", q], some socks => match parsePdus q with
        | some q => some (.sap ⟨socks, q⟩)
        | none => none
      | _, _ => none
    | [] => none
  | _ => none
def showEnt : Ent → String
  | .sd s => s!"D;{s.sdres.length};{showReq s.sdreq};{showPdus s.dmpdu}"
  | .sap s => "S;" ++ ";".intercalate (s.socks.map showSock ++ ["L=" ++ showPdus s.sendList])

def showState (es : List Ent) : String := if es.isEmpty then "-" else "|".intercalate (es.map showEnt)

def handle (line : String) : String :=
  match line.splitOn " " with
  | ["collect", m, icv, a, st] =>
    match m.toNat?, icv.toNat?, (if st = "-" then some [] else (st.splitOn "|").mapM parseEnt) with
    | some m, some icv, some es =>
      let r := collect es m icv (a = "1")
      let f := match r.1 with
        | none => "none"
        | some (.single p) => "single " ++ showPdu p
        | some (.agf l) => "agf " ++ showPdus l
      let info := match r.1 with | none => 0 | some f => f.info
      s!"{f} info={info} # {showState r.2}"
    | _, _, _ => "bad-op"
  | _ => "bad-op"

def main : IO Unit := runDriver handle
