import NfcVerif.Model.CollectOps
open NfcVerif NfcVerif.Collect

/-! line protocol:
  run <sendMiu> <sec: "-" | icv_size> <agf 0|1> <state> <op>,<op>,...
  state  := "-" | <entry>|<entry>|...
  entry  := S;<sock>;...;L=<pdus>      (ServiceAccessPoint)   |  D;<sdres v,v,..>;<tid.nl,...>;<pdus>   (ServiceDiscovery)
  sock   := raw=<pdus> | ldl.<sendMiu>=<pdus>
          | dlc.<state 0..6>.<busy><busySent>.<rw>.<cnt>.<ack>.<confs>.<sendMiu>.<sendWin>.<sendCnt>.<sendAck>=<pdus>
  pdus   := "-" | kind.hdr.len.id.icv.lim,...
  op     := collect | sendto:a:j:n:id | send:a:j:n:id | connected:a:j:miu:rw:len:id | accepted:a:j:miu:rw:len:id
          | setrecv:a:j:rw:cnt:ack:confs:busy | setsend:a:j:win:cnt:ack | bindldl:a | binddlc:a:rw | listen:a:j | sdres:a:v | sdreq:a:tid:nl | sddm:a:id | dm:a:id
reply: <outcome>,<outcome>,... # <state>
  outcome := ok | bad | exc:<name> | frame:none | frame:single:<pdu>:info=<n> | frame:agf:<pdu>+<pdu>..:info=<n> -/

def kindOf : String → Option Kind
  | "symm" => some .symm | "pax" => some .pax | "agf" => some .agf | "ui" => some .ui
  | "connect" => some .connect | "disc" => some .disc | "cc" => some .cc | "dm" => some .dm
  | "frmr" => some .frmr | "snl" => some .snl | "dps" => some .dps | "i" => some .i
  | "rr" => some .rr | "rnr" => some .rnr | "other" => some .other | _ => none
def kindStr : Kind → String
  | .symm => "symm" | .pax => "pax" | .agf => "agf" | .ui => "ui" | .connect => "connect" | .disc => "disc"
  | .cc => "cc" | .dm => "dm" | .frmr => "frmr" | .snl => "snl" | .dps => "dps" | .i => "i" | .rr => "rr"
  | .rnr => "rnr" | .other => "other"

def parsePdu (s : String) : Option QPdu :=
  match s.splitOn "." with
  | [k, h, l, i, c, m] => match kindOf k, h.toNat?, l.toNat?, i.toNat?, c.toNat?, m.toNat? with
    | some k, some h, some l, some i, some c, some m => some ⟨k, h, l, i, c, m⟩
    | _, _, _, _, _, _ => none
  | _ => none
def parsePdus (s : String) : Option (List QPdu) :=
  if s = "-" then some [] else (s.splitOn ",").mapM parsePdu
def showPdu (p : QPdu) : String := s!"{kindStr p.kind}.{p.hdr}.{p.len}.{p.id}.{p.icv}.{p.lim}"
def showPdus (l : List QPdu) : String := if l.isEmpty then "-" else ",".intercalate (l.map showPdu)

def bit (c : Char) : Bool := c = '1'
def bstr (b : Bool) : String := if b then "1" else "0"

def stateOf : Nat → Option DlcState
  | 0 => some .shutdown | 1 => some .closed | 2 => some .listen | 3 => some .connect
  | 4 => some .established | 5 => some .disconnect | 6 => some .closeWait | _ => none
def stateNum : DlcState → Nat
  | .shutdown => 0 | .closed => 1 | .listen => 2 | .connect => 3 | .established => 4 | .disconnect => 5
  | .closeWait => 6

def parseSock (s : String) : Option Sock :=
  match s.splitOn "=" with
  | [t, q] => match parsePdus q with
    | none => none
    | some q =>
      if t = "raw" then some (.raw q)
      else match t.splitOn "." with
        | ["ldl", m] => m.toNat?.map fun m => .ldl m q
        | ["dlc", st, f, rw, cnt, ack, confs, sm, sw, sc, sa] =>
          match st.toNat?.bind stateOf, f.toList, [rw, cnt, ack, confs, sm, sw, sc, sa].mapM String.toNat? with
          | some st, [b, s], some [rw, cnt, ack, confs, sm, sw, sc, sa] =>
            some (.dlc ⟨st, bit b, bit s, rw, cnt, ack, confs, sm, sw, sc, sa⟩ q)
          | _, _, _ => none
        | _ => none
  | _ => none
def showSock : Sock → String
  | .raw q => "raw=" ++ showPdus q
  | .ldl m q => s!"ldl.{m}=" ++ showPdus q
  | .dlc d q =>
    s!"dlc.{stateNum d.state}.{bstr d.busy}{bstr d.busySent}.{d.rw}.{d.cnt}.{d.ack}.{d.confs}.{d.sendMiu}.{d.sendWin}.{d.sendCnt}.{d.sendAck}="
      ++ showPdus q

def parseReq (s : String) : Option (List (Nat × Nat)) :=
  if s = "-" then some [] else
  (s.splitOn ",").mapM fun x => match x.splitOn "." with
    | [a, b] => match a.toNat?, b.toNat? with | some a, some b => some (a, b) | _, _ => none
    | _ => none
def showReq (l : List (Nat × Nat)) : String :=
  if l.isEmpty then "-" else ",".intercalate (l.map fun x => s!"{x.1}.{x.2}")
def parseNats (s : String) : Option (List Nat) :=
  if s = "-" then some [] else (s.splitOn ",").mapM String.toNat?
def showNats (l : List Nat) : String := if l.isEmpty then "-" else ",".intercalate (l.map toString)

def parseEnt (s : String) : Option Ent :=
  match s.splitOn ";" with
  | "D" :: [res, req, dm] => match parseNats res, parseReq req, parsePdus dm with
    | some res, some req, some dm => some (.sd ⟨res, req, dm⟩)
    | _, _, _ => none
  | "S" :: rest =>
    match rest.reverse with
    | l :: socks =>
      match (l.splitOn "="), socks.reverse.mapM parseSock with
      | ["L", q], some socks => match parsePdus q with
        | some q => some (.sap ⟨socks, q⟩)
        | none => none
      | _, _ => none
    | [] => none
  | _ => none
def showEnt : Ent → String
  | .sd s => s!"D;{showNats s.sdres};{showReq s.sdreq};{showPdus s.dmpdu}"
  | .sap s => "S;" ++ ";".intercalate (s.socks.map showSock ++ ["L=" ++ showPdus s.sendList])

def showState (es : List Ent) : String := if es.isEmpty then "-" else "|".intercalate (es.map showEnt)

def parseOp (s : String) : Option Op :=
  match s.splitOn ":" with
  | ["collect"] => some .collect
  | name :: args =>
    match name, args.mapM String.toNat? with
    | "sendto", some [a, j, n, id] => some (.sendto a j n id)
    | "send", some [a, j, n, id] => some (.send a j n id)
    | "connected", some [a, j, m, w, l, id] => some (.connected a j m w l id)
    | "accepted", some [a, j, m, w, l, id] => some (.accepted a j m w l id)
    | "setrecv", some [a, j, rw, cnt, ack, confs, busy] => some (.setRecv a j rw cnt ack confs (busy = 1))
    | "setsend", some [a, j, w, c, k] => some (.setSend a j w c k)
    | "bindldl", some [a] => some (.bindLdl a)
    | "binddlc", some [a, rw] => some (.bindDlc a rw)
    | "listen", some [a, j] => some (.listen a j)
    | "sdres", some [a, v] => some (.sdres a v)
    | "sdreq", some [a, t, n] => some (.sdreq a t n)
    | "sddm", some [a, id] => some (.sddm a id)
    | "dm", some [a, id] => some (.dm a id)
    | _, _ => none
  | _ => none

def showOutcome : Outcome → String
  | .ok => "ok"
  | .bad => "bad"
  | .exc e => "exc:" ++ e.name
  | .frame none => "frame:none"
  | .frame (some (.single p)) => s!"frame:single:{showPdu p}:info={(Frame.single p).info}"
  | .frame (some (.agf l)) => "frame:agf:" ++ "+".intercalate (l.map showPdu) ++ s!":info={(Frame.agf l).info}"

def handle (line : String) : String :=
  match line.splitOn " " with
  | ["run", m, sec, a, st, ops] =>
    match m.toNat?, (if sec = "-" then some none else sec.toNat?.map some),
          (if st = "-" then some [] else (st.splitOn "|").mapM parseEnt), (ops.splitOn ",").mapM parseOp with
    | some m, some sec, some es, some ops =>
      let r := run m sec (a = "1") ops es
      ",".intercalate (r.1.map showOutcome) ++ " # " ++ showState r.2
    | _, _, _, _ => "bad-op"
  | _ => "bad-op"

def main : IO Unit := runDriver handle
