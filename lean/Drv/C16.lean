import NfcVerif.Model.Retry
import NfcVerif.Model.RetryObj
open NfcVerif NfcVerif.Retry NfcVerif.RetryObj

def parseAtt (c : Char) : Option Att :=
  match c with
  | 'a' => some .ans
  | 't' => some (.flt .timeout false) | 'T' => some (.flt .timeout true)
  | 'x' => some (.flt .transmission false) | 'X' => some (.flt .transmission true)
  | 'p' => some (.flt .protocol false) | 'P' => some (.flt .protocol true)
  | 'o' => some (.flt .brokenLink false) | 'O' => some (.flt .brokenLink true)
  | 'c' => some (.flt .base false) | 'C' => some (.flt .base true)
  | '0' => some (.short 0) | '1' => some (.short 1) | '2' => some (.short 2) | '3' => some (.short 3)
  | _ => none

def parseScript (s : String) : Option (List Att) :=
  if s = "-" then some [] else s.toList.mapM parseAtt

def parseSenses (s : String) : Option (List Bool) :=
  if s = "-" then some [] else s.toList.mapM fun c => if c = '1' then some true else if c = '0' then some false else none

def attLetter : Att × Bool → String
  | (.ans, m) => if m then "m" else "a"
  | (.flt f r, _) =>
    let l := match f with | .timeout => "t" | .transmission => "x" | .protocol => "p" | .brokenLink => "o" | .base => "c"
    if r then l.toUpper else l
  | (.short k, _) => toString k

def isWriteTok (t : String) : Bool := t.startsWith "w" || t.startsWith "W" || t.startsWith "up"

def parseStep (s : String) : Option Step :=
  match s.splitOn ":" with
  | [tok, a] =>
    let cmd : Cmd := ⟨tok, isWriteTok tok⟩
    if a = "+" then some ⟨cmd, .ok⟩
    else if a = "~" then some ⟨cmd, .mute⟩
    else if a = "n" then some ⟨cmd, .nak⟩
    else if a.startsWith "-" then (a.drop 1).toString.toNat?.map fun n => ⟨cmd, .refuse n⟩
    else if a.startsWith "!" then (a.drop 1).toString.toNat?.map fun n => ⟨cmd, .once n⟩
    else none
  | _ => none

def parsePhases (s : String) : Option Phases :=
  if s = "-" then some [] else
  (s.splitOn ";").mapM fun p => if p = "" then some [] else (p.splitOn ",").mapM parseStep

def parseVal : String → Option Val
  | "none" => some .none | "false" => some .false_ | "true" => some .true_
  | "ndef" => some .ndef | "unit" => some .unit | "list" => some .list | "data" => some .data | _ => none

def showVal : Val → String
  | .none => "none" | .false_ => "false" | .true_ => "true" | .ndef => "ndef" | .unit => "unit" | .list => "list"
  | .data => "data"

def showOutcome : Outcome → String
  | .ok v => "ok " ++ showVal v
  | .exc e => "exc " ++ e.name

def showLog (l : List Inv) : String :=
  " ".intercalate (l.map fun i => "|" ++ String.join (i.atts.map fun a => " " ++ i.cmd.tok ++ "." ++ attLetter a))

def showApplied (l : List Cmd) : String :=
  let w := (l.filter (·.write)).map (·.tok)
  if w.isEmpty then "-" else ",".intercalate w

def parseCfg (s : String) : Option (Cfg × Bool) :=
  match s.toList with
  | [a, b, c, d, e, f] => some (⟨a = '1', b = '1', c = '1', d = '1', e = '1'⟩, f = '1')
  | _ => none

def showFlags (w : World) : String :=
  "g" ++ (if w.gone then "1" else "0") ++ " l" ++ (if w.lost then "1" else "0")

def finish (r : Outcome × World) : String :=
  showOutcome r.1 ++ " # " ++ showLog r.2.log ++ " # " ++ showApplied r.2.applied ++ " # " ++ showFlags r.2

/-- `fam|op|v|phases` -/
def parseProg (cfg : Cfg) (tlv : Bool) (nret : Nat) (s : String) : Option Prog :=
  match s.splitOn "|" with
  | [fam, op, v, phases] =>
    match parseVal v, parsePhases phases with
    | some v, some phs => prog cfg tlv fam op phs v nret
    | _, _ => none
  | _ => none

/-- `uses/noneVal/clears/freshprog/cachedprog` -/
def parseSOp (cfg : Cfg) (tlv : Bool) (nret : Nat) (s : String) : Option SOp :=
  match s.splitOn "/" with
  | [uses, nv, clears, f, c] =>
    match parseVal nv, parseProg cfg tlv nret f, parseProg cfg tlv nret c with
    | some nv, some f, some c => some ⟨uses = "1", nv, clears = "1", f, c⟩
    | _, _, _ => none
  | _ => none

/-- the session, operation by operation, with the part of the logs each one has added -/
def sessLines (cfg : Cfg) (read : Prog) : List SOp → Bool → World → List String
  | [], _, w => ["end # " ++ showFlags w]
  | o :: os, cached, w =>
    let r := stepOp cfg read o cached w
    let w' := r.2.2
    (showOutcome r.1 ++ " # " ++ showLog (w'.log.drop w.log.length) ++ " # "
        ++ showApplied (w'.applied.drop w.applied.length) ++ " # " ++ showFlags w')
      :: sessLines cfg read os r.2.1 w'

/-- operation of a history on a FeliCa Lite / Lite-S tag object:
`ndef` `changed` `write` `rdsvc` `wrsvc` `auth/<macOk>/<extOk>` `plain/<clears>/<fam|op|v|phases>` -/
def parseOOp (cfg : Cfg) (tlv lites : Bool) (s : String) : Option OOp :=
  match s.splitOn "/" with
  | ["ndef"] => some .ndef
  | ["changed"] => some .changed
  | ["write"] => some .write
  | ["protect"] => some .protect
  | ["rdsvc"] => some (.svc false)
  | ["wrsvc"] => some (.svc true)
  | ["auth", m, e] => some (.auth lites (m = "1") (e = "1"))
  | ["plain", c, p] => (parseProg cfg tlv 0 p).map fun P => .plain P (c = "1")
  | _ => none

def showObj (o : Obj) : String :=
  let b := fun (x : Bool) => if x then "1" else "0"
  "o" ++ b o.sk ++ b o.auth ++ b o.rdMac ++ b o.wrMac ++ b o.cached ++ b o.polled

def histLines (cfg : Cfg) (v : Variant) (L : Cmds) : List OOp → Obj → World → List String
  | [], _, w => ["end # " ++ showFlags w]
  | op :: ops, o, w =>
    let r := ostep cfg v L op o w
    let w' := r.2.2
    (showOutcome r.1 ++ " # " ++ showLog (w'.log.drop w.log.length) ++ " # "
        ++ showApplied (w'.applied.drop w.applied.length) ++ " # " ++ showFlags w' ++ " # " ++ showObj r.2.1)
      :: histLines cfg v L ops r.2.1 w'

def handle (line : String) : String :=
  match line.splitOn " " with
  | ["run", cfg, fam, op, v, nret, script, senses, phases] =>
    match parseCfg cfg, parseVal v, nret.toNat?, parseScript script, parseSenses senses, parsePhases phases with
    | some (cfg, tlv), some v, some nret, some sc, some se, some phs =>
      match prog cfg tlv fam op phs v nret with
      | some p => finish (run cfg p 0 { script := sc, senses := se })
      | none => "no-program"
    | _, _, _, _, _, _ => "bad-op"
  | ["t3format", cfg, nmaxb, nbr, nbw, wipe, script] =>
    match parseCfg cfg, nmaxb.toNat?, nbr.toNat?, nbw.toNat?, parseScript script with
    | some (cfg, _), some a, some b, some c, some sc =>
      finish (run cfg (t3Format cfg ⟨a, b, c⟩ (wipe = "1")) 0 { script := sc })
    | _, _, _, _, _ => "bad-op"
  | "sess" :: cfg :: nret :: script :: senses :: read :: ops =>
    match parseCfg cfg, nret.toNat?, parseScript script, parseSenses senses with
    | some (cfg, tlv), some nret, some sc, some se =>
      match parseProg cfg tlv nret read, ops.mapM (parseSOp cfg tlv nret) with
      | some read, some ops => " || ".intercalate (sessLines cfg read ops false { script := sc, senses := se })
      | _, _ => "no-program"
    | _, _, _, _ => "bad-op"
  | "hist" :: cfg :: variant :: lites :: script :: phases :: ops =>
    match parseCfg cfg, parseScript script, parsePhases phases with
    | some (cfg, tlv), some sc, some L =>
      match ops.mapM (parseOOp cfg tlv (lites = "1")) with
      | some ops => " || ".intercalate (histLines cfg ⟨variant = "1"⟩ L ops {} { script := sc })
      | none => "no-program"
    | _, _, _ => "bad-op"
  | _ => "bad-op"

def main : IO Unit := runDriver handle
