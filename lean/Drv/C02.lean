def main : IO Unit := pure ()
