import NfcVerif.Model.HistC01
import NfcVerif.Model.T3Vendor
open NfcVerif NfcVerif.Tlv NfcVerif.T34 NfcVerif.Hist

/-!
Line-protocol driver of the C02 history models (`NfcVerif.Hist`): assignments through ONE tag object, each completed
or aborted by a fault on a state-changing command, with what a FRESH reader sees after EVERY attempt.

  h12 <r|a> <t2|t1s|t1d> <mem> <attempts>     r: memory reader with fixes/C02/0002 (`historyR`), a: as found (`history`)
  h3  <mem> <attempts>
  h4  <var> <cc> <file> <fid> <mle> <mlc> <attempts>
       -> <res> <cmds> <view> | <res> <cmds> <view> | ...        (none / exc Name when activation finds no NDEF)
     attempts = <hex>:<n | l<k> | e<k>>,...   n: no fault, l<k>: command k not executed, e<k>: executed, answer lost
     view = what a fresh activation reads from the tag after the attempt
  v3  <g|l|s> <0|1> <mcRw> <mcRd> <blocks>    vendor reader (`T3V.seeV`): generic / FeliCa Lite / Lite-S, plain or after
       -> <view>                               authenticate(), MC_SP_REG_ALL_RW, MC_SP_REG_R_RESTR, blocks 0.. of the card
-/

def cfgOf (k : String) : Option Cfg :=
  if k = "t2" then some t2Cfg else if k = "t1s" then some (t1Cfg 1) else if k = "t1d" then some (t1Cfg 8) else none

def insRange (r : Nat × Nat) : List (Nat × Nat) → List (Nat × Nat)
  | [] => [r]
  | x :: xs => if r.1 ≤ x.1 then r :: x :: xs else x :: insRange r xs

def mergeRanges : List (Nat × Nat) → List (Nat × Nat)
  | [] => []
  | [x] => [x]
  | x :: y :: rest => if y.1 ≤ x.2 then mergeRanges ((x.1, max x.2 y.2) :: rest) else x :: mergeRanges (y :: rest)
termination_by l => l.length

def canonSkip (s : Skip) : String :=
  let rs := mergeRanges ((s.filter fun r => r.1 < r.2).foldr insRange [])
  if rs.isEmpty then "-" else ",".intercalate (rs.map fun r => s!"{r.1}-{r.2}")

def joinC (l : List String) : String := if l.isEmpty then "-" else ",".intercalate l

def showRes : Py Unit → String
  | .ok _ => "ok"
  | .error (.tagCmd _) => "fail"
  | .error e => "exc " ++ e.name

/-- the reader of the present tree (`readBack`: TLVs that exceed the data area are not accepted) -/
def showRead (c : Cfg) (m : Bytes) : String :=
  match readBack c m with
  | .error e => "exc " ++ e.name
  | .ok none => "none"
  | .ok (some L) =>
    s!"L {L.off} {L.cap} {if L.readable then 1 else 0} {if L.writeable then 1 else 0} {L.areaEnd} {canonSkip L.skip} {toHex L.ndef}"

def parseFault (s : String) : Option (Option Fault) :=
  if s = "n" then some none
  else match s.toList with
    | 'l' :: r => (String.ofList r).toNat?.map fun k => some ⟨k, false⟩
    | 'e' :: r => (String.ofList r).toNat?.map fun k => some ⟨k, true⟩
    | _ => none

def parseAttempts (s : String) : Option (List (Bytes × Option Fault)) :=
  (s.splitOn ",").mapM fun a =>
    match a.splitOn ":" with
    | [d, f] => match parseHex d, parseFault f with
      | some d, some f => some (d, f)
      | _, _ => none
    | _ => none

def showCmds (cs : List Cmd) : String := joinC (cs.map fun x => s!"{x.1}:{toHex x.2}")

/-- attempt by attempt on the repaired reader: (commands, outcome, tag afterwards) -/
def stepsR (c : Cfg) (L : Layout) : RSR → List (Bytes × Option Fault) → List (List Cmd × Py Unit × Bytes)
  | _, [] => []
  | st, (d, f) :: rest => let a := attemptR c L st d f; (a.cmds, a.res, a.st.tag) :: stepsR c L a.st rest

def stepsA (c : Cfg) (L : Layout) : RS → List (Bytes × Option Fault) → List (List Cmd × Py Unit × Bytes)
  | _, [] => []
  | st, (d, f) :: rest => let a := attempt c L st d f; (a.cmds, a.res, a.st.tag) :: stepsA c L a.st rest

def h12 (rep : Bool) (c : Cfg) (m : Bytes) (atts : List (Bytes × Option Fault)) : String :=
  match readNdef c m with
  | .error e => "exc " ++ e.name
  | .ok none => "none"
  | .ok (some L) =>
    let steps := if rep then stepsR c L (freshR m) atts else stepsA c L (fresh m) atts
    -- the theorems speak about `historyR` / `history`: same final tag, same record
    let fin : Bytes × List (List Cmd × Py Unit) :=
      if rep then (let x := historyR c L (freshR m) atts; (x.1.tag, x.2))
      else (let x := history c L (fresh m) atts; (x.1.tag, x.2))
    let last := match steps.getLast? with | some s => s.2.2 | none => m
    if last ≠ fin.1 ∨ (steps.map fun s => (s.1, s.2.1)) ≠ fin.2 then "driver-inconsistent" else
    " | ".intercalate (steps.map fun s => s!"{showRes s.2.1} {showCmds s.1} {showRead c s.2.2}")

def stepsT3 (seen : Seen) : Bytes → List (Bytes × Option Fault) → List (List T3.WCmd × Py Unit × Bytes)
  | _, [] => []
  | m, (d, f) :: rest => let t := t3Attempt seen m d f; (t.sent, t.res, t.mem) :: stepsT3 seen t.mem rest

def h3 (m : Bytes) (atts : List (Bytes × Option Fault)) : String :=
  match T3.readNdef m with
  | .error e => "exc " ++ e.name
  | .ok none => "none"
  | .ok (some nd) =>
    let steps := stepsT3 nd.seen m atts
    let fin := t3History nd.seen m atts
    let last := match steps.getLast? with | some s => s.2.2 | none => m
    if last ≠ fin.1 then "driver-inconsistent" else
    " | ".intercalate (steps.map fun s =>
      showRes s.2.1 ++ " " ++ joinC (s.1.map fun c => s!"{c.blk}+{c.n}:{toHex c.data}") ++ " " ++ showPy showSeen (T3.see s.2.2))

def parseVar (s : String) : Option T4.Variant :=
  match s.toList with
  | [a, b, c] => some ⟨a = '1', b = '1', c = '1'⟩
  | _ => none

def stepsT4 (v : T4.Variant) (cd : T4.Card) (nd : T4.Ndef) :
    Bytes → List (Bytes × Option Fault) → List (List T4.UCmd × Py Unit × Bytes)
  | _, [] => []
  | g, (d, f) :: rest => let t := t4Attempt v cd nd g d f; (t.sent, t.res, t.file) :: stepsT4 v cd nd t.file rest

def h4 (v : T4.Variant) (cd : T4.Card) (atts : List (Bytes × Option Fault)) : String :=
  match T4.readNdef v cd with
  | .error e => "exc " ++ e.name
  | .ok none => "none"
  | .ok (some nd) =>
    let steps := stepsT4 v cd nd cd.file atts
    let fin := t4History v cd nd cd.file atts
    let last := match steps.getLast? with | some s => s.2.2 | none => cd.file
    if last ≠ fin.1 then "driver-inconsistent" else
    " | ".intercalate (steps.map fun s =>
      showRes s.2.1 ++ " " ++ joinC (s.1.map fun c => s!"{c.off}:{toHex c.data}") ++ " "
        ++ showPy showSeen (T4.see v { cd with file := s.2.2 }))

def parseProduct (s : String) : Option T3V.Product :=
  if s = "g" then some .generic else if s = "l" then some .lite else if s = "s" then some .liteS else none

def handle (line : String) : String :=
  match line.splitOn " " with
  | ["v3", p, au, rw, rd, mh] => match parseProduct p, rw.toNat?, rd.toNat?, parseHex mh with
    | some p, some rw, some rd, some m => showPy showSeen (T3V.seeV p (au = "1") ⟨m, rw, rd⟩)
    | _, _, _, _ => "bad-op"
  | ["h12", r, k, mh, a] => match cfgOf k, parseHex mh, parseAttempts a with
    | some c, some m, some a => if r = "r" then h12 true c m a else if r = "a" then h12 false c m a else "bad-op"
    | _, _, _ => "bad-op"
  | ["h3", mh, a] => match parseHex mh, parseAttempts a with
    | some m, some a => h3 m a | _, _ => "bad-op"
  | ["h4", v, cc, f, fid, e, c, a] =>
    match parseVar v, parseHex cc, parseHex f, parseHex fid, e.toNat?, c.toNat?, parseAttempts a with
    | some v, some cc, some f, some fid, some e, some c, some a => h4 v ⟨cc, f, fid, e, c⟩ a
    | _, _, _, _, _, _, _ => "bad-op"
  | _ => "bad-op"

def main : IO Unit := runDriver handle
