import NfcVerif.Model.Term
import NfcVerif.Model.TermMulti
import NfcVerif.Model.Deact
open NfcVerif NfcVerif.Term NfcVerif.TermMulti

def kv (toks : List String) (k : String) : String :=
  match toks.find? (fun t => t.startsWith (k ++ "=")) with
  | some t => (t.drop (k.length + 1)).toString
  | none => ""

def nat (toks : List String) (k : String) : Nat := (kv toks k).toNat?.getD 0
def flag (toks : List String) (k : String) : Bool := kv toks k == "1"

def parseKind : String → Kind | "raw" => .raw | "ldl" => .ldl | _ => .dlc
def parseSt : String → St
  | "SHUTDOWN" => .shutdown | "CLOSED" => .closed | "LISTEN" => .listen | "CONNECT" => .connect
  | "ESTABLISHED" => .established | "DISCONNECT" => .disconnect | _ => .closeWait
def parsePdu : String → Option PduK
  | "I" => some .i | "DISC" => some .disc | "CONNECT" => some .connect | "CC" => some .cc | "DM" => some .dm
  | "UI" => some .ui | "RR" => some .rr | "FRMR" => some .frmr | _ => none
def parseQ (s : String) : List PduK := (s.splitOn ".").filterMap parsePdu
def parseEv : String → Ev | "recv" => .recv | "send" => .send | "acks" => .acks | _ => .bogus
def parseCall (s : String) : Call :=
  match s.splitOn ":" with
  | ["send", d, n] => .send (d == "1") (n.toNat?.getD 0)
  | ["recv"] => .recv | ["accept"] => .accept | ["connect"] => .connect | ["listen"] => .listen
  | ["close"] => .close | ["bind"] => .bind | ["resolve"] => .resolve
  | ["poll", e, t] => .poll (parseEv e) (t == "1")
  | _ => .bind
def parseAct (s : String) : Act :=
  if s == "T" then .term else if s == "S" then .spurious else if s == "A" then .ack
  else if s == "D" then .dequeue else if s == "R" then .resolved
  else if s.startsWith "Q" then (match parsePdu (s.drop 1).toString with | some k => .queue k | none => .none)
  else .none
def showAct : Act → Bool → String
  | .none, w => if w then "N" else "-" | .term, _ => "T" | .spurious, _ => "S" | .ack, _ => "A" | .dequeue, _ => "D"
  | .resolved, _ => "R"
  | .queue k, _ => "Q" ++ showPdu k
where showPdu : PduK → String
  | .i => "I" | .disc => "DISC" | .connect => "CONNECT" | .cc => "CC" | .dm => "DM" | .ui => "UI" | .rr => "RR" | .frmr => "FRMR"

def cvName : Cv → String
  | .sendReady => "send_ready" | .recvReady => "recv_ready" | .acksReady => "acks_ready"
  | .sendToken => "send_token" | .resp => "resp"
def stName : St → String
  | .shutdown => "SHUTDOWN" | .closed => "CLOSED" | .listen => "LISTEN" | .connect => "CONNECT"
  | .established => "ESTABLISHED" | .disconnect => "DISCONNECT" | .closeWait => "CLOSE_WAIT"
def showQ (q : List PduK) : String := ".".intercalate (q.map showAct.showPdu)
def showVal : Val → String
  | .none => "none" | .bool true => "true" | .bool false => "false" | .data => "data" | .sock => "sock" | .nat n => s!"n{n}"
def b01 (b : Bool) : String := if b then "1" else "0"
def showWorld (w : World) : String :=
  s!"{stName w.s.st}:{b01 w.s.bound}:{showQ w.s.recvQ}:{showQ w.s.sendQ}:{w.s.recvBuf}:{w.s.acks}:{w.s.sendCnt}:{w.s.recvConfs}"

def evName (c : Call) (p : Pt) (a : Act) : String :=
  match p with
  | .bindAcq | .llcAcq => "Ll:" ++ showAct a false
  | .sockAcq => "Ls:" ++ showAct a false
  | _ => "W" ++ cvName p.cv ++ (if callTimeout c then ":t:" else ":n:") ++ showAct a true

/-- `run` of the model with the list of scheduling events -/
def trace (c : Call) : Nat → Step → List Act → List String → String
  | _, .done r w, _, ev => ",".intercalate ev.reverse ++ "|" ++ showPy showVal r ++ "|" ++ showWorld w
  | 0, .at _ _, _, ev => ",".intercalate ev.reverse ++ "|fuel|"
  | n + 1, .at p w, script, ev =>
    let a := script.headD .none
    let (w1, notified) := applyAct a w
    let ev1 := evName c p a :: ev
    if p.isWait then
      (if notified.contains p.cv || callTimeout c then trace c n (exec c p w1) script.tail ev1
       else ",".intercalate ev1.reverse ++ "|hang " ++ cvName p.cv ++ "|" ++ showWorld w1)
    else trace c n (exec c p w1) script.tail ev1

def parseWorld (t : List String) : World :=
  { s := { kind := parseKind (kv t "k"), st := parseSt (kv t "st"), bound := flag t "b", recvQ := parseQ (kv t "rq"),
           sendQ := parseQ (kv t "sq"), sendBuf := nat t "sb", recvBuf := nat t "rb", sendMiu := nat t "sm",
           sendWin := nat t "sw", sendCnt := nat t "sc", sendAck := nat t "sa", acks := nat t "ak",
           recvConfs := nat t "rc", recvWin := nat t "rw" },
    registered := flag t "reg", sapAlive := flag t "alive", sapOthers := flag t "oth", terminated := flag t "term",
    sdAlive := flag t "sd", resolved := flag t "res", viaSap := false,
    closeClearsRecv := kv t "ccr" != "0" }

def causeOf : String → Option Cause
  | "remote-disc" => some .remoteDisc | "timeout" | "broken-link" | "none" | "malformed" => some .exchangeNone
  | "local-terminate" => some .terminateCb | "keyboard-interrupt" => some .keyboardInterrupt
  | "ioerror" => some .ioError | "ioerror-persistent" => some .ioErrorPersistent | "key-agreement" => some .keyAgreementError
  | "decryption" => some .decryptionError | "encryption" => some .encryptionError
  | "runtime-error" => some .otherException | _ => none

def leaveName : Leave → String
  | .returns => "returns" | .raisesKeyboardInterrupt => "KeyboardInterrupt" | .raisesSystemExit => "SystemExit"
  | .raisesIOError => "IOError" | .reraises => "reraises"
def connectName : ConnectEnd → String
  | .returns => "returns" | .raisesSystemExit => "SystemExit" | .reraises => "reraises"

def sptName : SPt → String
  | .listenAccept => "accept" | .servePoll => "poll" | .serveRecv => "recv" | .serveSend => "send"
  | .finallyClose => "close" | .exited => "exited"

/-! several threads on one socket (`NfcVerif.TermMulti`) -/
def ptName (c : Call) (p : Pt) : String :=
  match p with
  | .bindAcq | .llcAcq => "Ll"
  | .sockAcq => "Ls"
  | _ => "W" ++ cvName p.cv ++ (if callTimeout c then ":t" else ":n")

def appendAt (tr : List (List String)) (i : Nat) (s : String) : List (List String) :=
  match tr[i]? with
  | some l => tr.set i (l ++ [s])
  | none => tr

/-- `runM` with the scheduling points every thread passes -/
def multiTrace (m : MState) : List Nat → List (List String) → MState × List (List String)
  | [], tr => (m, tr)
  | d :: ds, tr =>
    let m1 := decide1 m d
    let ran := match m.ths[d]? with
      | some t => (stepOf t m.w).isSome
      | none => false
    let tr1 := if ran then
        (match m1.ths[d]? with
         | some t => (match t.stat with
                      | .ready p => appendAt tr d (ptName t.call p)
                      | .parked p false => appendAt tr d (ptName t.call p)
                      | _ => tr)
         | none => tr)
      else tr
    multiTrace m1 ds tr1

def threadOut (t : Thread) : String :=
  match t.stat with
  | .done r => showPy showVal r
  | .parked p false => if callTimeout t.call then "runnable" else "parked " ++ cvName p.cv
  | _ => "runnable"

def handleMulti (t : List String) : String :=
  let w0 := parseWorld t
  let w := if flag t "pre" then (terminate w0).1 else w0
  let calls := ((kv t "calls").splitOn ",").filter (· ≠ "") |>.map parseCall
  let script := ((kv t "script").splitOn ".").filter (· ≠ "") |>.map parseAct
  let ds := ((kv t "sched").splitOn ".").filterMap (·.toNat?)
  let r := multiTrace (mkState w calls script) ds (calls.map (fun _ => []))
  let per := (r.1.ths.zip r.2).map (fun (th, tr) => ",".intercalate tr ++ "|" ++ threadOut th)
  ";".intercalate per ++ "|" ++ showWorld r.1.w


/-! ### NFC-DEP deactivation under the virtual clock (`NfcVerif.Model.Deact`) -/
namespace DeactDrv
open NfcVerif.Deact

def parseReq (s : String) : Option (Req × Bool) :=
  let ok := s.endsWith "1"
  match (s.dropEnd 1).toString with
  | "inf" => some (.inf, ok) | "atn" => some (.atn, ok) | "dsl" => some (.dsl, ok) | "rls" => some (.rls, ok)
  | "other" => some (.other, ok) | _ => none

def parseOut (s : String) : Out :=
  match parseReq s with
  | some (r, ok) => .frame r ok
  | none =>
    match s with
    | "bad" => .badFrame | "none" => .none | "timeout" => .timeout | "tx" => .transmission | "comm" => .commError
    | "esc-io" => .escape (.io 19) | _ => .escape .runtime

def parseEvD (s : String) : Option Deact.Ev :=
  match s.splitOn ":" with
  | [o, d] => some ⟨parseOut o, d.toNat?.getD 0⟩
  | _ => none

def sentName : Sent → String
  | .nothing => "-" | .atn => "atn" | .inf => "inf" | .rlsRes => "rlsres" | .dslRes => "dslres"
  | .dslReq => "dslreq" | .rlsReq => "rlsreq"

def showRes (r : Res) : String :=
  let fin := match r.fin with | .returned => "ret" | .raised e => "exc " ++ e.name
  fin ++ " " ++ toString r.tEnd ++ " " ++ ",".intercalate (r.trace.map (fun (s, t) => sentName s ++ ":" ++ toString t))

def handleDeact (t : List String) : String :=
  let cfg : Cfg := { D := nat t "D", lat := nat t "lat", retryBounded := flag t "rb", renew := flag t "renew" }
  let script := ((kv t "script").splitOn ".").filterMap parseEvD
  if kv t "role" == "initiator" then
    showRes (initiatorDeactivate cfg (nat t "tinit") (flag t "release") script (nat t "t0"))
  else
    let cmd : Pending := match parseReq (kv t "cmd") with
      | some (r, ok) => .req r ok
      | none => if kv t "cmd" == "bad" then .bad else .no
    showRes (targetDeactivate cfg cmd script (nat t "t0"))
end DeactDrv

def handle (line : String) : String :=
  let t := line.splitOn " "
  match t.head? with
  | some "run" =>
    let w0 := parseWorld t
    let w := if flag t "pre" then (terminate w0).1 else w0
    let c := parseCall (kv t "call")
    let script := ((kv t "script").splitOn ".").filter (· ≠ "") |>.map parseAct
    trace c 12 (start c w) script []
  | some "multi" => handleMulti t
  | some "deact" => DeactDrv.handleDeact t
  | some "svcstep" =>
    let p := match kv t "p" with
      | "accept" => SPt.listenAccept | "poll" => .servePoll | "recv" => .serveRecv | "send" => .serveSend
      | "close" => .finallyClose | _ => .exited
    let r := match kv t "r" with
      | "value1" => R.value true | "value0" => .value false | "llcp" => .llcpError | _ => .otherExc
    sptName (serviceStep (if kv t "srv" == "handover" then Srv.handover else Srv.snep) p r)
  | some "loop" =>
    let role := if kv t "role" == "target" then Role.target else Role.initiator
    let pt := match kv t "point" with | "dps" => LoopPt.dps | "first" => .first | _ => .established
    (match causeOf (kv t "cause") with
     | some c => let e := loopEnd role pt c
                 s!"terminate={b01 e.terminateCalled} leave={leaveName e.leave} connect={connectName (connectEnd role pt c)} shutdown={b01 (terminateShutsDown (kv t "cause" == "ioerror-persistent"))}"
     | none => "bad-cause")
  | some "latebind" =>
    (match lateBind termSteps (nat t "k") (nat t "a") with
     | .refused => "refused" | .shutDown => "shutdown" | .leaked => "leaked")
  | some "service" =>
    let w := (terminate (parseWorld t)).1
    let p := match kv t "at" with
      | "accept" => SPt.listenAccept | "poll" => .servePoll | "recv" => .serveRecv | "send" => .serveSend | _ => .finallyClose
    sptName (serviceRun (if kv t "srv" == "handover" then Srv.handover else Srv.snep) w 6 p)
  | _ => "bad-op"

def main : IO Unit := runDriver handle
