import NfcVerif.Model.PeerDep
import NfcVerif.Model.PeerPax
import NfcVerif.Model.PeerDispatch
import NfcVerif.Model.PeerT3Gen
import NfcVerif.Model.PeerSnep
/-!
Line protocol of the C07 model driver

  dep <fix> <b106> <req> <frame>        -> ok <pdu text> | exc <Name>          decode_frame + XXX.decode
  rtox <fix> <data>                     -> ok <n> | exc <Name>                 Initiator.exchange: RTOX value
  trtox <fix> <data>                    -> ok <n|none> | exc <Name>            Target.send_timeout_extension
  desel <fix> <b106> <frame|none>       -> ok none | ok dep | exc <Name>       Target.exchange after DSL/RLS
  gb <fix> <general bytes|none>         -> ok False | ok True ver=.. | exc ..  llc.activate
  pdu <octets>                          -> ok <pdu text> | exc DecodeError     pdu.decode
  t3 <fix> <idm+pmm+sys> <store> <cmd>  -> ok <rsp|none> store=.. calls=.. | exc <Name>
  sap <f39><cc> <addr> <name|-> <socks> <octets>  -> hang | exc <Name> | drop | ok <socks> send=<pdus> sdp=<pdus>:<nres>
        socks: k:st:addr:peer:bound:rq:rbuf:rmiu:vs:vsa:vr:vra joined by ','  (k r|l|d, st 0..6)
  flow <site> <Exc name>                -> exchange=<..> run=<..> connect=<..>
  t3g <idm>/<pmm>/<sys> <code:mode,..|-> <store> <cmd>   -> as `t3`; services from the table (mode rw|ro|even|deflt)
  cardsess <idm>/<pmm>/<sys> <table> <store> <first cmd> <ev,ev,..|none>   -> returns|raises <Name> sent=<rsp|none,..>
        `_card_connect` with the emulation: ev = command octets | T | X | B (Timeout/Transmission/BrokenLink from the exchange)
  snepreq <table> <request>             -> ok <response> | exc <Name>          process_snep_request
  snepsrv <miu> <maxacc> <table> <frag,frag,..|none>   -> ok <sent,sent,..> | exc <Name>   SnepServer._serve
        table: <g|p>:<octets>=<D|V|E|c<code>|d<octets>> joined by ',' ('-' = empty): what decoder+application+encoder do
  snepcli <get|put> <acc> <frag,..|none> -> ok none|true|false|data <octets>|snep <code> | exc <Name>
  table                                 -> the handler tables as text
-/
open NfcVerif NfcVerif.Peer NfcVerif.NfcDep

def ob (o : Option Nat) : String := match o with | none => "-" | some v => toHex [v]

def showDep (req : Bool) : NfcDep.Pdu → String
  | .dep fmt pni did nad data => s!"dep {fmt} {pni} {ob did} {ob nad} {toHex data}"
  | .dsl did => s!"dsl {ob did}"
  | .rls did => s!"rls {ob did}"
  | .atr body =>
    let n := if req then 14 else 15
    let pp := (body[n - 1]?).getD 0
    s!"atr {toHex (body.take 10)} {toHex ((body.drop 10).take (n - 10))} {toHex (if (pp / 2) % 2 = 1 then body.drop n else [])}"
  | .psl args => s!"psl {toHex args}"

def flag? (s : String) : Option Bool := if s = "1" then some true else if s = "0" then some false else none

def joinC (l : List String) : String := if l.isEmpty then "-" else ",".intercalate l

def showCall (c : T3Emu.Call) : String :=
  s!"{if c.w then "w" else "r"}{c.bn}:{if c.b then 1 else 0}:{if c.e then 1 else 0}"

def t3Raw (fix : Bool) (ids store cmd : Bytes) : String :=
  let e : T3Emu.Emu := ⟨ids.take 8, (ids.drop 8).take 8, ids.drop 16, store⟩
  match (if fix then processCommandR e cmd else T3Emu.processCommand e cmd) with
  | .error x => "exc " ++ x.name
  | .ok (r, st, log) =>
    "ok " ++ (match r with | none => "none" | some b => toHex b) ++ " store=" ++ toHex st
      ++ " calls=" ++ joinC (log.map showCall)

def showCfg : Option LinkCfg → String
  | none => "False"
  | some c => s!"True ver={c.ver} miu={c.miu} lto={c.lto} wks={c.wks} lsc={c.lsc} dpc=0"

def stOf (n : Nat) : St :=
  match n with
  | 0 => .shutdown | 1 => .closed | 2 => .listen | 3 => .connect | 4 => .established | 5 => .disconnect | _ => .closeWait

def stNum : St → Nat
  | .shutdown => 0 | .closed => 1 | .listen => 2 | .connect => 3 | .established => 4 | .disconnect => 5 | .closeWait => 6

def parseSock (s : String) : Option Sock :=
  match s.splitOn ":" with
  | [k, st, addr, peer, bound, rq, rbuf, rmiu, vs, vsa, vr, vra] =>
    let kind := if k = "r" then Kind.raw else if k = "l" then Kind.ldl else Kind.dlc
    match st.toNat?, addr.toNat?, rq.toNat?, rbuf.toNat?, rmiu.toNat?, vs.toNat?, vsa.toNat?, vr.toNat?, vra.toNat? with
    | some st, some addr, some rq, some rbuf, some rmiu, some vs, some vsa, some vr, some vra =>
      some ⟨kind, stOf st, addr, peer.toNat?, bound = "1", rq, rbuf, rmiu, vs, vsa, vr, vra, []⟩
    | _, _, _, _, _, _, _, _, _ => none
  | _ => none

def showP : Pdu.SPdu → String
  | .dm d s r => s!"DM {d} {s} {r}"
  | .frmr d s fl pt ns nr vs vr vsa vra => s!"FRMR {d} {s} {fl} {pt} {ns} {nr} {vs} {vr} {vsa} {vra}"
  | p => s!"P{p.ptype} {p.dsap} {p.ssap}"

def showPs (l : List Pdu.SPdu) : String := if l.isEmpty then "-" else "|".intercalate (l.map showP)

def showSock (s : Sock) : String := s!"{stNum s.st}:{s.rq}:{s.vsa}:{s.vr}:{showPs s.sq}"

def sapCmd (fx : Fix) (addr : Nat) (name : Option Bytes) (socks : List Sock) (octets : Bytes) : String :=
  match Pdu.Impl.decode octets with
  | .error e => "exc " ++ e.name
  | .ok p =>
    let tab : List Entry := (List.replicate 64 Entry.empty).set 1 (.sdp [] 0) |>.set addr (.sap ⟨socks, []⟩)
    let snl : List (Bytes × Nat) := ("urn:nfc:sn:sdp".toUTF8.toList.map (·.toNat), 1) ::
      (match name with | some n => [(n, addr)] | none => [])
    match dispatch fx ⟨tab, snl⟩ p with
    | .error e => "exc " ++ e.name
    | .ok none => "hang"
    | .ok (some w) =>
      let sdp := match w.tab[1]? with | some (.sdp dm n) => s!"{showPs dm}:{n}" | _ => "?"
      match w.tab[addr]? with
      | some (.sap s) => s!"ok {joinC (s.socks.map showSock)} send={showPs s.sendList} sdp={sdp}"
      | _ => s!"ok ? sdp={sdp}"

def excOfName (n : String) : Option Exc :=
  [Exc.index, .value, .type_, .struct, .key, .attr, .unbound, .recursion, .assertion, .runtime,
   .decodeError, .encodeError, .timeout, .transmission, .protocol, .brokenLink, .unsupportedTarget, .commError,
   .io 5, .llcp 32, .systemExit, .keyboardInterrupt].find? (fun e => e.name = n)

def showEnd : End → String
  | .returned => "returns"
  | .raised e => "raises " ++ e.name

def showFlow : Option Flow → String
  | none => "continues"
  | some f => showEnd f.ending ++ (if f.terminated then " terminated" else " not-terminated")

/-- `flow x <Exc>`: the exception is raised by mac.exchange/pdu.decode inside llc.exchange;
    `flow d <Exc>`: by dispatch/collect; `flow a <Exc>`: by llc.activate; `flow c <Exc>`: by
    tag.process_command; `flow s <Exc>`: by tag.send_response -/
def flowCmd (site : String) (e : Exc) : String :=
  if site = "x" then
    let r := runLoop (α := Unit) (.error e) (fun _ => .ok ())
    s!"exchange={match llcExchange (α := Unit) (.error e) with | .ok _ => "None" | .error x => "raises " ++ x.name} run={showFlow r} connect={showFlow (connectLlcp (.ok true) r)}"
  else if site = "d" then
    let r := runLoop (α := Unit) (.ok ()) (fun _ => .error e)
    s!"run={showFlow r} connect={showFlow (connectLlcp (.ok true) r)}"
  else if site = "a" then s!"connect={showFlow (connectLlcp (.error e) none)}"
  else if site = "c" then s!"card={match cardTurn (α := Unit) (.error e) (.ok ()) with | none => "continues" | some x => showEnd x}"
  else if site = "s" then s!"card={match cardTurn (α := Unit) (.ok ()) (.error e) with | none => "continues" | some x => showEnd x}"
  else "bad-op"

def allExc : List Exc :=
  [.index, .value, .type_, .struct, .key, .attr, .runtime, .decodeError, .encodeError, .timeout, .transmission,
   .protocol, .brokenLink, .unsupportedTarget, .commError, .io 5, .llcp 32, .systemExit, .keyboardInterrupt]

/-- handler tables: which exception classes each `try` catches -/
def tableText : String :=
  let names (p : Exc → Bool) := ",".intercalate ((allExc.filter p).map Exc.name)
  s!"llc.exchange catches [{names (fun e => Peer.isComm e || isPduError e)}] connect catches [{names connectCatches}] " ++
  s!"run-loop io [{names isIO}] card continue [{names (fun e => Peer.isComm e && e != .brokenLink)}]"

/-! ## general Type 3 Tag emulation, SNEP -/

def t3gCmd (ids tab store cmd : String) : String :=
  match ids.splitOn "/", parseHex store, parseHex cmd with
  | [i, p, y], some store, some cmd =>
    match parseHex i, parseHex p, parseHex y with
    | some idm, some pmm, some sys =>
      let entries : Option (List (Nat × PeerT3.Mode)) :=
        if tab = "-" then some [] else
        (tab.splitOn ",").mapM fun ent =>
          match ent.splitOn ":" with
          | [c, m] =>
            match c.toNat?, (if m = "rw" then some PeerT3.Mode.rw else if m = "ro" then some .ro
                             else if m = "even" then some .even else if m = "deflt" then some .deflt else none) with
            | some c, some m => some (c, m)
            | _, _ => none
          | _ => none
      match entries with
      | some tab =>
        let e : PeerT3.Emu Bytes := ⟨idm, pmm, sys, PeerT3.storeSvc tab⟩
        (match PeerT3.processCommandR e store cmd with
         | .error x => "exc " ++ x.name
         | .ok (r, st, log) =>
           "ok " ++ (match r with | none => "none" | some b => toHex b) ++ " store=" ++ toHex st
             ++ " calls=" ++ joinC (log.map showCall))
      | none => "bad-op"
    | _, _, _ => "bad-op"
  | _, _, _ => "bad-op"

def parseT3Tab (tab : String) : Option (List (Nat × PeerT3.Mode)) :=
  if tab = "-" then some [] else
  (tab.splitOn ",").mapM fun ent =>
    match ent.splitOn ":" with
    | [c, m] =>
      match c.toNat?, (if m = "rw" then some PeerT3.Mode.rw else if m = "ro" then some .ro
                       else if m = "even" then some .even else if m = "deflt" then some .deflt else none) with
      | some c, some m => some (c, m)
      | _, _ => none
    | _ => none

def showSent (l : List (Option Bytes)) : String :=
  if l.isEmpty then "-" else ",".intercalate (l.map fun o => match o with | none => "none" | some b => toHex b)

/-- what `send_response` was called with, turn by turn (the loop of `PeerT3.cardLoop` with the responses kept) -/
def cardTrace (e : PeerT3.Emu Bytes) : List PeerT3.CardEv → Bytes → Option Bytes → List (Option Bytes) → List (Option Bytes)
  | [], _, _, sent => sent
  | ev :: rest, s, rsp, sent =>
    match ev with
    | .err x => if x = .brokenLink then sent ++ [rsp] else if Peer.isComm x then cardTrace e rest s none (sent ++ [rsp]) else sent ++ [rsp]
    | .cmd c =>
      match PeerT3.processCommandR e s c with
      | .ok r => cardTrace e rest r.2.1 r.1 (sent ++ [rsp])
      | .error _ => sent ++ [rsp]

def cardCmd (ids tab store first evs : String) : String :=
  match ids.splitOn "/", parseT3Tab tab, parseHex store, parseHex first with
  | [i, p, y], some tab, some store, some first =>
    match parseHex i, parseHex p, parseHex y with
    | some idm, some pmm, some sys =>
      let evl : Option (List PeerT3.CardEv) :=
        if evs = "none" then some [] else
        (evs.splitOn ",").mapM fun t =>
          if t = "T" then some (.err .timeout) else if t = "X" then some (.err .transmission)
          else if t = "B" then some (.err .brokenLink) else (parseHex t).map .cmd
      match evl with
      | some evl =>
        let e : PeerT3.Emu Bytes := ⟨idm, pmm, sys, PeerT3.storeSvc tab⟩
        let ending := PeerT3.cardSession e store first evl
        let sent := match PeerT3.processCommandR e store first with
          | .ok r => cardTrace e evl r.2.1 r.1 []
          | .error _ => []
        showEnd ending ++ " sent=" ++ showSent sent
      | none => "bad-op"
    | _, _, _ => "bad-op"
  | _, _, _, _ => "bad-op"

/-- the application side of the SNEP server from the table recorded on the real run -/
def snepApp (tab : String) : Option PeerSnep.App :=
  let ents : Option (List (String × String)) :=
    if tab = "-" then some [] else
    (tab.splitOn ",").mapM fun ent =>
      match ent.splitOn "=" with
      | [k, v] => some (k, v)
      | _ => none
  match ents with
  | none => none
  | some ents =>
    let look (op : String) (o : Bytes) : Option String := (ents.find? (fun p => p.1 = op ++ ":" ++ toHex o)).map (·.2)
    let missing : PeerSnep.SExc := .py .outOfFuel
    some {
      get := fun o =>
        match look "g" o with
        | none => .error missing
        | some v =>
          if v = "D" then .error .ndefDecode else if v = "V" then .error (.py .value) else if v = "E" then .error .ndefEncode
          else match v.toList with
            | 'c' :: r => (match (String.ofList r).toNat? with | some c => .ok (.inl c) | none => .error missing)
            | 'd' :: r => (match parseHex (String.ofList r) with | some d => .ok (.inr d) | none => .error missing)
            | _ => .error missing
      put := fun o =>
        match look "p" o with
        | none => .error missing
        | some v =>
          if v = "D" then .error .ndefDecode else if v = "V" then .error (.py .value) else if v = "E" then .error .ndefEncode
          else match v.toList with
            | 'c' :: r => (match (String.ofList r).toNat? with | some c => .ok c | none => .error missing)
            | _ => .error missing }

def parseFrags (s : String) : Option (List Bytes) :=
  if s = "none" then some [] else (s.splitOn ",").mapM parseHex

def showFrags (l : List Bytes) : String := if l.isEmpty then "none" else ",".intercalate (l.map toHex)

def showCRes : PeerSnep.CRes → String
  | .none_ => "none" | .true_ => "true" | .false_ => "false"
  | .data d => "data " ++ toHex d
  | .snepError c => s!"snep {c}"

def handle (line : String) : String :=
  match line.splitOn " " with
  | ["t3g", ids, tab, st, cmd] => t3gCmd ids tab st cmd
  | ["cardsess", ids, tab, st, first, evs] => cardCmd ids tab st first evs
  | ["snepreq", tab, h] => match snepApp tab, parseHex h with
    | some app, some d => showPy toHex (PeerSnep.processRequest app d) | _, _ => "bad-op"
  | ["snepsrv", miu, mx, tab, fr] => match miu.toNat?, mx.toNat?, snepApp tab, parseFrags fr with
    | some miu, some mx, some app, some fr =>
      showPy showFrags (PeerSnep.serve ⟨mx, miu, app⟩ (fr.length + 1) fr []) | _, _, _, _ => "bad-op"
  | ["snepcli", op, acc, fr] => match acc.toNat?, parseFrags fr with
    | some acc, some fr =>
      if op = "get" then showPy showCRes (PeerSnep.getOctets acc fr)
      else if op = "put" then showPy showCRes (PeerSnep.putOctets fr) else "bad-op"
    | _, _ => "bad-op"
  | ["dep", fx, b, r, h] => match flag? fx, flag? b, flag? r, parseHex h with
    | some fx, some b, some r, some f => showPy (showDep r) (decodeFrameV fx b r f) | _, _, _, _ => "bad-op"
  | ["rtox", fx, h] => match flag? fx, parseHex h with
    | some fx, some d => showPy toString (rtoxOf fx d) | _, _ => "bad-op"
  | ["trtox", fx, h] => match flag? fx, parseHex h with
    | some fx, some d => showPy (fun o => match o with | none => "none" | some v => toString v) (tRtoxOf fx d)
    | _, _ => "bad-op"
  | ["desel", fx, b, h] => match flag? fx, flag? b with
    | some fx, some b =>
      if h = "none" then showPy (fun _ => "none") (afterDeselect fx none) else
      match parseHex h with
      | some f =>
        (match decodeFrameV fx b true f with
         | .error e => "exc " ++ e.name
         | .ok p => showPy (fun o => match o with | none => "none" | some _ => "dep") (afterDeselect fx (some p)))
      | none => "bad-op"
    | _, _ => "bad-op"
  | ["gb", fx, h] => match flag? fx with
    | some fx => if h = "none" then showPy showCfg (activateGb fx none) else
      (match parseHex h with | some g => showPy showCfg (activateGb fx (some g)) | none => "bad-op")
    | none => "bad-op"
  | ["pdu", h] => match parseHex h with
    | some d => showPy Pdu.Pdu.text (Pdu.Impl.decode d) | none => "bad-op"
  | ["t3", fx, ids, st, cmd] => match flag? fx, parseHex ids, parseHex st, parseHex cmd with
    | some fx, some ids, some st, some cmd => t3Raw fx ids st cmd | _, _, _, _ => "bad-op"
  | ["sap", fl, addr, name, socks, h] =>
    match fl.toList, addr.toNat?, (socks.splitOn ",").mapM parseSock, parseHex h with
    | [a, b], some addr, some socks, some d =>
      sapCmd ⟨a = '1', b = '1'⟩ addr (if name = "-" then none else parseHex name) socks d
    | _, _, _, _ => "bad-op"
  | ["flow", site, n] => match excOfName n with
    | some e => flowCmd site e | none => "bad-op"
  | ["table"] => tableText
  | _ => "bad-op"

def main : IO Unit := runDriver handle
