import NfcVerif.Model.PduObj
open NfcVerif NfcVerif.Pdu

/-- requests: `dec <hex>` | `decat <hex> <off> <size>` | `spec <hex>` | `enc <pdu>` | `len <pdu>` |
`seq <pdu> ;; <op> ;; <op> ...` (operations on one PDU object, `NfcVerif.Pdu.Obj`) |
`frmr <flags> <vs> <vsa> <vr> <vra> <pdu>` (`FrameReject.from_pdu`) -/
def handle (line : String) : String :=
  if line.startsWith "seq " then Obj.handleSeq (line.drop 4).toString else
  if line.startsWith "frmr " then Obj.handleFrmr (line.drop 5).toString else
  match line.splitOn " " with
  | ["dec", h] => match parseHex h with
    | some d => showPy Pdu.text (Impl.decode d) | none => "bad-op"
  | ["decat", h, o, s] => match parseHex h, o.toNat?, s.toNat? with
    | some d, some o, some s => showPy Pdu.text (Impl.decodeAt d o s) | _, _, _ => "bad-op"
  | ["spec", h] => match parseHex h with
    | some d => (match Spec.decode d with
      | some p => "ok " ++ p.text | none => "exc DecodeError")
    | none => "bad-op"
  | "enc" :: rest => match Pdu.parse (" ".intercalate rest) with
    | some p => showPy toHex (Impl.encode p) | none => "bad-op"
  | "len" :: rest => match Pdu.parse (" ".intercalate rest) with
    | some p => s!"ok {Impl.len p}" | none => "bad-op"
  | _ => "bad-op"

def main : IO Unit := runDriver handle
