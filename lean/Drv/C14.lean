import NfcVerif.Model.HostFrame
import NfcVerif.Model.Crc
open NfcVerif NfcVerif.HostFrame

def bv (l : Bytes) : List (BitVec 8) := l.map (BitVec.ofNat 8)
def unbv (l : List (BitVec 8)) : Bytes := l.map BitVec.toNat
def showB : Py Bool → String := showPy (fun b => if b then "true" else "false")

def handle (line : String) : String :=
  match line.splitOn " " with
  | ["pn.build", c, h] => match c.toNat?, parseHex h with
    | some c, some d => "ok " ++ toHex (pnBuild c d) | _, _ => "bad-op"
  | ["pn.accept", c, h] => match c.toNat?, parseHex h with
    | some c, some d => showPy toHex (pnAccept c d) | _, _ => "bad-op"
  | ["acr.build", c, h] => match c.toNat?, parseHex h with
    | some c, some d => showPy toHex (acrBuild c d) | _, _ => "bad-op"
  | ["acr.accept", c, h] => match c.toNat?, parseHex h with
    | some c, some d => showPy toHex (acrAccept c d) | _, _ => "bad-op"
  | ["rcs.build", h] => match parseHex h with
    | some d => "ok " ++ toHex (rcsBuild d) | _ => "bad-op"
  | ["crc.adda", h] => match parseHex h with
    | some d => "ok " ++ toHex (unbv (Crc.addCrcA (bv d))) | _ => "bad-op"
  | ["crc.addb", h] => match parseHex h with
    | some d => "ok " ++ toHex (unbv (Crc.addCrcB (bv d))) | _ => "bad-op"
  | ["crc.checka", h] => match parseHex h with
    | some d => showB (Crc.checkCrcA (bv d)) | _ => "bad-op"
  | ["crc.checkb", h] => match parseHex h with
    | some d => showB (Crc.checkCrcB (bv d)) | _ => "bad-op"
  | ["spec.pn", h] => match parseHex h with
    | some d => (match Spec.parse d with
      | some (t, c, x) => s!"some {t} {c} {toHex x}" | none => "none")
    | _ => "bad-op"
  | _ => "bad-op"

def main : IO Unit := runDriver handle
