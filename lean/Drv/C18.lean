import NfcVerif.Model.Connect
open NfcVerif NfcVerif.Clf

/-! line protocol of the C18 model driver; token syntax in harness/sims/conn_world.py -/

def tailStr (s : String) : String := String.ofList (s.toList.drop 1)
def headCh (s : String) : Char := s.toList.headD ' '

def parseAns (t : String) : Option Ans :=
  match t.splitOn "." with
  | ["F", sens, rid, p2p, atr] =>
    match parseHex sens, parseHex rid, atr.toNat? with
    | some s, some r, some a => some (.found { sens := s, rid := r, p2p := p2p == "1", atrLen := a })
    | _, _, _ => none
  | ["F", sens, rid, p2p, atr, var] =>
    match parseHex sens, parseHex rid, atr.toNat?, var.toNat? with
    | some s, some r, some a, some v => some (.found { sens := s, rid := r, p2p := p2p == "1", atrLen := a, var := v })
    | _, _, _, _ => none
  | ["0"] => some .nothing | ["c"] => some .commErr | ["k"] => some .brokenLink
  | ["T"] => some .transErr | ["P"] => some .protoErr
  | ["u"] => some .unsupported | ["i"] => some .ioError | ["K"] => some .kbd
  | ["X"] => some .sysExit | ["L"] => some .listenErr
  | [p] => if headCh p == 'p' then (tailStr p).toNat?.map Ans.polls
           -- the real run loop under the traffic `bits` (one per exchange the peer answers): `runLoop bits`,
           -- which is `polls (bits.length + 1)` (theorem runLoop_eq)
           else if headCh p == 'r' then ((tailStr p).toList.mapM (fun c =>
             if c == '1' then some true else if c == '0' then some false else none)).map
               (fun (l : List Bool) => Ans.polls (l.length + 1))
           else none
  | _ => none

def parseList {α} (f : String → Option α) (t : String) : Option (List α) :=
  if t == "-" then some [] else (t.splitOn ",").mapM f

def parseTgt (t : String) : Option TgtSpec :=
  match headCh t with
  | 'a' => if t == "a" then some (.a 0) else (tailStr t).toNat?.map TgtSpec.a
  | 'b' => some .b | 'f' => some .f
  | 'd' => (tailStr t).toNat?.map TgtSpec.dep
  | 'x' => some .unknown | 'n' => some .notTarget
  | _ => none

def parseLt (t : String) : Option LtSpec :=
  match t with
  | "d" => some .dep | "a" => some .a | "b" => some .b | "f" => some .f | "x" => some .other | _ => none

def parseTs (t : String) : Option (List Bool) :=
  if t == "-" then some [] else t.toList.mapM (fun c => if c == '1' then some true else if c == '0' then some false else none)

def parseCb (t : String) : Option Cb :=
  if t == "-" then some .absent else t.toNat?.bind (fun n => (Val.ofCode n).map Cb.ret)

/-- on-startup codes per role (see ConnSpec in conn_world.py) -/
def parseStartup (r : Role) (t : String) : Option (Option (StartRes × Nat)) :=
  if t == "-" then some none else
  match r, t.toNat? with
  | .rdwr, some 0 => some (some (.proper, 0)) | .rdwr, some 1 => some (some (.falsy, 1))
  | .rdwr, some 2 => some (some (.wrongType, 2)) | .rdwr, some 3 => some (some (.nonIterable, 3))
  | .rdwr, some 4 => some (some (.falsy, 4)) | .rdwr, some 5 => some (some (.proper, 5))
  | .llcp, some 0 => some (some (.proper, 0)) | .llcp, some 1 => some (some (.falsy, 1))
  | .llcp, some 2 => some (some (.wrongType, 2))
  | .card, some 0 => some (some (.proper, 0)) | .card, some 1 => some (some (.falsy, 1))
  | .card, some 2 => some (some (.wrongType, 2)) | .card, some 3 => some (some (.proper, 3))
  | _, _ => none

def parseRdwr (t : String) : Option (Option RdwrOpts) :=
  if t == "-" then some none else
  match t.splitOn ";" with
  | [su, tg, di, co, re, it, bp] =>
    match parseStartup .rdwr su, parseList parseTgt tg, parseCb di, parseCb co, parseCb re, it.toInt? with
    | some su, some tg, some di, some co, some re, some it => some (some ⟨su, tg, di, co, re, it, bp == "1"⟩)
    | _, _, _, _, _, _ => none
  | _ => none

def parseLlcp (t : String) : Option (Option LlcpOpts) :=
  if t == "-" then some none else
  match t.splitOn ";" with
  | [su, co, re, role] =>
    let ro : Option RoleOpt := match role with
      | "-" => some .both | "t" => some .target | "i" => some .initiator | "x" => some .invalid | _ => none
    match parseStartup .llcp su, parseCb co, parseCb re, ro with
    | some su, some co, some re, some ro => some (some ⟨su, co, re, ro⟩)
    | _, _, _, _ => none
  | _ => none

def parseCard (t : String) : Option (Option CardOpts) :=
  if t == "-" then some none else
  match t.splitOn ";" with
  | [su, kind, di, co, re] =>
    match parseStartup .card su, parseLt kind, parseCb di, parseCb co, parseCb re with
    | some su, some k, some di, some co, some re => some (some ⟨su, k, di, co, re⟩)
    | _, _, _, _, _ => none
  | _ => none

def showSite : Site → String
  | .mute => "mute" | .senseA => "sA" | .senseB => "sB" | .senseF => "sF" | .senseDep => "sD"
  | .listenA => "lA" | .listenB => "lB" | .listenF => "lF" | .listenDep => "lD"
  | .ledOn => "on" | .ledOff => "off"
  | .cmdRsp id => s!"xr:{id}" | .rspCmd id => s!"xl:{id}"
  | .activate => "act" | .emulate => "emu"
  | .llcActivate i => if i then "la:i" else "la:t"
  | .llcRun => "run"

def showRole : Role → String | .rdwr => "rdwr" | .llcp => "llcp" | .card => "card"
def showKind : CbKind → String
  | .startup => "startup" | .discover => "discover" | .connect => "connect" | .release => "release"

def showEv : Ev → String
  | .call s _ => showSite s
  | .sleep => "sleep"
  | .term b => if b then "t1" else "t0"
  | .cb r k c d => (if d then "cb*:" else "cb:") ++ showRole r ++ ":" ++ showKind k ++ s!":{c}"

def showLog (l : List Ev) : String := if l.isEmpty then "-" else " ".intercalate (l.map showEv)

def showTgt : Tgt → String
  | .none => "none" | .remote id => s!"r{id}" | .loc id => s!"l{id}"

def showFound (remote : Bool) : Py (Option (Nat × Found)) → String
  | .ok none => "ok none"
  | .ok (some (id, _)) => (if remote then "ok r" else "ok l") ++ toString id
  | .error e => "exc " ++ e.name

def showXchg : Py (Option Bytes) → String
  | .ok none => "ok none" | .ok (some _) => "ok data" | .error e => "exc " ++ e.name

def showRet : RetVal → String
  | .none => "ok None"
  | .obj r => "ok obj:" ++ showRole r
  | .val _ v => s!"ok val:{v.code}"

def showOutcome : Outcome → String
  | .ret v => showRet v
  | .caught _ => "ok False"
  | .raised e => "exc " ++ e.name

def parseOp (t : String) : Option Op :=
  match t.splitOn ":" with
  | ["S", tg, it] => match parseList parseTgt tg, it.toInt? with
    | some tg, some it => some (.sense tg it) | _, _ => none
  | ["L", k] => (parseLt k).map Op.listen
  | ["X"] => some .exchange
  | _ => none

/-- run a history, printing the result of every operation and the target afterwards -/
def runOpsShow : List Op → St → List String → List String × St
  | [], s, acc => (acc.reverse, s)
  | o :: rest, s, acc =>
    let (txt, s1) := match o with
      | .sense tl it => let r := sense tl it s; (showFound true r.1, r.2)
      | .listen t => let r := listen t s; (showFound false r.1, r.2)
      | .exchange => let r := exchange s; (showXchg r.1, r.2)
    runOpsShow rest s1 ((txt ++ " T:" ++ showTgt s1.target) :: acc)

def handle (line : String) : String :=
  match line.splitOn " " with
  | ["ops", env, ops] =>
    match parseList parseAns env, (ops.splitOn "/").mapM parseOp with
    | some env, some ops =>
      let (res, s) := runOpsShow ops (St.init env) []
      showLog s.log ++ " | " ++ " / ".intercalate res
    | _, _ => "bad-op"
  | ["connect", r, l, c, ts, env] =>
    match parseRdwr r, parseLlcp l, parseCard c, parseTs ts, parseList parseAns env with
    | some r, some l, some c, some ts, some env =>
      let (out, s) := connect ⟨r, l, c⟩ env ts
      showLog s.log ++ " | " ++ showOutcome out
    | _, _, _, _, _ => "bad-op"
  | ["versionmap"] => ",".intercalate (versionMap.map toHex)
  | _ => "bad-op"

def main : IO Unit := runDriver handle
