import NfcVerif.Model.Tlv
import NfcVerif.Model.T1Format
open NfcVerif NfcVerif.Tlv

/-! line-protocol driver for the Type 1 / Type 2 Tag model (checks C01, C02, C03) -/

def cfgOf (k : String) : Option Cfg :=
  if k = "t2" then some t2Cfg else if k = "t1s" then some (t1Cfg 1) else if k = "t1d" then some (t1Cfg 8) else none

/-- canonical form of a skip set: sorted disjoint maximal ranges -/
def insRange (r : Nat × Nat) : List (Nat × Nat) → List (Nat × Nat)
  | [] => [r]
  | x :: xs => if r.1 ≤ x.1 then r :: x :: xs else x :: insRange r xs

def mergeRanges : List (Nat × Nat) → List (Nat × Nat)
  | [] => []
  | [x] => [x]
  | x :: y :: rest => if y.1 ≤ x.2 then mergeRanges ((x.1, max x.2 y.2) :: rest) else x :: mergeRanges (y :: rest)
termination_by l => l.length

def canonSkip (s : Skip) : String :=
  let rs := mergeRanges ((s.filter fun r => r.1 < r.2).foldr insRange [])
  if rs.isEmpty then "-" else ",".intercalate (rs.map fun r => s!"{r.1}-{r.2}")

def showCmds (cs : List Cmd) : String :=
  if cs.isEmpty then "-" else ",".intercalate (cs.map fun c => s!"{c.1}:{toHex c.2}")

def showUnit : Py Unit → String
  | .ok _ => "ok"
  | .error e => "exc " ++ e.name

def showRead (c : Cfg) (m : Bytes) : String :=
  match readNdef c m with
  | .error e => "exc " ++ e.name
  | .ok none => "none"
  | .ok (some L) =>
    s!"L {L.off} {L.cap} {if L.readable then 1 else 0} {if L.writeable then 1 else 0} {L.areaEnd} {canonSkip L.skip} {toHex L.ndef}"

/-- what a fresh reader sees, relative to the old and the new message -/
def classify (c : Cfg) (old new : Bytes) (img : Bytes) : String :=
  match readNdef c img with
  | .error e => "X" ++ e.name
  | .ok none => "N"
  | .ok (some L) =>
    if ¬ L.readable then "U"
    else if L.ndef = old then "O"
    else if L.ndef = [] then "E"
    else if L.ndef = new then "W"
    else s!"C{L.ndef.length}"

def cutClasses (c : Cfg) (old new : Bytes) (m : Bytes) (cmds : List Cmd) : List String :=
  let rec go (img : Bytes) : List Cmd → List String
    | [] => [classify c old new img]
    | x :: xs => classify c old new img :: go (writeAt img x.1 x.2) xs
  go m cmds

def doWrite (c : Cfg) (m data : Bytes) (cuts : Bool) : String :=
  match readNdef c m with
  | .error e => "exc " ++ e.name
  | .ok none => "none"
  | .ok (some L) =>
    let out := setOctets c m L data
    let fin := apply m out.cmds
    let base := s!"{showRead c m} | {showUnit out.res} | {showCmds out.cmds} | {showRead c fin}"
    if cuts then base ++ " | " ++ " ".intercalate (cutClasses c L.ndef data m out.cmds) else base

def doFormat (m : Bytes) (wipe : Option Nat) : String :=
  match readNdef t2Cfg m with
  | .error e => "exc " ++ e.name
  | .ok none => "false"
  | .ok (some L) =>
    if ¬ L.writeable then "false" else
    match formatT2 m L wipe with
    | .error e => "exc " ++ e.name
    | .ok m' =>
      let cmds := diffUnits 4 m m'
      s!"true | {showCmds cmds} | {showRead t2Cfg (apply m cmds)}"

/-- Topaz (`t1s`) / Topaz-512 (`t1d`) format -/
def doFormatT1 (k : String) (m : Bytes) (wipe : Option Nat) : String :=
  let r := if k = "t1s" then formatTopaz m wipe else formatTopaz512 m wipe
  let c := if k = "t1s" then t1Cfg 1 else t1Cfg 8
  match r with
  | .error e => "exc " ++ e.name
  | .ok m' =>
    let cmds := diffUnits c.unit m m'
    s!"true | {showCmds cmds} | {showRead c (apply m cmds)}"

/-- lost command `k` during the write of `d1`, then `d2` written on the same object, cut after `j` commands -/
def doRetry (c : Cfg) (m d1 : Bytes) (k : Nat) (d2 : Bytes) (j : Option Nat) : String :=
  match readNdef c m with
  | .ok (some L) =>
    if ¬ L.writeable ∨ (d1.length : Int) > L.cap ∨ (d2.length : Int) > L.cap then "nofail" else
    match failedWrite c m L d1 k with
    | none => "nofail"
    | some (T, C) =>
      let out := writeCmdsFrom c T C L d2
      let cmds := match j with | some j => out.cmds.take j | none => out.cmds
      s!"{showRead c T} | {showCmds cmds} | {showRead c (apply T cmds)}"
  | _ => "nofail"

def handle (line : String) : String :=
  match line.splitOn " " with
  | ["r", k, mh] => match cfgOf k, parseHex mh with
    | some c, some m => showRead c m | _, _ => "bad-op"
  | ["w", k, mh, dh, cu] => match cfgOf k, parseHex mh, parseHex dh with
    | some c, some m, some d => doWrite c m d (cu = "1") | _, _, _ => "bad-op"
  | ["rt", k, mh, d1, kk, d2, jj] => match cfgOf k, parseHex mh, parseHex d1, kk.toNat?, parseHex d2, jj.toInt? with
    | some c, some m, some d1, some kk, some d2, some jj =>
      doRetry c m d1 kk d2 (if jj < 0 then none else some jj.toNat)
    | _, _, _, _, _, _ => "bad-op"
  | ["wf", k, mh, n] => match cfgOf k, parseHex mh, n.toNat? with
    | some c, some m, some n => (match readNdef c m with
      | .ok (some L) => if decide (WF c m L) && decide (Hdr3 L n) then "1" else "0"
      | _ => "0")
    | _, _, _ => "bad-op"
  | ["ft1", k, mh, w] => match parseHex mh, w.toInt? with
    | some m, some w => doFormatT1 k m (if w < 0 then none else some w.toNat) | _, _ => "bad-op"
  | ["f", mh, w] => match parseHex mh, w.toInt? with
    | some m, some w => doFormat m (if w < 0 then none else some w.toNat) | _, _ => "bad-op"
  | _ => "bad-op"

def main : IO Unit := runDriver handle
