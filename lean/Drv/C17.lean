import NfcVerif.Model.SapLink
open NfcVerif NfcVerif.Sap

/-! line protocol: one history per line, operations separated by `;`,
reply = outcomes separated by `;` (see harness/props/c17.py) -/

def optNat : Option Nat → String
  | some n => toString n
  | none => "None"

def showPdu : Pdu → String
  | .ui d s m => s!"UI.{d}.{s}.{toHex m}"
  | .conn d s sn => s!"CONNECT.{d}.{s}." ++ (match sn with | some n => toHex n | none => "None")
  | .cc d s => s!"CC.{d}.{s}"
  | .dm d s r => s!"DM.{d}.{s}.{r}"
  | .disc d s => s!"DISC.{d}.{s}"
  | .frmr d s t => s!"FRMR.{d}.{s}.{t}"
  | .snl rq rs =>
    "SNL.[" ++ ",".intercalate (rq.map fun q => s!"{q.1}:{toHex q.2}") ++ "].["
      ++ ",".intercalate (rs.map fun q => s!"{q.1}:{q.2}") ++ "]"

def showOut : Out → String
  | .unit => "ok"
  | .addr a => "ok " ++ optNat a
  | .sock id a p => s!"ok sock {id} {optNat a} {optNat p}"
  | .bool b => if b then "ok true" else "ok false"
  | .data d src => "ok data " ++ (match d with | some m => toHex m | none => "None") ++ " " ++ optNat src
  | .pdu q => "ok pdu " ++ showPdu q
  | .num n => s!"ok {n}"
  | .nums l => "ok [" ++ ",".intercalate (l.map toString) ++ "]"

def showWire (w : List (Side × Pdu)) : String :=
  " ".intercalate (w.reverse.map fun q => (if q.1 then "B>" else "A>") ++ showPdu q.2)

def kindName : Kind → String | .raw => "raw" | .ldl => "ldl" | .dlc => "dlc"
def stName : St → String
  | .shutdown => "SHUTDOWN" | .closed => "CLOSED" | .listen => "LISTEN" | .connect => "CONNECT"
  | .established => "ESTABLISHED" | .disconnect => "DISCONNECT" | .closeWait => "CLOSE_WAIT"

def dumpLlc (c : Llc) : String :=
  let saps := (List.range 64).filterMap fun a =>
    (c.sap a).map fun e => s!"{a}:" ++ "/".intercalate (e.socks.map toString) ++ s!":{e.sendl.length}"
  let names := c.snl.map fun q => s!"{toHex q.1}={q.2}"
  let socks := (List.range c.n).map fun id =>
    let s := c.sock id
    s!"{id}:{kindName s.kind}:{stName s.st}:{optNat s.addr}:{optNat s.peer}:{s.recvq.length}:{s.sendq.length}:{s.recvBuf}"
  let cache := c.sd.cache.map fun q => s!"{toHex q.1}={q.2}"
  "saps=" ++ ",".intercalate saps ++ " snl=" ++ ",".intercalate names ++ " socks=" ++ ",".intercalate socks
    ++ " cache=" ++ ",".intercalate cache
    ++ s!" sd={c.sd.tids.length}:{c.sd.sent.length}:{c.sd.sdreq.length}:{c.sd.sdres.length}:{c.sd.dmpdu.length}"
    ++ " tids=" ++ ".".intercalate ((c.sd.tids.take 3).map toString) ++ "/"
    ++ ".".intercalate (((c.sd.tids.reverse.take 3).reverse).map toString)
    ++ " sent=" ++ ",".intercalate (c.sd.sent.map fun q => s!"{q.1}:{toHex q.2}")
    ++ " sdreq=" ++ ",".intercalate (c.sd.sdreq.map fun q => s!"{q.1}:{toHex q.2}")
    ++ " sdres=" ++ ",".intercalate (c.sd.sdres.map fun q => s!"{q.1}:{q.2}")

def side? : String → Option Side
  | "A" => some false
  | "B" => some true
  | _ => none

def kind? : String → Option Kind
  | "raw" => some .raw | "ldl" => some .ldl | "dlc" => some .dlc | _ => none

/-- `a,b,c` (or `.` for the empty list), every element parsed by `f` -/
def parseList {α : Type} (f : String → Option α) (s : String) : Option (List α) :=
  if s = "." then some [] else (s.splitOn ",").mapM f

/-- `tid:hex` -/
def parseReq (s : String) : Option (Nat × Bytes) :=
  match s.splitOn ":" with
  | [t, h] => do let t ← t.toNat?; let nm ← parseHex h; if t < 256 ∧ nm.length < 255 then pure (t, nm) else none
  | _ => none

/-- `tid:sap` -/
def parseRes (s : String) : Option (Nat × Nat) :=
  match s.splitOn ":" with
  | [t, a] => do let t ← t.toNat?; let a ← a.toNat?; if t < 256 ∧ a < 256 then pure (t, a) else none
  | _ => none

def parseOp (p : Pair) (toks : List String) : Option Op :=
  let okId (x : Side) (id : Nat) : Bool := id < (p.get x).n
  match toks with
  | ["S", x, k] => do let x ← side? x; let k ← kind? k; pure (.socket x k)
  | ["B", x, id, "-"] => do
    let x ← side? x; let id ← id.toNat?; if okId x id then pure (.bind x id .none) else none
  | ["B", x, id, "a", a] => do
    let x ← side? x; let id ← id.toNat?; let a ← a.toInt?
    if okId x id then pure (.bind x id (.addr a)) else none
  | ["B", x, id, "n", h] => do
    let x ← side? x; let id ← id.toNat?; let nm ← parseHex h
    if okId x id then pure (.bind x id (.name nm)) else none
  | ["L", x, id, bl] => do
    let x ← side? x; let id ← id.toNat?; let bl ← bl.toNat?
    if okId x id then pure (.listen x id bl) else none
  | ["C", x, id, "a", a] => do
    let x ← side? x; let id ← id.toNat?; let a ← a.toNat?
    if okId x id ∧ a < 64 then pure (.connect x id (.addr a)) else none
  | ["C", x, id, "n", h] => do
    let x ← side? x; let id ← id.toNat?; let nm ← parseHex h
    if okId x id then pure (.connect x id (.name nm)) else none
  | ["A", x, id] => do
    let x ← side? x; let id ← id.toNat?; if okId x id then pure (.accept x id) else none
  | ["T", x, id, h, d] => do
    let x ← side? x; let id ← id.toNat?; let m ← parseHex h; let d ← d.toNat?
    if okId x id ∧ d < 64 then pure (.sendto x id m d) else none
  | ["P", x, id, d, s, h] => do
    let x ← side? x; let id ← id.toNat?; let d ← d.toNat?; let s ← s.toNat?; let m ← parseHex h
    if okId x id ∧ d < 64 ∧ s < 64 then pure (.sendpdu x id d s m) else none
  | ["R", x, id] => do
    let x ← side? x; let id ← id.toNat?; if okId x id then pure (.recvfrom x id) else none
  | ["Q", x, h] => do let x ← side? x; let nm ← parseHex h; pure (.resolve x nm)
  | ["X", x, id] => do
    let x ← side? x; let id ← id.toNat?; if okId x id then pure (.close x id) else none
  | ["M", x] => do let x ← side? x; pure (.xfer x)
  | ["QQ", x, l] => do let x ← side? x; let nms ← parseList parseHex l; pure (.resolveMany x nms)
  | ["N", x, id, rq, rs] => do
    let x ← side? x; let id ← id.toNat?; let rq ← parseList parseReq rq; let rs ← parseList parseRes rs
    if okId x id then pure (.sendsnl x id rq rs) else none
  | _ => none

def showRes : Py Out → String
  | .ok o => showOut o
  | .error e => "exc " ++ e.name

/-- `K x id a|n dest lid`: connect while the peer accepts on its socket `lid` -/
def parseServed (p : Pair) (toks : List String) : Option (Side × Nat × Dest × Nat) :=
  match toks with
  | ["K", x, id, "a", a, lid] => do
    let x ← side? x; let id ← id.toNat?; let a ← a.toNat?; let lid ← lid.toNat?
    if id < (p.get x).n ∧ lid < (p.get (!x)).n ∧ a < 64 then pure (x, id, .addr a, lid) else none
  | ["K", x, id, "n", h, lid] => do
    let x ← side? x; let id ← id.toNat?; let nm ← parseHex h; let lid ← lid.toNat?
    if id < (p.get x).n ∧ lid < (p.get (!x)).n then pure (x, id, .name nm, lid) else none
  | _ => none

def runOps : Pair → List String → List String → List String
  | _, [], acc => acc.reverse
  | p, o :: rest, acc =>
    if o = "D" then runOps p rest (("A{" ++ dumpLlc p.a ++ "} B{" ++ dumpLlc p.b ++ "}") :: acc) else
    if o.startsWith "K " then
      match parseServed p (o.splitOn " ") with
      | none => runOps p rest ("bad-op" :: acc)
      | some (x, id, dest, lid) =>
        match apiConnectServed { p with wire := [] } x id dest lid with
        | .error _ => (("abort" :: acc).reverse) ++ rest.map (fun _ => "skip")
        | .ok (p1, r, a) =>
          let res := showRes r ++ " & " ++ (match a with | some q => showRes q | none => "-")
          let w := showWire p1.wire
          runOps p1 rest ((if w = "" then res else res ++ " | " ++ w) :: acc)
    else
    match parseOp p (o.splitOn " ") with
    | none => runOps p rest ("bad-op" :: acc)
    | some op =>
      match apply { p with wire := [] } op with
      | .error _ => (("abort" :: acc).reverse) ++ rest.map (fun _ => "skip")
      | .ok (p1, r) =>
        let res := match r with
          | .ok o => showOut o
          | .error e => "exc " ++ e.name
        let w := showWire p1.wire
        runOps p1 rest ((if w = "" then res else res ++ " | " ++ w) :: acc)

def handle (line : String) : String :=
  match line.splitOn " " with
  | ["name", h] => (match parseHex h with
    | some nm => (if validName nm then "ok true" else "ok false") ++ " " ++ optNat (wks nm)
    | none => "bad-op")
  | _ => ";".intercalate (runOps Pair.init (line.splitOn ";") [])

def main : IO Unit := runDriver handle
