import NfcVerif.Model.DlcLlc
open NfcVerif NfcVerif.Dlc

/-- driver state: the modelled system plus the link configuration and frame boundaries -/
structure D where
  s : Sys
  link : Nat
  agf : Bool
  fab : List Nat      -- PDUs per frame in flight A -> B
  fba : List Nat

def showSt : St → String
  | .shutdown => "SHUTDOWN" | .established => "ESTABLISHED" | .disconnect => "DISCONNECT" | .closeWait => "CLOSE_WAIT"

def b01 (b : Bool) : String := if b then "1" else "0"

def showPdu : Pdu → String
  | .i ns nr d => s!"I:{ns}:{nr}:{toHex d}"
  | .iNone ns d => s!"I:{ns}:None:{toHex d}"
  | .rr nr => s!"RR:{nr}"
  | .rnr nr => s!"RNR:{nr}"
  | .disc => "DISC"
  | .dm r => s!"DM:{r}"
  | .frmr f t ns nr vs vr vsa vra => s!"FRMR:{f}:{t}:{ns}:{nr}:{vs}:{vr}:{vsa}:{vra}"

def showOut : Out → String
  | .i ns _ => s!"I{ns}" | .disc => "DISC" | .dm r => s!"DM{r}" | .frmr .. => "FRMR"

def showRq : Rq → String
  | .msg d => s!"M{d.length}" | .disc => "DISC" | .dm => "DM"

def showEp (e : Ep) : String :=
  s!"{showSt e.st},{b01 e.bound},{e.vs},{e.vsa},{e.vr},{e.vra},{e.confs},{e.acks},{b01 e.busy}{b01 e.busySent}{b01 e.sendBusy}," ++
  "sq=" ++ ";".intercalate (e.sq.map showOut) ++ ",rq=" ++ ";".intercalate (e.rq.map showRq)

def digest (d : D) : String :=
  s!"A:{showEp d.s.a} B:{showEp d.s.b} w={d.s.wab.length}/{d.s.wba.length}"

def showRes : Res → String
  | .ok => "ok"
  | .data d => "ok " ++ toHex d
  | .none => "none"
  | .bool b => if b then "true" else "false"
  | .blocked => "blocked"
  | .exc e => "exc " ++ e.name
  | .pdu none => "none"
  | .pdu (some p) => showPdu p
  | .pending => "pending" | .done => "done" | .skip => "skip"

def parseSide : String → Option Side
  | "A" => some .A | "B" => some .B | _ => none

def pushFrame (d : D) (x : Side) (n : Nat) : D :=
  if n = 0 then d else match x with
    | .A => { d with fab := d.fab ++ [n] }
    | .B => { d with fba := d.fba ++ [n] }

def micro (d : D) (x : Side) (op : Op) : D × String :=
  let r := step d.s x op
  let d' := { d with s := r.1 }
  match op with
  | .deq _ | .ack => (pushFrame d' x (if r.2.toPdu.isSome then 1 else 0), showRes r.2)
  | _ => (d', showRes r.2)

def handle (d : D) (line : String) : D × String :=
  match line.splitOn " " with
  | ["init", a1, a2, a3, a4, b1, b2, b3, b4, l, g] =>
    match a1.toNat?, a2.toNat?, a3.toNat?, a4.toNat?, b1.toNat?, b2.toNat?, b3.toNat?, b4.toNat?, l.toNat? with
    | some a1, some a2, some a3, some a4, some b1, some b2, some b3, some b4, some l =>
      ({ s := init ⟨a1, a2, a3, a4, b1, b2, b3, b4⟩, link := l, agf := g = "1", fab := [], fba := [] }, "ok")
    | _, _, _, _, _, _, _, _, _ => (d, "bad-op")
  | ["send", x, h] => match parseSide x, parseHex h with
    | some x, some m => micro d x (.send m) | _, _ => (d, "bad-op")
  | ["recv", x] => match parseSide x with
    | some x => micro d x .recv | _ => (d, "bad-op")
  | ["busy", x, b] => match parseSide x with
    | some x => micro d x (.busy (b = "1")) | _ => (d, "bad-op")
  | ["poll", x, k] => match parseSide x with
    | some x => (match k with
      | "recv" => micro d x (.poll .recv) | "send" => micro d x (.poll .send)
      | "acks" => micro d x (.poll .acks) | _ => (d, "bad-op"))
    | _ => (d, "bad-op")
  | ["close", x] => match parseSide x with
    | some x => micro d x .close | _ => (d, "bad-op")
  | ["closefin", x] => match parseSide x with
    | some x => micro d x .closeFin | _ => (d, "bad-op")
  | ["deq", x, b] => match parseSide x, b.toInt? with
    | some x, some b => micro d x (.deq b) | _, _ => (d, "bad-op")
  | ["ack", x] => match parseSide x with
    | some x => micro d x .ack | _ => (d, "bad-op")
  | ["collect", x] => match parseSide x with
    | some x =>
      let r := collect d.s x d.link d.agf 64
      let d' := pushFrame { d with s := r.1 } x r.2.length
      (d', if r.2.isEmpty then "none" else "frame " ++ " ".intercalate (r.2.map showPdu))
    | _ => (d, "bad-op")
  | ["deliver", x] => match parseSide x with
    | some .A => (match d.fba with
      | [] => (d, "empty")
      | n :: rest => ({ d with s := deliverN d.s .A n, fba := rest }, s!"ok {n}"))
    | some .B => (match d.fab with
      | [] => (d, "empty")
      | n :: rest => ({ d with s := deliverN d.s .B n, fab := rest }, s!"ok {n}"))
    | none => (d, "bad-op")
  | _ => (d, "bad-op")

partial def loop (inp out : IO.FS.Stream) (d : D) : IO Unit := do
  let line ← inp.getLine
  if line.isEmpty then
    out.flush
    return ()
  let r := handle d (line.trimAscii.toString)
  out.putStrLn (r.2 ++ " | " ++ digest r.1)
  loop inp out r.1

def main : IO Unit := do
  loop (← IO.getStdin) (← IO.getStdout)
    { s := init ⟨128, 128, 1, 1, 128, 128, 1, 1⟩, link := 128, agf := false, fab := [], fba := [] }
