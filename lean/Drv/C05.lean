import NfcVerif.Model.DlcSap
open NfcVerif NfcVerif.Dlc

/-- driver state: the modelled system plus the link configuration and frame boundaries -/
structure D where
  s : Sys
  link : Nat
  agf : Bool
  fab : List Nat      -- PDUs per frame in flight A -> B
  fba : List Nat

def showSt : St → String
  | .shutdown => "SHUTDOWN" | .established => "ESTABLISHED" | .disconnect => "DISCONNECT" | .closeWait => "CLOSE_WAIT"

def b01 (b : Bool) : String := if b then "1" else "0"

def showPdu : Pdu → String
  | .i ns nr d => s!"I:{ns}:{nr}:{toHex d}"
  | .iNone ns d => s!"I:{ns}:None:{toHex d}"
  | .rr nr => s!"RR:{nr}"
  | .rnr nr => s!"RNR:{nr}"
  | .disc => "DISC"
  | .dm r => s!"DM:{r}"
  | .frmr f t ns nr vs vr vsa vra => s!"FRMR:{f}:{t}:{ns}:{nr}:{vs}:{vr}:{vsa}:{vra}"

def showOut : Out → String
  | .i ns _ => s!"I{ns}" | .disc => "DISC" | .dm r => s!"DM{r}" | .frmr .. => "FRMR"

def showRq : Rq → String
  | .msg d => s!"M{d.length}" | .disc => "DISC" | .dm => "DM"

def showEp (e : Ep) : String :=
  s!"{showSt e.st},{b01 e.bound},{e.vs},{e.vsa},{e.vr},{e.vra},{e.confs},{e.acks},{b01 e.busy}{b01 e.busySent}{b01 e.sendBusy}," ++
  "sq=" ++ ";".intercalate (e.sq.map showOut) ++ ",rq=" ++ ";".intercalate (e.rq.map showRq)

def digest (d : D) : String :=
  s!"A:{showEp d.s.a} B:{showEp d.s.b} w={d.s.wab.length}/{d.s.wba.length}"

def showRes : Res → String
  | .ok => "ok"
  | .data d => "ok " ++ toHex d
  | .none => "none"
  | .bool b => if b then "true" else "false"
  | .blocked => "blocked"
  | .exc e => "exc " ++ e.name
  | .pdu none => "none"
  | .pdu (some p) => showPdu p
  | .pending => "pending" | .done => "done" | .skip => "skip"

def parseSide : String → Option Side
  | "A" => some .A | "B" => some .B | _ => none

def pushFrame (d : D) (x : Side) (n : Nat) : D :=
  if n = 0 then d else match x with
    | .A => { d with fab := d.fab ++ [n] }
    | .B => { d with fba := d.fba ++ [n] }

def micro (d : D) (x : Side) (op : Op) : D × String :=
  let r := step d.s x op
  let d' := { d with s := r.1 }
  match op with
  | .deq _ | .ack => (pushFrame d' x (if r.2.toPdu.isSome then 1 else 0), showRes r.2)
  | _ => (d', showRes r.2)

def handle (d : D) (line : String) : D × String :=
  match line.splitOn " " with
  | ["init", a1, a2, a3, a4, b1, b2, b3, b4, l, g] =>
    match a1.toNat?, a2.toNat?, a3.toNat?, a4.toNat?, b1.toNat?, b2.toNat?, b3.toNat?, b4.toNat?, l.toNat? with
    | some a1, some a2, some a3, some a4, some b1, some b2, some b3, some b4, some l =>
      ({ s := init ⟨a1, a2, a3, a4, b1, b2, b3, b4⟩, link := l, agf := g = "1", fab := [], fba := [] }, "ok")
    | _, _, _, _, _, _, _, _, _ => (d, "bad-op")
  | ["send", x, h] => match parseSide x, parseHex h with
    | some x, some m => micro d x (.send m) | _, _ => (d, "bad-op")
  | ["recv", x] => match parseSide x with
    | some x => micro d x .recv | _ => (d, "bad-op")
  | ["busy", x, b] => match parseSide x with
    | some x => micro d x (.busy (b = "1")) | _ => (d, "bad-op")
  | ["poll", x, k] => match parseSide x with
    | some x => (match k with
      | "recv" => micro d x (.poll .recv) | "send" => micro d x (.poll .send)
      | "acks" => micro d x (.poll .acks) | _ => (d, "bad-op"))
    | _ => (d, "bad-op")
  | ["close", x] => match parseSide x with
    | some x => micro d x .close | _ => (d, "bad-op")
  | ["closefin", x] => match parseSide x with
    | some x => micro d x .closeFin | _ => (d, "bad-op")
  | ["deq", x, b] => match parseSide x, b.toInt? with
    | some x, some b => micro d x (.deq b) | _, _ => (d, "bad-op")
  | ["ack", x] => match parseSide x with
    | some x => micro d x .ack | _ => (d, "bad-op")
  | ["collect", x] => match parseSide x with
    | some x =>
      let r := collect d.s x d.link d.agf 64
      let d' := pushFrame { d with s := r.1 } x r.2.length
      (d', if r.2.isEmpty then "none" else "frame " ++ " ".intercalate (r.2.map showPdu))
    | _ => (d, "bad-op")
  | ["deliver", x] => match parseSide x with
    | some .A => (match d.fba with
      | [] => (d, "empty")
      | n :: rest => ({ d with s := deliverN d.s .A n, fba := rest }, s!"ok {n}"))
    | some .B => (match d.fab with
      | [] => (d, "empty")
      | n :: rest => ({ d with s := deliverN d.s .B n, fab := rest }, s!"ok {n}"))
    | none => (d, "bad-op")
  | _ => (d, "bad-op")

/-! ## several sockets per access point: two controllers (`Model/DlcSap.lean`), lines start with `N` -/
open NfcVerif.DlcSap in
def showW (w : WPdu) : String :=
  s!"{w.ssap}>{w.dsap}:" ++ (match w.body with
    | .conn miu rw none => s!"CONN:{miu}:{rw}:-"
    | .conn miu rw (some n) => s!"CONN:{miu}:{rw}:n{n}"
    | .cc miu rw => s!"CC:{miu}:{rw}"
    | .dlc p => showPdu p)

open NfcVerif.DlcSap in
def showWName (w : WPdu) : String :=
  match w.body with
  | .conn .. => "CONNECT"
  | .cc .. => "CC"
  | .dlc (.dm r) => s!"DM{r}"
  | .dlc (.i ns _ _) => s!"I{ns}"
  | .dlc (.iNone ns _) => s!"I{ns}"
  | .dlc (.rr _) => "RR" | .dlc (.rnr _) => "RNR" | .dlc .disc => "DISC" | .dlc (.frmr ..) => "FRMR"

def showOpt : Option Nat → String
  | none => "-" | some n => toString n

open NfcVerif.DlcSap in
def showSock (c : Ctl) (s : Sock) : String :=
  let st := match s.cs with
    | .closed => "CLOSED" | .listen => "LISTEN" | .connect => "CONNECT" | .run => showSt s.ep.st
  let e := s.ep
  let m := match s.cs with
    | .run => s!"{e.sendMiu}/{e.recvMiu}/{e.sendWin}/{e.recvWin}"
    | _ => s!"-/{s.rmiu}/-/{s.rwin}/b{s.buf}"
  let sq := s.lq.map showWName ++ (match s.cs with | .run => e.sq.map showOut | _ => [])
  let rq := match s.cs with
    | .run => e.rq.map showRq
    | _ => s.cq.map showWName ++ (match s.ans with | some w => [showWName w] | none => [])
  s!"{s.sid}:{showOpt s.addr}:{showOpt s.peer}:{st}:{b01 (c.listed s.sid)}:m={m}:" ++
  s!"{e.vs},{e.vsa},{e.vr},{e.vra},{e.confs},{e.acks},{b01 e.busy}{b01 e.busySent}{b01 e.sendBusy}," ++
  "sq=" ++ ";".intercalate sq ++ ",rq=" ++ ";".intercalate rq

open NfcVerif.DlcSap in
def showCtl (c : Ctl) : String :=
  let all := (c.saps.flatMap (·.socks)) ++ c.free
  let socks := (List.range c.nsock).filterMap fun i => (all.find? (·.sid == i)).map (showSock c)
  let saps := c.saps.map fun a => s!"{a.addr}=[" ++ ",".intercalate (a.socks.map (toString ·.sid)) ++ s!"]/{a.sendList.length}"
  let names := c.names.map fun na => s!"n{na.1}@{na.2}"
  "{" ++ " ".intercalate socks ++ "}{" ++ " ".intercalate saps ++ "}{" ++ ",".intercalate names ++ "}dm" ++ toString c.dmq.length

open NfcVerif.DlcSap in
def ndigest (n : Net) : String :=
  s!"A{showCtl n.a} B{showCtl n.b} w={(n.wab.map List.length).sum}/{(n.wba.map List.length).sum}"

open NfcVerif.DlcSap in
def showNRes : NRes → String
  | .r x => showRes x
  | .sock n => s!"ok {n}"
  | .refused r => s!"refused {r}"
  | .na => "n/a"

open NfcVerif.DlcSap in
def parseDest (t : String) : Option Dest :=
  if t.startsWith "a" then (t.drop 1).toNat?.map Dest.addr
  else if t.startsWith "n" then (t.drop 1).toNat?.map Dest.name
  else none

def parsePoll : String → Option PollKind
  | "recv" => some .recv | "send" => some .send | "acks" => some .acks | _ => none

open NfcVerif.DlcSap in
def parseCOp : List String → Option COp
  | ["Nsock", rw, miu, to] => match rw.toNat?, miu.toNat?, parseDest to with
    | some rw, some miu, some to => some (.sock rw miu to) | _, _, _ => none
  | ["Nlisten", i, b] => match i.toNat?, b.toNat? with
    | some i, some b => some (.listen i b) | _, _ => none
  | ["Nconnect", i, to] => match i.toNat?, parseDest to with
    | some i, some to => some (.connect i to) | _, _ => none
  | ["Nconnfin", i] => i.toNat?.map .connFin
  | ["Naccept", i] => i.toNat?.map .accept
  | ["Nsend", i, h] => match i.toNat?, parseHex h with
    | some i, some m => some (.send i m) | _, _ => none
  | ["Nrecv", i] => i.toNat?.map .recv
  | ["Nbusy", i, b] => i.toNat?.map (.busy · (b = "1"))
  | ["Npoll", i, k] => match i.toNat?, parsePoll k with
    | some i, some k => some (.poll i k) | _, _ => none
  | ["Nclose", i] => i.toNat?.map .close
  | ["Nclosefin", i] => i.toNat?.map .closeFin
  | ["Nsdeq", a, b] => match a.toNat?, b.toInt? with
    | some a, some b => some (.sdeq a b) | _, _ => none
  | ["Nsack", a] => a.toNat?.map .sack
  | ["Ncollect"] => some .collect
  | _ => none

open NfcVerif.DlcSap in
def nhandle (n : Net) (line : String) : Net × String :=
  match line.splitOn " " with
  | ["Ninit", l, g] => match l.toNat? with
    | some l => (Net.init l (g = "1"), "ok")
    | none => (n, "bad-op")
  | ["Ndeliver", x] => match parseSide x with
    | some x =>
      let k := match x with | .A => n.wba.head?.map List.length | .B => n.wab.head?.map List.length
      let r := n.step (.deliver x)
      (r.1, match k with | some k => s!"ok {k}" | none => "empty")
    | none => (n, "bad-op")
  | tok :: x :: rest => match parseSide x, parseCOp (tok :: rest) with
    | some x, some o =>
      let before := match x with | .A => n.wab.length | .B => n.wba.length
      let r := n.step (.op x o)
      let w := match x with | .A => r.1.wab | .B => r.1.wba
      let res := match o with
        | .sdeq .. | .sack .. | .collect =>
          if w.length > before then "frame " ++ " ".intercalate ((w.getLast?.getD []).map showW) else "none"
        | _ => showNRes r.2
      (r.1, res)
    | _, _ => (n, "bad-op")
  | _ => (n, "bad-op")

structure DS where
  d : D
  n : NfcVerif.DlcSap.Net

partial def loop (inp out : IO.FS.Stream) (st : DS) : IO Unit := do
  let line ← inp.getLine
  if line.isEmpty then
    out.flush
    return ()
  let l := line.trimAscii.toString
  if l.startsWith "N" then
    let r := nhandle st.n l
    out.putStrLn (r.2 ++ " | " ++ ndigest r.1)
    loop inp out { st with n := r.1 }
  else
    let r := handle st.d l
    out.putStrLn (r.2 ++ " | " ++ digest r.1)
    loop inp out { st with d := r.1 }

def main : IO Unit := do
  loop (← IO.getStdin) (← IO.getStdout)
    { d := { s := init ⟨128, 128, 1, 1, 128, 128, 1, 1⟩, link := 128, agf := false, fab := [], fba := [] },
      n := NfcVerif.DlcSap.Net.init 128 false }
