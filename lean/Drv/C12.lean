import NfcVerif.Model.IsoDepV2
open NfcVerif NfcVerif.IsoDep2
open NfcVerif.IsoDep (Card CardCfg World Peer Fault isoPeer encodeApdu)

/-- the application used by the correspondence runs: `rlen` body octets depending on the
command, on the execution number and on the position, followed by the status word -/
def tieApp (rlen : Nat) (sw : Bytes) (n : Nat) (cmd : Bytes) : Bytes :=
  (List.range rlen).map (fun i => (cmd.foldl (· + ·) 0 + 7 * n + 13 * i + cmd.length) % 256) ++ sw

def parseScript (s : String) : Option (List Fault) :=
  if s = "-" then some [] else
  s.toList.mapM fun c =>
    match c with
    | 'd' => some Fault.d | 'l' => some .l | 'c' => some .c | 'p' => some .p | 'e' => some .e
    | _ => none

def hexList (l : List Bytes) : String :=
  if l.isEmpty then "." else ",".intercalate (l.map toHex)

/-- enough for every loop of the repaired initiator (`fuelNeed ≤ 966657` after any activation) -/
def FUEL : Nat := 1000000

def nats (l : List String) : Option (List Nat) := l.mapM String.toNat?

def showState (rs : List String) (pcd : Pcd) (w : World Card) : String :=
  let fl := match pcd.failed with | some e => s!"{e}" | none => "none"
  ";".intercalate rs ++ s!" | {pcd.pni}/{fl} | {hexList w.trace} | {hexList w.card.log} | {w.card.bn}"

/-- run a sequence of exchanges ("N" = presence check) on one world -/
def runSeq (cfg : CardCfg) : List String → Pcd → World Card → List String → Option String
  | [], pcd, w, acc => some (showState acc.reverse pcd w)
  | c :: cs, pcd, w, acc =>
    if c = "N" then
      let r := presence (isoPeer cfg) pcd w
      runSeq cfg cs pcd r.1 (showPy (fun _ => "-") r.2 :: acc)
    else match parseHex c with
      | none => none
      | some cmd =>
        let r := exchange (isoPeer cfg) FUEL pcd cmd w
        runSeq cfg cs r.2.1 r.1 (showPy toHex r.2.2 :: acc)

def mkCfg (p : List Nat) (sw : Bytes) : Option CardCfg :=
  match p with
  | [chunk, wI, wA, wC, wtxm, rlen] =>
    some { chunk := chunk, wtxI := wI, wtxAck := wA, wtxChain := wC, wtxm := wtxm, app := tieApp rlen sw }
  | _ => none

/-- a card that answers from a list, whatever it receives (`none` = mute); mute when the list is used up -/
def scriptPeer : Peer (List (Option Bytes)) := ⟨fun st _ => match st with | [] => ([], none) | r :: rest => (rest, r)⟩

def parseReplies (s : String) : Option (List (Option Bytes)) :=
  if s = "." then some [] else
  (s.splitOn ",").mapM fun t => if t = "x" then some none else (parseHex t).map some

def runRaw : List String → Pcd → World (List (Option Bytes)) → List String → Option String
  | [], pcd, w, acc =>
    let fl := match pcd.failed with | some e => s!"{e}" | none => "none"
    some (";".intercalate acc.reverse ++ s!" | {pcd.pni}/{fl} | {hexList w.trace}")
  | c :: cs, pcd, w, acc =>
    match parseHex c with
    | none => none
    | some cmd =>
      let r := exchange scriptPeer FUEL pcd cmd w
      runRaw cs r.2.1 r.1 (showPy toHex r.2.2 :: acc)

/-- a card that answers from a list and then repeats a second list for ever (`none` = mute; an empty second list: mute
for ever): the endless S(WTX) / R(ACK) / chaining floods and what a card may do before it starts one -/
def cyclePeer : Peer (List (Option Bytes) × List (Option Bytes) × Nat) :=
  ⟨fun st _ => match st with
    | (r :: rest, cyc, k) => ((rest, cyc, k), r)
    | ([], cyc, k) => match cyc[k % cyc.length]? with
      | some r => (([], cyc, (k + 1) % cyc.length), r)
      | none => (([], cyc, k), none)⟩

def runCyc : List String → Pcd → World (List (Option Bytes) × List (Option Bytes) × Nat) → List String → Option String
  | [], pcd, w, acc =>
    let fl := match pcd.failed with | some e => s!"{e}" | none => "none"
    -- the trace of a flood is long: its length, its first 12 and its last 3 blocks
    let tr := w.trace
    let shown := if tr.length ≤ 15 then hexList tr else hexList (tr.take 12) ++ ",.," ++ hexList (tr.drop (tr.length - 3))
    some (";".intercalate acc.reverse ++ s!" | {pcd.pni}/{fl} | {tr.length} | {shown}")
  | c :: cs, pcd, w, acc =>
    if c = "N" then
      let r := presence cyclePeer pcd w
      runCyc cs pcd r.1 (showPy (fun _ => "-") r.2 :: acc)
    else match parseHex c with
    | none => none
    | some cmd =>
      let r := exchange cyclePeer FUEL pcd cmd w
      runCyc cs r.2.1 r.1 (showPy toHex r.2.2 :: acc)

def showPcd (p : Pcd) : String := s!"{p.miu} {p.nNak} {p.nAck} {p.pni} {p.wlim}"

def handle (line : String) : String :=
  match line.splitOn " " with
  | ["seq", miu, nNak, nAck, wlim, chunk, wI, wA, wC, wtxm, rlen, sw, script, cmds] =>
    match miu.toInt?, nats [nNak, nAck, wlim], nats [chunk, wI, wA, wC, wtxm, rlen], parseHex sw, parseScript script with
    | some miu, some [nNak, nAck, wlim], some ps, some sw, some sc =>
      match mkCfg ps sw with
      | some cfg =>
        (runSeq cfg (cmds.splitOn ",") { pni := 0, miu := miu, nNak := nNak, nAck := nAck, wlim := wlim }
          { card := Card.init, script := sc, trace := [] } []).getD "bad-op"
      | none => "bad-op"
    | _, _, _, _, _ => "bad-op"
  | ["apdu", miu, nNak, nAck, wlim, chunk, wI, wA, wC, wtxm, rlen, sw, script, ext, cla, ins, p1, p2, data, mrl, check] =>
    match miu.toInt?, nats [nNak, nAck, wlim], nats [chunk, wI, wA, wC, wtxm, rlen], parseHex sw, parseScript script,
          nats [ext, cla, ins, p1, p2, mrl, check], parseHex data with
    | some miu, some [nNak, nAck, wlim], some ps, some sw, some sc, some [ext, cla, ins, p1, p2, mrl, check], some data =>
      match mkCfg ps sw with
      | some cfg =>
        let r := sendApdu (isoPeer cfg) FUEL { pni := 0, miu := miu, nNak := nNak, nAck := nAck, wlim := wlim } (ext != 0)
                  cla ins p1 p2 data mrl (check != 0) { card := Card.init, script := sc, trace := [] }
        showState [showPy toHex r.2.2] r.2.1 r.1
      | none => "bad-op"
    | _, _, _, _, _, _, _ => "bad-op"
  | ["raw", miu, nNak, nAck, wlim, replies, cmds] =>
    match miu.toInt?, nats [nNak, nAck, wlim], parseReplies replies with
    | some miu, some [nNak, nAck, wlim], some rs =>
      (runRaw (cmds.splitOn ",") { pni := 0, miu := miu, nNak := nNak, nAck := nAck, wlim := wlim }
        { card := rs, script := [], trace := [] } []).getD "bad-op"
    | _, _, _ => "bad-op"
  | ["cyc", miu, nNak, nAck, wlim, script, pre, cyc, cmds] =>
    match miu.toInt?, nats [nNak, nAck, wlim], parseScript script, parseReplies pre, parseReplies cyc with
    | some miu, some [nNak, nAck, wlim], some sc, some pre, some cyc =>
      (runCyc (cmds.splitOn ",") { pni := 0, miu := miu, nNak := nNak, nAck := nAck, wlim := wlim }
        { card := (pre, cyc, 0), script := sc, trace := [] } []).getD "bad-op"
    | _, _, _, _, _ => "bad-op"
  | ["act", kind, h, maxSend] =>
    match parseHex h, maxSend.toNat? with
    | some b, some m =>
      if kind = "A" then showPy showPcd (activateA b m)
      else if kind = "B" then showPy showPcd (activateB b m)
      else "bad-op"
    | _, _ => "bad-op"
  | ["enc", ext, cla, ins, p1, p2, data, mrl] =>
    match nats [ext, cla, ins, p1, p2, mrl], parseHex data with
    | some [ext, cla, ins, p1, p2, mrl], some data => showPy toHex (encodeApdu (ext != 0) cla ins p1 p2 data mrl)
    | _, _ => "bad-op"
  | _ => "bad-op"

def main : IO Unit := runDriver handle
