import NfcVerif.Model.IsoDep
open NfcVerif NfcVerif.IsoDep

/-- the application used by the correspondence runs: `rlen` body octets depending on the
command, on the execution number and on the position, followed by the status word -/
def tieApp (rlen : Nat) (sw : Bytes) (n : Nat) (cmd : Bytes) : Bytes :=
  (List.range rlen).map (fun i => (cmd.foldl (· + ·) 0 + 7 * n + 13 * i + cmd.length) % 256) ++ sw

def parseScript (s : String) : Option (List Fault) :=
  if s = "-" then some [] else
  s.toList.mapM fun c =>
    match c with
    | 'd' => some Fault.d | 'l' => some .l | 'c' => some .c | 'p' => some .p | 'e' => some .e
    | _ => none

def hexList (l : List Bytes) : String :=
  if l.isEmpty then "." else ",".intercalate (l.map toHex)

def FUEL : Nat := 1000

def nats (l : List String) : Option (List Nat) := l.mapM String.toNat?

def showState (rs : List String) (pcd : Pcd) (w : World Card) : String :=
  let fl := match pcd.failed with | some e => s!"{e}" | none => "none"
  ";".intercalate rs ++ s!" | {pcd.pni}/{fl} | {hexList w.trace} | {hexList w.card.log} | {w.card.bn}"

/-- run a sequence of exchanges ("N" = presence check) on one world -/
def runSeq (cfg : CardCfg) : List String → Pcd → World Card → List String → Option String
  | [], pcd, w, acc => some (showState acc.reverse pcd w)
  | c :: cs, pcd, w, acc =>
    if c = "N" then
      let r := presence (isoPeer cfg) pcd w
      runSeq cfg cs pcd r.1 (showPy (fun _ => "-") r.2 :: acc)
    else match parseHex c with
      | none => none
      | some cmd =>
        let r := exchange (isoPeer cfg) FUEL pcd cmd w
        runSeq cfg cs r.2.1 r.1 (showPy toHex r.2.2 :: acc)

def mkCfg (p : List Nat) (sw : Bytes) : Option CardCfg :=
  match p with
  | [chunk, wI, wA, wC, wtxm, rlen] =>
    some { chunk := chunk, wtxI := wI, wtxAck := wA, wtxChain := wC, wtxm := wtxm, app := tieApp rlen sw }
  | _ => none

/-- a card that answers from a list, whatever it receives (`none` = mute); mute when the list is used up -/
def scriptPeer : Peer (List (Option Bytes)) := ⟨fun st _ => match st with | [] => ([], none) | r :: rest => (rest, r)⟩

def parseReplies (s : String) : Option (List (Option Bytes)) :=
  if s = "." then some [] else
  (s.splitOn ",").mapM fun t => if t = "x" then some none else (parseHex t).map some

def runRaw : List String → Pcd → World (List (Option Bytes)) → List String → Option String
  | [], pcd, w, acc =>
    let fl := match pcd.failed with | some e => s!"{e}" | none => "none"
    some (";".intercalate acc.reverse ++ s!" | {pcd.pni}/{fl} | {hexList w.trace}")
  | c :: cs, pcd, w, acc =>
    match parseHex c with
    | none => none
    | some cmd =>
      let r := exchange scriptPeer FUEL pcd cmd w
      runRaw cs r.2.1 r.1 (showPy toHex r.2.2 :: acc)

def showPcd (p : Pcd) : String := s!"{p.miu} {p.nNak} {p.nAck} {p.pni}"

def handle (line : String) : String :=
  match line.splitOn " " with
  | ["seq", miu, nNak, nAck, chunk, wI, wA, wC, wtxm, rlen, sw, script, cmds] =>
    match miu.toInt?, nats [nNak, nAck], nats [chunk, wI, wA, wC, wtxm, rlen], parseHex sw, parseScript script with
    | some miu, some [nNak, nAck], some ps, some sw, some sc =>
      match mkCfg ps sw with
      | some cfg =>
        (runSeq cfg (cmds.splitOn ",") { pni := 0, miu := miu, nNak := nNak, nAck := nAck }
          { card := Card.init, script := sc, trace := [] } []).getD "bad-op"
      | none => "bad-op"
    | _, _, _, _, _ => "bad-op"
  | ["apdu", miu, nNak, nAck, chunk, wI, wA, wC, wtxm, rlen, sw, script, ext, cla, ins, p1, p2, data, mrl, check] =>
    match miu.toInt?, nats [nNak, nAck], nats [chunk, wI, wA, wC, wtxm, rlen], parseHex sw, parseScript script,
          nats [ext, cla, ins, p1, p2, mrl, check], parseHex data with
    | some miu, some [nNak, nAck], some ps, some sw, some sc, some [ext, cla, ins, p1, p2, mrl, check], some data =>
      match mkCfg ps sw with
      | some cfg =>
        let r := sendApdu (isoPeer cfg) FUEL { pni := 0, miu := miu, nNak := nNak, nAck := nAck } (ext != 0)
                  cla ins p1 p2 data mrl (check != 0) { card := Card.init, script := sc, trace := [] }
        showState [showPy toHex r.2.2] r.2.1 r.1
      | none => "bad-op"
    | _, _, _, _, _, _, _ => "bad-op"
  | ["raw", miu, nNak, nAck, replies, cmds] =>
    match miu.toInt?, nats [nNak, nAck], parseReplies replies with
    | some miu, some [nNak, nAck], some rs =>
      (runRaw (cmds.splitOn ",") { pni := 0, miu := miu, nNak := nNak, nAck := nAck }
        { card := rs, script := [], trace := [] } []).getD "bad-op"
    | _, _, _ => "bad-op"
  | ["act", kind, h, maxSend] =>
    match parseHex h, maxSend.toNat? with
    | some b, some m =>
      if kind = "A" then showPy showPcd (activateA b m)
      else if kind = "B" then showPy showPcd (activateB b m)
      else "bad-op"
    | _, _ => "bad-op"
  | ["enc", ext, cla, ins, p1, p2, data, mrl] =>
    match nats [ext, cla, ins, p1, p2, mrl], parseHex data with
    | some [ext, cla, ins, p1, p2, mrl], some data => showPy toHex (encodeApdu (ext != 0) cla ins p1 p2 data mrl)
    | _, _ => "bad-op"
  | _ => "bad-op"

def main : IO Unit := runDriver handle
