import NfcVerif.Model.ErrMap
open NfcVerif NfcVerif.ErrMap

def parseDrv : String → Option Drv
  | "pn531" => some .pn531 | "pn532" => some .pn532 | "pn533" => some .pn533
  | "rcs956" => some .rcs956 | "acr122" => some .acr122 | "arygonA" => some .arygonA
  | "arygonB" => some .arygonB | "rcs380" => some .rcs380 | "udp" => some .udp
  | _ => none

/-- kind token → (path, settings, tt3) -/
def parseKind : String → Option (IPath × Bool × Bool)
  | "t1" => some (.t1, true, false) | "t2" => some (.t2, true, false)
  | "t3" => some (.thru, false, false) | "t4a" => some (.thru, true, false)
  | "t4b" => some (.thru, true, false) | "depA" => some (.thru, true, false)
  | "depF" => some (.thru, false, false) | "depX" => some (.thru, false, false)
  | "tt2" => some (.thru, false, false) | "tt3" => some (.thru, false, true)
  | "tt4" => some (.thru, false, false) | "dep" => some (.thru, false, false)
  | _ => none

def parseCfg (drv dir kind hasData : String) : Option Cfg :=
  match parseDrv drv, parseKind kind with
  | some d, some (p, s, t) =>
    let dr := if dir = "i" then Dir.initiator else Dir.target
    some { drv := d, dir := dr, path := p, settings := s, tt3 := t, hasData := hasData = "1" }
  | _, _ => none

def nominal (d : Drv) (nom : Bytes) : Host :=
  match d with
  | .acr122 | .udp => { wr := .ok, reads := [.good nom] }
  | _ => { wr := .ok, reads := [.frame ack, .good nom] }

def faulty (d : Drv) (nom : Bytes) (f : String) : Option Host :=
  let n0 := nominal d nom
  let pre : List Ev := match d with | .acr122 | .udp => [] | _ => [.frame ack]
  match f.splitOn ":" with
  | ["none"] => some n0
  | ["w", "e", n] => n.toNat?.map fun n => { n0 with wr := .raise n }
  | ["w", "short"] => some { n0 with wr := .short }
  | ["a", "e", n] => n.toNat?.map fun n => { wr := .ok, reads := [.raise n, .good nom] }
  | ["a", "f", h] => (parseHex h).map fun b => { wr := .ok, reads := [.frame b, .good nom] }
  | ["a", "silent"] => some { wr := .ok, reads := [] }
  | ["r", "e", n] => n.toNat?.map fun n => { wr := .ok, reads := pre ++ [.raise n] }
  | ["r", "f", h] => (parseHex h).map fun b => { wr := .ok, reads := pre ++ [.frame b] }
  | ["r", "p", h] => (parseHex h).map fun b => { wr := .ok, reads := pre ++ [.good b] }
  | _ => none

def parseNoms (s : String) : Option (List Bytes) :=
  if s = "_" then some [] else (s.splitOn ",").mapM parseHex

def showOut : Py (Option Bytes) → String
  | .ok (some d) => "ok " ++ toHex d
  | .ok none => "ok none"
  | .error e => "exc " ++ e.name

def handle (line : String) : String :=
  match line.splitOn " " with
  | ["x", v, drv, dir, kind, hasData, brty, step, fault, noms] =>
    match parseCfg drv dir kind hasData, parseHex brty, step.toNat?, parseNoms noms with
    | some c, some b, some st, some nl =>
      let nomAt := fun i => nl.getD i []
      match faulty c.drv (nomAt st) fault with
      | none => "bad-op"
      | some fh =>
        let w := fun i => if i = st then fh else nominal c.drv (nomAt i)
        let polls := (w 1) :: List.replicate 3 (nominal c.drv (nomAt 1))
        let var := if v = "a" then Variant.asFound else Variant.repaired
        showOut (exchange var c b w polls)
    | _, _, _, _ => "bad-op"
  | ["steps", drv, dir, kind, hasData] =>
    match parseCfg drv dir kind hasData with
    | some c => "ok " ++ ",".intercalate ((stepCodes c).map toString)
    | none => "bad-op"
  | ["front", o, t] =>
    let ts := if t = "r" then TargetSel.remote else if t = "l" then TargetSel.local else TargetSel.none
    showOut (frontendExchange (o = "1") ts (.ok (some [1])) (.ok (some [2])))
  | _ => "bad-op"

def main : IO Unit := runDriver handle
