import NfcVerif.Model.Snep
import NfcVerif.Model.Handover
open NfcVerif NfcVerif.Chan

/-! line protocol of the C06 model driver

* `snep <cmiu> <cacc> <smiu> <maxacc> <close 0|1> <op>...` with
  `op = p/<hex>/<valid 0|1>/<code>` or `g/<hex>/<valid>/c<code>` or `g/<hex>/<valid>/d<hex>`
* `ho <cmiu> <smiu> <reset 0|1> <req hex>/<resp hex> ...`
* `ndefc <hex>`, `chunks <miu> <hex>`
-/

def hexList (l : List Bytes) : String :=
  if l.isEmpty then "." else ",".intercalate (l.map toHex)

def showRes : Snep.CRes → String
  | .okTrue => "True" | .okFalse => "False" | .okNone => "None"
  | .okData d => "data:" ++ toHex d
  | .snepError c => s!"SnepError({c})"
  | .exc e => "exc:" ++ e.name
  | .hang => "hang"

def showSState : Snep.SState → String
  | .idle => "idle" | .reasm _ _ => "reasm" | .awaitCont _ => "awaitCont"
  | .closed => "closed" | .crashed e => "crashed:" ++ e.name

def showDl (l : List (Snep.Op × Bytes)) : String :=
  if l.isEmpty then "." else ",".intercalate (l.map fun (o, d) =>
    (match o with | .put => "p:" | .get => "g:") ++ toHex d)

structure SOp where
  op : Snep.Op
  octets : Bytes
  h : Snep.Handlers

def parseOp (s : String) : Option SOp :=
  match s.splitOn "/" with
  | [k, h, v, r] =>
    match parseHex h with
    | none => none
    | some octets =>
      let valid := v == "1"
      if k == "p" then
        r.toNat?.map fun code => { op := .put, octets, h := { valid := fun _ => valid, put := fun _ => code, get := fun _ => .inl 0xE0 } }
      else if k == "g" then
        if r.startsWith "c" then
          (r.drop 1).toString.toNat?.map fun code => { op := .get, octets, h := { valid := fun _ => valid, put := fun _ => 0x81, get := fun _ => .inl code } }
        else
          (parseHex (r.drop 1).toString).map fun d => { op := .get, octets, h := { valid := fun _ => valid, put := fun _ => 0x81, get := fun _ => .inr d } }
      else none
  | _ => none

def runSnep (cmiu cacc smiu maxacc : Nat) (close : Bool) (ops : List SOp) : String :=
  let cc : Snep.CCfg := { miu := cmiu, acc := cacc }
  let rec go (n : Snep.SNet) (ops : List SOp) (res : List String) : Snep.SNet × List String :=
    match ops with
    | [] => (n, res.reverse)
    | o :: rest =>
      let cfg : Snep.SCfg := { maxAcc := min maxacc 0xFFFFFFFF, smiu := smiu, h := o.h }
      let n1 := Snep.runOp cfg cc (o.octets.length + (match o.h.get o.octets with | .inr d => d.length | .inl _ => 0) + 50) n o.op o.octets
      go { n1 with cst := .done (Snep.result n1) } rest (showRes (Snep.result n1) :: res)
  let (n, res) := go Snep.init ops []
  let lastH : Snep.Handlers := match ops.getLast? with
    | some o => o.h
    | none => { valid := fun _ => false, put := fun _ => 0x81, get := fun _ => .inl 0xE0 }
  let n := if close then Snep.closeConn { maxAcc := min maxacc 0xFFFFFFFF, smiu := smiu, h := lastH } n else n
  s!"c2s={hexList n.logC} s2c={hexList n.logS} dl={showDl n.dl} res={",".intercalate res} sst={showSState n.sst}"

def parseReq (s : String) : Option (Bytes × Bytes) :=
  match s.splitOn "/" with
  | [a, b] => match parseHex a, parseHex b with
    | some x, some y => some (x, y)
    | _, _ => none
  | _ => none

def showOpt : Option Bytes → String
  | none => "None"
  | some d => "data:" ++ toHex d

def runHo (cmiu smiu : Nat) (reset : Bool) (reqs : List (Bytes × Bytes)) : String :=
  let rec go (n : Handover.HNet) (reqs : List (Bytes × Bytes)) (res : List String) : Handover.HNet × List String :=
    match reqs with
    | [] => (n, res.reverse)
    | (m, rsp) :: rest =>
      let cfg : Handover.HCfg := { smiu, complete := Handover.ndefComplete, handler := fun _ => rsp, reset }
      let n1 := Handover.runReq cfg cmiu (m.length + rsp.length + 50) n m
      go { n1 with cst := .idle } rest (showOpt (Handover.result n1) :: res)
  let (n, res) := go Handover.init reqs []
  s!"c2s={hexList n.logC} s2c={hexList n.logS} dl={hexList n.dl} res={",".intercalate res}"

def handle (line : String) : String :=
  match line.splitOn " " with
  | "snep" :: a :: b :: c :: d :: cl :: ops =>
    match a.toNat?, b.toNat?, c.toNat?, d.toNat?, ops.mapM parseOp with
    | some cmiu, some cacc, some smiu, some maxacc, some ops => runSnep cmiu cacc smiu maxacc (cl == "1") ops
    | _, _, _, _, _ => "bad-op"
  | "ho" :: a :: b :: r :: reqs =>
    match a.toNat?, b.toNat?, reqs.mapM parseReq with
    | some cmiu, some smiu, some reqs => runHo cmiu smiu (r == "1") reqs
    | _, _, _ => "bad-op"
  | ["ndefc", h] => match parseHex h with
    | some d => if Handover.ndefComplete d then "true" else "false"
    | none => "bad-op"
  | ["chunks", m, h] => match m.toNat?, parseHex h with
    | some miu, some d => hexList (chunks miu d)
    | _, _ => "bad-op"
  | _ => "bad-op"

def main : IO Unit := runDriver handle
