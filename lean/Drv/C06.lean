import NfcVerif.Model.Snep
import NfcVerif.Model.Handover
import NfcVerif.Model.SnepSched
import NfcVerif.Model.SnepObj
open NfcVerif NfcVerif.Chan

/-! line protocol of the C06 model driver

* `snep <cmiu> <cacc> <smiu> <maxacc> <close 0|1> <op>...` with
  `op = p/<hex>/<valid 0|1>/<code>` or `g/<hex>/<valid>/c<code>` or `g/<hex>/<valid>/d<hex>`
* `ho <cmiu> <smiu> <reset 0|1> <req hex>/<resp hex> ...`
* `ndefc <hex>`, `chunks <miu> <hex>`
* `encmsg <rec>...` with `rec = <tnf>/<sr 0|1>/<type hex>/<id hex or ~>/<payload hex>`
* `rawsrv <smiu> <maxacc> <close 0|1> <put code> <get c<code>|d<hex>> <valid table hex:0|1,..> <msg hex>,...`
  the real server against an arbitrary peer; `rawcli <cmiu> <cacc> <p|g> <octets hex> <msg hex>,...`
  one client request against whatever the peer has queued; `horaw <smiu> <reset> <handler table req=rsp,..> <complete table> <msgs>`
* `wsnep <rwS> <rwC> <mode 0|1|2> <events> <snep arguments>` / `who <rwS> <rwC> <mode> <events> <ho arguments>`:
  the same scenario on the windowed link, driven by the event string (x a r = transmit to /
  acknowledge by / application of the server, X A R the same for the client, o = the client
  application starts its next request); prints the state of the touched direction after every event
* `hist <cacc> <sticky 0|1> <cmiu:smiu:maxacc>,... <op>...` one SnepClient object over its life time against the
  listed services (first = default); `op` = `c<k>` connect to service k | `x` close | a request as for `snep`
* `hohist <cmiu> <smiu> <reset> <op>...` one HandoverClient object; `op` = `c` | `x` | `<req hex>/<resp hex>`
-/

def hexList (l : List Bytes) : String :=
  if l.isEmpty then "." else ",".intercalate (l.map toHex)

def showRes : Snep.CRes → String
  | .okTrue => "True" | .okFalse => "False" | .okNone => "None"
  | .okData d => "data:" ++ toHex d
  | .snepError c => s!"SnepError({c})"
  | .exc e => "exc:" ++ e.name
  | .hang => "hang"

def showSState : Snep.SState → String
  | .idle => "idle" | .reasm _ _ => "reasm" | .awaitCont _ => "awaitCont"
  | .closed => "closed" | .crashed e => "crashed:" ++ e.name

def showDl (l : List (Snep.Op × Bytes)) : String :=
  if l.isEmpty then "." else ",".intercalate (l.map fun (o, d) =>
    (match o with | .put => "p:" | .get => "g:") ++ toHex d)

structure SOp where
  op : Snep.Op
  octets : Bytes
  h : Snep.Handlers

def parseOp (s : String) : Option SOp :=
  match s.splitOn "/" with
  | [k, h, v, r] =>
    match parseHex h with
    | none => none
    | some octets =>
      let valid := v == "1"
      if k == "p" then
        r.toNat?.map fun code => { op := .put, octets, h := { valid := fun _ => valid, put := fun _ => code, get := fun _ => .inl 0xE0 } }
      else if k == "g" then
        if r.startsWith "c" then
          (r.drop 1).toString.toNat?.map fun code => { op := .get, octets, h := { valid := fun _ => valid, put := fun _ => 0x81, get := fun _ => .inl code } }
        else
          (parseHex (r.drop 1).toString).map fun d => { op := .get, octets, h := { valid := fun _ => valid, put := fun _ => 0x81, get := fun _ => .inr d } }
      else none
  | _ => none

def runSnep (cmiu cacc smiu maxacc : Nat) (close : Bool) (ops : List SOp) : String :=
  let cc : Snep.CCfg := { miu := cmiu, acc := cacc }
  let rec go (n : Snep.SNet) (ops : List SOp) (res : List String) : Snep.SNet × List String :=
    match ops with
    | [] => (n, res.reverse)
    | o :: rest =>
      let cfg : Snep.SCfg := { maxAcc := min maxacc 0xFFFFFFFF, smiu := smiu, h := o.h }
      let n1 := Snep.runOp cfg cc (o.octets.length + (match o.h.get o.octets with | .inr d => d.length | .inl _ => 0) + 50) n o.op o.octets
      go { n1 with cst := .done (Snep.result n1) } rest (showRes (Snep.result n1) :: res)
  let (n, res) := go Snep.init ops []
  let lastH : Snep.Handlers := match ops.getLast? with
    | some o => o.h
    | none => { valid := fun _ => false, put := fun _ => 0x81, get := fun _ => .inl 0xE0 }
  let n := if close then Snep.closeConn { maxAcc := min maxacc 0xFFFFFFFF, smiu := smiu, h := lastH } n else n
  s!"c2s={hexList n.logC} s2c={hexList n.logS} dl={showDl n.dl} res={",".intercalate res} sst={showSState n.sst}"

def parseReq (s : String) : Option (Bytes × Bytes) :=
  match s.splitOn "/" with
  | [a, b] => match parseHex a, parseHex b with
    | some x, some y => some (x, y)
    | _, _ => none
  | _ => none

def showOpt : Option Bytes → String
  | none => "None"
  | some d => "data:" ++ toHex d

def runHo (cmiu smiu : Nat) (reset : Bool) (reqs : List (Bytes × Bytes)) : String :=
  let rec go (n : Handover.HNet) (reqs : List (Bytes × Bytes)) (res : List String) : Handover.HNet × List String :=
    match reqs with
    | [] => (n, res.reverse)
    | (m, rsp) :: rest =>
      let cfg : Handover.HCfg := { smiu, complete := Handover.ndefComplete, handler := fun _ => rsp, reset }
      let n1 := Handover.runReq cfg cmiu (m.length + rsp.length + 50) n m
      go { n1 with cst := .idle } rest (showOpt (Handover.result n1) :: res)
  let (n, res) := go Handover.init reqs []
  s!"c2s={hexList n.logC} s2c={hexList n.logS} dl={hexList n.dl} res={",".intercalate res}"


/-! ### records, one-sided runs, windowed link -/

def parseRec (s : String) : Option Handover.Rec :=
  match s.splitOn "/" with
  | [t, sr, ty, i, pl] =>
    match t.toNat?, parseHex ty, parseHex pl with
    | some tnf, some typ, some payload =>
      if i == "~" then some { tnf, sr := sr == "1", typ, id := none, payload }
      else (parseHex i).map fun idb => { tnf, sr := sr == "1", typ, id := some idb, payload }
    | _, _, _ => none
  | _ => none

def parseList (s : String) : Option (List Bytes) :=
  if s == "." then some [] else (s.splitOn ",").mapM parseHex

/-- `hex:0|1,...` -> lookup (absent = false) -/
def parseTable (s : String) : Option (List (Bytes × Bool)) :=
  if s == "." then some []
  else (s.splitOn ",").mapM fun e =>
    match e.splitOn ":" with
    | [h, v] => (parseHex h).map fun b => (b, v == "1")
    | _ => none

def lookupT (t : List (Bytes × Bool)) (b : Bytes) : Bool :=
  match t.find? (fun e => e.1 == b) with
  | some e => e.2
  | none => false

def runRawSrv (smiu maxacc : Nat) (close : Bool) (putc : Nat) (getr : Nat ⊕ Bytes) (tbl : List (Bytes × Bool))
    (msgs : List Bytes) : String :=
  let cfg : Snep.SCfg := { maxAcc := min maxacc 0xFFFFFFFF, smiu, h := { valid := lookupT tbl, put := fun _ => putc, get := fun _ => getr } }
  let r := Snep.srvFeed cfg .idle msgs
  let fin := if close then Snep.srvOnClose cfg r.1 else (r.1, [])
  s!"s2c={hexList r.2.1} dl={showDl (r.2.2 ++ fin.2)} sst={showSState fin.1}"

def runRawCli (cmiu cacc : Nat) (op : Snep.Op) (octets : Bytes) (script : List Bytes) : String :=
  let r := Snep.cliAlone { miu := cmiu, acc := cacc } op octets script
  s!"c2s={hexList r.2.1} res={showRes r.1} left={hexList r.2.2}"

/-- `reqhex=rsphex,...` -> lookup (absent = empty response) -/
def parseHTable (s : String) : Option (List (Bytes × Bytes)) :=
  if s == "." then some []
  else (s.splitOn ",").mapM fun e =>
    match e.splitOn "=" with
    | [a, b] => match parseHex a, parseHex b with
      | some x, some y => some (x, y)
      | _, _ => none
    | _ => none

def lookupH (t : List (Bytes × Bytes)) (b : Bytes) : Bytes :=
  match t.find? (fun e => e.1 == b) with
  | some e => e.2
  | none => []

def runHoRaw (smiu : Nat) (reset : Bool) (ht : List (Bytes × Bytes)) (tbl : List (Bytes × Bool)) (msgs : List Bytes) : String :=
  let cfg : Handover.HCfg := { smiu, complete := lookupT tbl, handler := lookupH ht, reset }
  let r := Handover.srvFeed cfg (.collecting []) msgs
  s!"s2c={hexList r.2.1} dl={hexList r.2.2}"

def showDir (d : Dir) : String := s!"{d.inq.length}:{d.confs}:{d.acked % 16}:{d.vs % 16}:{d.lost.length}"

def evStep (c : Char) : Option WStep :=
  match c with
  | 'x' => some (.xmit .srv) | 'a' => some (.ack .srv) | 'r' => some (.app .srv)
  | 'X' => some (.xmit .cli) | 'A' => some (.ack .cli) | 'R' => some (.app .cli)
  | _ => none

def modeOf (s : String) : AckMode := if s == "1" then .onReceipt else if s == "2" then .allReceived else .onConsume

/-- run the events up to the next `o`, collecting the state of the touched direction after each -/
def runEvents {C S D : Type} (p : Proto C S D) (k : Win) : List Char → WNet C S D → List String →
    WNet C S D × List String × List Char
  | [], w, acc => (w, acc, [])
  | c :: cs, w, acc =>
    if c == 'o' then (w, acc, cs)
    else if c == '-' then runEvents p k cs w acc
    else match evStep c with
      | none => (w, acc ++ ["?"], [])
      | some s =>
        let w' := wstep p k s w
        let d := if c.isLower then w'.c2s else w'.s2c
        runEvents p k cs w' (acc ++ [s!"{c}{showDir d}"])

def runWSnep (rwS rwC : Nat) (mode : AckMode) (events : List Char) (cmiu cacc smiu maxacc : Nat) (ops : List SOp) : String :=
  let cc : Snep.CCfg := { miu := cmiu, acc := cacc }
  let k : Win := { rwS, rwC, mode }
  let rec go (w : WNet Snep.CState Snep.SState (Snep.Op × Bytes)) (ev : List Char) (ops : List SOp) (res : List String)
      (tr : List String) : WNet Snep.CState Snep.SState (Snep.Op × Bytes) × List String × List String :=
    match ops with
    | [] => (w, res.reverse, tr)
    | o :: rest =>
      let cfg : Snep.SCfg := { maxAcc := min maxacc 0xFFFFFFFF, smiu := smiu, h := o.h }
      let s := Snep.cliStart cc.miu cc.acc o.op o.octets
      let w0 := { w with cst := s.1, c2s := { w.c2s with out := w.c2s.out ++ s.2 }, logC := w.logC ++ s.2 }
      let r := runEvents (Snep.proto cfg) k ev w0 []
      let w1 := r.1
      let rs := Snep.cliOnTimeout w1.cst
      go { w1 with cst := .done rs } r.2.2 rest (showRes rs :: res) (tr ++ r.2.1)
  let (w, res, tr) := go (Net.onLink Snep.init) events ops [] []
  s!"c2s={hexList w.logC} s2c={hexList w.logS} dl={showDl w.dl} res={",".intercalate res} ev={" ".intercalate tr}"

def runWHo (rwS rwC : Nat) (mode : AckMode) (events : List Char) (cmiu smiu : Nat) (reset : Bool)
    (reqs : List (Bytes × Bytes)) : String :=
  let k : Win := { rwS, rwC, mode }
  let rec go (w : WNet Handover.HC Handover.HS Bytes) (ev : List Char) (reqs : List (Bytes × Bytes)) (res : List String)
      (tr : List String) : WNet Handover.HC Handover.HS Bytes × List String × List String :=
    match reqs with
    | [] => (w, res.reverse, tr)
    | (m, rsp) :: rest =>
      let cfg : Handover.HCfg := { smiu, complete := Handover.ndefComplete, handler := fun _ => rsp, reset }
      let fs := chunks cmiu m
      let w0 := { w with cst := .collecting [], c2s := { w.c2s with out := w.c2s.out ++ fs }, logC := w.logC ++ fs }
      let r := runEvents (Handover.proto cfg) k ev w0 []
      let w1 := r.1
      let rs := match w1.cst with | .done x => x | _ => none
      go { w1 with cst := .idle } r.2.2 rest (showOpt rs :: res) (tr ++ r.2.1)
  let (w, res, tr) := go (Net.onLink Handover.init) events reqs [] []
  s!"c2s={hexList w.logC} s2c={hexList w.logS} dl={hexList w.dl} res={",".intercalate res} ev={" ".intercalate tr}"


/-! ### client objects over their life time -/

def parseSvcs (s : String) : Option (List (Nat × Nat × Nat)) :=
  (s.splitOn ",").mapM fun e =>
    match e.splitOn ":" with
    | [a, b, c] => match a.toNat?, b.toNat?, c.toNat? with
      | some x, some y, some z => some (x, y, z)
      | _, _, _ => none
    | _ => none

inductive HistTok
  | connect (k : Nat)
  | close
  | req (o : SOp)

def parseHistTok (s : String) : Option HistTok :=
  if s == "x" then some .close
  else if s.startsWith "c" then (s.drop 1).toString.toNat?.map .connect
  else (parseOp s).map .req

def showHRes : SnepObj.HRes → String
  | .unit => "ok" | .refused => "refused" | .res r => showRes r

def showSock (o : SnepObj.Obj) : String :=
  match o.sock with
  | none => "-"
  | some c => toString c.svc

def natList (l : List Nat) : String := if l.isEmpty then "." else ",".intercalate (l.map toString)

def runHist (cacc : Nat) (sticky : Bool) (svcs : List (Nat × Nat × Nat)) (toks : List HistTok) : String :=
  let defH : Snep.Handlers := { valid := fun _ => false, put := fun _ => 0x81, get := fun _ => .inl 0xE0 }
  let world (h : Snep.Handlers) : SnepObj.World :=
    svcs.map fun (cmiu, smiu, maxacc) => { cfg := { maxAcc := min maxacc 0xFFFFFFFF, smiu, h }, cmiu }
  let rec go (o : SnepObj.Obj) (lastH : Snep.Handlers) (toks : List HistTok) (res socks : List String) :
      SnepObj.Obj × List String × List String :=
    match toks with
    | [] => (o, res.reverse, socks.reverse)
    | .connect k :: rest =>
      let r := SnepObj.connect (world lastH) o k
      go r.1 lastH rest (showHRes r.2 :: res) (s!"{showSock r.1}/{r.1.sent}" :: socks)
    | .close :: rest =>
      let o1 := SnepObj.close (world lastH) o
      go o1 lastH rest ("ok" :: res) (s!"{showSock o1}/{o1.sent}" :: socks)
    | .req q :: rest =>
      let fuel := q.octets.length + (match q.h.get q.octets with | .inr d => d.length | .inl _ => 0) + 50
      let r := SnepObj.request (world q.h) fuel sticky o q.op q.octets
      go r.1 q.h rest (showHRes r.2 :: res) (s!"{showSock r.1}/{r.1.sent}" :: socks)
  let (o, res, socks) := go { acc := cacc } defH toks [] []
  let dl := if o.dl.isEmpty then "." else ",".intercalate (o.dl.map fun (k, op, d) =>
    s!"{k}:" ++ (match op with | .put => "p:" | .get => "g:") ++ toHex d)
  s!"res={",".intercalate res} dl={dl} sock={",".intercalate socks} opened={natList o.opened} closed={natList o.closed}"

inductive HoTok
  | connect | close
  | req (m rsp : Bytes)

def parseHoTok (s : String) : Option HoTok :=
  if s == "c" then some .connect else if s == "x" then some .close
  else (parseReq s).map fun (a, b) => .req a b

def runHoHist (cmiu smiu : Nat) (reset : Bool) (toks : List HoTok) : String :=
  let rec go (o : SnepObj.HObj) (toks : List HoTok) (res : List String) : SnepObj.HObj × List String :=
    match toks with
    | [] => (o, res.reverse)
    | .connect :: rest =>
      go (SnepObj.hhstep { smiu, complete := Handover.ndefComplete, handler := fun _ => [], reset } cmiu 0 o .connect).1 rest ("ok" :: res)
    | .close :: rest =>
      go (SnepObj.hhstep { smiu, complete := Handover.ndefComplete, handler := fun _ => [], reset } cmiu 0 o .close).1 rest ("ok" :: res)
    | .req m rsp :: rest =>
      let r := SnepObj.hhstep { smiu, complete := Handover.ndefComplete, handler := fun _ => rsp, reset } cmiu
        (m.length + rsp.length + 50) o (.req m)
      let shown := match r.2 with
        | .res x => showOpt x
        | .noSocket => "exc:AttributeError"
        | .unit => "ok"
      go r.1 rest (shown :: res)
  let (o, res) := go {} toks []
  s!"res={",".intercalate res} dl={hexList o.dl} opened={o.opened} orphaned={o.orphaned}"

def handle (line : String) : String :=
  match line.splitOn " " with
  | "snep" :: a :: b :: c :: d :: cl :: ops =>
    match a.toNat?, b.toNat?, c.toNat?, d.toNat?, ops.mapM parseOp with
    | some cmiu, some cacc, some smiu, some maxacc, some ops => runSnep cmiu cacc smiu maxacc (cl == "1") ops
    | _, _, _, _, _ => "bad-op"
  | "ho" :: a :: b :: r :: reqs =>
    match a.toNat?, b.toNat?, reqs.mapM parseReq with
    | some cmiu, some smiu, some reqs => runHo cmiu smiu (r == "1") reqs
    | _, _, _ => "bad-op"
  | ["ndefc", h] => match parseHex h with
    | some d => if Handover.ndefComplete d then "true" else "false"
    | none => "bad-op"
  | "encmsg" :: recs =>
    match recs.mapM parseRec with
    | some rs => toHex (Handover.encMsg rs) ++ (if rs.all (fun r => decide r.wf) then " wf" else " not-wf")
    | none => "bad-op"
  | ["rawsrv", a, b, cl, pc, g, t, ms] =>
    let getr : Option (Nat ⊕ Bytes) :=
      if g.startsWith "c" then (g.drop 1).toString.toNat?.map Sum.inl else (parseHex (g.drop 1).toString).map Sum.inr
    match a.toNat?, b.toNat?, pc.toNat?, getr, parseTable t, parseList ms with
    | some smiu, some maxacc, some putc, some getr, some tbl, some msgs => runRawSrv smiu maxacc (cl == "1") putc getr tbl msgs
    | _, _, _, _, _, _ => "bad-op"
  | ["rawcli", a, b, o, h, ms] =>
    match a.toNat?, b.toNat?, parseHex h, parseList ms with
    | some cmiu, some cacc, some octets, some script =>
      runRawCli cmiu cacc (if o == "p" then .put else .get) octets script
    | _, _, _, _ => "bad-op"
  | ["horaw", a, r, rsp, t, ms] =>
    match a.toNat?, parseHTable rsp, parseTable t, parseList ms with
    | some smiu, some rsp, some tbl, some msgs => runHoRaw smiu (r == "1") rsp tbl msgs
    | _, _, _, _ => "bad-op"
  | "wsnep" :: rs :: rc :: md :: ev :: a :: b :: c :: d :: ops =>
    match rs.toNat?, rc.toNat?, a.toNat?, b.toNat?, c.toNat?, d.toNat?, ops.mapM parseOp with
    | some rwS, some rwC, some cmiu, some cacc, some smiu, some maxacc, some ops =>
      runWSnep rwS rwC (modeOf md) ev.toList cmiu cacc smiu maxacc ops
    | _, _, _, _, _, _, _ => "bad-op"
  | "who" :: rs :: rc :: md :: ev :: a :: b :: r :: reqs =>
    match rs.toNat?, rc.toNat?, a.toNat?, b.toNat?, reqs.mapM parseReq with
    | some rwS, some rwC, some cmiu, some smiu, some reqs => runWHo rwS rwC (modeOf md) ev.toList cmiu smiu (r == "1") reqs
    | _, _, _, _, _ => "bad-op"
  | "hist" :: a :: st :: sv :: ops =>
    match a.toNat?, parseSvcs sv, ops.mapM parseHistTok with
    | some cacc, some svcs, some toks => runHist cacc (st == "1") svcs toks
    | _, _, _ => "bad-op"
  | "hohist" :: a :: b :: r :: ops =>
    match a.toNat?, b.toNat?, ops.mapM parseHoTok with
    | some cmiu, some smiu, some toks => runHoHist cmiu smiu (r == "1") toks
    | _, _, _ => "bad-op"
  | ["chunks", m, h] => match m.toNat?, parseHex h with
    | some miu, some d => hexList (chunks miu d)
    | _, _ => "bad-op"
  | _ => "bad-op"

def main : IO Unit := runDriver handle
