import NfcVerif.Model.NfcDep
open NfcVerif NfcVerif.NfcDep

def optNat (s : String) : Option (Option Nat) :=
  if s = "-" then some none else s.toNat?.map some

def showOpt : Option Nat → String
  | none => "-"
  | some n => toString n

def parseScript (s : String) : Option (List Fault) :=
  if s = "-" then some [] else
  s.toList.mapM fun ch =>
    if ch = 'd' then some Fault.d else if ch = 'l' then some .l
    else if ch = 'c' then some .c else if ch = 'x' then some .x else none

def showFault : Fault → String
  | .d => "d" | .l => "l" | .c => "c" | .x => "x"

def parseList (s : String) : Option (List Bytes) :=
  if s = "-" then some [] else (s.splitOn ",").mapM fun h => if h = "e" then some [] else parseHex h

def showList (l : List Bytes) : String :=
  if l.isEmpty then "-" else ",".intercalate (l.map fun b => if b.isEmpty then "e" else toHex b)

def parseVariant (s : String) : Option Variant :=
  match s.toList with
  | [a, b, c, d, e] => some ⟨a = '1', b = '1', c = '1', d = '1', e = '1'⟩
  | _ => none

def showPdu : Pdu → String
  | .dep fmt pni did nad data => s!"dep {fmt} {pni} {showOpt did} {showOpt nad} {toHex data}"
  | .dsl did => s!"dsl {showOpt did}"
  | .rls did => s!"rls {showOpt did}"
  | .atr body => s!"atr {toHex body}"
  | .psl args => s!"psl {toHex args}"

def showWire (b106 : Bool) (w : Wire) : String :=
  (if w.req then ">" else "<") ++
  (match encodeFrame b106 w.req w.pdu with
   | .ok f => toHex f
   | .error e => "!" ++ e.name) ++ ":" ++ showFault w.fault

def showWires (b106 : Bool) (ws : List Wire) : String :=
  if ws.isEmpty then "-" else ",".intercalate (ws.map (showWire b106))

def showErr : Option Exc → String
  | none => "ok"
  | some e => "exc " ++ e.name

def showT (t : TState) : String :=
  showList t.got ++ " " ++
  (match t.status with
   | .running => (match t.loc with | .listen => "inactive" | _ => "running")
   | .ended => "ended"
   | .retNone => "none"
   | .raised e => "exc " ++ e.name)

def mkCfg (b106 idid inad tdid imiu tmiu v : String) : Option Cfg := do
  let idid ← optNat idid
  let inad ← optNat inad
  let tdid ← optNat tdid
  let imiu ← imiu.toNat?
  let tmiu ← tmiu.toNat?
  let v ← parseVariant v
  pure { b106 := b106 = "1", idid := idid, inad := inad, tdid := tdid, imiu := imiu, tmiu := tmiu, v := v }

def parseResp (b106 : Bool) (s : String) : Option (List (Option Pdu)) :=
  if s = "-" then some [] else
  (s.splitOn ",").mapM fun h =>
    if h = "none" then some none else
    match parseHex h with
    | none => none
    | some f => match decodeFrame b106 false f with
      | .ok p => some (some p)
      | .error _ => none

def handle (line : String) : String :=
  match line.splitOn " " with
  | ["run", b106, idid, inad, tdid, imiu, tmiu, v, fuel, script, rel, pi, pt] =>
    match mkCfg b106 idid inad tdid imiu tmiu v, fuel.toNat?, parseScript script, rel.toNat?, parseList pi, parseList pt with
    | some c, some fuel, some script, some rel, some pi, some pt =>
      let tr := run c fuel script rel pi pt
      s!"W {showWires c.b106 tr.wire} | I {showList tr.gotI} {showErr tr.errI} | D {showErr tr.errD} | T {showT tr.t}"
    | _, _, _, _, _, _ => "bad-op"
  | ["scr", b106, idid, inad, imiu, v, fuel, script, resp, p] =>
    match mkCfg b106 idid inad "-" imiu "0" v, fuel.toNat?, parseScript script, parseResp (b106 = "1") resp, parseHex p with
    | some c, some fuel, some script, some resp, some p =>
      let r := runScripted c fuel script resp p
      s!"W {showWires c.b106 r.1} | I {showPy toHex r.2}"
    | _, _, _, _, _ => "bad-op"
  | ["tgt", b106, tdid, tmiu, v, frames, pt] =>
    match mkCfg b106 "-" "-" tdid "1" tmiu v, parseList pt with
    | some c, some pt =>
      let items := if frames = "-" then [] else frames.splitOn ","
      let step (acc : TState × List String × Bool) (it : String) : TState × List String × Bool :=
        let (t, out, bad) := acc
        if it = "c" then ((tRx c t .corrupt).1, out ++ ["c"], bad) else
        match parseHex it with
        | none => (t, out, true)
        | some f => match decodeFrame c.b106 true f with
          | .error _ => (t, out, true)
          | .ok p =>
            let r := tRx c t (.frame p)
            let shown := match r.2 with
              | none => "none"
              | some q => (match encodeFrame c.b106 false q with | .ok fr => toHex fr | .error e => "!" ++ e.name)
            (r.1, out ++ [shown], bad)
      let (t, out, bad) := items.foldl step (TState.init pt, [], false)
      if bad then "bad-op" else s!"R {if out.isEmpty then "-" else ",".intercalate out} | T {showT t}"
    | _, _ => "bad-op"
  | ["act", lri, lrt, idid, inad, f20] =>
    match lri.toNat?, lrt.toNat?, optNat idid, optNat inad with
    | some lri, some lrt, some idid, some inad =>
      let tdid := tDidOf idid
      s!"{iMiu lrt idid inad} {tMiu (f20 = "1") lri tdid} {showOpt tdid}"
    | _, _, _, _ => "bad-op"
  | ["dec", b106, req, h] =>
    match parseHex h with
    | some f => showPy showPdu (decodeFrame (b106 = "1") (req = "1") f)
    | none => "bad-op"
  | ["encdep", b106, req, fmt, pni, did, nad, h] =>
    match fmt.toNat?, pni.toNat?, optNat did, optNat nad, parseHex h with
    | some fmt, some pni, some did, some nad, some d =>
      showPy toHex (encodeFrame (b106 = "1") (req = "1") (.dep fmt pni did nad d))
    | _, _, _, _, _ => "bad-op"
  | ["encdsl", b106, req, rls, did] =>
    match optNat did with
    | some did => showPy toHex (encodeFrame (b106 = "1") (req = "1") (if rls = "1" then .rls did else .dsl did))
    | none => "bad-op"
  | _ => "bad-op"

def main : IO Unit := runDriver handle
