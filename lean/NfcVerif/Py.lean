/-!
# Python partiality layer shared by every model

Models are executable, total Lean functions.  Everything that can raise in
Python returns `Py α = Except Exc α`, where the constructor of `Exc` is the
*class* of the Python exception.  The correspondence harness compares the
constructor with the class the real code raised, so a model cannot quietly
turn a crash into a tidy error.

No Mathlib import here: model files must link into the `Drv/*` executables.
-/

namespace NfcVerif

/-- Python exception classes that appear in the modelled code. -/
inductive Exc
  -- interpreter-internal: never acceptable at an API boundary
  | index | value | type_ | struct | key | attr | unbound | recursion | assertion | runtime
  | overflow | zeroDiv
  -- nfc.llcp.pdu
  | decodeError | encodeError
  -- nfc.clf
  | timeout | transmission | protocol | brokenLink | unsupportedTarget | commError
  -- nfc.tag.TagCommandError (errno)
  | tagCmd (errno : Int)
  -- nfc.llcp.Error (errno)
  | llcp (errno : Nat) | connectRefused
  | io (errno : Nat) | systemExit | keyboardInterrupt
  -- driver-internal: nfc.clf.pn53x.Chipset.Error / rcs380 StatusError, CommunicationError
  | chipsetError (errno : Nat) | rcsStatus | rcsComm
  -- model ran out of fuel (a non-terminating loop in the code)
  | outOfFuel
  deriving DecidableEq, Repr, Inhabited

namespace Exc
/-- exceptions that must never reach an application -/
def internal : Exc → Bool
  | index | value | type_ | struct | key | attr | unbound | recursion | assertion | runtime
  | overflow | zeroDiv | outOfFuel => true
  | _ => false

def name : Exc → String
  | index => "IndexError" | value => "ValueError" | type_ => "TypeError"
  | struct => "struct.error" | key => "KeyError" | attr => "AttributeError"
  | unbound => "UnboundLocalError" | recursion => "RecursionError"
  | assertion => "AssertionError" | runtime => "RuntimeError"
  | overflow => "OverflowError" | zeroDiv => "ZeroDivisionError"
  | decodeError => "DecodeError" | encodeError => "EncodeError"
  | timeout => "TimeoutError" | transmission => "TransmissionError"
  | protocol => "ProtocolError" | brokenLink => "BrokenLinkError"
  | unsupportedTarget => "UnsupportedTargetError" | commError => "CommunicationError"
  | tagCmd n => s!"TagCommandError({n})"
  | llcp n => s!"llcp.Error({n})" | connectRefused => "ConnectRefused"
  | io n => s!"IOError({n})" | systemExit => "SystemExit"
  | keyboardInterrupt => "KeyboardInterrupt" | outOfFuel => "OutOfFuel"
  | chipsetError n => s!"Chipset.Error({n})" | rcsStatus => "rcs380.StatusError"
  | rcsComm => "rcs380.CommunicationError"
end Exc

deriving instance DecidableEq for Except

abbrev Py := Except Exc
abbrev Bytes := List Nat

/-- every element is an octet -/
def IsBytes (l : Bytes) : Prop := ∀ b ∈ l, b < 256

instance (l : Bytes) : Decidable (IsBytes l) := by unfold IsBytes; infer_instance

/-! ## `Safe S x`: `x` can fail only with an exception satisfying `S` -/

def Safe {α} (S : Exc → Prop) (x : Py α) : Prop := ∀ e, x = .error e → S e

namespace Safe
variable {α β : Type} {S : Exc → Prop}
theorem pure (a : α) : Safe S (Pure.pure a : Py α) := by intro e h; cases h
theorem ok (a : α) : Safe S (.ok a : Py α) := by intro e h; cases h
theorem throw {e : Exc} (h : S e) : Safe S (.error e : Py α) := by intro e' h'; cases h'; exact h
theorem throw' {e : Exc} (h : S e) : Safe S (MonadExcept.throw e : Py α) := by intro e' h'; cases h'; exact h
theorem bind {x : Py α} {f : α → Py β} (hx : Safe S x) (hf : ∀ a, x = .ok a → Safe S (f a)) :
    Safe S (x >>= f) := by
  intro e h
  cases x with
  | error e' =>
    have : e' = e := by cases h; rfl
    subst this; exact hx e' rfl
  | ok a => exact hf a rfl e h
theorem bind' {x : Py α} {f : α → Py β} (hx : Safe S x) (hf : ∀ a, Safe S (f a)) :
    Safe S (x >>= f) := bind hx (fun a _ => hf a)
theorem ite {c : Prop} [Decidable c] {x y : Py α} (hx : Safe S x) (hy : Safe S y) :
    Safe S (if c then x else y) := by split <;> assumption
theorem dite {c : Prop} [Decidable c] {x : c → Py α} {y : ¬c → Py α}
    (hx : ∀ h, Safe S (x h)) (hy : ∀ h, Safe S (y h)) :
    Safe S (if h : c then x h else y h) := by split <;> simp_all
theorem mono {S' : Exc → Prop} {x : Py α} (h : Safe S x) (hs : ∀ e, S e → S' e) : Safe S' x :=
  fun e he => hs e (h e he)
end Safe

/-- `try: x  except <any of cls>: raise e'` -/
def wrapExc {α} (catches : Exc → Bool) (e' : Exc) (x : Py α) : Py α :=
  match x with
  | .error e => if catches e then .error e' else .error e
  | .ok a => .ok a

theorem Safe.wrap {α} {S : Exc → Prop} {catches : Exc → Bool} {e' : Exc} {x : Py α}
    (he' : S e') (hx : ∀ e, x = .error e → catches e = false → S e) :
    Safe S (wrapExc catches e' x) := by
  intro e h
  unfold wrapExc at h
  split at h
  · rename_i e0
    split at h
    · cases h; exact he'
    · rename_i hc; cases h; exact hx _ rfl (by simpa using hc)
  · cases h

/-! ## Python sequence primitives -/

/-- `l[i]` for `i : Int` with Python's negative-index rule. -/
def idx {α} (l : List α) (i : Int) : Py α :=
  let n : Int := l.length
  let j := if i < 0 then i + n else i
  if j < 0 ∨ j ≥ n then .error .index
  else match l[j.toNat]? with
    | some a => .ok a
    | none => .error .index

/-- `l[i]` for a natural index. -/
def idxN {α} (l : List α) (i : Nat) : Py α :=
  match l[i]? with
  | some a => .ok a
  | none => .error .index

/-- clamp a Python slice bound -/
def clampBound (n : Nat) (i : Int) : Nat :=
  let j := if i < 0 then i + (n : Int) else i
  if j < 0 then 0 else if j > n then n else j.toNat

/-- `l[a:b]`: never raises -/
def slice {α} (l : List α) (a b : Int) : List α :=
  let lo := clampBound l.length a
  let hi := clampBound l.length b
  (l.drop lo).take (hi - lo)

/-- `l[a:b]` with natural bounds -/
def sliceN {α} (l : List α) (a b : Nat) : List α := (l.drop a).take (b - a)

/-- `l[a:]` -/
def sliceFrom {α} (l : List α) (a : Nat) : List α := l.drop a

/-- `struct.unpack_from(">B", d, off)`; `struct.error` when the buffer is short -/
def unpackB (d : Bytes) (off : Nat) : Py Nat :=
  match d[off]? with
  | some a => .ok a
  | none => .error .struct

/-- `struct.unpack_from(">H", d, off)` -/
def unpackH (d : Bytes) (off : Nat) : Py Nat :=
  match d[off]?, d[off+1]? with
  | some a, some b => .ok (a * 256 + b)
  | _, _ => .error .struct

/-- `struct.unpack_from(">BB", d, off)` -/
def unpackBB (d : Bytes) (off : Nat) : Py (Nat × Nat) :=
  match d[off]?, d[off+1]? with
  | some a, some b => .ok (a, b)
  | _, _ => .error .struct

/-- `struct.unpack_from("%ds" % n, d, off)` -/
def unpackS (n : Nat) (d : Bytes) (off : Nat) : Py Bytes :=
  if off + n ≤ d.length then .ok ((d.drop off).take n) else .error .struct

/-- big-endian integer of a byte list -/
def beNat : Bytes → Nat := List.foldl (fun acc b => acc * 256 + b) 0

/-- `n.to_bytes(k, "big")` without the overflow check (callers guard it) -/
def toBE : Nat → Nat → Bytes
  | 0, _ => []
  | k+1, n => toBE k (n / 256) ++ [n % 256]

/-! ## hex line-protocol helpers (used by the `Drv/*` executables only) -/

def hexDigit (n : Nat) : Char :=
  if n < 10 then Char.ofNat (48 + n) else Char.ofNat (87 + n)

def toHex (l : Bytes) : String :=
  if l.isEmpty then "-" else
  String.ofList (l.flatMap fun b => [hexDigit ((b / 16) % 16), hexDigit (b % 16)])

def hexVal (c : Char) : Option Nat :=
  if '0' ≤ c ∧ c ≤ '9' then some (c.toNat - 48)
  else if 'a' ≤ c ∧ c ≤ 'f' then some (c.toNat - 87)
  else if 'A' ≤ c ∧ c ≤ 'F' then some (c.toNat - 55)
  else none

def parseHexAux : List Char → Bytes → Option Bytes
  | [], acc => some acc.reverse
  | [_], _ => none
  | a :: b :: rest, acc =>
    match hexVal a, hexVal b with
    | some x, some y => parseHexAux rest ((x * 16 + y) :: acc)
    | _, _ => none

/-- "-" is the empty byte string -/
def parseHex (s : String) : Option Bytes :=
  if s = "-" then some [] else parseHexAux s.toList []

def showPy {α} (f : α → String) : Py α → String
  | .ok a => "ok " ++ f a
  | .error e => "exc " ++ e.name

/-- generic stdin → stdout line loop for the drivers -/
partial def lineLoop (h : IO.FS.Stream) (out : IO.FS.Stream) (f : String → String) : IO Unit := do
  let line ← h.getLine
  if line.isEmpty then
    out.flush
    return ()
  out.putStrLn (f (line.trimAscii.toString))
  lineLoop h out f

def runDriver (f : String → String) : IO Unit := do
  lineLoop (← IO.getStdin) (← IO.getStdout) f

end NfcVerif

namespace NfcVerif
/-! ## rewriting lemmas for `Py` computations -/
@[simp] theorem Py.bind_ok {α β} (a : α) (f : α → Py β) : ((Except.ok a : Py α) >>= f) = f a := rfl
@[simp] theorem Py.bind_error {α β} (e : Exc) (f : α → Py β) : ((Except.error e : Py α) >>= f) = .error e := rfl
@[simp] theorem Py.throw_eq {α} (e : Exc) : (throw e : Py α) = .error e := rfl
@[simp] theorem Py.pure_eq {α} (a : α) : (pure a : Py α) = .ok a := rfl
@[simp] theorem idxN_cons_zero {α} (a : α) (l : List α) : idxN (a :: l) 0 = .ok a := rfl
@[simp] theorem idxN_cons_succ {α} (a : α) (l : List α) (n : Nat) : idxN (a :: l) (n + 1) = idxN l n := by
  simp [idxN]
@[simp] theorem idxN_nil {α} (n : Nat) : idxN ([] : List α) n = .error .index := by simp [idxN]
theorem Py.bind_eq_ok {α β} {x : Py α} {f : α → Py β} {b : β} :
    (x >>= f) = .ok b ↔ ∃ a, x = .ok a ∧ f a = .ok b := by
  cases x with
  | error e => simp
  | ok a => simp
end NfcVerif
