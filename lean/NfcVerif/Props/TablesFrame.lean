import NfcVerif.Gen.Tables
import NfcVerif.Model.HostFrame
/-!
Bridge theorems (constants of the source = constants of the models). `Gen/Tables.lean` is
regenerated from `/repo/src/nfc` by `harness/translate_tables.py` on every run of a check that
depends on it; each theorem is closed by kernel evaluation, so an edit of a constant in the
source breaks it.  One small module per model so that the checks stay independent.
-/
namespace NfcVerif.Tables
open NfcVerif

/-- PN53x start-of-frame and ACK constants (C14, C13) -/
theorem pn53x_frame_constants_bridge :
    Gen.Tables.pn53xSof = HostFrame.sof ∧ Gen.Tables.pn53xAck = HostFrame.sof ++ [0, 0xFF, 0] := by decide

end NfcVerif.Tables
