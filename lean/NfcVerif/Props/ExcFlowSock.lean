import NfcVerif.Props.ExcFlow
/-!
# Exception flow, instance theorems: C09 / C17 / C05: the LLCP socket API

Re-checked on the regenerated `Gen/ExcFlow.lean` (see `Props/ExcFlow.lean` for what `Only` / `Can` mean).

Translated: `nfc.llcp.Socket` (every method), the socket API of `LogicalLinkController` (`socket`, `bind` with
`_bind*`, `connect`, `listen`, `accept`, `send`, `sendto`, `recv`, `recvfrom`, `poll`, `close`, `resolve`,
`setsockopt`, `getsockopt`, `getsockname`, `getpeername`), `ServiceAccessPoint`, `ServiceDiscovery`, every method
of the three socket kinds of `nfc/llcp/tco.py` and of their base class, and `collect` / `dispatch` of the link
loop.  There is no layer boundary underneath: the only primitive sites are the data operations whose exception
*is* the mechanism (`popleft()` of an empty queue - how a blocked call learns that the socket was closed -,
`list.index(None)` of a full address range, a dictionary key that is not there, `str.encode('latin')`).
A call `socket.<m>()` on a socket of unknown kind is a branch over what each of the three kinds resolves to.
-/
namespace NfcVerif.ExcFlowProps
open NfcVerif.ExcFlow NfcVerif.Gen.ClassTree NfcVerif.Gen.ExcFlow

/-! ## C09 / C17 / C05: "returns or raises an nfc.llcp.Error" -/

/-- `nfc.llcp.Socket` and the `LogicalLinkController` methods behind it: per method, `nfc.llcp.Error` (with its
subclass `ConnectRefused`) and the named residual -/
def sockApiOnly : List (Site × List Cls) := [
  (Site.fn_sock_Socket___init__, []),
  (Site.fn_sock_Socket_getsockopt, [Cls.llcp_err_Error]),
  (Site.fn_sock_Socket_poll, [Cls.llcp_err_Error]),
  (Site.fn_sock_Socket_getsockname, [Cls.llcp_err_Error]),
  (Site.fn_sock_Socket_getpeername, [Cls.llcp_err_Error]),
  (Site.fn_sock_Socket_bind, [Cls.llcp_err_Error, Cls.UnicodeEncodeError]),
  (Site.fn_sock_Socket_send, [Cls.llcp_err_Error, Cls.TypeError]),
  (Site.fn_sock_Socket_sendto, [Cls.llcp_err_Error, Cls.TypeError]),
  (Site.fn_sock_Socket_recv, [Cls.llcp_err_Error, Cls.RuntimeError]),
  (Site.fn_sock_Socket_recvfrom, [Cls.llcp_err_Error, Cls.RuntimeError]),
  (Site.fn_sock_Socket_accept, [Cls.llcp_err_Error, Cls.RuntimeError]),
  (Site.fn_sock_Socket_listen, [Cls.llcp_err_Error, Cls.TypeError, Cls.ValueError]),
  (Site.fn_sock_Socket_connect, [Cls.llcp_err_Error, Cls.TypeError, Cls.RuntimeError, Cls.UnicodeEncodeError]),
  (Site.fn_sock_Socket_setsockopt, [Cls.llcp_err_Error, Cls.NotImplementedError, Cls.ValueError]),
  (Site.fn_sock_Socket_close, [Cls.llcp_err_Error, Cls.AssertionError]),
  (Site.fn_sock_Socket_resolve, [Cls.IndexError, Cls.UnicodeEncodeError]),
  (Site.fn_llc_socket, []),
  (Site.fn_llc_getsockopt, [Cls.llcp_err_Error]),
  (Site.fn_llc_poll, [Cls.llcp_err_Error]),
  (Site.fn_llc_getsockname, [Cls.llcp_err_Error]),
  (Site.fn_llc_getpeername, [Cls.llcp_err_Error]),
  (Site.fn_llc_bind, [Cls.llcp_err_Error, Cls.UnicodeEncodeError]),
  (Site.fn_llc_bind_none, [Cls.llcp_err_Error]),
  (Site.fn_llc__bind_by_none, [Cls.llcp_err_Error]),
  (Site.fn_llc__bind_by_addr, [Cls.llcp_err_Error]),
  (Site.fn_llc__bind_by_name, [Cls.llcp_err_Error]),
  (Site.fn_llc_send, [Cls.llcp_err_Error, Cls.TypeError]),
  (Site.fn_llc_sendto, [Cls.llcp_err_Error, Cls.TypeError]),
  (Site.fn_llc_recv, [Cls.llcp_err_Error, Cls.RuntimeError]),
  (Site.fn_llc_recvfrom, [Cls.llcp_err_Error, Cls.RuntimeError]),
  (Site.fn_llc_accept, [Cls.llcp_err_Error, Cls.RuntimeError]),
  (Site.fn_llc_listen, [Cls.llcp_err_Error, Cls.TypeError, Cls.ValueError]),
  (Site.fn_llc_connect, [Cls.llcp_err_Error, Cls.TypeError, Cls.RuntimeError, Cls.UnicodeEncodeError]),
  (Site.fn_llc_setsockopt, [Cls.llcp_err_Error, Cls.NotImplementedError, Cls.ValueError]),
  (Site.fn_llc_close, [Cls.llcp_err_Error, Cls.AssertionError]),
  (Site.fn_llc_resolve, [Cls.IndexError, Cls.UnicodeEncodeError])]

/-- the methods of `nfc.llcp.Socket` -/
def socketMethods : List Site := [Site.fn_sock_Socket___init__, Site.fn_sock_Socket_getsockopt, Site.fn_sock_Socket_poll,
  Site.fn_sock_Socket_getsockname, Site.fn_sock_Socket_getpeername, Site.fn_sock_Socket_bind, Site.fn_sock_Socket_send,
  Site.fn_sock_Socket_sendto, Site.fn_sock_Socket_recv, Site.fn_sock_Socket_recvfrom, Site.fn_sock_Socket_accept,
  Site.fn_sock_Socket_listen, Site.fn_sock_Socket_connect, Site.fn_sock_Socket_setsockopt, Site.fn_sock_Socket_close,
  Site.fn_sock_Socket_resolve]
/-- one list for the whole class: `nfc.llcp.Error`, the argument errors `TypeError` / `ValueError` (includes
`UnicodeEncodeError`), and the residual `RuntimeError` (includes `NotImplementedError`), `AssertionError`, `IndexError` -/
def socketAllowed : List Cls := [Cls.llcp_err_Error, Cls.TypeError, Cls.ValueError, Cls.RuntimeError, Cls.AssertionError,
  Cls.IndexError]

/-- the three socket kinds and their base class; service access points; collect / dispatch -/
def sockInnerOnly : List (Site × List Cls) := [
  (Site.fn_tco_TCO_recv, [Cls.IndexError]),
  (Site.fn_tco_TCO_setsockopt, [Cls.NotImplementedError, Cls.ValueError]),
  (Site.fn_tco_TCO_getsockopt, []), (Site.fn_tco_TCO_bind, []), (Site.fn_tco_TCO_poll, []), (Site.fn_tco_TCO_send, []),
  (Site.fn_tco_TCO_close, []), (Site.fn_tco_TCO_enqueue, []), (Site.fn_tco_TCO_dequeue, []),
  (Site.fn_tco_RAW_setsockopt, [Cls.llcp_err_Error, Cls.NotImplementedError, Cls.ValueError]),
  (Site.fn_tco_RAW_getsockopt, [Cls.llcp_err_Error]), (Site.fn_tco_RAW_poll, [Cls.llcp_err_Error]),
  (Site.fn_tco_RAW_send, [Cls.llcp_err_Error]), (Site.fn_tco_RAW_recv, [Cls.llcp_err_Error]), (Site.fn_tco_RAW_close, []),
  (Site.fn_tco_RAW_enqueue, []), (Site.fn_tco_RAW_dequeue, []),
  (Site.fn_tco_LDL_setsockopt, [Cls.llcp_err_Error, Cls.NotImplementedError, Cls.ValueError]),
  (Site.fn_tco_LDL_getsockopt, [Cls.llcp_err_Error]), (Site.fn_tco_LDL_connect, [Cls.llcp_err_Error]),
  (Site.fn_tco_LDL_poll, [Cls.llcp_err_Error]), (Site.fn_tco_LDL_sendto, [Cls.llcp_err_Error]),
  (Site.fn_tco_LDL_recvfrom, [Cls.llcp_err_Error]), (Site.fn_tco_LDL_close, []), (Site.fn_tco_LDL_enqueue, []),
  (Site.fn_tco_LDL_dequeue, []),
  (Site.fn_tco_DLC_setsockopt, [Cls.NotImplementedError, Cls.ValueError]), (Site.fn_tco_DLC_getsockopt, []),
  (Site.fn_tco_DLC_listen, [Cls.llcp_err_Error]), (Site.fn_tco_DLC_accept, [Cls.llcp_err_Error, Cls.RuntimeError]),
  (Site.fn_tco_DLC_connect, [Cls.llcp_err_Error, Cls.TypeError, Cls.RuntimeError, Cls.UnicodeEncodeError]),
  (Site.fn_tco_DLC_send, [Cls.llcp_err_Error]), (Site.fn_tco_DLC_recv, [Cls.llcp_err_Error, Cls.RuntimeError]),
  (Site.fn_tco_DLC_poll, [Cls.llcp_err_Error]), (Site.fn_tco_DLC__poll, [Cls.llcp_err_Error]), (Site.fn_tco_DLC_close, []),
  (Site.fn_tco_DLC_enqueue, []), (Site.fn_tco_DLC__enqueue_state_established, []), (Site.fn_tco_DLC_dequeue, []),
  (Site.fn_tco_DLC_sendack, []),
  (Site.fn_llc_SAP_insert_socket, []), (Site.fn_llc_SAP_remove_socket, [Cls.AssertionError]), (Site.fn_llc_SAP_send, []),
  (Site.fn_llc_SAP_shutdown, []), (Site.fn_llc_SAP_enqueue, []), (Site.fn_llc_SAP_dequeue, []), (Site.fn_llc_SAP_sendack, []),
  (Site.fn_llc_SD_resolve, [Cls.IndexError]), (Site.fn_llc_SD_enqueue, []), (Site.fn_llc_SD_dequeue, []),
  (Site.fn_llc_SD_shutdown, []),
  (Site.fn_llc_collect, [Cls.llcp_sec_EncryptionError, Cls.llcp_pdu_EncodeError, Cls.llcp_pdu_DecodeError]),
  (Site.fn_llc_dispatch, [Cls.llcp_sec_DecryptionError, Cls.llcp_pdu_EncodeError, Cls.llcp_pdu_DecodeError])]

/-- every `Only` statement of this module -/
abbrev sockOnly : List (Site × List Cls) := sockApiOnly ++ (socketMethods.map (fun f => (f, socketAllowed)) ++ sockInnerOnly)

/-- the `IndexError` of the empty queue (the wake-up after `close()`) never leaves a socket call: it is mapped to
`Error(EPIPE)` (`recv` of a connection: `None`) by every caller of `TransmissionControlObject.recv` -/
def sockNever : List (Site × List Cls) := [
  (Site.fn_sock_Socket_recv, [Cls.IndexError]), (Site.fn_sock_Socket_recvfrom, [Cls.IndexError]),
  (Site.fn_sock_Socket_accept, [Cls.IndexError]), (Site.fn_sock_Socket_connect, [Cls.IndexError]),
  (Site.fn_sock_Socket_close, [Cls.IndexError]), (Site.fn_sock_Socket_send, [Cls.IndexError]),
  (Site.fn_sock_Socket_sendto, [Cls.IndexError]), (Site.fn_sock_Socket_poll, [Cls.IndexError]),
  (Site.fn_llc_collect, [Cls.IndexError, Cls.KeyError, Cls.ValueError]),
  (Site.fn_llc_dispatch, [Cls.IndexError, Cls.KeyError, Cls.ValueError]),
  (Site.fn_llc_SAP_shutdown, [Cls.BaseException]), (Site.fn_llc_SD_shutdown, [Cls.BaseException])]

def sockCan : List (Site × Cls) := [
  (Site.fn_tco_TCO_recv, Cls.IndexError),
  (Site.fn_sock_Socket_recv, Cls.llcp_err_Error),
  (Site.fn_sock_Socket_connect, Cls.llcp_err_ConnectRefused),
  (Site.fn_sock_Socket_bind, Cls.llcp_err_Error),
  (Site.fn_sock_Socket_recv, Cls.RuntimeError),
  (Site.fn_sock_Socket_accept, Cls.RuntimeError),
  (Site.fn_sock_Socket_connect, Cls.RuntimeError),
  (Site.fn_sock_Socket_connect, Cls.TypeError),
  (Site.fn_sock_Socket_setsockopt, Cls.NotImplementedError),
  (Site.fn_sock_Socket_setsockopt, Cls.ValueError),
  (Site.fn_sock_Socket_listen, Cls.ValueError),
  (Site.fn_sock_Socket_sendto, Cls.TypeError),
  (Site.fn_sock_Socket_bind, Cls.UnicodeEncodeError),
  (Site.fn_sock_Socket_connect, Cls.UnicodeEncodeError),
  (Site.fn_sock_Socket_resolve, Cls.UnicodeEncodeError),
  (Site.fn_sock_Socket_resolve, Cls.IndexError),
  (Site.fn_sock_Socket_close, Cls.AssertionError),
  (Site.fn_llc_collect, Cls.llcp_pdu_EncodeError),
  (Site.fn_llc_collect, Cls.llcp_sec_EncryptionError),
  (Site.fn_llc_dispatch, Cls.llcp_pdu_DecodeError),
  (Site.fn_llc_dispatch, Cls.llcp_sec_DecryptionError)]
/-- every statement of this module, checked with one evaluation of the summary table -/
theorem sockAll_ok : checkAll world table prog sockOnly sockNever sockCan = true := by decide +kernel
theorem sockOnly_ok : checkOnly world table prog sockOnly = true := (checkAll_split sockAll_ok).1
theorem sockNever_ok : checkNever world table prog sockNever = true := (checkAll_split sockAll_ok).2.1
theorem sockCan_ok : checkCan world table prog sockCan = true := (checkAll_split sockAll_ok).2.2

/-- **per method**: what can leave each method of `nfc.llcp.Socket` and of the `LogicalLinkController` socket API
(the lists are in `sockApiOnly`): `nfc.llcp.Error`, and
* `TypeError` / `ValueError`: argument checks (`listen`: backlog; `send` / `sendto`: message type; `connect`:
  destination type; `setsockopt`: unknown option),
* `UnicodeEncodeError`: a `str` name that is not latin-1 (`bind`, `connect`, `resolve` encode it with `'latin'`),
* `NotImplementedError`: `setsockopt(SO_SNDBUF)`,
* `RuntimeError`: internal consistency checks of `DataLinkConnection.accept` / `connect` / `recv`,
* `AssertionError`: the `assert` of `ServiceAccessPoint.remove_socket` (`close`; it was reached in the C09 finding
  `exc-racing-terminate-close-AssertionError`, repaired in /repo by weakening the asserted condition - the `assert`
  statement itself is still there),
* `IndexError`: `resolve` when all 256 transaction identifiers are in use (`random.choice([])`). -/
theorem socket_api_escapes : ∀ fa ∈ sockApiOnly, Only fa.1 fa.2 :=
  fun fa h => only_all sockOnly_ok fa (List.mem_append_left _ h)
/-- **the class as a whole**: only `nfc.llcp.Error`, `TypeError`, `ValueError`, `RuntimeError`, `AssertionError`,
`IndexError` (and subclasses) leave a method of `nfc.llcp.Socket`; in particular no `pdu.Error`, no `sec.Error`,
no `CommunicationError`, no `KeyError` -/
theorem socket_class_escapes : ∀ f ∈ socketMethods, Only f socketAllowed := by
  intro f hf
  exact only_all sockOnly_ok (f, socketAllowed)
    (List.mem_append_right _ (List.mem_append_left _ (List.mem_map.mpr ⟨f, hf, rfl⟩)))
/-- the methods that raise `nfc.llcp.Error` and nothing else -/
theorem socket_api_error_only : ∀ f ∈ [Site.fn_sock_Socket_getsockopt, Site.fn_sock_Socket_poll,
    Site.fn_sock_Socket_getsockname, Site.fn_sock_Socket_getpeername], Only f [Cls.llcp_err_Error] := by
  intro f hf
  simp only [List.mem_cons, List.not_mem_nil, or_false] at hf
  rcases hf with h | h | h | h <;> subst h <;>
    exact only_all sockOnly_ok (_, [Cls.llcp_err_Error]) (List.mem_append_left _ (by decide))

/-- the socket kinds of `nfc/llcp/tco.py`, service access points, service discovery, `collect`, `dispatch`
(the lists are in `sockInnerOnly`).  `enqueue` / `dequeue` / `sendack` / `shutdown` - what the link loop and
`terminate()` call - raise nothing. -/
theorem socket_kinds_escape : ∀ fa ∈ sockInnerOnly, Only fa.1 fa.2 :=
  fun fa h => only_all sockOnly_ok fa (List.mem_append_right _ (List.mem_append_right _ h))

/-- C09 mechanism: `close()` clears the queues and notifies; the woken call finds the queue empty (`IndexError`,
`socket_recv_raises_indexerror`) and reports `Error(EPIPE)` - the `IndexError` itself never leaves -/
theorem socket_wakeup_indexerror_mapped : ∀ f ∈ [Site.fn_sock_Socket_recv, Site.fn_sock_Socket_recvfrom,
    Site.fn_sock_Socket_accept, Site.fn_sock_Socket_connect, Site.fn_sock_Socket_close, Site.fn_sock_Socket_send,
    Site.fn_sock_Socket_sendto, Site.fn_sock_Socket_poll], NeverEscapes world table prog f [Cls.IndexError] := by
  intro f hf
  simp only [List.mem_cons, List.not_mem_nil, or_false] at hf
  rcases hf with h | h | h | h | h | h | h | h <;> subst h <;>
    exact neverEscapes_of_checkNever tree_ordered sockNever_ok (by decide)
theorem socket_recv_raises_indexerror : Can Site.fn_tco_TCO_recv Cls.IndexError ∧
    Can Site.fn_sock_Socket_recv Cls.llcp_err_Error ∧ Can Site.fn_sock_Socket_connect Cls.llcp_err_ConnectRefused ∧
    Can Site.fn_sock_Socket_bind Cls.llcp_err_Error :=
  ⟨canEscape_of_checkCan tree_ordered sockCan_ok (by decide), canEscape_of_checkCan tree_ordered sockCan_ok (by decide),
   canEscape_of_checkCan tree_ordered sockCan_ok (by decide), canEscape_of_checkCan tree_ordered sockCan_ok (by decide)⟩
/-- `shutdown()` of a service access point - what `terminate()` runs for all 64 of them - raises nothing at all -/
theorem sap_shutdown_never_raises : NeverEscapes world table prog Site.fn_llc_SAP_shutdown [Cls.BaseException] ∧
    NeverEscapes world table prog Site.fn_llc_SD_shutdown [Cls.BaseException] :=
  ⟨neverEscapes_of_checkNever tree_ordered sockNever_ok (by decide),
   neverEscapes_of_checkNever tree_ordered sockNever_ok (by decide)⟩

/-- the residual is reachable in the abstract semantics (each witness names the clause of C09 / C17 it is outside
of: "returns or raises an nfc.llcp.Error", "EADDRINUSE, EACCES, EFAULT or EAGAIN otherwise") -/
theorem socket_api_residual : Can Site.fn_sock_Socket_recv Cls.RuntimeError ∧ Can Site.fn_sock_Socket_accept Cls.RuntimeError ∧
    Can Site.fn_sock_Socket_connect Cls.RuntimeError ∧ Can Site.fn_sock_Socket_connect Cls.TypeError ∧
    Can Site.fn_sock_Socket_setsockopt Cls.NotImplementedError ∧ Can Site.fn_sock_Socket_setsockopt Cls.ValueError ∧
    Can Site.fn_sock_Socket_listen Cls.ValueError ∧ Can Site.fn_sock_Socket_sendto Cls.TypeError ∧
    Can Site.fn_sock_Socket_bind Cls.UnicodeEncodeError ∧ Can Site.fn_sock_Socket_connect Cls.UnicodeEncodeError ∧
    Can Site.fn_sock_Socket_resolve Cls.UnicodeEncodeError ∧ Can Site.fn_sock_Socket_resolve Cls.IndexError ∧
    Can Site.fn_sock_Socket_close Cls.AssertionError :=
  ⟨canEscape_of_checkCan tree_ordered sockCan_ok (by decide), canEscape_of_checkCan tree_ordered sockCan_ok (by decide),
   canEscape_of_checkCan tree_ordered sockCan_ok (by decide), canEscape_of_checkCan tree_ordered sockCan_ok (by decide),
   canEscape_of_checkCan tree_ordered sockCan_ok (by decide), canEscape_of_checkCan tree_ordered sockCan_ok (by decide),
   canEscape_of_checkCan tree_ordered sockCan_ok (by decide), canEscape_of_checkCan tree_ordered sockCan_ok (by decide),
   canEscape_of_checkCan tree_ordered sockCan_ok (by decide), canEscape_of_checkCan tree_ordered sockCan_ok (by decide),
   canEscape_of_checkCan tree_ordered sockCan_ok (by decide), canEscape_of_checkCan tree_ordered sockCan_ok (by decide),
   canEscape_of_checkCan tree_ordered sockCan_ok (by decide)⟩

/-! ## `collect` / `dispatch` of the link loop -/

/-- `collect` raises the `EncryptionError` the run loops are assumed to see (`Props/ExcFlowLlc.lean`), and - only
through the header re-coding around the cipher (`encrypt`: `encode_header` / `decode_header` of a UI / I PDU taken
from a send queue) - `pdu.EncodeError` / `pdu.DecodeError`; `dispatch` likewise with `DecryptionError`.  No
`IndexError` / `KeyError` / `ValueError` of the queue and table operations underneath leaves them. -/
theorem llc_collect_dispatch_escape :
    Only Site.fn_llc_collect [Cls.llcp_sec_EncryptionError, Cls.llcp_pdu_EncodeError, Cls.llcp_pdu_DecodeError] ∧
    Only Site.fn_llc_dispatch [Cls.llcp_sec_DecryptionError, Cls.llcp_pdu_EncodeError, Cls.llcp_pdu_DecodeError] ∧
    NeverEscapes world table prog Site.fn_llc_collect [Cls.IndexError, Cls.KeyError, Cls.ValueError] ∧
    NeverEscapes world table prog Site.fn_llc_dispatch [Cls.IndexError, Cls.KeyError, Cls.ValueError] :=
  ⟨only_all sockOnly_ok (_, _) (List.mem_append_right _ (List.mem_append_right _ (by decide))),
   only_all sockOnly_ok (_, _) (List.mem_append_right _ (List.mem_append_right _ (by decide))),
   neverEscapes_of_checkNever tree_ordered sockNever_ok (by decide),
   neverEscapes_of_checkNever tree_ordered sockNever_ok (by decide)⟩
/-- stated because it is outside the run loops' assumption `self.collect: [EncryptionError]` /
`self.dispatch: [DecryptionError]`: with data protection on, a UI / I PDU whose address fields do not encode
(possible for a PDU handed to a raw access point) raises `pdu.EncodeError` inside `collect` -/
theorem llc_collect_dispatch_pdu_error : Can Site.fn_llc_collect Cls.llcp_pdu_EncodeError ∧
    Can Site.fn_llc_collect Cls.llcp_sec_EncryptionError ∧ Can Site.fn_llc_dispatch Cls.llcp_pdu_DecodeError ∧
    Can Site.fn_llc_dispatch Cls.llcp_sec_DecryptionError :=
  ⟨canEscape_of_checkCan tree_ordered sockCan_ok (by decide), canEscape_of_checkCan tree_ordered sockCan_ok (by decide),
   canEscape_of_checkCan tree_ordered sockCan_ok (by decide), canEscape_of_checkCan tree_ordered sockCan_ok (by decide)⟩

end NfcVerif.ExcFlowProps
