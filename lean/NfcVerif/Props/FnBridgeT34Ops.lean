import NfcVerif.Gen.FnT34Ops
import NfcVerif.Model.FnT34OpsRef
import NfcVerif.Lemmas.FnBridgeT34Ops
import NfcVerif.Props.FnBridgeT4
/-!
# Bridge theorems, group T34Ops (`nfc/tag/tt3.py`, `nfc/tag/tt4.py` -> `Gen/FnT34Ops.lean` -> `Model/FnT34OpsRef.lean`,
`Model/IsoDep.lean`; C01, C02, C03, C07, C08, C12, C16)

Every `<name>_bridge` holds for all inputs (tag commands are arbitrary functions).  The `gen_*` corollaries restate the
property-relevant facts of `Lemmas/FnBridgeT34Ops.lean` for the regenerated definitions.
-/
namespace NfcVerif.FnBridge.T34Ops
open NfcVerif NfcVerif.PyFn NfcVerif.T34OpsRef NfcVerif.FnBridge.Pdu

/-! ## Type 3 Tag reader -/

theorem t3_polling_bad_len_bridge (rc : Int) (data : Bytes) :
    Gen.Fn.ops_t3_polling_bad_len rc data = pollingRefused rc data.length := by
  unfold Gen.Fn.ops_t3_polling_bad_len pollingRefused pollingLen
  by_cases h : rc = 0
  · simp only [h, if_true, len_eq]; exact decide_eq_decide.mpr (by omega)
  · simp only [h, if_false, len_eq]; exact decide_eq_decide.mpr (by omega)

/-- request code 0: an accepted response has 16 data octets, `polling` returns the pair (IDm, PMm) -/
theorem gen_polling_pair (data : Bytes) (h : Gen.Fn.ops_t3_polling_bad_len 0 data = false) : data.length = 16 :=
  pollingRefused_rc0 (by rw [← t3_polling_bad_len_bridge]; exact h)

example : Gen.Fn.ops_t3_polling_bad_len 0 (List.replicate 18 0) = true := by decide
example : Gen.Fn.ops_t3_polling_bad_len 1 (List.replicate 18 0) = false := by decide

theorem t3_read_bridge (xchg : Int → Bytes → Int → Py Bytes) (bl : List Int) (data : Bytes) (timeout : Int) :
    Gen.Fn.ops_t3_read bl data timeout xchg = readCmd xchg bl.length data timeout := by
  unfold Gen.Fn.ops_t3_read readCmd
  cases xchg 6 data timeout with
  | error e => rfl
  | ok r =>
    have hs : PyFn.sliceFrom r 1 = r.drop 1 := sliceFrom_ofNat r 1
    simp only [Py.bind_ok, hs, len_eq, DATA_SIZE_ERROR]
    by_cases hl : r.length = 1 + 16 * bl.length
    · have : ¬ ((r.length : Int) ≠ 1 + (bl.length : Int) * 16) := by omega
      rw [if_neg this, if_pos hl]
    · have : ((r.length : Int) ≠ 1 + (bl.length : Int) * 16) := by omega
      rw [if_pos this, if_neg hl]

/-- an accepted Read Without Encryption response carries exactly the requested number of blocks -/
theorem gen_read_blocks {xchg : Int → Bytes → Int → Py Bytes} {bl : List Int} {data r : Bytes} {timeout : Int}
    (h : Gen.Fn.ops_t3_read bl data timeout xchg = .ok r) : r.length = 16 * bl.length :=
  readCmd_blocks (by rw [← t3_read_bridge]; exact h)

theorem gen_read_empty_answer {xchg : Int → Bytes → Int → Py Bytes} {bl : List Int} {data : Bytes} {timeout : Int}
    (h : xchg 6 data timeout = .ok []) : Gen.Fn.ops_t3_read bl data timeout xchg = .error (.tagCmd 4) := by
  rw [t3_read_bridge]; exact readCmd_empty h

example : Gen.Fn.ops_t3_read [1, 2] [9] 0 (fun _ _ _ => .ok (7 :: List.replicate 32 5)) = .ok (List.replicate 32 5) := by decide
example : Gen.Fn.ops_t3_read [1, 2] [9] 0 (fun _ _ _ => .ok [0]) = .error (.tagCmd 4) := by decide

theorem t3_write_bridge (xchg : Int → Bytes → Int → Py Bytes) (data : Bytes) (timeout : Int) :
    Gen.Fn.ops_t3_write data timeout xchg = writeCmd xchg data timeout := by
  unfold Gen.Fn.ops_t3_write writeCmd
  cases xchg 8 data timeout <;> rfl

example : Gen.Fn.ops_t3_write [1] 0 (fun c _ _ => if c = 8 then .ok [] else .error .timeout) = .ok none := by decide

theorem t3_attr_unverified_bridge (d : Option Bytes) : Gen.Fn.ops_t3_attr_unverified d = d := by
  cases d <;> rfl

/-- both data exits of `_read_attribute_data` leave DATA_SIZE_ERROR (what `T3.writeNdef` reports as `.tagCmd 4`) -/
theorem t3_attr_errno_bridge :
    Gen.Fn.ops_t3_attr_errno_unverified = DATA_SIZE_ERROR ∧ Gen.Fn.ops_t3_attr_errno_checksum = DATA_SIZE_ERROR := ⟨rfl, rfl⟩

theorem t3_write_plan_bridge (d : Bytes) :
    Gen.Fn.ops_t3_write_plan d = .ok ((((writePlan d).1 : Nat) : Int), (writePlan d).2) := by
  unfold Gen.Fn.ops_t3_write_plan writePlan padded
  have hc := blocksFor_ceil d.length
  have hz : (-(PyFn.len d)) % 16 = ((16 * blocksFor d.length - d.length : Nat) : Int) := by
    unfold blocksFor at *; simp only [len_eq]; omega
  have h1 : (1 + ((PyFn.len d) + 15) / 16 : Int) = ((1 + blocksFor d.length : Nat) : Int) := by
    unfold blocksFor; simp only [len_eq]; omega
  rw [hz, h1]
  have : ¬ (((16 * blocksFor d.length - d.length : Nat) : Int) < 0) := by omega
  simp only [PyFn.zeros, this, if_false, Py.bind_ok, Int.toNat_natCast]

/-- the number of data blocks written is ceil(len/16) <= Nmaxb; the padded data fill them exactly -/
theorem gen_write_plan_blocks {d pd : Bytes} {last : Int} {nmaxb : Nat} (hcap : d.length ≤ 16 * nmaxb)
    (h : Gen.Fn.ops_t3_write_plan d = .ok (last, pd)) :
    last ≤ nmaxb + 1 ∧ (pd.length : Int) = 16 * (last - 1) ∧ pd.take d.length = d := by
  rw [t3_write_plan_bridge] at h
  simp only [Except.ok.injEq, Prod.mk.injEq] at h
  obtain ⟨h1, h2⟩ := h
  have hl := writePlan_last hcap
  subst h1 h2
  refine ⟨by omega, ?_, padded_prefix d⟩
  simp only [writePlan, padded_length]; omega

/-- a message of whole blocks is written without an extra block (seed C03-r5m3) -/
theorem gen_write_plan_exact {d : Bytes} (h : d.length % 16 = 0) :
    Gen.Fn.ops_t3_write_plan d = .ok (((1 + d.length / 16 : Nat) : Int), d) := by
  rw [t3_write_plan_bridge]
  simp only [writePlan, padded_exact h]
  have : blocksFor d.length = d.length / 16 := by unfold blocksFor; omega
  rw [this]

example : Gen.Fn.ops_t3_write_plan (List.replicate 16 7) = .ok (2, List.replicate 16 7) := by decide
example : Gen.Fn.ops_t3_write_plan [1, 2] = .ok (2, [1, 2] ++ List.replicate 14 0) := by decide

theorem count_cast (last step : Nat) (hs : 0 < step) :
    ((((last : Int) - 1 + (step : Int) - 1) / (step : Int)).toNat) = (last + step - 2) / step := by
  by_cases h : 2 ≤ last + step
  · have e : ((last : Int) - 1 + (step : Int) - 1) = ((last + step - 2 : Nat) : Int) := by omega
    rw [e, ← Int.natCast_ediv, Int.toNat_natCast]
  · have h1 : last = 0 := by omega
    have h2 : step = 1 := by omega
    subst h1 h2; decide

theorem rangeStep_starts (last step : Nat) : PyFn.rangeStep 1 (last : Int) (step : Int) = startsPy last step := by
  unfold PyFn.rangeStep startsPy starts
  by_cases h0 : step = 0
  · subst h0; simp
  · have h1 : ¬ ((step : Int) = 0) := by omega
    have h2 : (step : Int) > 0 := by omega
    simp only [h1, h2, h0, if_true, if_false, count_cast last step (by omega), List.map_map]
    congr 1

theorem t3_write_starts_bridge (last nbw : Nat) : Gen.Fn.ops_t3_write_starts last nbw = startsPy last nbw :=
  rangeStep_starts last nbw
theorem t3_read_starts_bridge (last nbr : Nat) : Gen.Fn.ops_t3_read_starts last nbr = startsPy last nbr :=
  rangeStep_starts last nbr

/-- no data block in front of `last` is skipped by the write loop -/
theorem gen_write_starts_cover {last nbw b : Nat} {l : List Int} (h : Gen.Fn.ops_t3_write_starts last nbw = .ok l)
    (h1 : 1 ≤ b) (h2 : b < last) : ∃ s : Nat, (s : Int) ∈ l ∧ s ≤ b ∧ b < s + nbw := by
  rw [t3_write_starts_bridge] at h
  unfold startsPy at h
  by_cases h0 : nbw = 0
  · simp [h0] at h
  · simp only [h0, if_false, Except.ok.injEq] at h
    obtain ⟨s, hs, h3, h4⟩ := starts_cover (step := nbw) (by omega) h1 h2
    exact ⟨s, by rw [← h]; exact List.mem_map.mpr ⟨s, hs, rfl⟩, h3, h4⟩

example : Gen.Fn.ops_t3_write_starts 6 2 = .ok [1, 3, 5] := by decide
example : Gen.Fn.ops_t3_read_starts 6 0 = .error .value := by decide

/-! ## Type 3 Tag emulation -/

theorem t3e_rd_too_many_bridge (l : List Int) : Gen.Fn.ops_t3e_rd_too_many l = emuRefuses l.length := by
  unfold Gen.Fn.ops_t3e_rd_too_many emuRefuses
  simp only [len_eq]; exact decide_eq_decide.mpr (by omega)

/-- a command of the reader's batch size min(Nbr, 15) is never refused for its block count (seed C01-r5m3) -/
theorem gen_reader_batch_served (l : List Int) (nbr : Nat) (h : l.length = min nbr 15) :
    Gen.Fn.ops_t3e_rd_too_many l = false := by
  rw [t3e_rd_too_many_bridge, h]; exact reader_batch_not_refused nbr

theorem flag_eq (i : Nat) : PyFn.shl 1 ((i : Int) % 8) = ((statusFlag i : Nat) : Int) := by
  have e1 : (1 : Int) = ((1 : Nat) : Int) := rfl
  have e2 : (i : Int) % 8 = ((i % 8 : Nat) : Int) := by omega
  rw [e1, e2, shl_ofNat, Nat.shiftLeft_eq, Nat.one_mul]; rfl

theorem t3e_flags_bridge (i : Nat) :
    Gen.Fn.ops_t3e_rd_flag_a3 i = ((statusFlag i : Nat) : Int) ∧ Gen.Fn.ops_t3e_rd_flag_a2 i = ((statusFlag i : Nat) : Int) ∧
    Gen.Fn.ops_t3e_wr_flag_a3 i = ((statusFlag i : Nat) : Int) ∧ Gen.Fn.ops_t3e_wr_flag_a2 i = ((statusFlag i : Nat) : Int) :=
  ⟨flag_eq i, flag_eq i, flag_eq i, flag_eq i⟩

/-- the status octets of every error answer are a byte string: no ValueError (seed C07-r5m2) -/
theorem gen_status_is_bytes (i : Nat) (s2 : Nat) (h2 : s2 < 256) :
    PyFn.mkBytes [Gen.Fn.ops_t3e_rd_flag_a3 i, (s2 : Int)] = .ok [statusFlag i, s2] ∧
    PyFn.mkBytes [Gen.Fn.ops_t3e_wr_flag_a2 i, (s2 : Int)] = .ok [statusFlag i, s2] := by
  have hb := statusFlag_byte i
  rw [(t3e_flags_bridge i).1, (t3e_flags_bridge i).2.2.2]
  exact ⟨mkBytes_two _ _ hb.2 h2, mkBytes_two _ _ hb.2 h2⟩

example : Gen.Fn.ops_t3e_rd_flag_a2 14 = 64 := by decide

/-! ## Type 4 Tag -/

/-- the glue of `send_apdu`: the command of `t4_apdu_build` (group T4), ONE `transceive`, then `t4_apdu_status` -/
theorem t4_send_apdu_glue (cla ins p1 p2 : Int) (data : Bytes) (mrl : Int) (cs ext : Bool) (trx : Bytes → Py Bytes) :
    Gen.Fn.ops_t4_send_apdu cla ins p1 p2 data mrl cs ext trx
      = (Gen.Fn.t4_apdu_build cla ins p1 p2 data mrl ext >>= fun a => trx a >>= fun r => Gen.Fn.t4_apdu_status r cs) := by
  unfold Gen.Fn.ops_t4_send_apdu Gen.Fn.t4_apdu_build Gen.Fn.t4_apdu_status
  cases PyFn.mkBytes [cla, ins, p1, p2] with
  | error e => rfl
  | ok t1 =>
    simp only [Py.bind_ok, bind_assoc]

theorem t4_send_apdu_bridge (trx : Bytes → Py Bytes) (ext : Bool) (cla ins p1 p2 : Nat) (data : Bytes) (mrl : Nat) (cs : Bool) :
    Gen.Fn.ops_t4_send_apdu cla ins p1 p2 data mrl cs ext trx = sendApduVia trx ext cla ins p1 p2 data mrl cs := by
  rw [t4_send_apdu_glue, T4.apdu_build_bridge]
  unfold sendApduVia
  cases IsoDep.encodeApdu ext cla ins p1 p2 data mrl with
  | error e => rfl
  | ok cmd =>
    simp only [Py.bind_ok]
    cases trx cmd with
    | error e => rfl
    | ok rsp => simp only [Py.bind_ok]; exact T4.apdu_status_bridge rsp cs

example : Gen.Fn.ops_t4_send_apdu 0 0xB0 0 0 [] 2 true false (fun c => .ok (c ++ [0x90, 0])) = .ok [0, 0xB0, 0, 0, 2] := by decide

theorem read_tail (x : Py Bytes) (X : Int) :
    (x >>= fun t3 => if PyFn.len t3 > (if 0 > X then 0 else X) then Except.error (Exc.tagCmd (-2)) else Except.ok t3)
      = (match x with
         | .error e => .error e
         | .ok d => if (d.length : Int) > max X 0 then .error (.tagCmd (-2)) else .ok d) := by
  cases x with
  | error e => rfl
  | ok d =>
    simp only [Py.bind_ok]
    by_cases hc : (d.length : Int) > max X 0
    · have hc' : PyFn.len d > (if 0 > X then 0 else X) := by simp only [len_eq]; split <;> omega
      rw [if_pos hc, if_pos hc']
    · have hc' : ¬ PyFn.len d > (if 0 > X then 0 else X) := by simp only [len_eq]; split <;> omega
      rw [if_neg hc, if_neg hc']

theorem t4_read_binary_bridge (apdu : Int → Int → Int → Int → Int → Py Bytes) (maxLe : Int) (off : Nat) (size : Int) :
    Gen.Fn.ops_t4_read_binary off size maxLe apdu = readBinaryVia apdu maxLe off size := by
  unfold Gen.Fn.ops_t4_read_binary readBinaryVia
  rw [pack_Hbe]
  by_cases h : off > 65535
  · simp [h]
  · have hl2 : PyFn.len [off / 256, off % 256] = 2 := rfl
    have g0 : PyFn.getB [off / 256, off % 256] 0 = .ok ((off / 256 : Nat) : Int) := getB_zero _ _
    have g1 : PyFn.getB [off / 256, off % 256] 1 = .ok ((off % 256 : Nat) : Int) := by rw [getB_one, getB_zero]
    simp only [h, if_false, Py.bind_ok, hl2, ne_eq, not_true_eq_false, g0, g1, PyFn.imin, PyFn.imax, IsoDep.PROTOCOL_ERROR]
    exact read_tail _ _

theorem t4_update_binary_bridge (apdu : Int → Int → Int → Int → Bytes → Py Bytes) (maxLc off : Nat) (data : Bytes) :
    Gen.Fn.ops_t4_update_binary off data maxLc apdu = updateBinaryVia apdu maxLc off data := by
  unfold Gen.Fn.ops_t4_update_binary updateBinaryVia
  rw [pack_Hbe]
  by_cases h : off > 65535
  · simp [h]
  · have hl2 : PyFn.len [off / 256, off % 256] = 2 := rfl
    simp only [h, if_false, Py.bind_ok, hl2, ne_eq, not_true_eq_false, len_eq]
    have g0 : PyFn.getB [off / 256, off % 256] 0 = .ok ((off / 256 : Nat) : Int) := getB_zero _ _
    have g1 : PyFn.getB [off / 256, off % 256] 1 = .ok ((off % 256 : Nat) : Int) := by rw [getB_one, getB_zero]
    have hm : PyFn.imin (maxLc : Int) (data.length : Int) = ((min maxLc data.length : Nat) : Int) := by
      unfold PyFn.imin; split <;> omega
    simp only [g0, g1, Py.bind_ok, hm, sliceTo_ofNat]
    cases apdu 0 214 ((off / 256 : Nat) : Int) ((off % 256 : Nat) : Int) (List.take (min maxLc data.length) data) <;> rfl

/-- the chunk of one UPDATE BINARY is at most MLc octets and the method returns its length -/
theorem gen_update_binary_le {apdu : Int → Int → Int → Int → Bytes → Py Bytes} {maxLc off : Nat} {data : Bytes} {n : Int}
    (h : Gen.Fn.ops_t4_update_binary off data maxLc apdu = .ok n) : 0 ≤ n ∧ n ≤ maxLc ∧ n ≤ data.length :=
  updateBinaryVia_le (by rw [← t4_update_binary_bridge]; exact h)

theorem gen_read_binary_le {apdu : Int → Int → Int → Int → Int → Py Bytes} {maxLe : Int} {off : Nat} {size : Int} {d : Bytes}
    (h : Gen.Fn.ops_t4_read_binary off size maxLe apdu = .ok d) : (d.length : Int) ≤ max size 0 ∧ (d.length : Int) ≤ max maxLe 0 :=
  readBinaryVia_le (by rw [← t4_read_binary_bridge]; exact h)

example : Gen.Fn.ops_t4_update_binary 258 [1, 2, 3] 2 (fun _ ins p1 p2 d => if ins = 0xD6 ∧ p1 = 1 ∧ p2 = 2 ∧ d = [1, 2] then .ok [] else .error .value) = .ok 2 := by decide
example : Gen.Fn.ops_t4_read_binary 0 2 15 (fun _ _ _ _ le => .ok (List.replicate (le.toNat + 1) 0)) = .error (.tagCmd (-2)) := by decide

theorem t4_single_update_bridge (nlen data : Bytes) (maxLc : Nat) :
    Gen.Fn.ops_t4_single_update nlen data maxLc = singleUpdate nlen.length data.length maxLc := by
  unfold Gen.Fn.ops_t4_single_update singleUpdate
  simp only [len_eq]; exact decide_eq_decide.mpr (by omega)

/-- a single UPDATE BINARY is chosen only when NLEN and data fit MLc (seed C02-r5m1) -/
theorem gen_single_update_fits {nlen data : Bytes} {maxLc : Nat} (h : Gen.Fn.ops_t4_single_update nlen data maxLc = true) :
    nlen.length + data.length ≤ maxLc := by
  rw [t4_single_update_bridge] at h; simpa [singleUpdate] using h

example : Gen.Fn.ops_t4_single_update [0, 14] (List.replicate 14 1) 15 = false := by decide

theorem t4_capacity_bridge (mfs tag : Int) :
    Gen.Fn.ops_t4_capacity mfs tag = capacity mfs tag ∧ Gen.Fn.ops_t4_nlen_size tag = nlenSize tag := by
  unfold Gen.Fn.ops_t4_capacity Gen.Fn.ops_t4_nlen_size capacity nlenSize PyFn.imin
  refine ⟨?_, rfl⟩
  split <;> split <;> omega

/-- capacity + NLEN size <= min(file size, 65536) (seed C01-r5m2) -/
theorem gen_capacity_sound (mfs tag : Int) :
    Gen.Fn.ops_t4_capacity mfs tag + Gen.Fn.ops_t4_nlen_size tag ≤ mfs ∧
    Gen.Fn.ops_t4_capacity mfs tag + Gen.Fn.ops_t4_nlen_size tag ≤ 65536 := by
  rw [(t4_capacity_bridge mfs tag).1, (t4_capacity_bridge mfs tag).2]; exact capacity_sound mfs tag

example : Gen.Fn.ops_t4_capacity 131072 6 = 65532 := by decide

theorem t4a_rats_cmd_bridge (m : Int) : Gen.Fn.ops_t4a_rats_cmd m = ratsCmd m := by
  unfold Gen.Fn.ops_t4a_rats_cmd ratsCmd
  split <;> rfl

theorem t4a_has_t0_bridge (ats : Bytes) : Gen.Fn.ops_t4a_has_t0 ats = hasT0 ats.length := by
  unfold Gen.Fn.ops_t4a_has_t0 hasT0
  simp only [len_eq]; exact decide_eq_decide.mpr (by omega)

/-- an ATS of TL and T0 only is evaluated (seed C12-r5m2) -/
theorem gen_ats_t0_only (tl t0 : Nat) : Gen.Fn.ops_t4a_has_t0 [tl, t0] = true := by
  rw [t4a_has_t0_bridge]; rfl

theorem t4b_attrib_cmd_bridge (m : Int) (nfcid : Bytes) : Gen.Fn.ops_t4b_attrib_cmd m nfcid = attribCmd m nfcid := by
  unfold Gen.Fn.ops_t4b_attrib_cmd attribCmd
  split <;> rfl

theorem t4b_nfcid_bridge (s : Bytes) : Gen.Fn.ops_t4b_nfcid s = nfcid0 s := by
  unfold Gen.Fn.ops_t4b_nfcid nfcid0
  have e1 : (1 : Int) = ((1 : Nat) : Int) := rfl
  have e5 : (5 : Int) = ((5 : Nat) : Int) := rfl
  rw [e1, e5, slice_nat]; rfl

example : Gen.Fn.ops_t4b_attrib_cmd 64 [1, 2, 3, 4] = [0x1D, 1, 2, 3, 4, 0, 7, 1, 0] := by decide

theorem iso_latched_bridge (c : Option Bytes) (e : Option Int) : Gen.Fn.ops_iso_latched c e = latched c e := by
  cases c <;> cases e <;> rfl

/-- the latch also holds after TIMEOUT_ERROR = 0 (seed C12-r5m1) -/
theorem gen_latched_timeout (c : Bytes) : Gen.Fn.ops_iso_latched (some c) (some 0) = true := by
  rw [iso_latched_bridge]; rfl

theorem iso_inf_bridge (c : Bytes) (o m : Nat) :
    Gen.Fn.ops_iso_first_inf c o m = infField c o m ∧ Gen.Fn.ops_iso_resend_inf c o m = infField c o m := by
  unfold Gen.Fn.ops_iso_first_inf Gen.Fn.ops_iso_resend_inf infField
  have e : (o : Int) + (m : Int) = ((o + m : Nat) : Int) := by omega
  rw [e, slice_nat]
  unfold sliceN
  rw [Nat.add_sub_cancel_left]
  exact ⟨rfl, rfl⟩

/-- the retransmitted I-block carries the INF field of the block as first sent, at every offset (seed C12-r5m3) -/
theorem gen_resend_same_inf (c : Bytes) (o m : Int) : Gen.Fn.ops_iso_resend_inf c o m = Gen.Fn.ops_iso_first_inf c o m := rfl

example : Gen.Fn.ops_iso_resend_inf [1, 2, 3, 4, 5] 2 2 = [3, 4] := by decide

/-! ## `_write_ndef_data` as a whole: the two UPDATE BINARY loops over an arbitrary `_update_binary` -/

theorem whileM_updLoop (upd : Int → Bytes → Py Int) (buf : Bytes) : ∀ (fuel : Nat) (off : Int),
    PyFn.whileM fuel off (fun (o : Int) => Except.ok (decide (o < PyFn.len buf)))
      (fun (o : Int) => upd o (PyFn.sliceFrom buf o) >>= fun t => Except.ok (o + t)) = updLoop upd buf fuel off := by
  intro fuel
  induction fuel with
  | zero => intro off; rfl
  | succ n ih =>
    intro off
    unfold PyFn.whileM updLoop
    by_cases h : off < (buf.length : Int)
    · have hd : decide (off < PyFn.len buf) = true := by simp [len_eq, h]
      simp only [hd, h, if_true]
      unfold PyFn.sliceFrom
      cases upd off (List.drop (clampBound buf.length off) buf) with
      | error e => rfl
      | ok t => simp only [Py.bind_ok]; exact ih (off + t)
    · have hd : decide (off < PyFn.len buf) = false := by simp [len_eq, h]
      simp only [hd, h, if_false]

theorem t4_write_ndef_bridge (upd : Int → Bytes → Py Int) (fuel : Nat) (data : Bytes) (nlen_size : Int) (maxLc : Nat) :
    Gen.Fn.ops_t4_write_ndef fuel data nlen_size maxLc upd
      = ((if nlen_size = 4 then PyFn.pack [.Ibe] [PyFn.len data] else PyFn.pack [.Hbe] [PyFn.len data]) >>= fun nlen =>
          writeNdefVia upd fuel nlen data maxLc) := by
  unfold Gen.Fn.ops_t4_write_ndef
  simp only [whileM_updLoop]
  generalize (if nlen_size = 4 then PyFn.pack [.Ibe] [PyFn.len data] else PyFn.pack [.Hbe] [PyFn.len data]) = pk
  cases pk with
  | error e => rfl
  | ok nlen =>
    simp only [Py.bind_ok]
    unfold writeNdefVia firstBuf singleUpdate
    have hz : PyFn.zeros (PyFn.len nlen) = .ok (List.replicate nlen.length 0) := by
      have : ¬ ((nlen.length : Int) < 0) := by omega
      unfold PyFn.zeros; simp only [len_eq, this, if_false, Int.toNat_natCast]
    by_cases hs : nlen.length + data.length ≤ maxLc
    · have hi : (PyFn.len nlen + PyFn.len data ≤ (maxLc : Int)) := by simp only [len_eq]; omega
      simp only [hi, hs, if_true, Py.bind_ok, decide_true, true_or]
      cases updLoop upd (nlen ++ data) fuel 0 <;> rfl
    · have hi : ¬ (PyFn.len nlen + PyFn.len data ≤ (maxLc : Int)) := by simp only [len_eq]; omega
      simp only [hi, hs, if_false, hz, Py.bind_ok, decide_false, false_or, Bool.false_eq_true]
      cases updLoop upd (List.replicate nlen.length 0 ++ data) fuel 0 with
      | error e => rfl
      | ok o =>
        simp only [Py.bind_ok]
        by_cases hn : nlen = []
        · simp [hn]
        · simp only [hn, ne_eq, not_false_eq_true, if_true, if_false]
          cases updLoop upd nlen fuel 0 <;> rfl

/-- with `_update_binary` = the regenerated method over any `send_apdu`: when NLEN and message do not fit MLc the first
loop writes a zero length field (the final NLEN is only written by the second loop, after the message) -/
theorem gen_write_ndef_first_zero {nlen data : Bytes} {maxLc : Nat} (h : ¬ nlen.length + data.length ≤ maxLc) :
    (firstBuf nlen data maxLc).take nlen.length = List.replicate nlen.length 0 := firstBuf_zero h

example : Gen.Fn.ops_t4_write_ndef 10 [7, 8, 9] 2 4 (fun _ d => .ok (min 4 d.length)) = .ok true := by decide

end NfcVerif.FnBridge.T34Ops
