import NfcVerif.Lemmas.FnBridgeDepPdu
/-!
# Bridge theorems, group DepPdu (`nfc/dep.py` PDU classes and activation arithmetic -> `Gen/FnDepPdu.lean`
-> `Model/NfcDep.lean`, `Model/PeerDep.lean`, `Model/Activate.lean`)

Properties C04 (codec of the frames both state machines exchange, information unit sizes), C07 (every octet
string the peer can send is decoded without an internal exception), C19 (ATR_REQ / ATR_RES / PSL_REQ octets,
`lr`, `wt`, `miu` as both sides evaluate them).

Encoding of the statements: Python ints that hold octets are cast naturals `((n : Nat) : Int)`; where a function
is total on all ints (`lr`, `wt`, `dsi`, `dri`) an additional `_total` theorem quantifies over `Int`.
The cuts are listed in `harness/fnspecs/deppdu.py` and in the doc comments of `Gen/FnDepPdu.lean`.
-/
namespace NfcVerif.FnBridge.DepPdu
open NfcVerif NfcVerif.PyFn NfcVerif.NfcDep NfcVerif.DepPduRef

/-! ## `ATR_REQ_RES.lr`, `ATR_RES.wt`, `__len__` -/

/-- `lr` of an ATR whose PP octet is `pp`: the table value selected by bits 5..4 -/
theorem atr_lr_bridge (pp : Nat) :
    Gen.Fn.dep_atr_lr (pp : Int) = .ok ((NfcDep.lrTable (pp / 16) : Nat) : Int) := by
  unfold Gen.Fn.dep_atr_lr
  py_bits
  rw [idx_lr _ (Nat.mod_lt _ (by decide)), lrTable_mod]

/-- `lr` never raises (`IndexError` is unreachable) whatever int the attribute holds, and yields a table value -/
theorem atr_lr_total (pp : Int) : ∃ i : Nat, Gen.Fn.dep_atr_lr pp = .ok ((NfcDep.lrTable i : Nat) : Int) := by
  unfold Gen.Fn.dep_atr_lr
  obtain ⟨r, hr, e⟩ := band_mask_nat (shr pp 4) 2
  refine ⟨r, ?_⟩
  have e' : band (shr pp 4) 3 = (r : Int) := e
  rw [e']
  exact idx_lr r hr

/-- the form `Activate.initiatorSide` / `targetSide` (C19) and `Peer.atrFields` (C07) use -/
theorem atr_lr_activate (pp : Nat) :
    Gen.Fn.dep_atr_lr (pp : Int) = .ok ((Activate.lrTable ((pp / 16) % 4) : Nat) : Int) := by
  rw [atr_lr_bridge, lrTable_eq, lrTable_mod]

example : Gen.Fn.dep_atr_lr 0x32 = .ok 254 := by decide +kernel
example : Gen.Fn.dep_atr_lr (-1) = .ok 254 := by decide +kernel

theorem atr_res_wt_bridge (to : Nat) : Gen.Fn.dep_atr_res_wt (to : Int) = ((to % 16 : Nat) : Int) := by
  unfold Gen.Fn.dep_atr_res_wt; py_bits

/-- `wt` is in `0..15` for every int -/
theorem atr_res_wt_total (to : Int) : ∃ r : Nat, r < 16 ∧ Gen.Fn.dep_atr_res_wt to = (r : Int) :=
  band_mask_nat to 4

example : Gen.Fn.dep_atr_res_wt 0x1E = 14 := by decide +kernel

/-- `len(atr_req)` is the length of the encoded PDU for a 10 octet NFCID3 -/
theorem atr_req_len_bridge (nfcid3 gb : Bytes) (did pp : Nat) (h : nfcid3.length = 10) :
    Gen.Fn.dep_atr_req_len gb = ((Activate.atrReq nfcid3 did pp gb).length : Int) := by
  unfold Gen.Fn.dep_atr_req_len Activate.atrReq
  simp [len_eq, h]; omega

theorem atr_res_len_bridge (nfcid3 gb : Bytes) (to pp : Nat) (h : nfcid3.length = 10) :
    Gen.Fn.dep_atr_res_len gb = ((Activate.atrRes nfcid3 to pp gb).length : Int) := by
  unfold Gen.Fn.dep_atr_res_len Activate.atrRes
  simp [len_eq, h]; omega

/-! ## `ATR_REQ.encode`, `ATR_RES.encode` -/

/-- `ATR_REQ.encode`: the C04 codec view (`encodePdu true (.atr body)`); `ValueError` when a field is not an octet -/
theorem atr_req_encode_bridge (nfcid3 gb : Bytes) (did bs br pp : Nat) :
    Gen.Fn.dep_atr_req_encode nfcid3 (did : Int) (bs : Int) (br : Int) (pp : Int) gb
      = if did < 256 ∧ bs < 256 ∧ br < 256 ∧ pp < 256
        then .ok (encodePdu true (.atr (nfcid3 ++ [did, bs, br, pp] ++ gb))) else .error .value := by
  unfold Gen.Fn.dep_atr_req_encode
  have e := mkBytes_nat [did, bs, br, pp]
  simp only [List.map_cons, List.map_nil] at e
  rw [e]
  simp only [List.all_cons, List.all_nil, Bool.and_true, Bool.and_eq_true, decide_eq_true_eq]
  split <;> simp [encodePdu]

/-- the octets `Initiator.activate` sends (C19 `Activate.atrReq`): BS = BR = 0 -/
theorem atr_req_encode_activate (nfcid3 gb : Bytes) (did pp : Nat) (hd : did < 256) (hp : pp < 256) :
    Gen.Fn.dep_atr_req_encode nfcid3 (did : Int) 0 0 (pp : Int) gb = .ok (Activate.atrReq nfcid3 did pp gb) := by
  have h := atr_req_encode_bridge nfcid3 gb did 0 0 pp
  simp only [Int.natCast_zero] at h
  rw [h]
  simp [hd, hp, encodePdu, Activate.atrReq]

theorem atr_res_encode_bridge (nfcid3 gb : Bytes) (did bs br to pp : Nat) :
    Gen.Fn.dep_atr_res_encode nfcid3 (did : Int) (bs : Int) (br : Int) (to : Int) (pp : Int) gb
      = if did < 256 ∧ bs < 256 ∧ br < 256 ∧ to < 256 ∧ pp < 256
        then .ok (encodePdu false (.atr (nfcid3 ++ [did, bs, br, to, pp] ++ gb))) else .error .value := by
  unfold Gen.Fn.dep_atr_res_encode
  have e := mkBytes_nat [did, bs, br, to, pp]
  simp only [List.map_cons, List.map_nil] at e
  rw [e]
  simp only [List.all_cons, List.all_nil, Bool.and_true, Bool.and_eq_true, decide_eq_true_eq]
  split <;> simp [encodePdu]

/-- the octets `Target.activate` prepares (C19 `Activate.atrRes`): DID = BS = BR = 0 -/
theorem atr_res_encode_activate (nfcid3 gb : Bytes) (to pp : Nat) (ht : to < 256) (hp : pp < 256) :
    Gen.Fn.dep_atr_res_encode nfcid3 0 0 0 (to : Int) (pp : Int) gb = .ok (Activate.atrRes nfcid3 to pp gb) := by
  have h := atr_res_encode_bridge nfcid3 gb 0 0 0 to pp
  simp only [Int.natCast_zero] at h
  rw [h]
  simp [ht, hp, encodePdu, Activate.atrRes]

example : Gen.Fn.dep_atr_req_encode [1, 2, 3, 4, 5, 6, 7, 8, 9, 10] 0 0 0 0x32 [0x46, 0x66, 0x6D]
    = .ok [0xD4, 0, 1, 2, 3, 4, 5, 6, 7, 8, 9, 10, 0, 0, 0, 0x32, 0x46, 0x66, 0x6D] := by decide +kernel
example : Gen.Fn.dep_atr_res_encode [] 0 0 0 256 0 [] = .error .value := by decide +kernel

/-! ## `ATR_REQ.decode`, `ATR_RES.decode` -/

theorem and_two (pp : Nat) : pp &&& 2 = 2 * (pp / 2 % 2) := by
  have h1 : (pp &&& 2) / 2 = pp / 2 % 2 := by
    rw [Nat.and_div_two]; exact and1 (pp / 2)
  have h2 : (pp &&& 2) % 2 = 0 := by
    have := @Nat.and_mod_two_pow pp 2 1
    simp only [Nat.pow_one, Nat.mod_self, Nat.and_zero] at this
    exact this
  omega

/-- `ATR_REQ.decode` on a frame that starts with `D4 00`: `ProtocolError` below 16 octets, else the fields -/
theorem atr_req_decode_bridge (d : Bytes) :
    Gen.Fn.dep_atr_req_decode (0xD4 :: 0x00 :: d)
      = if d.length < 14 then .error .protocol
        else .ok (some (d.take 10, ((d.drop 10).headD 0 : Nat), ((d.drop 11).headD 0 : Nat), ((d.drop 12).headD 0 : Nat),
                        ((d.drop 13).headD 0 : Nat),
                        if (d.drop 13).headD 0 &&& 2 ≠ 0 then d.drop 14 else [])) := by
  unfold Gen.Fn.dep_atr_req_decode
  have hp : List.isPrefixOf [212, 0] (0xD4 :: 0x00 :: d) = true := by simp [List.isPrefixOf]
  rw [if_pos hp]
  by_cases h : d.length < 14
  · have : PyFn.len (0xD4 :: 0x00 :: d) < 16 := by simp [len_eq]; omega
    rw [if_pos this, if_pos h]
  · have : ¬ PyFn.len (0xD4 :: 0x00 :: d) < 16 := by simp [len_eq]; omega
    rw [if_neg this, if_neg h]
    have h14 : 14 ≤ d.length := by omega
    have s1 : slice (0xD4 :: 0x00 :: d) 2 12 = d.take 10 := by
      have := slice_nat (0xD4 :: 0x00 :: d) 2 12; simpa using this
    have s2 : slice (0xD4 :: 0x00 :: d) 12 16 = (d.drop 10).take 4 := by
      have := slice_nat (0xD4 :: 0x00 :: d) 12 16; simpa using this
    have s3 : PyFn.sliceFrom (0xD4 :: 0x00 :: d) 16 = d.drop 14 := by
      have := sliceFrom_ofNat (0xD4 :: 0x00 :: d) 16; simpa using this
    simp only [s1, s2, s3]
    match d, h14 with
    | n0 :: n1 :: n2 :: n3 :: n4 :: n5 :: n6 :: n7 :: n8 :: n9 :: did :: bs :: br :: pp :: gb, _ =>
      simp only [List.drop_succ_cons, List.drop_zero, List.take_succ_cons, List.take_zero, len_eq, List.length_cons,
        List.length_nil, getB_zero, getB_one, getB_two, getB_three, List.headD_cons, Py.bind_ok]
      have e : band (pp : Int) 2 = ((pp &&& 2 : Nat) : Int) := by
        rw [show (2 : Int) = ((2 : Nat) : Int) from rfl, band_ofNat]
      simp [e]


/-- `ATR_RES.decode` on a frame that starts with `D5 01`: `ProtocolError` below 17 octets, else the fields -/
theorem atr_res_decode_bridge (d : Bytes) :
    Gen.Fn.dep_atr_res_decode (0xD5 :: 0x01 :: d)
      = if d.length < 15 then .error .protocol
        else .ok (some (d.take 10, ((d.drop 10).headD 0 : Nat), ((d.drop 11).headD 0 : Nat), ((d.drop 12).headD 0 : Nat),
                        ((d.drop 13).headD 0 : Nat), ((d.drop 14).headD 0 : Nat),
                        if (d.drop 14).headD 0 &&& 2 ≠ 0 then d.drop 15 else [])) := by
  unfold Gen.Fn.dep_atr_res_decode
  have hp : List.isPrefixOf [213, 1] (0xD5 :: 0x01 :: d) = true := by simp [List.isPrefixOf]
  rw [if_pos hp]
  by_cases h : d.length < 15
  · have : PyFn.len (0xD5 :: 0x01 :: d) < 17 := by simp [len_eq]; omega
    rw [if_pos this, if_pos h]
  · have : ¬ PyFn.len (0xD5 :: 0x01 :: d) < 17 := by simp [len_eq]; omega
    rw [if_neg this, if_neg h]
    have h15 : 15 ≤ d.length := by omega
    have s1 : slice (0xD5 :: 0x01 :: d) 2 12 = d.take 10 := by
      have := slice_nat (0xD5 :: 0x01 :: d) 2 12; simpa using this
    have s2 : slice (0xD5 :: 0x01 :: d) 12 17 = (d.drop 10).take 5 := by
      have := slice_nat (0xD5 :: 0x01 :: d) 12 17; simpa using this
    have s3 : PyFn.sliceFrom (0xD5 :: 0x01 :: d) 17 = d.drop 15 := by
      have := sliceFrom_ofNat (0xD5 :: 0x01 :: d) 17; simpa using this
    simp only [s1, s2, s3]
    match d, h15 with
    | n0 :: n1 :: n2 :: n3 :: n4 :: n5 :: n6 :: n7 :: n8 :: n9 :: did :: bs :: br :: to :: pp :: gb, _ =>
      have g4 : getB [did, bs, br, to, pp] 4 = .ok (pp : Int) := by
        have := getB_ofNat [did, bs, br, to, pp] 4; simpa using this
      simp only [List.drop_succ_cons, List.drop_zero, List.take_succ_cons, List.take_zero, len_eq, List.length_cons,
        List.length_nil, getB_zero, getB_one, getB_two, getB_three, g4, List.headD_cons, Py.bind_ok]
      have e : band (pp : Int) 2 = ((pp &&& 2 : Nat) : Int) := by
        rw [show (2 : Int) = ((2 : Nat) : Int) from rfl, band_ofNat]
      simp [e]

/-- a frame of another class is not decoded -/
theorem atr_decode_other (data : Bytes) :
    (List.isPrefixOf [0xD4, 0x00] data = false → Gen.Fn.dep_atr_req_decode data = .ok none)
    ∧ (List.isPrefixOf [0xD5, 0x01] data = false → Gen.Fn.dep_atr_res_decode data = .ok none) := by
  unfold Gen.Fn.dep_atr_req_decode Gen.Fn.dep_atr_res_decode
  constructor <;> intro h <;> simp [h]

/-- C04 / C07 codec (`NfcDep.decodeFrameAux`, `Peer.frameBody true`): an ATR body `d` behind the code octets is
accepted iff the regenerated `decode` of the class accepts the frame - `ProtocolError` for a short one -/
theorem atr_decode_model (d : Bytes) :
    ((if d.length < 14 then (.error .protocol : Py Pdu) else .ok (.atr d))
        = Gen.Fn.dep_atr_req_decode (0xD4 :: 0x00 :: d) >>= fun r =>
            match r with | none => .error .attr | some _ => .ok (.atr d))
    ∧ ((if d.length < 15 then (.error .protocol : Py Pdu) else .ok (.atr d))
        = Gen.Fn.dep_atr_res_decode (0xD5 :: 0x01 :: d) >>= fun r =>
            match r with | none => .error .attr | some _ => .ok (.atr d)) := by
  rw [atr_req_decode_bridge, atr_res_decode_bridge]
  constructor <;> split <;> rfl

/-- C07 (`dep_decode_total`): whatever octets follow the code, `decode` raises nothing but `ProtocolError` -/
theorem gen_atr_decode_safe (d : Bytes) :
    Safe (fun e => e = .protocol) (Gen.Fn.dep_atr_req_decode (0xD4 :: 0x00 :: d))
    ∧ Safe (fun e => e = .protocol) (Gen.Fn.dep_atr_res_decode (0xD5 :: 0x01 :: d)) := by
  rw [atr_req_decode_bridge, atr_res_decode_bridge]
  constructor <;> intro e he <;> split at he <;> first | (cases he; rfl) | cases he

/-- what `activate()` reads from a decoded ATR (C07 `Peer.atrFields`): DID, `lr` (through the regenerated property)
and the general bytes, for a body of sufficient length -/
theorem atr_req_fields_peer (d : Bytes) (h : 14 ≤ d.length) :
    Peer.atrFields true d
      = Gen.Fn.dep_atr_req_decode (0xD4 :: 0x00 :: d) >>= fun r =>
          match r with
          | none => .error .attr
          | some (_, did, _, _, pp, gb) => Gen.Fn.dep_atr_lr pp >>= fun lr => .ok (0, lr.toNat, did.toNat, gb) := by
  rw [atr_req_decode_bridge, if_neg (by omega)]
  match d, h with
  | n0 :: n1 :: n2 :: n3 :: n4 :: n5 :: n6 :: n7 :: n8 :: n9 :: did :: bs :: br :: pp :: gb, _ =>
    simp only [Peer.atrFields, idxN, List.drop_succ_cons, List.drop_zero, List.headD_cons, Py.bind_ok,
      atr_lr_bridge, Int.toNat_natCast, if_true, List.getElem?_cons_succ, List.getElem?_cons_zero]
    have e2 : (pp &&& 2 ≠ 0) ↔ (pp / 2 % 2 = 1) := by
      have := and_two pp
      omega
    simp only [e2]


theorem atr_res_fields_peer (d : Bytes) (h : 15 ≤ d.length) :
    Peer.atrFields false d
      = Gen.Fn.dep_atr_res_decode (0xD5 :: 0x01 :: d) >>= fun r =>
          match r with
          | none => .error .attr
          | some (_, did, _, _, to, pp, gb) =>
            Gen.Fn.dep_atr_lr pp >>= fun lr => .ok ((Gen.Fn.dep_atr_res_wt to).toNat, lr.toNat, did.toNat, gb) := by
  rw [atr_res_decode_bridge, if_neg (by omega)]
  match d, h with
  | n0 :: n1 :: n2 :: n3 :: n4 :: n5 :: n6 :: n7 :: n8 :: n9 :: did :: bs :: br :: to :: pp :: gb, _ =>
    have i14 : idxN (n0 :: n1 :: n2 :: n3 :: n4 :: n5 :: n6 :: n7 :: n8 :: n9 :: did :: bs :: br :: to :: pp :: gb) 14
        = .ok pp := rfl
    have i13 : idxN (n0 :: n1 :: n2 :: n3 :: n4 :: n5 :: n6 :: n7 :: n8 :: n9 :: did :: bs :: br :: to :: pp :: gb) 13
        = .ok to := rfl
    have i10 : idxN (n0 :: n1 :: n2 :: n3 :: n4 :: n5 :: n6 :: n7 :: n8 :: n9 :: did :: bs :: br :: to :: pp :: gb) 10
        = .ok did := rfl
    simp only [Peer.atrFields, i14, i13, i10, List.drop_succ_cons, List.drop_zero, List.headD_cons, Py.bind_ok,
      atr_lr_bridge, atr_res_wt_bridge, Int.toNat_natCast, Bool.false_eq_true, if_false]
    have e2 : (pp &&& 2 ≠ 0) ↔ (pp / 2 % 2 = 1) := by
      have := and_two pp
      omega
    simp only [e2]

/-- C19 (`Activate.decodeAtrReq` inside `targetSide`): on a frame of at least 16 octets the model's decoder is the
regenerated one (a frame with other code octets: `decode` returns None, the first attribute access raises) -/
theorem atr_req_decode_activate (data : Bytes) (h : 16 ≤ data.length) :
    Activate.decodeAtrReq data
      = Gen.Fn.dep_atr_req_decode data >>= fun r =>
          match r with
          | none => .error .attr
          | some (n, did, _, _, pp, gb) => .ok ⟨n, did.toNat, pp.toNat, gb⟩ := by
  match data, h with
  | c0 :: c1 :: n0 :: n1 :: n2 :: n3 :: n4 :: n5 :: n6 :: n7 :: n8 :: n9 :: did :: bs :: br :: pp :: gb, _ =>
    by_cases hc : c0 = 0xD4 ∧ c1 = 0x00
    · obtain ⟨rfl, rfl⟩ := hc
      rw [atr_req_decode_bridge, if_neg (by simp)]
      simp [Activate.decodeAtrReq]
    · have hp : List.isPrefixOf [212, 0] (c0 :: c1 :: n0 :: n1 :: n2 :: n3 :: n4 :: n5 :: n6 :: n7 :: n8 :: n9 :: did :: bs :: br :: pp :: gb) = false := by
        simp only [List.isPrefixOf, Bool.and_true, Bool.and_eq_false_imp, beq_iff_eq, beq_eq_false_iff_ne, ne_eq]
        intro h0; subst h0; intro h1; exact hc ⟨rfl, h1.symm⟩
      rw [(atr_decode_other _).1 hp]
      have : List.take 2 (c0 :: c1 :: n0 :: n1 :: n2 :: n3 :: n4 :: n5 :: n6 :: n7 :: n8 :: n9 :: did :: bs :: br :: pp :: gb) ≠ [0xD4, 0x00] := by
        simp only [List.take_succ_cons, List.take_zero, ne_eq, List.cons.injEq, and_true]
        exact hc
      simp [Activate.decodeAtrReq]
      intro a b; exact hc ⟨a, b⟩

theorem atr_res_decode_activate (data : Bytes) (h : 17 ≤ data.length) :
    Activate.decodeAtrRes data
      = Gen.Fn.dep_atr_res_decode data >>= fun r =>
          match r with
          | none => .error .attr
          | some (n, _, _, _, to, pp, gb) => .ok ⟨n, to.toNat, pp.toNat, gb⟩ := by
  match data, h with
  | c0 :: c1 :: d, h' =>
    have h15 : 15 ≤ d.length := by simp at h'; omega
    match d, h15 with
    | n0 :: n1 :: n2 :: n3 :: n4 :: n5 :: n6 :: n7 :: n8 :: n9 :: did :: bs :: br :: to :: pp :: gb, _ =>
      by_cases hc : c0 = 0xD5 ∧ c1 = 0x01
      · obtain ⟨rfl, rfl⟩ := hc
        rw [atr_res_decode_bridge, if_neg (by simp)]
        simp [Activate.decodeAtrRes]
      · have hp : List.isPrefixOf [213, 1] (c0 :: c1 :: n0 :: n1 :: n2 :: n3 :: n4 :: n5 :: n6 :: n7 :: n8 :: n9 :: did :: bs :: br :: to :: pp :: gb) = false := by
          simp only [List.isPrefixOf, Bool.and_true, Bool.and_eq_false_imp, beq_iff_eq, beq_eq_false_iff_ne, ne_eq]
          intro h0; subst h0; intro h1; exact hc ⟨rfl, h1.symm⟩
        rw [(atr_decode_other _).2 hp]
        simp [Activate.decodeAtrRes]
        intro a b; exact hc ⟨a, b⟩

/-- on a SHORT frame the C19 model `Activate.decodeAtrReq` still shows the behaviour before fixes/C07 (`ValueError` of
the tuple unpacking) while the source raises `ProtocolError`.  No flow of `Activate.activate` produces such a frame
(both ATRs come from the encoders bridged above); the C04/C07 models have the repaired behaviour (`atr_decode_model`) -/
theorem atr_decode_short_model_differs :
    Activate.decodeAtrReq [0xD4, 0, 1] = .error .value ∧ Gen.Fn.dep_atr_req_decode [0xD4, 0, 1] = .error .protocol :=
  ⟨rfl, rfl⟩

/-- encode then decode: the ATR_REQ `Initiator.activate` sends is read back field by field -/
theorem atr_req_roundtrip (nfcid3 gb : Bytes) (did pp : Nat) (hn : nfcid3.length = 10) (hd : did < 256) (hp : pp < 256) :
    (Gen.Fn.dep_atr_req_encode nfcid3 (did : Int) 0 0 (pp : Int) gb >>= Gen.Fn.dep_atr_req_decode)
      = .ok (some (nfcid3, (did : Int), 0, 0, (pp : Int), if pp &&& 2 ≠ 0 then gb else [])) := by
  rw [atr_req_encode_activate nfcid3 gb did pp hd hp, Py.bind_ok]
  unfold Activate.atrReq
  have e : [0xD4, 0x00] ++ nfcid3 ++ [did, 0, 0, pp] ++ gb = 0xD4 :: 0x00 :: (nfcid3 ++ [did, 0, 0, pp] ++ gb) := by simp
  rw [e, atr_req_decode_bridge, if_neg (by simp [hn]; omega)]
  match nfcid3, hn with
  | [n0, n1, n2, n3, n4, n5, n6, n7, n8, n9], _ => simp

example : Gen.Fn.dep_atr_req_decode [0xD4, 0, 1, 2, 3, 4, 5, 6, 7, 8, 9, 10, 7, 0, 0, 0x32, 0x46]
    = .ok (some ([1, 2, 3, 4, 5, 6, 7, 8, 9, 10], 7, 0, 0, 0x32, [0x46])) := by rfl
example : Gen.Fn.dep_atr_res_decode [0xD5, 1, 1, 2, 3] = .error .protocol := by rfl

/-! ## `PSL_REQ`, `PSL_RES` -/

theorem psl_req_encode_bridge (did brs fsl : Nat) :
    Gen.Fn.dep_psl_req_encode (did : Int) (brs : Int) (fsl : Int)
      = if did < 256 ∧ brs < 256 ∧ fsl < 256 then .ok (encodePdu true (.psl [did, brs, fsl])) else .error .value := by
  unfold Gen.Fn.dep_psl_req_encode
  have e := mkBytes_nat [did, brs, fsl]
  simp only [List.map_cons, List.map_nil] at e
  rw [e]
  simp only [List.all_cons, List.all_nil, Bool.and_true, Bool.and_eq_true, decide_eq_true_eq]
  split <;> simp [encodePdu]

theorem brsByte_lt (brs : Nat) : Activate.brsByte brs < 256 := by
  unfold Activate.brsByte; split <;> omega

/-- the PSL_REQ octets of `Initiator.activate` (C19 `Activate.pslReq`) -/
theorem psl_req_encode_activate (did brs lri : Nat) (hd : did < 256) (hl : lri < 256) :
    Gen.Fn.dep_psl_req_encode (did : Int) (Activate.brsByte brs : Nat) (lri : Int)
      = .ok (Activate.pslReq did brs lri) := by
  rw [psl_req_encode_bridge]
  simp [hd, hl, brsByte_lt, encodePdu, Activate.pslReq]

theorem psl_res_encode_bridge (did : Nat) :
    Gen.Fn.dep_psl_res_encode (did : Int)
      = if did < 256 then .ok (Activate.pslRes did) else .error .value := by
  unfold Gen.Fn.dep_psl_res_encode
  have e := mkBytes_nat [did]
  simp only [List.map_cons, List.map_nil] at e
  rw [e]
  simp only [List.all_cons, List.all_nil, Bool.and_true, decide_eq_true_eq]
  split <;> simp [Activate.pslRes]

theorem psl_req_dsi_bridge (brs : Nat) : Gen.Fn.dep_psl_req_dsi (brs : Int) = ((brs / 8 % 8 : Nat) : Int) := by
  unfold Gen.Fn.dep_psl_req_dsi; py_bits

theorem psl_req_dri_bridge (brs : Nat) : Gen.Fn.dep_psl_req_dri (brs : Int) = ((brs % 8 : Nat) : Int) := by
  unfold Gen.Fn.dep_psl_req_dri; py_bits

/-- the bit rate the listening side of the C19 model switches to is `min(dsi, 2)` of the PSL_REQ it received -/
theorem psl_req_dsi_brty (did brs fsl : Nat) :
    ((Activate.pslBrty [0xD4, 0x04, did, brs, fsl] : Nat) : Int) = imin (Gen.Fn.dep_psl_req_dsi (brs : Int)) 2 := by
  rw [psl_req_dsi_bridge]
  unfold Activate.pslBrty imin
  simp only []
  split <;> omega

/-- DSI = DRI = the selected rate for the three BRS octets `Initiator.activate` can send -/
theorem psl_req_dsi_dri_selected (brs : Nat) (h : brs ≤ 2) :
    Gen.Fn.dep_psl_req_dsi ((Activate.brsByte brs : Nat) : Int) = (brs : Int)
    ∧ Gen.Fn.dep_psl_req_dri ((Activate.brsByte brs : Nat) : Int) = (brs : Int) := by
  rw [psl_req_dsi_bridge, psl_req_dri_bridge]
  match brs, h with
  | 0, _ => exact ⟨rfl, rfl⟩
  | 1, _ => exact ⟨rfl, rfl⟩
  | 2, _ => exact ⟨rfl, rfl⟩

theorem psl_req_lr_bridge (fsl : Nat) :
    Gen.Fn.dep_psl_req_lr (fsl : Int) = .ok ((NfcDep.lrTable fsl : Nat) : Int) := by
  unfold Gen.Fn.dep_psl_req_lr
  py_bits
  rw [idx_lr _ (Nat.mod_lt _ (by decide)), lrTable_mod]

example : Gen.Fn.dep_psl_req_encode 0 18 3 = .ok [0xD4, 4, 0, 18, 3] := by decide +kernel
example : Gen.Fn.dep_psl_req_dsi 18 = 2 ∧ Gen.Fn.dep_psl_req_dri 18 = 2 := by decide +kernel

/-! ## `DSL_REQ_RES.encode` / `.decode` as inherited by DSL_REQ, DSL_RES, RLS_REQ, RLS_RES -/

theorem dsl_enc_aux (c0 c1 : Nat) (did : Option Nat) (h : ∀ d, did = some d → d < 256) :
    ((match did.map (fun (d : Nat) => (d : Int)) with
      | none => (Except.ok [] : Py Bytes)
      | some d => PyFn.pack [.B] [d]) >>= fun t => Except.ok ([c0, c1] ++ t))
      = .ok ([c0, c1] ++ optByte did) := by
  cases did with
  | none => rfl
  | some d =>
    have := h d rfl
    simp only [Option.map_some, pack_B, optByte]
    rw [if_neg (by omega)]; rfl

/-- the four encoders are the C04 codec `encodePdu` of a DSL / RLS PDU (`did` an octet); the code octets are the
class constants `PDU_CODE` re-read from the source -/
theorem dsl_encode_bridge (did : Option Nat) (h : ∀ d, did = some d → d < 256) :
    Gen.Fn.dep_dsl_req_encode (did.map (fun (d : Nat) => (d : Int))) = .ok (encodePdu true (.dsl did))
    ∧ Gen.Fn.dep_dsl_res_encode (did.map (fun (d : Nat) => (d : Int))) = .ok (encodePdu false (.dsl did))
    ∧ Gen.Fn.dep_rls_req_encode (did.map (fun (d : Nat) => (d : Int))) = .ok (encodePdu true (.rls did))
    ∧ Gen.Fn.dep_rls_res_encode (did.map (fun (d : Nat) => (d : Int))) = .ok (encodePdu false (.rls did)) := by
  unfold Gen.Fn.dep_dsl_req_encode Gen.Fn.dep_dsl_res_encode Gen.Fn.dep_rls_req_encode Gen.Fn.dep_rls_res_encode
  exact ⟨dsl_enc_aux _ _ did h, dsl_enc_aux _ _ did h, dsl_enc_aux _ _ did h, dsl_enc_aux _ _ did h⟩

/-- a DID that is not an octet is a `struct.error` -/
theorem dsl_encode_overflow (d : Nat) (h : d > 255) :
    Gen.Fn.dep_dsl_req_encode (some (d : Int)) = .error .struct := by
  unfold Gen.Fn.dep_dsl_req_encode
  simp [pack_B, h]

example : Gen.Fn.dep_rls_res_encode (some 7) = .ok [0xD5, 0x0B, 7] := by decide +kernel

/-- the common body of the four decoders on a frame `c0 c1 ++ d` -/
def dslDec (c0 c1 : Nat) (data : Bytes) : Py (Option (Option Int)) :=
  if (List.isPrefixOf [c0, c1] data = true) then
    (if ((PyFn.len data) > 3) then Except.error Exc.protocol else
     (if ((PyFn.len data) = 3) then
        (PyFn.getB data 2 >>= fun t1 =>
         Except.ok (some t1))
      else
        (Except.ok ((none : (Option Int))))) >>= fun t2 =>
     Except.ok (some t2))
  else
  Except.ok ((none : (Option (Option Int))))

theorem dslDec_match (c0 c1 : Nat) (d : Bytes) :
    dslDec c0 c1 (c0 :: c1 :: d)
      = match d with
        | [] => .ok (some none)
        | [x] => .ok (some (some (x : Int)))
        | _ => .error .protocol := by
  unfold dslDec
  have hp : List.isPrefixOf [c0, c1] (c0 :: c1 :: d) = true := by simp [List.isPrefixOf]
  rw [if_pos hp]
  match d with
  | [] => simp [len_eq]
  | [x] => simp [len_eq, getB_two, getB_one, getB_zero]
  | x :: y :: r =>
    have : PyFn.len (c0 :: c1 :: x :: y :: r) > 3 := by simp [len_eq]; omega
    simp [this]

theorem dslDec_model (mk : Option Nat → Pdu) (c0 c1 : Nat) (d : Bytes) :
    decodeDsl mk d
      = dslDec c0 c1 (c0 :: c1 :: d) >>= fun r =>
          match r with
          | none => .error .attr
          | some did => .ok (mk (did.map Int.toNat)) := by
  rw [dslDec_match]
  unfold decodeDsl
  match d with
  | [] => rfl
  | [x] => simp
  | x :: y :: r => rfl

theorem dslDec_safe (c0 c1 : Nat) (data : Bytes) : Safe (fun e => e = .protocol) (dslDec c0 c1 data) := by
  intro e he
  unfold dslDec at he
  split at he
  · split at he
    · cases he; rfl
    · split at he
      · next h3 =>
        have hl : data.length = 3 := by simp only [len_eq] at h3; omega
        match data, hl with
        | [a, b, c], _ => simp [getB_two, getB_one, getB_zero] at he
      · simp at he
  · cases he

/-- the C04/C07 model decoder `decodeDsl` (applied by `decodeFrame` behind the code check) is the regenerated
`decode` of the class whose code octets the frame carries - for all four classes -/
theorem dsl_decode_bridge (d : Bytes) :
    (decodeDsl .dsl d = Gen.Fn.dep_dsl_req_decode (0xD4 :: 0x08 :: d) >>= fun r =>
        match r with | none => .error .attr | some did => .ok (.dsl (did.map Int.toNat)))
    ∧ (decodeDsl .dsl d = Gen.Fn.dep_dsl_res_decode (0xD5 :: 0x09 :: d) >>= fun r =>
        match r with | none => .error .attr | some did => .ok (.dsl (did.map Int.toNat)))
    ∧ (decodeDsl .rls d = Gen.Fn.dep_rls_req_decode (0xD4 :: 0x0A :: d) >>= fun r =>
        match r with | none => .error .attr | some did => .ok (.rls (did.map Int.toNat)))
    ∧ (decodeDsl .rls d = Gen.Fn.dep_rls_res_decode (0xD5 :: 0x0B :: d) >>= fun r =>
        match r with | none => .error .attr | some did => .ok (.rls (did.map Int.toNat))) :=
  ⟨dslDec_model .dsl 0xD4 0x08 d, dslDec_model .dsl 0xD5 0x09 d, dslDec_model .rls 0xD4 0x0A d,
   dslDec_model .rls 0xD5 0x0B d⟩

/-- a frame of another class is not decoded: `decode` returns None -/
theorem dsl_decode_other (data : Bytes) (h : List.isPrefixOf [0xD4, 0x08] data = false) :
    Gen.Fn.dep_dsl_req_decode data = .ok none := by
  unfold Gen.Fn.dep_dsl_req_decode
  simp [h]

/-- C07 (`dep_decode_total`): whatever the peer sends as DSL/RLS PDU, `decode` raises nothing but `ProtocolError` -/
theorem gen_dsl_decode_safe (data : Bytes) :
    Safe (fun e => e = .protocol) (Gen.Fn.dep_dsl_req_decode data)
    ∧ Safe (fun e => e = .protocol) (Gen.Fn.dep_dsl_res_decode data)
    ∧ Safe (fun e => e = .protocol) (Gen.Fn.dep_rls_req_decode data)
    ∧ Safe (fun e => e = .protocol) (Gen.Fn.dep_rls_res_decode data) :=
  ⟨dslDec_safe 0xD4 0x08 data, dslDec_safe 0xD5 0x09 data, dslDec_safe 0xD4 0x0A data, dslDec_safe 0xD5 0x0B data⟩

example : Gen.Fn.dep_dsl_req_decode [0xD4, 0x08, 5] = .ok (some (some 5)) := by decide +kernel
example : Gen.Fn.dep_rls_res_decode [0xD5, 0x0B, 5, 6] = .error .protocol := by decide +kernel
example : Gen.Fn.dep_rls_res_decode [0xD5, 0x09, 5] = .ok none := by decide +kernel

/-! ## `DEP_REQ_RES.decode` as inherited by DEP_REQ, DEP_RES -/

/-- a single bit: `x & 2^k = 2^k * (x / 2^k % 2)` -/
theorem and_bit (x k : Nat) : x &&& 2 ^ k = 2 ^ k * (x / 2 ^ k % 2) := by
  have hp : 0 < 2 ^ k := Nat.two_pow_pos k
  have h1 : (x &&& 2 ^ k) / 2 ^ k = x / 2 ^ k % 2 := by
    rw [Nat.and_div_two_pow, Nat.div_self hp]; exact and1 _
  have h2 : (x &&& 2 ^ k) % 2 ^ k = 0 := by
    rw [Nat.and_mod_two_pow, Nat.mod_self, Nat.and_zero]
  have := Nat.div_add_mod (x &&& 2 ^ k) (2 ^ k)
  rw [h1, h2] at this
  omega

theorem and_bit_ne (x k : Nat) : (x &&& 2 ^ k ≠ 0) ↔ (x / 2 ^ k % 2 = 1) := by
  rw [and_bit]
  have hp : 0 < 2 ^ k := Nat.two_pow_pos k
  rcases Nat.mod_two_eq_zero_or_one (x / 2 ^ k) with h | h
  · simp [h]
  · rw [h]; simp

theorem band8_ne (x : Nat) : (band (x : Int) 8 ≠ 0) ↔ (x / 8 % 2 = 1) := by
  rw [show (8 : Int) = ((8 : Nat) : Int) from rfl, band_ofNat]
  have := and_bit_ne x 3
  simp only [Nat.reducePow] at this
  rw [← this]; omega

theorem band4_ne (x : Nat) : (band (x : Int) 4 ≠ 0) ↔ (x / 4 % 2 = 1) := by
  rw [show (4 : Int) = ((4 : Nat) : Int) from rfl, band_ofNat]
  have := and_bit_ne x 2
  simp only [Nat.reducePow] at this
  rw [← this]; omega

set_option linter.unusedSimpArgs false in
set_option linter.unusedVariables false in
theorem dep_decode_core (d : Bytes) :
    (wrapExc (fun e => e == Exc.index) Exc.protocol
       (PyFn.pop0 d >>= fun (t1, data_2) =>
        let pfb := t1
        let pfb_1 := ((PyFn.shr pfb 4), (decide ((PyFn.band pfb 8) ≠ 0)), (decide ((PyFn.band pfb 4) ≠ 0)), (PyFn.band pfb 3))
        (if (pfb_1.2.2.1 = true) then
           (PyFn.pop0 data_2 >>= fun (t2, data_3) =>
            Except.ok (let did := t2
             ((some did), data_3)))
         else
         Except.ok (let did_1 := ()
          ((none : (Option Int)), data_2))) >>= fun (did_2, data_4) =>
        (if (pfb_1.2.1 = true) then
           (PyFn.pop0 data_4 >>= fun (t3, data_5) =>
            Except.ok (let nad := t3
             ((some nad), data_5)))
         else
         Except.ok (let nad_1 := ()
          ((none : (Option Int)), data_4))) >>= fun (nad_2, data_6) =>
        Except.ok (pfb_1, data_6, did_2, nad_2)) >>= fun (pfb_2, data_7, did_3, nad_3) =>
     Except.ok ((some (pfb_2, did_3, nad_3, data_7)))) >>= depOfRec
    = decodeDep d := by
  unfold decodeDep
  match d with
  | [] => simp [pop0, wrapExc]
  | pfb :: r1 =>
    have e8 := band8_ne pfb
    have e4 := band4_ne pfb
    have es : PyFn.shr (pfb : Int) 4 = ((pfb / 16 : Nat) : Int) := by
      rw [show (4 : Int) = ((4 : Nat) : Int) from rfl, shr_ofNat, Nat.shiftRight_eq_div_pow]
    have e3 : PyFn.band (pfb : Int) 3 = ((pfb % 4 : Nat) : Int) := by
      rw [show (3 : Int) = ((3 : Nat) : Int) from rfl, band_ofNat, and3]
    simp only [pop0, Py.bind_ok, es, e3, e8, e4, decide_eq_true_eq]
    by_cases hd : pfb / 4 % 2 = 1 <;> by_cases hn : pfb / 8 % 2 = 1
    · match r1 with
      | [] => simp [hd, hn, pop0, wrapExc]
      | [x] => simp [hd, hn, pop0, wrapExc]
      | x :: y :: r => simp [hd, hn, pop0, wrapExc, depOfRec]; omega
    · match r1 with
      | [] => simp [hd, hn, pop0, wrapExc]
      | x :: r => simp [hd, hn, pop0, wrapExc, depOfRec]; omega
    · match r1 with
      | [] => simp [hd, hn, pop0, wrapExc]
      | x :: r => simp [hd, hn, pop0, wrapExc, depOfRec]; omega
    · simp [hd, hn, wrapExc, depOfRec]; omega


/-- the C04/C07 model decoder `decodeDep` (applied by `decodeFrame` behind the code check, `d` = frame without the two
code octets) is the regenerated `decode` of DEP_REQ / DEP_RES: PFB split into type, NAD flag, DID flag, PNI; DID then
NAD octet when flagged; a missing octet (`IndexError` of `data.pop(0)`) is a `ProtocolError` -/
theorem dep_decode_bridge (d : Bytes) :
    (decodeDep d = Gen.Fn.dep_dep_req_decode (0xD4 :: 0x06 :: d) >>= depOfRec)
    ∧ (decodeDep d = Gen.Fn.dep_dep_res_decode (0xD5 :: 0x07 :: d) >>= depOfRec) := by
  unfold Gen.Fn.dep_dep_req_decode Gen.Fn.dep_dep_res_decode
  have p1 : List.isPrefixOf [212, 6] (0xD4 :: 0x06 :: d) = true := by simp [List.isPrefixOf]
  have p2 : List.isPrefixOf [213, 7] (0xD5 :: 0x07 :: d) = true := by simp [List.isPrefixOf]
  have d1 : PyFn.delSlice (0xD4 :: 0x06 :: d) 0 2 = d := by
    have := delSlice_zero_nat (0xD4 :: 0x06 :: d) 2; simpa using this
  have d2 : PyFn.delSlice (0xD5 :: 0x07 :: d) 0 2 = d := by
    have := delSlice_zero_nat (0xD5 :: 0x07 :: d) 2; simpa using this
  rw [if_pos p1, if_pos p2]
  simp only [d1, d2]
  exact ⟨(dep_decode_core d).symm, (dep_decode_core d).symm⟩

/-- a frame of another class is not decoded: `decode` returns None -/
theorem dep_decode_other (data : Bytes) :
    (List.isPrefixOf [0xD4, 0x06] data = false → Gen.Fn.dep_dep_req_decode data = .ok none)
    ∧ (List.isPrefixOf [0xD5, 0x07] data = false → Gen.Fn.dep_dep_res_decode data = .ok none) := by
  unfold Gen.Fn.dep_dep_req_decode Gen.Fn.dep_dep_res_decode
  constructor <;> intro h <;> simp [h]

/-- C07 (`dep_decode_total`): whatever octets follow the code, DEP `decode` raises nothing but `ProtocolError` /
`TransmissionError` (`Peer.FrameErr`) -/
theorem gen_dep_decode_safe (d : Bytes) :
    Safe Peer.FrameErr (Gen.Fn.dep_dep_req_decode (0xD4 :: 0x06 :: d))
    ∧ Safe Peer.FrameErr (Gen.Fn.dep_dep_res_decode (0xD5 :: 0x07 :: d)) := by
  obtain ⟨h1, h2⟩ := dep_decode_bridge d
  constructor
  · intro e he
    rw [he] at h1
    exact Peer.decodeDep_safe d e h1
  · intro e he
    rw [he] at h2
    exact Peer.decodeDep_safe d e h2

example : Gen.Fn.dep_dep_req_decode [0xD4, 0x06, 0x05, 7, 1, 2] = .ok (some ((0, false, true, 1), some 7, none, [1, 2])) := by rfl
example : Gen.Fn.dep_dep_res_decode [0xD5, 0x07, 0x4C, 7] = .error .protocol := by rfl

/-! ## `DEP_REQ_RES.encode` as inherited by DEP_REQ, DEP_RES -/

/-- `fmt << 4 | nad << 3 | did << 2 | pni` with one-bit flags and a two-bit packet number is the sum -/
theorem pfb_bits (fmt pni : Nat) (hn hd : Bool) (hp : pni < 4) :
    bor (bor (bor (shl (fmt : Int) 4) (shl (if hn = true then 1 else 0) 3)) (shl (if hd = true then 1 else 0) 2)) (pni : Int)
      = ((fmt * 16 + (if hn then 8 else 0) + (if hd then 4 else 0) + pni : Nat) : Int) := by
  have e4 : shl (fmt : Int) 4 = ((fmt <<< 4 : Nat) : Int) := by
    rw [show (4 : Int) = ((4 : Nat) : Int) from rfl, shl_ofNat]
  have en : shl (if hn = true then 1 else 0) 3 = (((if hn then 8 else 0) : Nat) : Int) := by cases hn <;> rfl
  have ed : shl (if hd = true then 1 else 0) 2 = (((if hd then 4 else 0) : Nat) : Int) := by cases hd <;> rfl
  rw [e4, en, ed, bor_ofNat, bor_ofNat, bor_ofNat]
  congr 1
  have hs : fmt <<< 4 = fmt * 16 := by rw [Nat.shiftLeft_eq]
  have hlow : (if hn then 8 else 0) ||| (if hd then 4 else 0) ||| pni = (if hn then 8 else 0) + (if hd then 4 else 0) + pni
      ∧ (if hn then 8 else 0) + (if hd then 4 else 0) + pni < 16 := by
    match pni, hp with
    | 0, _ => cases hn <;> cases hd <;> decide
    | 1, _ => cases hn <;> cases hd <;> decide
    | 2, _ => cases hn <;> cases hd <;> decide
    | 3, _ => cases hn <;> cases hd <;> decide
  rw [Nat.or_assoc, Nat.or_assoc, ← Nat.or_assoc (if hn then 8 else 0), hlow.1,
    ← Nat.shiftLeft_add_eq_or_of_lt (by simpa using hlow.2), hs]
  omega

/-- `DEP_REQ.encode` / `DEP_RES.encode`: the C04 codec `encodePdu` of a DEP PDU whose PFB flags say which of DID / NAD
are present (`fmt < 16`, `pni < 4`, DID and NAD octets) -/
theorem dep_req_encode_bridge (fmt pni : Nat) (did nad : Option Nat) (data : Bytes) (hf : fmt < 16) (hp : pni < 4)
    (hd : ∀ v, did = some v → v < 256) (hn : ∀ v, nad = some v → v < 256) :
    Gen.Fn.dep_dep_req_encode ((fmt : Int), nad.isSome, did.isSome, (pni : Int)) ((did.getD 0 : Nat) : Int)
        ((nad.getD 0 : Nat) : Int) data
      = .ok (encodePdu true (.dep fmt pni did nad data)) := by
  unfold Gen.Fn.dep_dep_req_encode
  simp only []
  rw [pfb_bits fmt pni nad.isSome did.isSome hp, pack_B]
  have hle : ¬ (fmt * 16 + (if nad.isSome then 8 else 0) + (if did.isSome then 4 else 0) + pni > 255) := by
    cases nad.isSome <;> cases did.isSome <;> simp <;> omega
  rw [if_neg hle]
  cases did with
  | none =>
    cases nad with
    | none => simp [encodePdu, flag, optByte]
    | some n =>
      have := hn n rfl
      have e := mkBytes_nat [n]
      simp only [List.map_cons, List.map_nil] at e
      simp [encodePdu, flag, optByte, e, this]
  | some dv =>
    have hdv := hd dv rfl
    have e := mkBytes_nat [dv]
    simp only [List.map_cons, List.map_nil] at e
    cases nad with
    | none => simp [encodePdu, flag, optByte, e, hdv]
    | some n =>
      have := hn n rfl
      have e' := mkBytes_nat [n]
      simp only [List.map_cons, List.map_nil] at e'
      simp [encodePdu, flag, optByte, e, e', hdv, this]


theorem dep_res_encode_bridge (fmt pni : Nat) (did nad : Option Nat) (data : Bytes) (hf : fmt < 16) (hp : pni < 4)
    (hd : ∀ v, did = some v → v < 256) (hn : ∀ v, nad = some v → v < 256) :
    Gen.Fn.dep_dep_res_encode ((fmt : Int), nad.isSome, did.isSome, (pni : Int)) ((did.getD 0 : Nat) : Int)
        ((nad.getD 0 : Nat) : Int) data
      = .ok (encodePdu false (.dep fmt pni did nad data)) := by
  unfold Gen.Fn.dep_dep_res_encode
  simp only []
  rw [pfb_bits fmt pni nad.isSome did.isSome hp, pack_B]
  have hle : ¬ (fmt * 16 + (if nad.isSome then 8 else 0) + (if did.isSome then 4 else 0) + pni > 255) := by
    cases nad.isSome <;> cases did.isSome <;> simp <;> omega
  rw [if_neg hle]
  cases did with
  | none =>
    cases nad with
    | none => simp [encodePdu, flag, optByte]
    | some n =>
      have := hn n rfl
      have e := mkBytes_nat [n]
      simp only [List.map_cons, List.map_nil] at e
      simp [encodePdu, flag, optByte, e, this]
  | some dv =>
    have hdv := hd dv rfl
    have e := mkBytes_nat [dv]
    simp only [List.map_cons, List.map_nil] at e
    cases nad with
    | none => simp [encodePdu, flag, optByte, e, hdv]
    | some n =>
      have := hn n rfl
      have e' := mkBytes_nat [n]
      simp only [List.map_cons, List.map_nil] at e'
      simp [encodePdu, flag, optByte, e, e', hdv, this]


example : Gen.Fn.dep_dep_req_encode (1, false, true, 2) 7 0 [9, 9] = .ok [0xD4, 0x06, 0x16, 7, 9, 9] := by decide +kernel
example : Gen.Fn.dep_dep_res_encode (16, false, false, 0) 0 0 [] = .error .struct := by decide +kernel

/-- encode then decode a DEP PDU: the C04 roundtrip `decodeDep (encode ..) = ..` through the regenerated functions -/
theorem dep_req_roundtrip (fmt pni : Nat) (did nad : Option Nat) (data : Bytes) (hf : fmt < 16) (hp : pni < 4)
    (hd : ∀ v, did = some v → v < 256) (hn : ∀ v, nad = some v → v < 256) :
    (Gen.Fn.dep_dep_req_encode ((fmt : Int), nad.isSome, did.isSome, (pni : Int)) ((did.getD 0 : Nat) : Int)
        ((nad.getD 0 : Nat) : Int) data >>= fun f => Gen.Fn.dep_dep_req_decode f >>= depOfRec)
      = decodeDep ((encodePdu true (.dep fmt pni did nad data)).drop 2) := by
  rw [dep_req_encode_bridge fmt pni did nad data hf hp hd hn, Py.bind_ok]
  have e : encodePdu true (.dep fmt pni did nad data)
      = 0xD4 :: 0x06 :: (encodePdu true (.dep fmt pni did nad data)).drop 2 := by
    simp [encodePdu]
  rw [e, ← (dep_decode_bridge _).1]
  simp

/-! ## the dispatch of `decode_frame` with the regenerated PDU decoders -/

set_option linter.unusedSimpArgs false in
/-- the dispatch + model decoders of group Dep (`FnBridge.Dep.tail`, the continuation in
`initiator_decode_frame_bridge` / `target_decode_frame_bridge`) is the dispatch + REGENERATED decoders, on every frame
whose first code octet is the one `decode_frame` has checked -/
theorem tail_eq_genTail (req : Bool) (c1 : Nat) (d : Bytes) :
    FnBridge.Dep.tail req ((if req then 0xD4 else 0xD5) :: c1 :: d) = genTail req ((if req then 0xD4 else 0xD5) :: c1 :: d) := by
  unfold FnBridge.Dep.tail genTail
  cases req with
  | true =>
    by_cases h6 : c1 = 6
    · subst h6
      simp only [↓reduceIte, Nat.reduceEqDiff, Nat.reduceSub, Bool.false_eq_true, Bool.not_true, false_and, not_true_eq_false]
      exact (dep_decode_bridge d).1
    · by_cases h8 : c1 = 8
      · subst h8
        simp only [↓reduceIte, Nat.reduceEqDiff, Nat.reduceSub, Bool.false_eq_true, Bool.not_true, false_and, not_true_eq_false]
        exact (dsl_decode_bridge d).1
      · by_cases h10 : c1 = 10
        · subst h10
          simp only [↓reduceIte, Nat.reduceEqDiff, Nat.reduceSub, Bool.false_eq_true, Bool.not_true, false_and, not_true_eq_false]
          exact (dsl_decode_bridge d).2.2.1
        · by_cases h0 : c1 = 0
          · subst h0
            simp only [↓reduceIte, Nat.reduceEqDiff, Nat.reduceSub, Bool.false_eq_true, Bool.not_true, false_and, not_true_eq_false]
            exact (atr_decode_model d).1
          · by_cases h4 : c1 = 4
            · subst h4; simp
            · simp [h0, h4, h6, h8, h10]
  | false =>
    by_cases hz : c1 = 0
    · subst hz; simp
    · by_cases h7 : c1 = 7
      · subst h7
        simp only [↓reduceIte, Nat.reduceEqDiff, Nat.reduceSub, Bool.false_eq_true, Bool.not_false, true_and, not_false_eq_true]
        exact (dep_decode_bridge d).2
      · by_cases h9 : c1 = 9
        · subst h9
          simp only [↓reduceIte, Nat.reduceEqDiff, Nat.reduceSub, Bool.false_eq_true, Bool.not_false, true_and, not_false_eq_true]
          exact (dsl_decode_bridge d).2.1
        · by_cases h11 : c1 = 11
          · subst h11
            simp only [↓reduceIte, Nat.reduceEqDiff, Nat.reduceSub, Bool.false_eq_true, Bool.not_false, true_and, not_false_eq_true]
            exact (dsl_decode_bridge d).2.2.2
          · by_cases h1 : c1 = 1
            · subst h1
              simp only [↓reduceIte, Nat.reduceEqDiff, Nat.reduceSub, Bool.false_eq_true, Bool.not_false, true_and, not_false_eq_true]
              exact (atr_decode_model d).2
            · by_cases h5 : c1 = 5
              · subst h5; simp
              · have e6 : ¬ c1 - 1 = 6 := by omega
                have e8 : ¬ c1 - 1 = 8 := by omega
                have e10 : ¬ c1 - 1 = 10 := by omega
                have e0 : ¬ c1 - 1 = 0 := by omega
                have e4 : ¬ c1 - 1 = 4 := by omega
                simp [hz, h1, h5, h7, h9, h11, e6, e8, e10, e0, e4]

/-! ## `Initiator.activate`: option clamps, PP / DID octets, PSL_REQ, `wt`, `miu` -/

theorem clamp_eq (lo hi x : Int) (h0 : 0 ≤ lo) (h : lo ≤ hi) :
    imin (imax lo x) hi = ((Activate.clampI lo hi x : Nat) : Int) := by
  unfold imin imax Activate.clampI
  split <;> split <;> omega

/-- `brs`, `lri` as `Activate.handshake` clamps them (C19), for every value the caller may pass as option -/
theorem ini_opts_bridge (g : String → Int → Int) :
    Gen.Fn.dep_ini_opts g
      = (((Activate.clampI 0 2 (g "brs" 2) : Nat) : Int), ((Activate.clampI 0 3 (g "lri" 3) : Nat) : Int)) := by
  unfold Gen.Fn.dep_ini_opts
  simp only [clamp_eq _ _ _ (Int.le_refl 0) (by decide : (0 : Int) ≤ 2),
    clamp_eq _ _ _ (Int.le_refl 0) (by decide : (0 : Int) ≤ 3)]

theorem clampI_le (lo hi : Int) (x : Int) (h0 : 0 ≤ lo) (h : lo ≤ hi) : ((Activate.clampI lo hi x : Nat) : Int) ≤ hi := by
  unfold Activate.clampI; omega


/-- `lri << 4 | b1 << 1 | b0` for the two flag bits -/
theorem pp_bits (l : Nat) (b1 b0 : Bool) :
    bor (bor (shl (l : Int) 4) (shl (if b1 = true then 1 else 0) 1)) (if b0 = true then 1 else 0)
      = ((l * 16 + Activate.boolBit b1 2 + Activate.boolBit b0 1 : Nat) : Int) := by
  have e4 : shl (l : Int) 4 = ((l <<< 4 : Nat) : Int) := by
    rw [show (4 : Int) = ((4 : Nat) : Int) from rfl, shl_ofNat]
  have h2 : l <<< 4 + 2 = l <<< 4 ||| 2 := Nat.shiftLeft_add_eq_or_of_lt (by decide) l
  have h1 : l <<< 4 + 1 = l <<< 4 ||| 1 := Nat.shiftLeft_add_eq_or_of_lt (by decide) l
  have h3 : l <<< 4 + 3 = l <<< 4 ||| 3 := Nat.shiftLeft_add_eq_or_of_lt (by decide) l
  have h21 : (l <<< 4 ||| 2) ||| 1 = l <<< 4 ||| 3 := by rw [Nat.or_assoc]; rfl
  have hs : l <<< 4 = l * 16 := by rw [Nat.shiftLeft_eq]
  rw [e4]
  cases b1 <;> cases b0 <;> simp only [Activate.boolBit, if_true, if_false, Bool.false_eq_true]
  · show bor (bor ((l <<< 4 : Nat) : Int) (shl 0 1)) 0 = _
    rw [show shl 0 1 = ((0 : Nat) : Int) from rfl, show (0 : Int) = ((0 : Nat) : Int) from rfl, bor_ofNat, bor_ofNat]
    simp [hs]
  · show bor (bor ((l <<< 4 : Nat) : Int) (shl 0 1)) 1 = _
    rw [show shl 0 1 = ((0 : Nat) : Int) from rfl, show (1 : Int) = ((1 : Nat) : Int) from rfl, bor_ofNat, bor_ofNat]
    simp only [Nat.or_zero]; rw [← h1, hs]
  · show bor (bor ((l <<< 4 : Nat) : Int) (shl 1 1)) 0 = _
    rw [show shl 1 1 = ((2 : Nat) : Int) from rfl, show (0 : Int) = ((0 : Nat) : Int) from rfl, bor_ofNat, bor_ofNat]
    simp only [Nat.or_zero]; rw [← h2, hs]
  · show bor (bor ((l <<< 4 : Nat) : Int) (shl 1 1)) 1 = _
    rw [show shl 1 1 = ((2 : Nat) : Int) from rfl, show (1 : Int) = ((1 : Nat) : Int) from rfl, bor_ofNat, bor_ofNat]
    rw [h21, ← h3, hs]

/-- PP and DID octets of the ATR_REQ as `Activate.handshake` builds them (`ppiOf`, `didByte`); `did` passed the
`assert self.did is None or 0 <= self.did <= 255` in front of the slice -/
theorem ini_ppi_bridge (lri : Nat) (gbi : Bytes) (nad did : Option Int) (hd : ∀ v, did = some v → 0 ≤ v) :
    Gen.Fn.dep_ini_ppi (lri : Int) gbi nad did
      = (((Activate.ppiOf lri gbi nad : Nat) : Int), ((Activate.didByte did : Nat) : Int)) := by
  unfold Gen.Fn.dep_ini_ppi Activate.ppiOf
  have hb := pp_bits lri (decide (gbi ≠ [])) (decide (nad ≠ none ∧ nad ≠ some 0))
  simp only [hb]
  have e1 : decide (gbi ≠ []) = !gbi.isEmpty := by cases gbi <;> simp
  have e2 : decide (nad ≠ none ∧ nad ≠ some 0) = Activate.optTruthy nad := by
    cases nad with
    | none => simp [Activate.optTruthy]
    | some v => simp [Activate.optTruthy]
  rw [e1, e2]
  cases did with
  | none => rfl
  | some v =>
    have := hd v rfl
    simp only [Activate.didByte]
    congr 1
    omega


/-- the constructor arguments of the PSL_REQ: BRS octet from the table `(0, 9, 18)` (`Activate.brsByte`) -/
theorem ini_psl_req_bridge (did lri : Int) (brs : Nat) (h : brs ≤ 2) :
    Gen.Fn.dep_ini_psl_req did (brs : Int) lri = .ok (did, ((Activate.brsByte brs : Nat) : Int), lri) := by
  unfold Gen.Fn.dep_ini_psl_req
  match brs, h with
  | 0, _ => rfl
  | 1, _ => rfl
  | 2, _ => rfl

/-- constructor arguments + `PSL_REQ.encode` = the PSL_REQ octets of the C19 model -/
theorem ini_psl_req_activate (did lri brs : Nat) (h : brs ≤ 2) (hd : did < 256) (hl : lri < 256) :
    (Gen.Fn.dep_ini_psl_req (did : Int) (brs : Int) (lri : Int) >>= fun r => Gen.Fn.dep_psl_req_encode r.1 r.2.1 r.2.2)
      = .ok (Activate.pslReq did brs lri) := by
  rw [ini_psl_req_bridge _ _ _ h]
  exact psl_req_encode_activate did brs lri hd hl

/-- an out-of-table `brs` would be an `IndexError`; the clamp in front (`ini_opts_bridge`) excludes it -/
example : Gen.Fn.dep_ini_psl_req 0 3 0 = .error .index := by decide +kernel

/-- the exponent of the response waiting time: WT, capped at 14 (`IHeld.wt` of the C19 model) -/
theorem ini_wt_bridge (wt : Nat) : Gen.Fn.dep_ini_wt (wt : Int) = ((if wt < 15 then wt else 14 : Nat) : Int) := by
  unfold Gen.Fn.dep_ini_wt
  split <;> split <;> first | rfl | (exfalso; omega)

/-- `ATR_RES.wt` + the cap, on the TO octet of the ATR_RES: the value `Activate.initiatorSide` holds -/
theorem ini_wt_activate (to : Nat) :
    Gen.Fn.dep_ini_wt (Gen.Fn.dep_atr_res_wt (to : Int)) = ((if to % 16 < 15 then to % 16 else 14 : Nat) : Int) := by
  rw [atr_res_wt_bridge, ini_wt_bridge]

theorem ini_miu_bridge (lr : Int) (did nad : Option Int) :
    Gen.Fn.dep_ini_miu lr did nad
      = lr - 3 - (Activate.boolBit did.isSome 1 : Nat) - (Activate.boolBit nad.isSome 1 : Nat) := by
  unfold Gen.Fn.dep_ini_miu
  cases did <;> cases nad <;> simp [Activate.boolBit]

/-- `atr_res.lr` + the miu statement on the PP octet of the ATR_RES: the `miu` of `Activate.initiatorSide` (C19)
and `NfcDep.iMiu` (C04) -/
theorem ini_miu_activate (pp : Nat) (did nad : Option Int) :
    (Gen.Fn.dep_atr_lr (pp : Int) >>= fun lr => .ok (Gen.Fn.dep_ini_miu lr did nad))
      = .ok (((Activate.lrTable ((pp / 16) % 4) - 3 - Activate.boolBit did.isSome 1 - Activate.boolBit nad.isSome 1
              : Nat)) : Int) := by
  rw [atr_lr_activate, Py.bind_ok, ini_miu_bridge]
  have h := lrTable_ge ((pp / 16) % 4)
  rw [← lrTable_eq] at h
  have h1 : Activate.boolBit did.isSome 1 ≤ 1 := by unfold Activate.boolBit; split <;> omega
  have h2 : Activate.boolBit nad.isSome 1 ≤ 1 := by unfold Activate.boolBit; split <;> omega
  congr 1
  omega

theorem ini_miu_c04 (lrt : Nat) (did nad : Option Nat) :
    Gen.Fn.dep_ini_miu ((NfcDep.lrTable lrt : Nat) : Int) (did.map (fun (d : Nat) => (d : Int)))
        (nad.map (fun (d : Nat) => (d : Int)))
      = ((NfcDep.iMiu lrt did nad : Nat) : Int) := by
  rw [ini_miu_bridge]
  unfold NfcDep.iMiu
  have h := lrTable_ge lrt
  cases did <;> cases nad <;> simp [Activate.boolBit, NfcDep.flag] <;> omega

example : Gen.Fn.dep_ini_miu 254 (some 1) none = 250 := by decide +kernel

/-! ## `Target.activate` -/

theorem tgt_opts_bridge (g : String → Int → Int) :
    Gen.Fn.dep_tgt_opts g
      = (((Activate.clampI 0 3 (g "lrt" 3) : Nat) : Int), ((Activate.clampI 0 14 (g "rwt" 8) : Nat) : Int)) := by
  unfold Gen.Fn.dep_tgt_opts
  simp only [clamp_eq _ _ _ (Int.le_refl 0) (by decide : (0 : Int) ≤ 3),
    clamp_eq _ _ _ (Int.le_refl 0) (by decide : (0 : Int) ≤ 14)]

/-- the PP octet of the ATR_RES (`Activate.pptOf`); `Target.nad` is `None` from `__init__` on -/
theorem tgt_pp_bridge (lrt : Nat) (gbt : Bytes) :
    Gen.Fn.dep_tgt_pp (lrt : Int) gbt none = ((Activate.pptOf lrt gbt : Nat) : Int) := by
  unfold Gen.Fn.dep_tgt_pp Activate.pptOf
  have hb := pp_bits lrt (decide (gbt ≠ [])) (decide ((none : Option Int) ≠ none ∧ (none : Option Int) ≠ some 0))
  simp only [hb]
  have e1 : decide (gbt ≠ []) = !gbt.isEmpty := by cases gbt <;> simp
  rw [e1]
  simp [Activate.boolBit]

/-- `miu` and `did` of the Target as `Activate.targetSide` holds them (C19) -/
theorem tgt_miu_bridge (lr : Int) (adid : Nat) :
    Gen.Fn.dep_tgt_miu lr (adid : Int)
      = (lr - 3 - (Activate.boolBit (adid > 0) 1 : Nat),
         (if adid > 0 then some adid else none : Option Nat).map (fun (d : Nat) => (d : Int))) := by
  unfold Gen.Fn.dep_tgt_miu
  by_cases h : adid > 0
  · have h' : ((adid : Nat) : Int) > 0 := by omega
    simp [h, Activate.boolBit]
  · have h' : ¬ ((adid : Nat) : Int) > 0 := by omega
    simp [h, Activate.boolBit]

/-- C04: the Target's information unit size and DID filter (`NfcDep.tMiu` repaired variant F20, `NfcDep.tDidOf`)
from the DID octet `adid` of the ATR_REQ -/
theorem tgt_miu_c04 (lri adid : Nat) :
    Gen.Fn.dep_tgt_miu ((NfcDep.lrTable lri : Nat) : Int) (adid : Int)
      = (((NfcDep.tMiu true lri (NfcDep.tDidOf (some adid)) : Nat) : Int),
         (NfcDep.tDidOf (some adid)).map (fun (d : Nat) => (d : Int))) := by
  rw [tgt_miu_bridge]
  have h := lrTable_ge lri
  unfold NfcDep.tMiu NfcDep.tDidOf
  cases adid with
  | zero => simp [Activate.boolBit, NfcDep.flag]; omega
  | succ k => simp [Activate.boolBit, NfcDep.flag]; omega

/-- `atr_req.lr` + the miu statement on the PP and DID octets of the ATR_REQ: `THeld.miu` of `Activate.targetSide` -/
theorem tgt_miu_activate (pp adid : Nat) :
    (Gen.Fn.dep_atr_lr (pp : Int) >>= fun lr => .ok (Gen.Fn.dep_tgt_miu lr (adid : Int)).1)
      = .ok (((Activate.lrTable ((pp / 16) % 4) - 3 - Activate.boolBit (adid > 0) 1 : Nat)) : Int) := by
  rw [atr_lr_activate, Py.bind_ok, tgt_miu_bridge]
  have h := lrTable_ge ((pp / 16) % 4)
  rw [← lrTable_eq] at h
  have h1 : Activate.boolBit (decide (adid > 0)) 1 ≤ 1 := by unfold Activate.boolBit; split <;> omega
  simp only []
  congr 1
  omega

example : Gen.Fn.dep_tgt_miu 254 7 = (250, some 7) := by decide +kernel
example : Gen.Fn.dep_tgt_miu 64 0 = (61, none) := by decide +kernel

/-- the frame of the first DEP_REQ that `activate` re-injects into `exchange` is `encode_frame` of that PDU -/
theorem tgt_cmd_bridge (brty : String) (p : Pdu) :
    Gen.Fn.dep_tgt_cmd (encodePdu true p) brty = encodeFrame (decide (brty = "106A")) true p := by
  unfold Gen.Fn.dep_tgt_cmd encodeFrame
  have e : PyFn.len (encodePdu true p) + 1 = (((encodePdu true p).length + 1 : Nat) : Int) := by
    rw [len_eq]; omega
  rw [e, pack_B]
  by_cases h : (encodePdu true p).length + 1 > 255
  · simp [h]
  · by_cases hb : brty = "106A" <;> simp [h, hb]

example : Gen.Fn.dep_tgt_cmd [0xD4, 6, 0, 1, 2] "106A" = .ok [0xF0, 6, 0xD4, 6, 0, 1, 2] := by decide +kernel

/-! ## `exchange()`: chunking, packet number, RTOX; `activate()`: general bytes, NFCID3 -/

/-- one turn of the Initiator's send loop: the chunk is `send_data.take miu`, what remains `send_data.drop miu`
(`NfcDep.sendLoop`: `sd.take c.imiu`, `rest := sd.drop c.imiu`) -/
theorem ini_chunk_bridge (sd : Bytes) (miu : Nat) :
    Gen.Fn.dep_ini_chunk sd (miu : Int) = (sd.take miu, sd.drop miu) := by
  unfold Gen.Fn.dep_ini_chunk
  rw [slice_zero_nat, delSlice_zero_nat]

/-- C04 "no frame exceeds the payload size announced by the receiver": the chunk has at most `miu` octets and
chunk ++ rest is the payload -/
theorem gen_ini_chunk_sound (sd : Bytes) (miu : Nat) :
    (Gen.Fn.dep_ini_chunk sd (miu : Int)).1.length ≤ miu
    ∧ (Gen.Fn.dep_ini_chunk sd (miu : Int)).1 ++ (Gen.Fn.dep_ini_chunk sd (miu : Int)).2 = sd := by
  rw [ini_chunk_bridge]
  exact ⟨by simp [List.length_take]; omega, List.take_append_drop _ _⟩

/-- one turn of the Target's send loop (`NfcDep.tSendChunk`: `data.take c.tmiu`, MORE iff `data.length > c.tmiu`) -/
theorem tgt_chunk_bridge (sd : Bytes) (miu : Nat) :
    Gen.Fn.dep_tgt_chunk sd (miu : Int) = (sd.take miu, decide (sd.length > miu)) := by
  unfold Gen.Fn.dep_tgt_chunk
  rw [slice_zero_nat]
  simp only [len_eq]
  congr 1
  rw [Bool.eq_iff_iff]; simp

theorem tgt_chunk_rest_bridge (sd : Bytes) (miu : Nat) :
    Gen.Fn.dep_tgt_chunk_rest sd (miu : Int) = sd.drop miu := by
  unfold Gen.Fn.dep_tgt_chunk_rest
  rw [delSlice_zero_nat]

theorem pni_inc (pni : Nat) : band ((pni : Int) + 1) 3 = (((pni + 1) % 4 : Nat) : Int) := by
  py_bits

/-- Initiator, send loop: the response must carry the current packet number, THEN the number is incremented
modulo 4 (`NfcDep.sendLoop`: `if rp ≠ pni then .error .protocol` .. `(pni + 1) % 4`) -/
theorem ini_pni_send_bridge (pni rp : Nat) :
    Gen.Fn.dep_ini_pni_send (pni : Int) (rp : Int)
      = if rp ≠ pni then .error .protocol else .ok (((pni + 1) % 4 : Nat) : Int) := by
  unfold Gen.Fn.dep_ini_pni_send
  rw [pni_inc]
  by_cases h : rp = pni
  · subst h; simp
  · have : (rp : Int) ≠ (pni : Int) := by omega
    simp [h, this]

/-- Initiator, receive loop (`NfcDep.recvLoop`): check, append, increment -/
theorem ini_pni_recv_bridge (acc data : Bytes) (pni rp : Nat) :
    Gen.Fn.dep_ini_pni_recv acc (pni : Int) (rp : Int) data
      = if rp ≠ pni then .error .protocol else .ok (acc ++ data, (((pni + 1) % 4 : Nat) : Int)) := by
  unfold Gen.Fn.dep_ini_pni_recv
  rw [pni_inc]
  by_cases h : rp = pni
  · subst h; simp
  · have : (rp : Int) ≠ (pni : Int) := by omega
    simp [h, this]

/-- Target, send and receive loops (`NfcDep.tAccept`: `pni := (t.pni + 1) % 4; if rpni ≠ pni then die .protocol`):
the number is incremented FIRST, the request must carry the new value -/
theorem tgt_pni_bridge (pni rp : Nat) :
    Gen.Fn.dep_tgt_pni_send (pni : Int) (rp : Int)
      = (if rp ≠ (pni + 1) % 4 then .error .protocol else .ok (((pni + 1) % 4 : Nat) : Int))
    ∧ Gen.Fn.dep_tgt_pni_recv (pni : Int) (rp : Int)
      = (if rp ≠ (pni + 1) % 4 then .error .protocol else .ok (((pni + 1) % 4 : Nat) : Int)) := by
  unfold Gen.Fn.dep_tgt_pni_send Gen.Fn.dep_tgt_pni_recv
  rw [pni_inc]
  by_cases h : rp = (pni + 1) % 4
  · rw [h]; simp
  · have : ¬ ((rp : Int) = (((pni + 1) % 4 : Nat) : Int)) := by omega
    rw [if_pos h]
    simp only [ne_eq, this, not_false_eq_true, if_true, and_self]

example : Gen.Fn.dep_tgt_pni_recv 3 0 = .ok 0 := by decide +kernel
example : Gen.Fn.dep_tgt_pni_recv 3 4 = .error .protocol := by decide +kernel
example : Gen.Fn.dep_ini_pni_send 3 3 = .ok 0 := by decide +kernel

/-- the PDU builders are called with `(pni, [data, more,] did, nad)` in this order - for EVERY builder `mk`
(the models: `.dep fNAK pni c.idid c.inad []`, `.dep (MORE|INF) pni c.idid c.inad chunk`, `.dep fACK pni ..`) -/
theorem call_sites_bridge (pni : Int) (did nad : Option Int) (data sd : Bytes) (more : Bool)
    (mk3 : Int → Option Int → Option Int → Int × Option Int × Option Int)
    (mk5 : Int → Bytes → Bool → Option Int → Option Int → Int × Bytes × Bool × Option Int × Option Int) :
    Gen.Fn.dep_ini_nak_call pni did nad mk3 = mk3 pni did nad
    ∧ Gen.Fn.dep_ini_ack_call pni did nad mk3 = mk3 pni did nad
    ∧ Gen.Fn.dep_tgt_ack_call pni did nad mk3 = mk3 pni did nad
    ∧ Gen.Fn.dep_ini_inf_call data sd pni did nad mk5 = mk5 pni data (decide (sd ≠ [])) did nad
    ∧ Gen.Fn.dep_tgt_inf_call data more pni did nad mk5 = mk5 pni data more did nad :=
  ⟨rfl, rfl, rfl, rfl, rfl⟩

/-- the RTOX value the Initiator echoes (`Peer.rtoxOf true`, C07: a timeout extension PDU without data octet or
with a value outside 1..59 is a `ProtocolError`, never an `IndexError`) -/
theorem ini_rtox_bridge (data : Bytes) :
    Gen.Fn.dep_ini_rtox data = Peer.rtoxOf true data >>= fun (v : Nat) => .ok (v : Int) := by
  unfold Gen.Fn.dep_ini_rtox Peer.rtoxOf
  cases data with
  | nil => simp [len_eq]
  | cons v t =>
    simp only [len_eq, getB_zero, List.length_cons, if_true]
    have h0 : ¬ (((t.length + 1 : Nat) : Int) = 0) := by omega
    simp only [h0, if_false, Py.bind_ok]
    by_cases h : 0 < v ∧ v < 60
    · have h' : (0 < (v : Int)) ∧ ((v : Int) < 60) := by omega
      simp [h, h']
    · simp [h]; omega

theorem gen_ini_rtox_safe (data : Bytes) : Safe (fun e => e = .protocol) (Gen.Fn.dep_ini_rtox data) := by
  rw [ini_rtox_bridge]
  intro e he
  cases data with
  | nil => simp [Peer.rtoxOf] at he; exact he.symm
  | cons v t =>
    simp only [Peer.rtoxOf, if_true] at he
    split at he <;> simp at he
    exact he.symm

/-- the RTOX value the Target reads back (`Peer.tRtoxOf true`) -/
theorem tgt_rtox_bridge (data : Bytes) :
    Gen.Fn.dep_tgt_rtox data = Peer.tRtoxOf true data >>= fun o => .ok (o.map (fun (v : Nat) => (v : Int))) := by
  unfold Gen.Fn.dep_tgt_rtox Peer.tRtoxOf
  cases data with
  | nil => simp
  | cons v t =>
    simp only [ne_eq, reduceCtorEq, not_false_eq_true, if_true, getB_zero, Py.bind_ok]
    py_bits
    rfl

/-- general bytes are cut to 48 / 47 octets (`Activate.handshake`: `gbI.take 48`, `gbT.take 47`) -/
theorem gb_cut_bridge (g : String → Bytes → Bytes) :
    Gen.Fn.dep_ini_gbi g = (g "gbi" []).take 48 ∧ Gen.Fn.dep_tgt_gbt g = (g "gbt" []).take 47 := by
  unfold Gen.Fn.dep_ini_gbi Gen.Fn.dep_tgt_gbt
  exact ⟨slice_zero_nat _ 48, slice_zero_nat _ 47⟩

/-- NFCID3 of the ATR_REQ after the Initiator's own 212F poll: octets 1..8 of SENSF_RES + "ST"
(`Activate.handshake`: `id3 := nfcid3t.take 8 ++ st` for a SENSF_RES `01 ++ nfcid3t[0:8] ++ ..`) -/
theorem ini_nfcid3_212_bridge (nfcid3t pad : Bytes) (h : 8 ≤ nfcid3t.length) :
    Gen.Fn.dep_ini_nfcid3_212 ([0x01] ++ nfcid3t.take 8 ++ pad) = nfcid3t.take 8 ++ Activate.st := by
  unfold Gen.Fn.dep_ini_nfcid3_212
  have e : slice ([0x01] ++ nfcid3t.take 8 ++ pad) 1 9 = nfcid3t.take 8 := by
    have h1 : slice ([0x01] ++ nfcid3t.take 8 ++ pad) 1 9 = (([0x01] ++ nfcid3t.take 8 ++ pad).drop 1).take (9 - 1) :=
      slice_nat _ 1 9
    rw [h1]
    have h8 : (nfcid3t.take 8).length = 8 := by rw [List.length_take]; omega
    simp only [List.cons_append, List.nil_append, List.drop_succ_cons, List.drop_zero]
    rw [List.take_append_of_le_length (by omega), List.take_of_length_le (by omega)]
  rw [e]; rfl

/-! ## PDU type checks of the exchange loops -/

/-- send loop (`NfcDep.sendLoop`: `if fmt = fACK ∧ rest = [] then .error .protocol`); the constant
`DEP_RES.PositiveAck` is the model's `fACK` -/
theorem ini_ack_chk_bridge (rest : Bytes) (fmt : Nat) :
    Gen.Fn.dep_ini_ack_chk rest (fmt : Int) = if fmt = fACK ∧ rest = [] then .error .protocol else .ok () := by
  unfold Gen.Fn.dep_ini_ack_chk fACK
  by_cases h : fmt = 4
  · subst h
    cases rest <;> simp
  · have : ¬ ((fmt : Int) = 4) := by omega
    simp [h, this]

/-- after the last chunk and inside the receive loop (`NfcDep.exchange`, `recvLoop`:
`if fmt ≠ fINF ∧ fmt ≠ fMORE then .error .protocol`) -/
theorem ini_inf_chk_bridge (fmt : Nat) :
    Gen.Fn.dep_ini_inf_chk (fmt : Int) = (if fmt ≠ fINF ∧ fmt ≠ fMORE then .error .protocol else .ok ())
    ∧ Gen.Fn.dep_ini_chain_chk (fmt : Int) = (if fmt ≠ fINF ∧ fmt ≠ fMORE then .error .protocol else .ok ()) := by
  unfold Gen.Fn.dep_ini_inf_chk Gen.Fn.dep_ini_chain_chk fINF fMORE
  have e0 : ((fmt : Int) ≠ 0) ↔ fmt ≠ 0 := by omega
  have e1 : ((fmt : Int) ≠ 1) ↔ fmt ≠ 1 := by omega
  simp only [e0, e1, and_self]

/-- `NfcDep.nakCheck`: a NACK response is a `ProtocolError` -/
theorem ini_nak_chk_bridge (fmt : Nat) :
    Gen.Fn.dep_ini_nak_chk (fmt : Int) = if fmt = fNAK then .error .protocol else .ok () := by
  unfold Gen.Fn.dep_ini_nak_chk fNAK
  have e : ((fmt : Int) = 5) ↔ fmt = 5 := by omega
  simp only [e]

/-- `NfcDep.reqAttention`: RTOX -> ProtocolError, anything but ATN -> ProtocolError -/
theorem ini_atn_chk_bridge (fmt : Nat) :
    Gen.Fn.dep_ini_atn_chk (fmt : Int)
      = if fmt = fTOX then .error .protocol else if fmt ≠ fATN then .error .protocol else .ok () := by
  unfold Gen.Fn.dep_ini_atn_chk fTOX fATN
  have e9 : ((fmt : Int) = 9) ↔ fmt = 9 := by omega
  have e8 : ((fmt : Int) ≠ 8) ↔ fmt ≠ 8 := by omega
  simp only [e9, e8]

/-- loop conditions: timeout extension (`fTOX`), more information (`fMORE`) -/
theorem fmt_tests_bridge (fmt : Nat) :
    Gen.Fn.dep_ini_tox_test (fmt : Int) = decide (fmt = fTOX)
    ∧ Gen.Fn.dep_ini_more_test (fmt : Int) = decide (fmt = fMORE)
    ∧ Gen.Fn.dep_tgt_more_test (fmt : Int) = decide (fmt = fMORE) := by
  unfold Gen.Fn.dep_ini_tox_test Gen.Fn.dep_ini_more_test Gen.Fn.dep_tgt_more_test fTOX fMORE
  have e9 : ((fmt : Int) = 9) ↔ fmt = 9 := by omega
  have e1 : ((fmt : Int) = 1) ↔ fmt = 1 := by omega
  simp only [e9, e1, and_self]

example : Gen.Fn.dep_ini_ack_chk [] 4 = .error .protocol := by decide +kernel
example : Gen.Fn.dep_ini_ack_chk [1] 4 = .ok () := by decide +kernel
example : Gen.Fn.dep_ini_atn_chk 8 = .ok () := by decide +kernel

/-- `request_retransmission` (`NfcDep.reqRetrans`, repaired variant F27): RTOX -> ProtocolError; accepted are INF
PDUs and, when the outstanding request was chained (`req.pfb.fmt == MoreInformation`), an ACK -/
theorem ini_retrans_chk_bridge (fmt reqfmt : Nat) :
    Gen.Fn.dep_ini_retrans_chk (fmt : Int) (reqfmt : Int)
      = if fmt = fTOX then .error .protocol
        else if fmt = fINF ∨ fmt = fMORE ∨ (reqfmt = fMORE ∧ fmt = fACK) then .ok ()
        else .error .protocol := by
  unfold Gen.Fn.dep_ini_retrans_chk fTOX fINF fMORE fACK
  have e9 : ((fmt : Int) = 9) ↔ fmt = 9 := by omega
  have e1 : ((reqfmt : Int) = 1) ↔ reqfmt = 1 := by omega
  simp only [e9, e1]
  by_cases h9 : fmt = 9
  · simp [h9]
  · rw [if_neg h9, if_neg h9]
    by_cases hr : reqfmt = 1
    · simp only [hr, if_true, true_and]
      have : ((fmt : Int) ∈ ([0, 1] ++ [4] : List Int)) ↔ (fmt = 0 ∨ fmt = 1 ∨ fmt = 4) := by
        simp only [List.cons_append, List.nil_append, List.mem_cons, List.not_mem_nil, or_false]; omega
      simp only [this]
      by_cases hm : (fmt = 0 ∨ fmt = 1 ∨ fmt = 4) <;> simp [hm]
    · simp only [hr, if_false, false_and, or_false]
      have : ((fmt : Int) ∈ ([0, 1] : List Int)) ↔ (fmt = 0 ∨ fmt = 1) := by
        simp only [List.mem_cons, List.not_mem_nil, or_false]; omega
      simp only [this]
      by_cases hm : (fmt = 0 ∨ fmt = 1) <;> simp [hm]

/-- Target send loop (`NfcDep.tAccept`, `.sending`: `if sd.length > c.tmiu ∧ fmt ≠ fACK then die .protocol`) -/
theorem tgt_ack_chk_bridge (more : Bool) (fmt : Nat) :
    Gen.Fn.dep_tgt_ack_chk more (fmt : Int) = if more = true ∧ fmt ≠ fACK then .error .protocol else .ok () := by
  unfold Gen.Fn.dep_tgt_ack_chk fACK
  have e4 : ((fmt : Int) ≠ 4) ↔ fmt ≠ 4 := by omega
  simp only [e4]
  cases more <;> by_cases h : fmt = 4 <;> simp [h]

/-- one turn of the Target's send loop once the request `(fmt, rp)` is in: ACK check (when more data follows),
packet number increment, packet number check - the order of `NfcDep.tAccept` -/
theorem tgt_send_step_bridge (more : Bool) (pni fmt rp : Nat) :
    (Gen.Fn.dep_tgt_ack_chk more (fmt : Int) >>= fun _ => Gen.Fn.dep_tgt_pni_send (pni : Int) (rp : Int))
      = if more = true ∧ fmt ≠ fACK then .error .protocol
        else if rp ≠ (pni + 1) % 4 then .error .protocol
        else .ok (((pni + 1) % 4 : Nat) : Int) := by
  rw [tgt_ack_chk_bridge, (tgt_pni_bridge pni rp).1]
  split <;> rfl

example : Gen.Fn.dep_ini_retrans_chk 4 1 = .ok () := by decide +kernel
example : Gen.Fn.dep_ini_retrans_chk 4 0 = .error .protocol := by decide +kernel

/-! ## one turn of the Initiator's loops = the regenerated checks in source order -/

/-- send loop of `Initiator.exchange` once the response `(fmt, rp)` is in: ACK check, packet number check,
increment - the three `if`s of `NfcDep.sendLoop` in the same order (`rest` = what is left to send) -/
theorem ini_send_step_bridge (rest : Bytes) (pni fmt rp : Nat) :
    (Gen.Fn.dep_ini_ack_chk rest (fmt : Int) >>= fun _ => Gen.Fn.dep_ini_pni_send (pni : Int) (rp : Int))
      = if fmt = fACK ∧ rest = [] then .error .protocol
        else if rp ≠ pni then .error .protocol
        else .ok (((pni + 1) % 4 : Nat) : Int) := by
  rw [ini_ack_chk_bridge, ini_pni_send_bridge]
  split <;> rfl

/-- receive loop of `Initiator.exchange`: chaining check, packet number check, append, increment
(`NfcDep.recvLoop`) -/
theorem ini_recv_step_bridge (acc data : Bytes) (pni fmt rp : Nat) :
    (Gen.Fn.dep_ini_chain_chk (fmt : Int) >>= fun _ => Gen.Fn.dep_ini_pni_recv acc (pni : Int) (rp : Int) data)
      = if fmt ≠ fINF ∧ fmt ≠ fMORE then .error .protocol
        else if rp ≠ pni then .error .protocol
        else .ok (acc ++ data, (((pni + 1) % 4 : Nat) : Int)) := by
  rw [(ini_inf_chk_bridge fmt).2, ini_pni_recv_bridge]
  split <;> rfl

/-! ## duplicate detection of the Target (`send_dep_res_recv_dep_req`) against `Model/FnDepPduRef.lean` -/

set_option linter.unusedSimpArgs false in
/-- the DEP_REQ case of the Target state machine of C04 (repaired variant F41) is the reference decision -/
theorem tRxActive_dep_eq (c : Cfg) (t : TState) (fmt rpni : Nat) (did nad : Option Nat) (data : Bytes)
    (hf41 : c.v.f41 = true) (hdid : did = c.tdid) :
    tRx.tRxActive c t (.dep fmt rpni did nad data)
      = match tgtDecide fmt rpni t.pni t.rtoxPending with
        | .atn => (t, some (.dep fATN 0 c.tdid none []))
        | .resend => (t, t.depRes)
        | .accept => tAccept c t fmt rpni data := by
  unfold tRx.tRxActive tgtDecide fATN fNAK fTOX
  have h0 : ¬ ((Pdu.dep fmt rpni did nad data).didAttr ≠ c.tdid) := by simp [Pdu.didAttr, hdid]
  simp only [h0, if_false, hf41, true_and]
  by_cases h1 : fmt = 8
  · simp [h1]
  · by_cases h2 : fmt = 5
    · simp [h1, h2]
    · by_cases h3 : fmt = 9
      · cases hp : t.rtoxPending <;> simp [h1, h2, h3, hp]
      · by_cases h4 : t.pni = some rpni <;> simp [h1, h2, h3, h4]

set_option linter.unusedSimpArgs false in
/-- the regenerated dispatch chain of `send_dep_res_recv_dep_req` takes the reference decision: ATN -> `res = ATN(..)`,
resend -> `res = dep_res`, accept -> `dep_req = req`; `rtoxPending` is `dep_res is not None and dep_res.pfb.fmt == 9` -/
theorem tgt_dep_dispatch_bridge (res dep_res dep_req : Option Int) (req : Int) (fmt rpni pni drf : Nat)
    (did nad : Option Int) (mk : Option Int → Option Int → Option Int) :
    Gen.Fn.dep_tgt_dep_dispatch res dep_res dep_req req (fmt : Int) (rpni : Int) (pni : Int) (drf : Int) did nad mk
      = match tgtDecide fmt rpni (some pni) (dep_res.isSome && decide (drf = fTOX)) with
        | .atn => (mk did nad, dep_req)
        | .resend => (dep_res, dep_req)
        | .accept => (res, some req) := by
  unfold Gen.Fn.dep_tgt_dep_dispatch tgtDecide fATN fNAK fTOX
  have e8 : ((fmt : Int) = 8) ↔ fmt = 8 := by omega
  have e5 : ((fmt : Int) = 5) ↔ fmt = 5 := by omega
  have e9 : ((fmt : Int) = 9) ↔ fmt = 9 := by omega
  have ed : ((drf : Int) = 9) ↔ drf = 9 := by omega
  have ep : ((rpni : Int) = (pni : Int)) ↔ rpni = pni := by omega
  simp only [e8, e5, e9, ed, ep]
  by_cases h1 : fmt = 8
  · simp [h1]
  · by_cases h2 : fmt = 5
    · simp [h1, h2]
    · by_cases h3 : fmt = 9
      · cases dep_res with
        | none => simp [h1, h2, h3]
        | some x => by_cases hd : drf = 9 <;> simp [h1, h2, h3, hd]
      · by_cases h4 : rpni = pni
        · simp [h1, h2, h3, h4]
        · have h4' : ¬ (some pni = some rpni) := by intro h; injection h with h; exact h4 h.symm
          simp [h1, h2, h3, h4, h4']

/-- C04 (exactly once): through the regenerated chain a duplicate request leaves `dep_req` alone and selects the saved
response; a new request becomes `dep_req` -/
theorem gen_tgt_duplicate_resent (res dep_res : Option Int) (req : Int) (fmt pni drf : Nat) (did nad : Option Int)
    (mk : Option Int → Option Int → Option Int) (h1 : fmt ≠ fATN) (h3 : fmt ≠ fTOX) :
    Gen.Fn.dep_tgt_dep_dispatch res dep_res none req (fmt : Int) (pni : Int) (pni : Int) (drf : Int) did nad mk
      = (dep_res, none) := by
  rw [tgt_dep_dispatch_bridge, duplicate_resent fmt pni _ h1 h3]

example : Gen.Fn.dep_tgt_dep_dispatch none (some 7) none 42 0 1 0 0 none none (fun _ _ => some 9) = (none, some 42) := by
  decide +kernel
example : Gen.Fn.dep_tgt_dep_dispatch none (some 7) none 42 0 1 1 0 none none (fun _ _ => some 9) = (some 7, none) := by
  decide +kernel

/-- the whole dispatch chain of `send_dep_res_recv_dep_req` (one turn of its loop after `req` arrived) takes the
reference decision: None = `return None`, else the new `(res, dep_req)` -/
theorem tgt_dispatch_bridge (res dep_res dep_req : Option Int) (req : Int) (reqNone didMismatch isDsl isRls isDep : Bool)
    (fmt rpni pni drf : Nat) (did nad : Option Int) (mk : Option Int → Option Int → Option Int) :
    Gen.Fn.dep_tgt_dispatch res dep_res dep_req req reqNone didMismatch isDsl isRls isDep (fmt : Int) (rpni : Int)
        (pni : Int) (drf : Int) did nad mk
      = if reqNone then none
        else match tgtDispatch didMismatch isDsl isRls isDep fmt rpni (some pni) (dep_res.isSome && decide (drf = fTOX)) with
          | .ignore => some (none, dep_req)
          | .leave => none
          | .dep .atn => some (mk did nad, dep_req)
          | .dep .resend => some (dep_res, dep_req)
          | .dep .accept => some (res, some req) := by
  have hin := tgt_dep_dispatch_bridge res dep_res dep_req req fmt rpni pni drf did nad mk
  cases reqNone
  · cases didMismatch
    · cases isDsl
      · cases isRls
        · cases isDep
          · rfl
          · show some (Gen.Fn.dep_tgt_dep_dispatch res dep_res dep_req req (fmt : Int) (rpni : Int) (pni : Int) (drf : Int)
                did nad mk) = _
            rw [hin]
            simp only [tgtDispatch, Bool.false_eq_true, if_false, Bool.or_self, if_true]
            cases tgtDecide fmt rpni (some pni) (dep_res.isSome && decide (drf = fTOX)) <;> rfl
        · cases isDep <;> rfl
      · cases isRls <;> cases isDep <;> rfl
    · cases isDsl <;> cases isRls <;> cases isDep <;> rfl
  · rfl

/-! ## NFCID3 of the Target, its SENSF_RES, and what the Initiator takes from it -/

theorem tgt_nfcid3_bridge (u : Int → Bytes) : Gen.Fn.dep_tgt_nfcid3 u = Activate.nfcid3tOf (u 6) := by
  unfold Gen.Fn.dep_tgt_nfcid3 Activate.nfcid3tOf Activate.st
  simp

theorem tgt_sensf_bridge (nfcid3t : Bytes) :
    Gen.Fn.dep_tgt_sensf nfcid3t = [0x01] ++ nfcid3t.take 8 ++ [0, 0, 0, 0, 0, 0, 0, 0, 0xFF, 0xFF] := by
  unfold Gen.Fn.dep_tgt_sensf
  have e : slice nfcid3t 0 8 = nfcid3t.take 8 := slice_zero_nat nfcid3t 8
  simp only [e]

/-- C19 (`Activate.handshake`, `fsearch`): after its own 212F poll the Initiator's ATR_REQ carries
`nfcid3t.take 8 ++ "ST"` of the Target it found - composition of the three regenerated slices -/
theorem nfcid3_212_roundtrip (u : Int → Bytes) (h : (u 6).length = 6) :
    Gen.Fn.dep_ini_nfcid3_212 (Gen.Fn.dep_tgt_sensf (Gen.Fn.dep_tgt_nfcid3 u))
      = (Activate.nfcid3tOf (u 6)).take 8 ++ Activate.st := by
  rw [tgt_nfcid3_bridge, tgt_sensf_bridge]
  have h8 : 8 ≤ (Activate.nfcid3tOf (u 6)).length := by simp [Activate.nfcid3tOf, Activate.st, h]
  exact ini_nfcid3_212_bridge _ _ h8

example : Gen.Fn.dep_tgt_nfcid3 (fun _ => [1, 2, 3, 4, 5, 6]) = [1, 0xFE, 1, 2, 3, 4, 5, 6, 0x53, 0x54] := by
  decide +kernel

end NfcVerif.FnBridge.DepPdu
