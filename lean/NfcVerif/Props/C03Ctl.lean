import NfcVerif.Props.C03
import NfcVerif.Lemmas.CtlC03
/-!
# C03 - control TLV field space, vendor `format()`, `protect()`

Model: `NfcVerif.Model.CtlC03` (on top of `Model/Tlv.lean`).

* `specFirst` / `specBits` / `specCount` are the NFC Forum definition of the Lock Control / Memory
  Control TLV value field (`PageAddr * 2^BytesPerPage + ByteOffset`; size field `00h` = 256; lock BITS
  rounded up to bytes); `ctlRange` is the transcription of `get_lock_byte_range` /
  `get_rsvd_byte_range` of `tt1.py` / `tt2.py`.
* `chainParse` describes a TLV area that consists of Lock / Memory Control TLVs and NULL TLVs in any
  number and order followed by the NDEF TLV; `chainOk` adds that no declared range falls on that
  structure up to the NDEF TLV's length byte (the property's "anywhere except on the NDEF TLV's own
  tag and length-field bytes").
-/
namespace NfcVerif.C03Ctl
open NfcVerif NfcVerif.Tlv

/-- **Range decoding, whole field space**: for every value field `d0 d1 d2 ...` of a Lock Control
(`lock = true`) or Memory Control TLV and every clipping limit, the reader's range function returns
exactly the bytes the specification declares (below the limit) - no hypothesis on the field values. -/
theorem ctlRange_spec (lock : Bool) (limit d0 d1 d2 : Nat) (rest : Bytes) :
    ∃ rg, ctlRange lock limit (d0 :: d1 :: d2 :: rest) = .ok rg ∧
      ∀ a, inSkip [rg] a = true ↔
        (specFirst d0 d2 ≤ a ∧ a < specFirst d0 d2 + specCount lock d1 ∧ a < limit) :=
  ⟨_, ctlRange_eq lock limit d0 d1 d2 rest, fun a => range_mem limit (lock, d0, d1, d2) a⟩

/-- **Size field `00h` means 256**: 32 lock bytes resp. 256 reserved bytes are put into the skip set. -/
theorem ctlRange_size_zero (lock : Bool) (limit d0 d2 : Nat) (rest : Bytes) :
    ∃ rg, ctlRange lock limit (d0 :: 0 :: d2 :: rest) = .ok rg ∧
      ∀ a, inSkip [rg] a = true ↔
        (specFirst d0 d2 ≤ a ∧ a < specFirst d0 d2 + (if lock then 32 else 256) ∧ a < limit) := by
  refine ⟨_, ctlRange_eq lock limit d0 0 d2 rest, fun a => ?_⟩
  rw [range_mem]
  cases lock <;> simp [specCount, specBits]

/-- **Byte counts**: every size field value declares at least one byte; a Lock Control TLV at most 32,
a Memory Control TLV at most 256; the lock bytes hold all lock bits and no whole byte more (`+7 // 8`). -/
theorem ctlRange_count_bounds (lock : Bool) (d1 : Nat) (h : d1 < 256) :
    1 ≤ specCount lock d1 ∧ specCount true d1 ≤ 32 ∧ specCount false d1 ≤ 256
    ∧ specBits d1 ≤ 8 * specCount true d1 ∧ 8 * specCount true d1 < specBits d1 + 8 :=
  specCount_bounds lock d1 h

/-- **The reader reserves what the TLVs declare**: when the TLV area is a chain of control / NULL TLVs
(any number, any field values) whose declared ranges stay off the structure up to the NDEF TLV's
length byte, the layout computed by `_read_ndef_data` has the NDEF TLV where the chain ends, its skip
set is exactly the static lock bytes plus the specified ranges in TLV order, and the image is
well-formed (`WF`, the hypothesis of the confinement theorems of `Props/C03`). -/
theorem ctl_walk_reserves (c : Cfg) (m : Bytes) (L : Layout) (cs : List Ctl) (off : Nat)
    (hc : c.ccBase + 4 ≤ c.dataStart ∧ 0 < c.unit)
    (hread : readNdef c m = .ok (some L)) (hlen : L.areaEnd ≤ m.length)
    (hchain : chainParse m (L.areaEnd + 1) c.dataStart = some (cs, off))
    (hok : chainOk c m L.areaEnd = true) :
    L.off = off ∧ L.skip = c.initSkip L.areaEnd ++ cs.map (Ctl.range c.limit) ∧ WF c m L :=
  chain_wf c m L cs off hc hread hlen hchain hok

/-- **Declared bytes keep their values**: under the hypotheses of `ctl_walk_reserves`, every byte that
any of the control TLVs declares (lock bytes of a Lock Control TLV, reserved bytes of a Memory Control
TLV - inside, straddling or beyond the data area, overlapping or not) has the same value in all images
that reach the tag during an NDEF write of any message up to the capacity, and after
`Type2Tag.format` with or without wipe. -/
theorem ctl_bytes_kept (c : Cfg) (m : Bytes) (L : Layout) (cs : List Ctl) (off : Nat)
    (hc : c.ccBase + 4 ≤ c.dataStart ∧ 0 < c.unit)
    (hread : readNdef c m = .ok (some L)) (hlen : L.areaEnd ≤ m.length)
    (hchain : chainParse m (L.areaEnd + 1) c.dataStart = some (cs, off))
    (hok : chainOk c m L.areaEnd = true)
    (t : Ctl) (ht : t ∈ cs) (x : Nat)
    (h1 : specFirst t.2.1 t.2.2.2 ≤ x) (h2 : x < specFirst t.2.1 t.2.2.2 + specCount t.1 t.2.2.1)
    (hlim : x < c.limit) :
    (∀ data : Bytes, (data.length : Int) ≤ L.cap → Hdr3 L data.length →
      ∃ ph, writeNdef c m L data = .ok ph ∧
        ph.m1[x]? = m[x]? ∧ ph.m2[x]? = m[x]? ∧ ph.m3a[x]? = m[x]? ∧ ph.m3[x]? = m[x]?)
    ∧ (∀ wipe m', L.off + 1 < L.areaEnd → formatT2 m L wipe = .ok m' → m'[x]? = m[x]?) := by
  obtain ⟨_, hskip, hwf⟩ := chain_wf c m L cs off hc hread hlen hchain hok
  have hna := chain_not_area c L cs hskip t ht x h1 h2 hlim
  refine ⟨fun data hcap h3 => ?_, fun wipe m' hh hf => ?_⟩
  · obtain ⟨ph, hw, _, hx⟩ := C03.t12_write_confined c m L data hread hwf hcap h3
    exact ⟨ph, hw, hx x hna⟩
  · exact (C03.t2_format_confined m m' L wipe hwf.2.2.2.2.2 hh hf).2.1 x hna

/-- **Topaz / Topaz-512 format with a `version` argument**: on a tag that carries the factory NDEF
management data (any minor version in the CC) `format(version, wipe)` either refuses (major version
not 1: `None` = nothing is handed to `synchronize()`, no command is sent) or changes, outside the NDEF
area, only the version byte 9 of the capability container, which then holds `version`; every write
command covers byte 9 or a byte of the area. -/
theorem t1_format_version_confined (m : Bytes) (version wipe : Option Nat) (r : Option Bytes)
    (hver : version = none → m[9]? = some 0x10) :
    ((∀ i, i < 5 → i ≠ 1 → m[8 + i]? = topazHdr[i]?) → formatTopazV m version wipe = .ok r →
      match r with
      | none => ∃ v, version = some v ∧ v / 16 ≠ 1
      | some m' => m'.length = m.length ∧
          (∀ x, m'[x]? ≠ m[x]? → (x = 9 ∧ version ≠ none) ∨ Area topazLayout x) ∧
          (∀ v, version = some v → m'[9]? = some v) ∧
          ∀ cmd ∈ diffUnits 1 m m', ∃ x, cmd.1 ≤ x ∧ x < cmd.1 + cmd.2.length ∧
            ((x = 9 ∧ version ≠ none) ∨ Area topazLayout x))
    ∧ ((∀ i, i < 15 → i ≠ 1 → m[8 + i]? = topaz512Hdr[i]?) → formatTopaz512V m version wipe = .ok r →
      match r with
      | none => ∃ v, version = some v ∧ v / 16 ≠ 1
      | some m' => m'.length = m.length ∧
          (∀ x, m'[x]? ≠ m[x]? → (x = 9 ∧ version ≠ none) ∨ Area topaz512Layout x) ∧
          (∀ v, version = some v → m'[9]? = some v) ∧
          ∀ cmd ∈ diffUnits 8 m m', ∃ x, cmd.1 ≤ x ∧ x < cmd.1 + cmd.2.length ∧
            ((x = 9 ∧ version ≠ none) ∨ Area topaz512Layout x)) := by
  constructor
  · intro hfac h
    have := formatTopazV_spec m version wipe r hfac hver h
    cases r with
    | none => exact this
    | some m' =>
      obtain ⟨hl, hc, hv⟩ := this
      exact ⟨hl, hc, hv, fun cmd hcmd => cmd_covers 1 m m' hl.symm _ hc cmd hcmd⟩
  · intro hfac h
    have := formatTopaz512V_spec m version wipe r hfac hver h
    cases r with
    | none => exact this
    | some m' =>
      obtain ⟨hl, hc, hv⟩ := this
      exact ⟨hl, hc, hv, fun cmd hcmd => cmd_covers 8 m m' hl.symm _ hc cmd hcmd⟩

/-- **`_format` of the NTAG203 / NTAG21x classes** (`f` = the 8 factory bytes of pages 4 and 5).
With NDEF management data present it is `Type2Tag._format` (erase, confined to the area by
`t2_format_confined`).  Without, exactly two WRITE commands for pages 4 and 5 are sent first: they
change bytes 16..23 only; `Type2Tag._format` then runs on the result, and all changes together lie in
bytes 16..23 or in the NDEF area of the restored layout - never in the identifier, the capability
container, a reserved range or behind the data area. -/
theorem nxp_format_confined (f m : Bytes) (wipe : Option Nat) :
    (∀ L, readNdefT2 m = .ok (some L) → formatNxp f m wipe = formatT2Out m wipe ∧
      (L.writeable = true → inSkip L.skip (L.off + 1) = false → L.off + 1 < L.areaEnd →
        ∀ m', formatT2 m L wipe = .ok m' →
          formatNxp f m wipe = ⟨diffUnits 4 m m', .ok true⟩ ∧ m'.length = m.length ∧
          (∀ x, ¬ Area L x → m'[x]? = m[x]?) ∧
          ∀ cmd ∈ diffUnits 4 m m', ∃ x, cmd.1 ≤ x ∧ x < cmd.1 + cmd.2.length ∧ Area L x))
    ∧ (readNdefT2 m = .ok none → ∀ m4 m5, writePage m 4 (f.take 4) = .ok m4 →
        writePage m4 5 ((f.drop 4).take 4) = .ok m5 →
        m5.length = m.length ∧ (∀ x, m5[x]? ≠ m[x]? → 16 ≤ x ∧ x < 24) ∧
        ∀ L', readNdefT2 m5 = .ok (some L') → L'.writeable = true → inSkip L'.skip (L'.off + 1) = false →
          L'.off + 1 < L'.areaEnd → ∀ m'', formatT2 m5 L' wipe = .ok m'' →
            formatNxp f m wipe = ⟨[(16, f.take 4), (20, (f.drop 4).take 4)] ++ diffUnits 4 m5 m'', .ok true⟩ ∧
            apply m ([(16, f.take 4), (20, (f.drop 4).take 4)] ++ diffUnits 4 m5 m'') = m'' ∧
            ∀ x, m''[x]? ≠ m[x]? → (16 ≤ x ∧ x < 24) ∨ Area L' x) := by
  refine ⟨fun L hr => ⟨formatNxp_present f m wipe L hr, fun hw hs1 h1 m' hf => ?_⟩, fun hn m4 m5 h4 h5 => ?_⟩
  · obtain ⟨hl, hc, hcm⟩ := C03.t2_format_confined m m' L wipe hs1 h1 hf
    exact ⟨by rw [formatNxp_present f m wipe L hr, formatT2Out_ok m wipe L m' hr hw hf], hl, hc, hcm⟩
  · obtain ⟨heq, hap, hl5, hc5⟩ := formatNxp_blank f m wipe m4 m5 hn h4 h5
    refine ⟨hl5, hc5, fun L' hr' hw hs1 h1 m'' hf => ?_⟩
    obtain ⟨hl, hc, _⟩ := C03.t2_format_confined m5 m'' L' wipe hs1 h1 hf
    have hout := formatT2Out_ok m5 wipe L' m'' hr' hw hf
    refine ⟨by rw [heq, hout], ?_, fun x hx => ?_⟩
    · rw [apply_append, hap, apply_diff 4 (by omega) m5 m'' hl.symm]
    · by_cases e : m''[x]? = m5[x]?
      · rw [e] at hx; exact Or.inl (hc5 x hx)
      · exact Or.inr (Classical.byContradiction fun hna => e (hc x hna))

/-- **`Type2Tag._protect` without password**: a call that returns `True` changes only the access byte
of the capability container (15), the static lock bytes (10, 11) and the lock bytes of the Lock
Control TLVs its own TLV walk finds (without any: the default dynamic lock bytes directly behind the
data area); on a well-formed chain layout (any control TLV field values) no byte of the NDEF message
area changes. -/
theorem t2_protect_confined (m : Bytes) (cmds : List Cmd) (h : protectT2 m = ⟨cmds, .ok true⟩) :
    (∃ sz walked, m[14]? = some sz ∧
      protWalk (rd t2Cfg m) (sz * 8 + 16) (sz * 8 + 17) 16 [] = .ok walked ∧
      (apply m cmds).length = m.length ∧
      ∀ x, (apply m cmds)[x]? ≠ m[x]? → x = 15 ∨ x = 10 ∨ x = 11 ∨
        ∃ l ∈ defaultLocks sz walked, l.1 ≤ x ∧ x < l.1 + (l.2 + 7) / 8)
    ∧ ∀ (L : Layout) (cs : List Ctl) (off : Nat), readNdefT2 m = .ok (some L) → L.areaEnd ≤ m.length →
        L.areaEnd ≤ t2Cfg.limit → chainParse m (L.areaEnd + 1) t2Cfg.dataStart = some (cs, off) →
        chainOk t2Cfg m L.areaEnd = true → ∀ x, Area L x → (apply m cmds)[x]? = m[x]? :=
  ⟨protectT2_spec m cmds h, fun L cs off hr hlen hlim hchain hok => protectT2_area m cmds h L cs off hr hlen hlim hchain hok⟩

/-- **`_protect_with_lockbits` of Ultralight C / NTAG203 / NTAG21x**: every WRITE is one of: page 3
with the capability container as read and access byte `0F`, page 2 `00 00 FF FF` (static lock bytes;
BCC1 / INTERNAL are read-only), the dynamic lock page (40 resp. `cfgpage - 1`), the ACCESS page
`cfgpage + 1`; the stored image changes only inside those pages (never bytes 8, 9), so a data area
that ends in front of the dynamic lock page keeps every byte. -/
theorem nxp_protect_confined (k : NxpKind) (m : Bytes) :
    (∀ cmd ∈ (protectNxp k m).cmds, cmd.2.length = 4 ∧
      ((cmd.1 = 12 ∧ ∃ c0 c1 c2, m[12]? = some c0 ∧ m[13]? = some c1 ∧ m[14]? = some c2 ∧ cmd.2 = [c0, c1, c2, 0x0F])
       ∨ cmd = (8, [0, 0, 0xFF, 0xFF])
       ∨ match k with
         | .ulc => cmd.1 = 160
         | .n203 => cmd.1 = 160
         | .n21x p => (16 < p ∧ cmd.1 = (p - 1) * 4) ∨ cmd.1 = (p + 1) * 4))
    ∧ ∀ x, (nxpApply m (protectNxp k m).cmds)[x]? ≠ m[x]? →
        (10 ≤ x ∧ x < 16) ∨
        match k with
        | .ulc => 160 ≤ x ∧ x < 164
        | .n203 => 160 ≤ x ∧ x < 164
        | .n21x p => (16 < p ∧ (p - 1) * 4 ≤ x ∧ x < (p - 1) * 4 + 4) ∨ ((p + 1) * 4 ≤ x ∧ x < (p + 1) * 4 + 4) := by
  refine ⟨protectNxp_cmds k m, fun x hx => ?_⟩
  obtain ⟨c, hc, h1, h2, h3⟩ := nxpApply_changed _ m x hx
  obtain ⟨hl, hk⟩ := protectNxp_cmds k m c hc
  rcases hk with ⟨h12, _⟩ | h8 | hk
  · exact Or.inl ⟨by omega, by omega⟩
  · subst h8
    have h89 : ¬ (x = 8 ∨ x = 9) := fun hh => h3 ⟨rfl, hh⟩
    simp only [List.length_cons, List.length_nil] at h1 h2
    exact Or.inl ⟨by omega, by omega⟩
  · cases k with
    | ulc => simp only at hk ⊢; exact Or.inr ⟨by omega, by omega⟩
    | n203 => simp only at hk ⊢; exact Or.inr ⟨by omega, by omega⟩
    | n21x p =>
      simp only at hk ⊢
      rcases hk with ⟨hp, hk⟩ | hk
      · exact Or.inr (Or.inl ⟨hp, by omega, by omega⟩)
      · exact Or.inr (Or.inr ⟨by omega, by omega⟩)

/-- **`Type1Tag._protect` / `Topaz._protect` / `Topaz512._protect`**: only single-byte WRITE-NE
commands, to the access byte 11 of the capability container, the static lock bytes 112, 113 and
(Topaz-512) bytes 120, 121 of block 0Fh - none of them a byte of the NDEF area of the layout the
reader computes, whatever the control TLVs say. -/
theorem t1_protect_confined (k : T1Kind) (u : Nat) (m : Bytes) (L : Layout)
    (hr : readNdef (t1Cfg u) m = .ok (some L)) :
    ∀ cmd ∈ (protectT1 k u m).cmds, cmd.2.length = 1 ∧
      (cmd.1 = 11 ∨ cmd.1 = 112 ∨ cmd.1 = 113 ∨ (k = .topaz512 ∧ (cmd.1 = 120 ∨ cmd.1 = 121))) ∧ ¬ Area L cmd.1 :=
  protectT1_spec k u m L hr

/-! ## Non-vacuity -/

/-- the witness family of seeded change C03-r2m3: Lock Control TLV `80 00 15` = page 8 x 2^5 bytes,
size field 00h: 32 lock bytes 256..287 inside a 496 byte data area -/
example : specFirst 0x80 0x15 = 256 ∧ specCount true 0 = 32 ∧ specCount false 0 = 256
    ∧ ctlRange true 0x100000 [0x80, 0, 0x15] = .ok (256, 288)
    ∧ ctlRange false 0x800 [0xF0, 0, 0x03] = .ok (120, 376) := by decide

/-- a 64-byte data area with a Lock Control TLV (size field 00h -> bytes 48..79, straddling the end of
the data area at 80), a NULL TLV, a Memory Control TLV (bytes 40..41) and the NDEF TLV at 27 -/
def chM : Bytes :=
  List.replicate 12 0 ++ [0xE1, 0x10, 8, 0] ++ [1, 3, 0x30, 0, 0x04] ++ [0] ++ [2, 3, 0x28, 2, 0x04]
    ++ [3, 2, 0xAA, 0xBB, 0xFE] ++ List.replicate 56 0x77
def chL : Layout :=
  { off := 27, skip := [(48, 80), (40, 42)], areaEnd := 80, cap := 17, readable := true, writeable := true,
    ndef := [0xAA, 0xBB] }
example : readNdef t2Cfg chM = .ok (some chL) ∧ readNdefT2 chM = .ok (some chL)
    ∧ chainParse chM 81 16 = some ([(true, 0x30, 0, 0x04), (false, 0x28, 2, 0x04)], 27)
    ∧ chainOk t2Cfg chM 80 = true ∧ chL.areaEnd ≤ chM.length := by decide +kernel
/-- `_protect` on it returns True and sets the 32 declared lock bytes (48..79 of them inside the data
area), never a byte of the area -/
example : (protectT2 chM).res = .ok true ∧ (protectT2 chM).cmds.length = 10 := by decide +kernel

/-- NTAG213 without NDEF TLV (terminator at 16): two factory pages, then the erase -/
def ntM : Bytes :=
  [4, 0x51, 0x7C, 0xA1, 0xE1, 0xED, 0x25, 0x80, 0xA9, 0x48, 0, 0] ++ [0xE1, 0x10, 0x12, 0]
    ++ [0xFE, 1, 2, 3, 4, 5, 6, 7] ++ List.replicate 156 0x33
example : readNdefT2 ntM = .ok none
    ∧ formatNxp [1, 3, 0xA0, 0x0C, 0x34, 3, 0, 0xFE] ntM none
      = ⟨[(16, [1, 3, 0xA0, 0x0C]), (20, [0x34, 3, 0, 0xFE])], .ok true⟩ := by decide +kernel
example : (protectNxp (.n21x 41) ntM).res = .ok true
    ∧ (protectNxp (.n21x 41) ntM).cmds = [(12, [0xE1, 0x10, 0x12, 0x0F]), (8, [0, 0, 0xFF, 0xFF]),
        (160, [0xFF, 0xFF, 0xFF, 0]), (168, [0x73, 0x33, 0x33, 0x33])] := by decide +kernel

/-- Topaz with CC version 1.1, format(version = 0x12, wipe = 0) and a refused version 0x20 -/
def tpV : Bytes :=
  [1, 2, 3, 4, 5, 6, 7, 0] ++ [0xE1, 0x11, 0x0E, 0, 3, 3, 0xD0, 0, 0, 0xFE] ++ List.replicate 102 0x5A
example : (∀ i, i < 5 → i ≠ 1 → tpV[8 + i]? = topazHdr[i]?)
    ∧ (match formatTopazV tpV (some 0x12) (some 0) with | .ok (some m') => m'[9]? | _ => none) = some 0x12
    ∧ formatTopazV tpV (some 0x20) (some 0) = .ok none := by decide +kernel
example : (protectT1 .topaz 1 tpV).cmds = [(11, [0x0F]), (112, [0xFF]), (113, [0xFF])] := by decide +kernel

end NfcVerif.C03Ctl
