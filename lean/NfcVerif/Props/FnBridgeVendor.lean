import NfcVerif.Lemmas.FnBridgeVendor
import NfcVerif.Lemmas.Auth
import NfcVerif.Model.T3
/-!
# Bridge theorems, group Vendor (`nfc/tag/tt2_nxp.py`, `tt3_sony.py`, `tt1_broadcom.py` -> `Gen/FnVendor.lean`)

Properties C20 (authentication: key selection, PWD_AUTH command and PACK comparison of the NTAG21x, card
key / MAC key handling of FeliCa Lite and Lite-S), C03 (protect / format: configuration page contents,
memory configuration masks, Topaz wipe data), C01 (data area that `format()` declares).

Model counterparts: `Auth.ntagKey`, `Auth.ntagAuthCmd`, `Auth.ntagAuthenticate`, `Auth.ntagProtectPages`,
`Auth.liteKey`, `AuthHist.keyOf`, `AuthHist.le16` masks of `protectLite` / `protectLiteS`,
`Mac.generateMac`, `Auth.writeWithMacCmd`, `Tlv.protectNxp`, `Tlv.formatTopaz`; without a counterpart
(Ultralight C keys and AUTH0/AUTH1, Nmaxb of the FeliCa Lite format): `Model/FnVendorRef.lean`.
-/
set_option linter.unusedSimpArgs false
namespace NfcVerif.FnBridge.Vendor
open NfcVerif NfcVerif.PyFn NfcVerif.FnBridge.TagCmd NfcVerif.VendorRef

/-! ## NTAG21x -/

/-- `NTAG21x._authenticate`: password check and key selection -/
theorem ntag_auth_key_bridge (pw : Bytes) : Gen.Fn.ntag_auth_key pw = Auth.ntagKey pw := by
  unfold Gen.Fn.ntag_auth_key Auth.ntagKey
  rw [show (6 : Int) = ((6 : Nat) : Int) from rfl, slice0]
  py_cast
  by_cases hp : pw = [] <;> simp [hp]

/-- `NTAG21x._protect_with_password`: the same key selection -/
theorem ntag_protect_key_bridge (pw : Bytes) (rp : Bool) (pf : Int) : Gen.Fn.ntag_protect_key pw rp pf = Auth.ntagKey pw :=
  ntag_auth_key_bridge pw

example : Gen.Fn.ntag_auth_key [] = .ok [0xFF, 0xFF, 0xFF, 0xFF, 0, 0] := by decide +kernel
example : Gen.Fn.ntag_auth_key [1, 2, 3, 4, 5] = .error .value := by decide +kernel
example : Gen.Fn.ntag_auth_key [1, 2, 3, 4, 5, 6, 7] = .ok [1, 2, 3, 4, 5, 6] := by decide +kernel

/-- the PWD_AUTH command -/
theorem ntag_auth_cmd_bridge (key : Bytes) : Gen.Fn.ntag_auth_cmd key = Auth.ntagAuthCmd key := by
  unfold Gen.Fn.ntag_auth_cmd Auth.ntagAuthCmd
  rw [show (4 : Int) = ((4 : Nat) : Int) from rfl, slice0]

/-- comparison with PACK -/
theorem ntag_auth_ok_bridge (rsp key : Bytes) : Gen.Fn.ntag_auth_ok rsp key = decide (rsp = (key.drop 4).take 2) := by
  unfold Gen.Fn.ntag_auth_ok
  have e : slice key 4 6 = (key.drop 4).take 2 := slice_nat key 4 6
  rw [e]

/-- C20 `ntagAuthenticate` assembled from the regenerated pieces -/
theorem gen_ntag_authenticate (pw : Bytes) (rsp : Py Bytes) :
    Auth.ntagAuthenticate pw rsp =
      (Gen.Fn.ntag_auth_key pw >>= fun key =>
        match rsp with
        | .ok r => .ok (Gen.Fn.ntag_auth_ok r key)
        | .error (.tagCmd _) => .ok false
        | .error e => .error e) := by
  unfold Auth.ntagAuthenticate
  rw [ntag_auth_key_bridge]
  simp only [ntag_auth_ok_bridge]
  rfl

/-- C20 `ntag_response_exact` for the regenerated functions: the reader accepts exactly the two PACK octets
of the key it derived from the password -/
theorem gen_ntag_response_exact (key r : Bytes) :
    Gen.Fn.ntag_auth_ok r key = true ↔ r = (key.drop 4).take 2 := by
  rw [ntag_auth_ok_bridge]; simp

/-- AUTH0 and the PROT bit in the configuration pages (16 octets read from the tag) -/
theorem ntag_protect_cfg34_bridge (cfg : Bytes) (rp : Bool) (pf : Nat) (hl : 5 ≤ cfg.length) (hb : IsBytes cfg) :
    Gen.Fn.ntag_protect_cfg34 cfg rp pf =
      .ok ((cfg.set 3 (max 3 (min pf 255))).set 4
        (if rp then (cfg.set 3 (max 3 (min pf 255))).getD 4 0 ||| 0x80 else (cfg.set 3 (max 3 (min pf 255))).getD 4 0 &&& 0x7F)) := by
  unfold Gen.Fn.ntag_protect_cfg34
  have e1 : imax 3 (imin (pf : Int) 255) = ((max 3 (min pf 255) : Nat) : Int) := by
    unfold imax imin; split <;> split <;> omega
  rw [e1, show (3 : Int) = ((3 : Nat) : Int) from rfl, setB_nat cfg 3 _ (by omega) (by omega)]
  simp only [Py.bind_ok]
  generalize hc : cfg.set 3 (max 3 (min pf 255)) = c1
  have hl1 : c1.length = cfg.length := by rw [← hc]; simp
  have hb1 : IsBytes c1 := by
    rw [← hc]
    intro x hx
    rcases List.mem_or_eq_of_mem_set hx with h | h
    · exact hb x h
    · omega
  have hg : getB c1 4 = .ok ((c1.getD 4 0 : Nat) : Int) := by
    rw [show (4 : Int) = ((4 : Nat) : Int) from rfl, getB_nat]
    have : 4 < c1.length := by omega
    simp only [this, if_true, at0, List.getD_eq_getElem?_getD]
  have hv : c1.getD 4 0 < 256 := by
    rw [List.getD_eq_getElem?_getD, List.getElem?_eq_getElem (by omega : 4 < c1.length)]
    exact hb1 _ (List.getElem_mem _)
  rw [hg]
  cases rp
  · simp only [Bool.false_eq_true, if_false, Py.bind_ok, show (127 : Int) = ((127 : Nat) : Int) from rfl, band_ofNat,
      show (4 : Int) = ((4 : Nat) : Int) from rfl]
    exact setB_nat c1 4 _ (by omega) (by have := Nat.and_le_right (n := c1.getD 4 0) (m := 127); omega)
  · simp only [if_true, Py.bind_ok, show (128 : Int) = ((128 : Nat) : Int) from rfl, bor_ofNat,
      show (4 : Int) = ((4 : Nat) : Int) from rfl]
    refine setB_nat c1 4 _ (by omega) ?_
    have : c1.getD 4 0 ||| 128 < 2 ^ 8 := Nat.or_lt_two_pow (by omega) (by omega)
    omega

example : Gen.Fn.ntag_protect_cfg34 [4, 0, 0, 0xFF, 0x00, 5, 0, 0, 1, 2, 3, 4, 5, 6, 0, 0] true 8
    = .ok [4, 0, 0, 8, 0x80, 5, 0, 0, 1, 2, 3, 4, 5, 6, 0, 0] := by decide +kernel

/-- data of the i-th configuration page write -/
theorem ntag_protect_page_bridge (cfg : Bytes) (i : Nat) : Gen.Fn.ntag_protect_page cfg i = sliceN cfg (i * 4) ((i + 1) * 4) := by
  unfold Gen.Fn.ntag_protect_page
  rw [show ((i : Int) * 4) = ((i * 4 : Nat) : Int) from by omega, show (((i : Int) + 1) * 4) = (((i + 1) * 4 : Nat) : Int) from by omega,
    slice_nat]

/-- page number of the i-th configuration page write -/
theorem ntag_protect_pageno_bridge (i cfgpage : Nat) : Gen.Fn.ntag_protect_pageno i cfgpage = ((cfgpage + i : Nat) : Int) := by
  unfold Gen.Fn.ntag_protect_pageno; omega

/-- C20 `ntagProtectPages`: the four configuration pages written by `protect(password)` are the regenerated
AUTH0 / PROT update and page slices applied to the configuration with PWD and PACK spliced in
(`cfg[8:14] = key`: slice assignment, not translated) -/
theorem gen_ntag_protect_pages (pw key cfg : Bytes) (rp : Bool) (pf : Nat) (hk : Auth.ntagKey pw = .ok key)
    (hl : cfg.length = 16) (hb : IsBytes cfg) (hkb : IsBytes key) :
    Auth.ntagProtectPages pw rp pf cfg =
      (Gen.Fn.ntag_protect_cfg34 (cfg.take 8 ++ key ++ cfg.drop 14) rp pf >>= fun c =>
        .ok [Gen.Fn.ntag_protect_page c 0, Gen.Fn.ntag_protect_page c 1, Gen.Fn.ntag_protect_page c 2,
             Gen.Fn.ntag_protect_page c 3]) := by
  unfold Auth.ntagProtectPages
  rw [hk]
  have hkl := Auth.ntagKey_length pw key hk
  simp only [Py.bind_ok, hl, ne_eq, not_true_eq_false, if_false]
  have hl2 : (cfg.take 8 ++ key ++ cfg.drop 14).length = 16 := by simp [hl, hkl]
  have hb2 : IsBytes (cfg.take 8 ++ key ++ cfg.drop 14) :=
    isBytes_append.mpr ⟨isBytes_append.mpr ⟨isBytes_take hb 8, hkb⟩, isBytes_drop hb 14⟩
  rw [ntag_protect_cfg34_bridge _ rp pf (by omega) hb2]
  simp only [Py.bind_ok]
  simp only [show (0 : Int) = ((0 : Nat) : Int) from rfl, show (1 : Int) = ((1 : Nat) : Int) from rfl,
    show (2 : Int) = ((2 : Nat) : Int) from rfl, show (3 : Int) = ((3 : Nat) : Int) from rfl, ntag_protect_page_bridge]

/-- capability container tests in front of the access byte changes -/
theorem ntag_cc_valid_bridge (cc : Bytes) (h : 2 ≤ cc.length) :
    Gen.Fn.ntag_cc_valid cc = .ok (decide (at0 cc 0 = 0xE1 ∧ at0 cc 1 / 16 = 1)) := by
  unfold Gen.Fn.ntag_cc_valid
  rw [show (0 : Int) = ((0 : Nat) : Int) from rfl, show (1 : Int) = ((1 : Nat) : Int) from rfl, getB_nat, getB_nat]
  have h0 : 0 < cc.length := by omega
  have h1 : 1 < cc.length := by omega
  simp only [h0, h1, if_true, Py.bind_ok]
  py_bits
  by_cases ha : at0 cc 0 = 225 <;> by_cases hb : at0 cc 1 / 2 ^ 4 = 1 <;> simp [ha, hb]

theorem ntag_cc_valid_pw_bridge (cc : Bytes) (h : 2 ≤ cc.length) (hb : IsBytes cc) :
    Gen.Fn.ntag_cc_valid_pw cc = .ok (decide (at0 cc 0 = 0xE1 ∧ at0 cc 1 / 16 = 1)) := by
  unfold Gen.Fn.ntag_cc_valid_pw
  rw [show (0 : Int) = ((0 : Nat) : Int) from rfl, show (1 : Int) = ((1 : Nat) : Int) from rfl, getB_nat, getB_nat]
  have h0 : 0 < cc.length := by omega
  have h1 : 1 < cc.length := by omega
  simp only [h0, h1, if_true, Py.bind_ok]
  have hm : at0 cc 1 &&& 240 = (at0 cc 1 >>> 4) <<< 4 := and_high (at0 cc 1) 4 4 (at0_lt_256 hb 1)
  simp only [show (240 : Int) = ((240 : Nat) : Int) from rfl, show (225 : Int) = ((225 : Nat) : Int) from rfl,
    show (16 : Int) = ((16 : Nat) : Int) from rfl, band_ofNat, hm, Int.natCast_inj, Nat.shiftRight_eq_div_pow, Nat.shiftLeft_eq]
  by_cases ha : at0 cc 0 = 225 <;> by_cases hc : at0 cc 1 / 16 = 1 <;> simp [ha, hc] <;> omega

/-- both tests accept the same capability containers (`protectNxp`: `c0 = E1h ∧ c1 / 16 = 1`) -/
theorem gen_cc_tests_agree (cc : Bytes) (h : 2 ≤ cc.length) (hb : IsBytes cc) :
    Gen.Fn.ntag_cc_valid cc = Gen.Fn.ntag_cc_valid_pw cc := by
  rw [ntag_cc_valid_bridge cc h, ntag_cc_valid_pw_bridge cc h hb]

example : Gen.Fn.ntag_cc_valid [0xE1, 0x10, 0x12, 0x00] = .ok true := by decide +kernel
example : Gen.Fn.ntag_cc_valid_pw [0xE1, 0x20, 0x12, 0x00] = .ok false := by decide +kernel

/-- access flags for proprietary read/write permission -/
theorem ntag_cc_flags_bridge (rp : Bool) : Gen.Fn.ntag_cc_flags rp = if rp then 0x88 else 0x08 := by
  unfold Gen.Fn.ntag_cc_flags; cases rp <;> rfl

/-- CFGLCK test of `protectNxp` (`a / 64 % 2 = 0`) -/
theorem ntag_cfglck_bridge (cfg : Bytes) (h : 5 ≤ cfg.length) :
    Gen.Fn.ntag_cfglck cfg = .ok (decide (at0 cfg 4 / 64 % 2 = 0)) := by
  unfold Gen.Fn.ntag_cfglck
  rw [show (4 : Int) = ((4 : Nat) : Int) from rfl, getB_nat]
  have h4 : 4 < cfg.length := by omega
  simp only [h4, if_true, Py.bind_ok, show (64 : Int) = ((64 : Nat) : Int) from rfl, show (0 : Int) = ((0 : Nat) : Int) from rfl,
    band_ofNat, Int.natCast_inj]
  have : at0 cfg 4 &&& 64 = 0 ↔ at0 cfg 4 / 64 % 2 = 0 := and_bit (at0 cfg 4) 6
  simp [this]

/-- page of the dynamic lock bytes (`protectNxp`: `(p - 1) * 4`) -/
theorem ntag_dynlock_page_bridge (p : Nat) (h : 1 ≤ p) : Gen.Fn.ntag_dynlock_page p = ((p - 1 : Nat) : Int) := by
  unfold Gen.Fn.ntag_dynlock_page; omega


/-! ## Mifare Ultralight C -/

/-- `MifareUltralightC._protect_with_password`: password check and key selection -/
theorem ulc_protect_key_bridge (pw : Bytes) (rp : Bool) (pf : Int) : Gen.Fn.ulc_protect_key pw rp pf = ulcKey pw := by
  unfold Gen.Fn.ulc_protect_key ulcKey ulcDefaultKey
  rw [show (16 : Int) = ((16 : Nat) : Int) from rfl, slice0]
  py_cast
  by_cases hp : pw = [] <;> simp [hp]

/-- `MifareUltralightC._authenticate`: the same keys are accepted (the length test is made on the key) -/
theorem ulc_auth_key_bridge (pw : Bytes) : Gen.Fn.ulc_auth_key pw = ulcKey pw := by
  unfold Gen.Fn.ulc_auth_key ulcKey ulcDefaultKey
  rw [show (16 : Int) = ((16 : Nat) : Int) from rfl, slice0]
  simp only [len_eq]
  by_cases hp : pw = []
  · subst hp; simp
  · by_cases hl : pw.length < 16
    · have : ¬ ((min 16 pw.length : Nat) : Int) = 16 := by omega
      simp [hp, hl, this]
    · have : ((min 16 pw.length : Nat) : Int) = 16 := by omega
      simp [hp, hl, this]

example : Gen.Fn.ulc_auth_key [] = .ok ulcDefaultKey := by decide +kernel
example : Gen.Fn.ulc_auth_key [1, 2, 3] = .error .value := by decide +kernel

/-- `protect` and `authenticate` derive the same key from a password, and it has 16 octets -/
theorem gen_ulc_keys_agree (pw : Bytes) (rp : Bool) (pf : Int) :
    Gen.Fn.ulc_protect_key pw rp pf = Gen.Fn.ulc_auth_key pw ∧
    ∀ key, Gen.Fn.ulc_auth_key pw = .ok key → key.length = 16 := by
  refine ⟨by rw [ulc_protect_key_bridge, ulc_auth_key_bridge], ?_⟩
  intro key h
  rw [ulc_auth_key_bridge] at h
  exact ulcKey_length pw key h

/-- AUTH0 page data, for every int -/
theorem ulc_auth0_bridge (pf : Int) : Gen.Fn.ulc_auth0 pf = .ok (ulcAuth0 pf) := by
  unfold Gen.Fn.ulc_auth0 ulcAuth0
  have e : imax 3 (imin pf 48) = max 3 (min pf 48) := by unfold imax imin; split <;> split <;> omega
  rw [e]
  have h0 : 0 ≤ max 3 (min pf 48) := by omega
  have h1 : max 3 (min pf 48) ≤ 48 := by omega
  generalize max 3 (min pf 48) = q at *
  obtain ⟨n, rfl⟩ := Int.eq_ofNat_of_zero_le h0
  have m := mkBytes_cast [n] (by intro x hx; simp at hx; omega)
  simp only [List.map_cons, List.map_nil] at m
  rw [m]
  simp

example : Gen.Fn.ulc_auth0 0 = .ok [3, 0, 0, 0] ∧ Gen.Fn.ulc_auth0 100 = .ok [48, 0, 0, 0] ∧ Gen.Fn.ulc_auth0 7 = .ok [7, 0, 0, 0] := by
  decide +kernel

/-- the first protected page written to AUTH0 lies in 3..48 whatever the argument -/
theorem gen_ulc_auth0_range (pf : Int) : ∃ p : Nat, 3 ≤ p ∧ p ≤ 48 ∧ Gen.Fn.ulc_auth0 pf = .ok [p, 0, 0, 0] := by
  obtain ⟨p, h3, h48, he⟩ := ulcAuth0_range pf
  exact ⟨p, h3, h48, by rw [ulc_auth0_bridge, he]⟩

/-- AUTH1 page data -/
theorem ulc_auth1_bridge (rp : Bool) : Gen.Fn.ulc_auth1 rp = ulcAuth1 rp := by
  unfold Gen.Fn.ulc_auth1 ulcAuth1; cases rp <;> rfl

/-! ## FeliCa Lite / Lite-S -/

/-- `generate_mac`: the argument assertion and the key flip; with the group reversal and the CBC chain of the
model this is `Mac.generateMac` -/
theorem lite_mac_key_bridge (C : Mac.Cipher) (data key iv : Bytes) (flip : Bool) :
    (Gen.Fn.lite_mac_key data key iv flip >>= fun k => .ok (Mac.macBlocks C k iv (Mac.chunks8 data)))
      = Mac.generateMac C data key iv flip := by
  unfold Gen.Fn.lite_mac_key Mac.generateMac
  have e1 : PyFn.sliceFrom key 8 = key.drop 8 := sliceFrom_ofNat key 8
  have e2 : PyFn.sliceTo key 8 = key.take 8 := sliceTo_ofNat key 8
  have hiff : (len data % 8 = 0 ∧ len key = 16 ∧ len iv = 8) ↔ ¬ (data.length % 8 ≠ 0 ∨ key.length ≠ 16 ∨ iv.length ≠ 8) := by
    simp only [len_eq]; omega
  rw [e1, e2]
  simp only [hiff, Classical.not_not]
  by_cases h : data.length % 8 ≠ 0 ∨ key.length ≠ 16 ∨ iv.length ≠ 8
  · simp only [h, if_true, Py.bind_error]
  · simp only [h, if_false, Py.bind_ok]

example : Gen.Fn.lite_mac_key (List.replicate 8 0) (List.range 16) (List.replicate 8 0) true
    = .ok [8, 9, 10, 11, 12, 13, 14, 15, 0, 1, 2, 3, 4, 5, 6, 7] := by decide +kernel
example : Gen.Fn.lite_mac_key (List.replicate 7 0) (List.range 16) (List.replicate 8 0) false = .error .assertion := by
  decide +kernel

/-- `FelicaLite._authenticate`: password check and card key -/
theorem lite_auth_key_bridge (pw : Bytes) : Gen.Fn.lite_auth_key pw = Auth.liteKey pw := by
  unfold Gen.Fn.lite_auth_key Auth.liteKey Auth.zeros
  rw [show (16 : Int) = ((16 : Nat) : Int) from rfl, slice0]
  py_cast
  by_cases hp : pw = [] <;> simp [hp, repeatL]

example : Gen.Fn.lite_auth_key [] = .ok (List.replicate 16 0) := by decide +kernel

/-- `FelicaLite._protect`: card key for a password that passed the length check (`AuthHist.keyOf`) -/
theorem lite_protect_key_bridge (pw : Bytes) : Gen.Fn.lite_protect_key pw = AuthHist.keyOf pw := by
  unfold Gen.Fn.lite_protect_key AuthHist.keyOf Auth.zeros
  rw [show (16 : Int) = ((16 : Nat) : Int) from rfl, slice0]
  by_cases hp : pw = [] <;> simp [hp, repeatL]

/-- `protect` provisions the key that `authenticate` will use for the same password -/
theorem gen_lite_keys_agree (pw key : Bytes) (h : Gen.Fn.lite_auth_key pw = .ok key) : Gen.Fn.lite_protect_key pw = key := by
  rw [lite_auth_key_bridge] at h
  rw [lite_protect_key_bridge]
  unfold Auth.liteKey at h
  unfold AuthHist.keyOf
  split at h
  · cases h
  · cases h; rfl

/-- permission word of the MC block written by `FelicaLite._protect` (`AuthHist.protectLite`):
user blocks `protect_from .. 13` become read-only -/
theorem lite_mc_mask_bridge (pf : Nat) (h : pf ≤ 14) :
    Gen.Fn.lite_mc_mask pf = .ok (AuthHist.le16 (0x7FFF ^^^ (2 ^ 14 - 2 ^ pf))) := by
  unfold Gen.Fn.lite_mc_mask AuthHist.le16
  rw [mask_sub pf h, show (32767 : Int) = ((32767 : Nat) : Int) from rfl, bxor_ofNat, pack_Hle]
  have hx : 32767 ^^^ (2 ^ 14 - 2 ^ pf) < 2 ^ 15 := Nat.xor_lt_two_pow (by omega) (by
    have : 2 ^ 14 - 2 ^ pf ≤ 2 ^ 14 := Nat.sub_le _ _
    omega)
  have : ¬ (32767 ^^^ (2 ^ 14 - 2 ^ pf) > 65535) := by omega
  simp only [this, if_false]
  rw [Nat.mod_eq_of_lt (by omega : (32767 ^^^ (2 ^ 14 - 2 ^ pf)) / 256 < 256)]

/-- beyond 14 the expression cannot be packed (`_protect` only evaluates it for `protect_from < 14`) -/
theorem lite_mc_mask_beyond (pf : Nat) (h : 14 < pf) : Gen.Fn.lite_mc_mask pf = .error .struct := by
  unfold Gen.Fn.lite_mc_mask
  have := bxor_neg 32767 _ (mask_sub_neg pf h)
  have this' : bxor 32767 (pow 2 14 - pow 2 (pf : Int)) < 0 := this
  simp only [PyFn.pack]
  rw [packField_neg _ _ this']

example : Gen.Fn.lite_mc_mask 0 = .ok [0x00, 0x40] ∧ Gen.Fn.lite_mc_mask 5 = .ok [0x1F, 0x40] ∧ Gen.Fn.lite_mc_mask 14 = .ok [0xFF, 0x7F] := by
  decide +kernel

/-- protection mask of `FelicaLiteS._protect` (`AuthHist.protectLiteS`) -/
theorem lites_mc_mask_bridge (pf : Nat) (h : pf ≤ 14) : Gen.Fn.lites_mc_mask pf = .ok (AuthHist.le16 (2 ^ 14 - 2 ^ pf)) := by
  unfold Gen.Fn.lites_mc_mask AuthHist.le16
  rw [mask_sub pf h, pack_Hle]
  have h1 : 2 ^ 14 - 2 ^ pf ≤ 2 ^ 14 := Nat.sub_le _ _
  have : ¬ (2 ^ 14 - 2 ^ pf > 65535) := by omega
  simp only [this, if_false]
  rw [Nat.mod_eq_of_lt (by omega : (2 ^ 14 - 2 ^ pf) / 256 < 256)]

example : Gen.Fn.lites_mc_mask 3 = .ok [0xF8, 0x3F] := by decide +kernel

/-- the second occurrence of the expression (write protection, MC bytes 8..11) -/
theorem lites_mc_mask_wr_bridge (pf : Nat) (h : pf ≤ 14) : Gen.Fn.lites_mc_mask_wr pf = .ok (AuthHist.le16 (2 ^ 14 - 2 ^ pf)) :=
  lites_mc_mask_bridge pf h

/-- the masks set exactly the bits `protect_from .. 13` -/
theorem gen_mask_bits (pf : Nat) (h : pf ≤ 14) (b : Nat) :
    (2 ^ 14 - 2 ^ pf).testBit b = (decide (pf ≤ b) && decide (b < 14)) := by
  have e : 2 ^ 14 - 2 ^ pf = (2 ^ (14 - pf) - 1) * 2 ^ pf := by
    have : 2 ^ 14 = 2 ^ (14 - pf) * 2 ^ pf := by rw [← Nat.pow_add]; congr 1; omega
    rw [this, Nat.sub_mul, Nat.one_mul]
  rw [e, ← Nat.shiftLeft_eq, Nat.testBit_shiftLeft, Nat.testBit_two_pow_sub_one]
  by_cases h1 : pf ≤ b <;> by_cases h2 : b < 14 <;> simp [h1, h2] <;> omega

/-- next card key version (`protectLiteS`: `min (v0 + 256 * v1 + 1) 0xFFFF`) -/
theorem lites_ckv_bridge (ckv : Bytes) (h : 2 ≤ ckv.length) :
    Gen.Fn.lites_ckv ckv = .ok ((min (at0 ckv 0 + 256 * at0 ckv 1 + 1) 0xFFFF : Nat) : Int) := by
  unfold Gen.Fn.lites_ckv
  rw [slice02 ckv h, needExact_pair', ule_pair']
  simp only [Py.bind_ok, imin, Nat.min_def]
  congr 1
  split <;> split <;> omega

/-- `FelicaLite._format`: Nmaxb from the permission bits of the MC block -/
theorem lite_format_nmaxb_bridge (mc : Bytes) (h : 2 ≤ mc.length) :
    Gen.Fn.lite_format_nmaxb mc = .ok ((liteNmaxb (at0 mc 1 * 256 + at0 mc 0) : Nat) : Int) := by
  unfold Gen.Fn.lite_format_nmaxb liteNmaxb
  rw [slice02 mc h, needExact_pair', ule_pair']
  simp only [Py.bind_ok]
  rw [range14]
  have := forC_firstClear (at0 mc 1 * 256 + at0 mc 0) (List.range 14) 0
  rw [show (((0 : Nat) : Int)) = 0 from rfl] at this
  rw [this]
  rfl

example : Gen.Fn.lite_format_nmaxb [0xFF, 0x3F, 0xFF, 0x01] = .ok 13 := by decide +kernel
example : Gen.Fn.lite_format_nmaxb [0x1F, 0x00, 0xFF, 0x01] = .ok 4 := by decide +kernel

/-- C01/C03: the attribute block `format()` writes never declares more than the 13 user blocks, and every
declared block is writeable according to the memory configuration -/
theorem gen_lite_format_nmaxb_sound (mc : Bytes) (h : 2 ≤ mc.length) (n : Int)
    (hn : Gen.Fn.lite_format_nmaxb mc = .ok n) :
    0 ≤ n ∧ n ≤ 13 ∧ ∀ b : Nat, 1 ≤ b → (b : Int) ≤ n → ((at0 mc 1 * 256 + at0 mc 0) >>> b) % 2 = 1 := by
  rw [lite_format_nmaxb_bridge mc h] at hn
  cases hn
  have h13 := liteNmaxb_le (at0 mc 1 * 256 + at0 mc 0)
  refine ⟨by omega, by omega, ?_⟩
  intro b hb1 hb2
  exact liteNmaxb_writeable _ b hb1 (by omega)

theorem lite_format_mc0_bridge (mc : Bytes) (h : 1 ≤ mc.length) :
    Gen.Fn.lite_format_mc0 mc = .ok (decide (at0 mc 0 % 2 ≠ 1)) := by
  unfold Gen.Fn.lite_format_mc0
  rw [show (0 : Int) = ((0 : Nat) : Int) from rfl, getB_nat]
  have h0 : 0 < mc.length := by omega
  simp only [h0, if_true, Py.bind_ok]
  py_bits

/-- the complete version test of `FelicaLite._format`: version 0 is let through, otherwise the major version must be 1 -/
theorem lite_format_ver_cond_bridge (v : Nat) : Gen.Fn.lite_format_ver_cond v = decide (v ≠ 0 ∧ v / 16 ≠ 1) := by
  unfold Gen.Fn.lite_format_ver_cond; py_bits

theorem lite_format_version_bridge (v : Nat) : Gen.Fn.lite_format_version v = decide (v / 16 ≠ 1) := by
  unfold Gen.Fn.lite_format_version; py_bits

/-- key flip of the write MAC (`Auth.writeWithMacCmd`: `sk.drop 8 ++ sk.take 8`) -/
theorem lites_flip_bridge (sk : Bytes) (h : sk.length = 16) : Gen.Fn.lites_flip sk = sk.drop 8 ++ sk.take 8 := by
  unfold Gen.Fn.lites_flip
  have e1 : slice sk 8 16 = (sk.drop 8).take 8 := slice_nat sk 8 16
  have e2 : slice sk 0 8 = sk.take 8 := slice0 sk 8
  rw [e1, e2, List.take_of_length_le (by simp; omega)]

/-- the octets the write MAC is computed over (`Auth.writeWithMacCmd`) -/
theorem lites_mac_data_bridge (wcnt : Bytes) (block : Nat) (data : Bytes) :
    Gen.Fn.lites_mac_data wcnt block data =
      if block > 255 then .error .value else .ok (wcnt ++ [0, block, 0, 0x91, 0] ++ data) := by
  unfold Gen.Fn.lites_mac_data
  by_cases h : block > 255
  · have := mkBytes_bad [] (block : Int) [] (by simp) (by omega)
    simp only [List.map_nil, List.nil_append] at this
    simp [h, this]
  · have := mkBytes_cast [block] (by intro x hx; simp at hx; omega)
    simp only [List.map_cons, List.map_nil] at this
    simp [h, this]

example : Gen.Fn.lites_mac_data [1, 0, 0] 0x92 [5] = .ok [1, 0, 0, 0, 0x92, 0, 0x91, 0, 5] := by decide +kernel

theorem lites_rw_bits_bridge (rw : Nat) : Gen.Fn.lites_rw_bits rw = decide (rw % 1024 = 1023) := by
  unfold Gen.Fn.lites_rw_bits
  rw [show (1023 : Int) = ((1023 : Nat) : Int) from rfl, band_ofNat, Nat.and_two_pow_sub_one_eq_mod rw 10]
  simp
  omega

theorem lite_nbr_bridge (nbr : Nat) : Gen.Fn.lite_nbr nbr = ((min nbr 3 : Nat) : Int) := by
  unfold Gen.Fn.lite_nbr imin; split <;> omega

/-! ## Broadcom Topaz -/

theorem topaz_wipe_bridge (w : Nat) : Gen.Fn.topaz_wipe w = .ok (List.replicate 90 (w % 256)) := topaz_wipe_gen 90 w
theorem topaz512_wipe1_bridge (w : Nat) : Gen.Fn.topaz512_wipe1 w = .ok (List.replicate 80 (w % 256)) := topaz_wipe_gen 80 w
theorem topaz512_wipe2_bridge (w : Nat) : Gen.Fn.topaz512_wipe2 w = .ok (List.replicate 384 (w % 256)) := topaz_wipe_gen 384 w

/-- C03 `formatTopaz` with the regenerated wipe data -/
theorem gen_formatTopaz (m : Bytes) (w : Nat) :
    Tlv.formatTopaz m (some w) =
      (Tlv.setSlice (Tlv.t1Cfg 1) m 8 Tlv.topazHdr >>= fun x =>
        Gen.Fn.topaz_wipe w >>= fun d => Tlv.setSlice (Tlv.t1Cfg 1) x 14 d) := by
  unfold Tlv.formatTopaz
  simp only [topaz_wipe_bridge, Py.bind_ok]

theorem topaz_version_bridge (v : Nat) : Gen.Fn.topaz_version v = decide (v / 16 = 1) := by
  unfold Gen.Fn.topaz_version; py_bits

/-- header ROM octets that select the Topaz classes (`Adv.activate`: `g.rid.take 2`) -/
theorem topaz_hrom_bridge (rid : Bytes) : Gen.Fn.topaz_hrom rid = rid.take 2 := by
  unfold Gen.Fn.topaz_hrom
  rw [show (2 : Int) = ((2 : Nat) : Int) from rfl, slice0]

/-! ## third batch: slice assignment, reversed slices -/

/-- `key[7::-1] + key[15:7:-1]` is `Auth.revHalves`, for every length -/
theorem lite_rev_halves_bridge (key : Bytes) : Gen.Fn.lite_rev_halves key = Auth.revHalves key := revHalves_gen key
theorem lite_chal_bridge (rc : Bytes) : Gen.Fn.lite_chal rc = Auth.revHalves rc := revHalves_gen rc
theorem lites_key_block_bridge (key : Bytes) : Gen.Fn.lites_key_block key = Auth.revHalves key := revHalves_gen key

/-- the Ultralight C key pages hold the same two reversed halves -/
theorem ulc_key_split_bridge (key : Bytes) :
    Gen.Fn.ulc_key_split key = ((key.take 8).reverse, ((key.drop 8).take 8).reverse) := by
  unfold Gen.Fn.ulc_key_split
  rw [show (7 : Int) = ((7 : Nat) : Int) from rfl, show (15 : Int) = ((15 : Nat) : Int) from rfl, sliceRev_none, sliceRev_some,
    List.drop_take]

example : Gen.Fn.lite_rev_halves (List.range 16) = [7, 6, 5, 4, 3, 2, 1, 0, 15, 14, 13, 12, 11, 10, 9, 8] := by decide +kernel

/-- C20 `protect_key_block` for the regenerated byte shuffling: the key block written by `protect` stores the key
in the layout the tag's MAC computation reads back (`word (revHalves key) i`) -/
theorem gen_key_block_words (key : Bytes) (h : key.length = 16) :
    Auth.word (Gen.Fn.lite_rev_halves key) 0 = key.take 8 ∧ Auth.word (Gen.Fn.lite_rev_halves key) 1 = key.drop 8 := by
  rw [lite_rev_halves_bridge]
  exact ⟨Auth.word_revHalves_0 key h, Auth.word_revHalves_1 key h⟩

/-- card key version block (`protectLiteS`: `le16 ckv ++ zeros 14`) -/
theorem lites_ckv_block_bridge (ckv : Nat) (h : ckv < 65536) :
    Gen.Fn.lites_ckv_block ckv = .ok (AuthHist.le16 ckv ++ Auth.zeros 14) := by
  unfold Gen.Fn.lites_ckv_block AuthHist.le16 Auth.zeros
  have : ¬ ckv > 65535 := by omega
  rw [pack_Hle]
  simp only [this, if_false, Py.bind_ok, repeatL]
  rw [Nat.mod_eq_of_lt (by omega : ckv / 256 < 256)]
  rfl

/-- NTAG21x `protect(password)`: the configuration pages with PWD/PACK, AUTH0 and PROT -/
theorem ntag_protect_cfg_bridge (cfg key : Bytes) (rp : Bool) (pf : Nat) (hl : cfg.length = 16) :
    Gen.Fn.ntag_protect_cfg cfg key rp pf = Gen.Fn.ntag_protect_cfg34 (cfg.take 8 ++ key ++ cfg.drop 14) rp pf := by
  unfold Gen.Fn.ntag_protect_cfg Gen.Fn.ntag_protect_cfg34
  rw [show (8 : Int) = ((8 : Nat) : Int) from rfl, show (14 : Int) = ((14 : Nat) : Int) from rfl,
    setSlice_nat cfg 8 14 key (by omega) (by omega)]

/-- C20 `ntagProtectPages` entirely in regenerated functions -/
theorem gen_ntag_protect (pw cfg : Bytes) (rp : Bool) (pf : Nat) (hl : cfg.length = 16) (hb : IsBytes cfg) (hpw : IsBytes pw) :
    Auth.ntagProtectPages pw rp pf cfg =
      (Gen.Fn.ntag_protect_key pw rp pf >>= fun key =>
        Gen.Fn.ntag_protect_cfg cfg key rp pf >>= fun c =>
          .ok [Gen.Fn.ntag_protect_page c 0, Gen.Fn.ntag_protect_page c 1, Gen.Fn.ntag_protect_page c 2,
               Gen.Fn.ntag_protect_page c 3]) := by
  rw [ntag_protect_key_bridge]
  cases hk : Auth.ntagKey pw with
  | error e => simp [Auth.ntagProtectPages, hk]
  | ok key =>
    have hkl := Auth.ntagKey_length pw key hk
    have hkb : IsBytes key := by
      unfold Auth.ntagKey at hk
      split at hk
      · cases hk
      · cases hk
        split
        · intro b hb; simp at hb; omega
        · exact isBytes_take hpw 6
    simp only [Py.bind_ok]
    rw [ntag_protect_cfg_bridge cfg key rp pf hl]
    exact gen_ntag_protect_pages pw key cfg rp pf hk hl hb hkb


/-- `FelicaLite._format`: the attribute block (Nbr 4, Nbw 1, writeable, empty) is `T3.encodeAttr` of those attributes -/
theorem lite_format_attr_bridge (version nmaxb : Nat) (h1 : version < 256) (h2 : nmaxb < 65536) :
    Gen.Fn.lite_format_attr version nmaxb = .ok (T3.encodeAttr ⟨version, 4, 1, nmaxb, 0, 1, 0⟩) := by
  unfold Gen.Fn.lite_format_attr T3.encodeAttr
  rw [zeros16']
  simp only [Py.bind_ok, lit_cast]
  rw [pack_BBBH version 4 1 nmaxb h1 (by omega) (by omega) h2]
  have p1 : PyFn.pack [.B] [((1 : Nat) : Int)] = .ok [1] := by decide
  rw [p1]
  simp only [Py.bind_ok, List.cons_append, List.nil_append]
  rw [setSlice_nat _ 0 14 _ (by omega) (by simp)]
  simp only [List.take, List.drop, List.nil_append, List.cons_append, List.drop_succ_cons, List.drop_zero]
  rw [sliceTo_ofNat, sum_ints]
  simp only [List.take, List.foldl, List.take_succ_cons, List.take_zero, Nat.zero_add, Nat.add_zero]
  rw [pack_Hbe' _ (by omega)]
  simp only [Py.bind_ok, len_eq, List.length_cons, List.length_nil, Nat.reduceAdd]
  rw [setSlice_nat _ 14 16 _ (by omega) (by simp)]
  simp only [List.take, List.drop, List.nil_append, List.cons_append, List.drop_succ_cons, List.drop_zero, List.take_succ_cons,
    List.take_zero, List.append_nil]

example : Gen.Fn.lite_format_attr 0x10 13 = .ok [0x10, 4, 1, 0, 13, 0, 0, 0, 0, 0, 1, 0, 0, 0, 0, 0x23] := by decide +kernel


/-- `Topaz._format(version=None, wipe)` on a cached image that covers the static memory: `Tlv.formatTopaz` -/
theorem topaz_format_bridge (m : Bytes) (wipe : Option Nat) (h : 104 ≤ m.length) :
    Gen.Fn.topaz_format m (wipe.map fun (w : Nat) => (w : Int)) = Tlv.formatTopaz m wipe := by
  unfold Gen.Fn.topaz_format Tlv.formatTopaz Tlv.setSlice Tlv.topazHdr
  rw [show (8 : Int) = ((8 : Nat) : Int) from rfl, show (14 : Int) = ((14 : Nat) : Int) from rfl,
    setSlice_nat m 8 14 _ (by omega) (by omega)]
  have hs : 8 + [225, 16, 14, 0, 3, 0].length ≤ m.length := by simp; omega
  have hw := writeAt_splice [0xE1, 0x10, 0x0E, 0x00, 0x03, 0x00] m 8 hs
  simp only [List.length_cons, List.length_nil, Nat.reduceAdd] at hw hs
  simp only [hs, List.length_cons, List.length_nil, Nat.reduceAdd, if_true, Py.bind_ok, hw]
  cases wipe with
  | none => rfl
  | some w =>
    simp only [Option.map_some, Py.bind_ok]
    have hg := topaz_wipe_gen 90 w
    generalize hm1 : (List.take 8 m ++ [225, 16, 14, 0, 3, 0] ++ List.drop 14 m) = m1
    have hl1 : m1.length = m.length := by rw [← hm1]; simp; omega
    have hs2 : 14 + (List.replicate 90 (w % 256)).length ≤ m1.length := by simp; omega
    simp only [hs2, if_true]
    rw [writeAt_splice _ m1 14 hs2]
    have : (PyFn.mkBytes [PyFn.band (w : Int) 255] >>= fun t1 => (Except.ok (PyFn.setSlice m1 14 104 (PyFn.repeatL t1 90)) : Py Bytes))
        = (PyFn.mkBytes [PyFn.band (w : Int) 255] >>= fun t1 => Except.ok (PyFn.repeatL t1 ((90 : Nat) : Int))) >>= fun d =>
            Except.ok (PyFn.setSlice m1 14 104 d) := by
      cases PyFn.mkBytes [PyFn.band (w : Int) 255] <;> rfl
    show (PyFn.mkBytes [PyFn.band (w : Int) 255] >>= fun t1 => (Except.ok (PyFn.setSlice m1 14 104 (PyFn.repeatL t1 90)) : Py Bytes)) >>= _ = _
    rw [this, hg]
    simp only [Py.bind_ok]
    rw [show (14 : Int) = ((14 : Nat) : Int) from rfl, show (104 : Int) = ((104 : Nat) : Int) from rfl,
      setSlice_nat m1 14 104 _ (by omega) (by omega)]
    simp


/-- `Topaz512._format(version=None, wipe)`: `Tlv.formatTopaz512` -/
theorem topaz512_format_bridge (m : Bytes) (wipe : Option Nat) (h : 512 ≤ m.length) :
    Gen.Fn.topaz512_format m (wipe.map fun (w : Nat) => (w : Int)) = Tlv.formatTopaz512 m wipe := by
  unfold Gen.Fn.topaz512_format Tlv.formatTopaz512 Tlv.topaz512Hdr
  rw [show (8 : Int) = ((8 : Nat) : Int) from rfl, show (16 : Int) = ((16 : Nat) : Int) from rfl,
    show (24 : Int) = ((24 : Nat) : Int) from rfl,
    setSlice_nat m 8 16 _ (by omega) (by omega)]
  generalize hm1 : (List.take 8 m ++ [225, 16, 63, 0, 1, 3, 242, 48] ++ List.drop 16 m) = m1
  have hl1 : m1.length = m.length := by rw [← hm1]; simp; omega
  dsimp only
  rw [setSlice_nat m1 16 24 _ (by omega) (by omega)]
  generalize hm2 : (List.take 16 m1 ++ [51, 2, 3, 240, 2, 3, 3, 0] ++ List.drop 24 m1) = m2
  have hl2 : m2.length = m.length := by rw [← hm2]; simp; omega
  have hmodel : Tlv.setSlice (Tlv.t1Cfg 8) m 8 [0xE1, 0x10, 0x3F, 0x00, 0x01, 0x03, 0xF2, 0x30, 0x33, 0x02, 0x03, 0xF0, 0x02, 0x03, 0x03, 0x00]
      = .ok m2 := by
    rw [tlv_setSlice_ok _ m 8 _ (by simp; omega)]
    congr 1
    rw [← hm2, ← hm1]
    simp only [List.length_cons, List.length_nil, Nat.reduceAdd]
    have e1 : List.take 16 (List.take 8 m ++ [225, 16, 63, 0, 1, 3, 242, 48] ++ List.drop 16 m)
        = List.take 8 m ++ [225, 16, 63, 0, 1, 3, 242, 48] := by
      rw [List.take_append_of_le_length (by simp; omega), List.take_of_length_le (by simp; omega)]
    have e2 : List.drop 24 (List.take 8 m ++ [225, 16, 63, 0, 1, 3, 242, 48] ++ List.drop 16 m) = List.drop 24 m := by
      rw [List.drop_append, List.drop_of_length_le (by simp; omega)]
      simp [List.drop_drop]
      congr 1
      omega
    rw [e1, e2]
    simp
  rw [hmodel]
  simp only [Py.bind_ok]
  cases wipe with
  | none => rfl
  | some w =>
    simp only [Option.map_some, Py.bind_ok]
    have w1 := wipe_splice m2 24 104 80 w (by omega) (by omega)
    rw [tlv_setSlice_ok _ m2 24 _ (by rw [List.length_replicate]; omega)]
    simp only [Py.bind_ok, List.length_replicate, Nat.reduceAdd]
    generalize hm3 : (List.take 24 m2 ++ List.replicate 80 (w % 256) ++ List.drop 104 m2) = m3 at *
    have hl3 : m3.length = m.length := by rw [← hm3]; simp; omega
    rw [tlv_setSlice_ok _ m3 128 _ (by rw [List.length_replicate]; omega)]
    simp only [Py.bind_ok, List.length_replicate, Nat.reduceAdd]
    have w2 := wipe_splice m3 128 512 384 w (by omega) (by omega)
    show (PyFn.mkBytes [PyFn.band (w : Int) 255] >>= fun t1 =>
        let tag_memory_3 := PyFn.setSlice m2 ((24 : Nat) : Int) 104 (PyFn.repeatL t1 80)
        PyFn.mkBytes [PyFn.band (w : Int) 255] >>= fun t2 =>
        (Except.ok (PyFn.setSlice tag_memory_3 128 512 (PyFn.repeatL t2 384)) : Py Bytes)) >>= _ = _
    have hmk : PyFn.mkBytes [PyFn.band (w : Int) 255] = .ok [w % 256] := by
      rw [show (255 : Int) = ((255 : Nat) : Int) from rfl, band_ofNat, and255]
      have := mkBytes_cast [w % 256] (by intro x hx; simp at hx; omega)
      simpa using this
    rw [hmk] at w1 w2 ⊢
    simp only [Py.bind_ok] at w1 w2 ⊢
    have e3 : PyFn.setSlice m2 ((24 : Nat) : Int) 104 (PyFn.repeatL [w % 256] 80) = m3 := by
      have := w1; simp only [Except.ok.injEq] at this; exact this
    rw [e3]
    have e4 : PyFn.setSlice m3 128 512 (PyFn.repeatL [w % 256] 384) = List.take 128 m3 ++ List.replicate 384 (w % 256) ++ List.drop 512 m3 := by
      have := w2; simp only [Except.ok.injEq] at this; exact this
    rw [e4]

end NfcVerif.FnBridge.Vendor
