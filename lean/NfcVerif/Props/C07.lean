import NfcVerif.Lemmas.PeerDep
import NfcVerif.Lemmas.PeerPax
import NfcVerif.Lemmas.PeerDispatch
import NfcVerif.Lemmas.PeerT3
import NfcVerif.Lemmas.PeerDecode
import NfcVerif.Props.C11
/-!
# Property C07: bytes from the remote peer cannot crash or hang the stack

Statements only; the models are `Model/PeerDep`, `Model/PeerPax`, `Model/PeerDispatch`
(+ `Model/Pdu` of C11, `Model/NfcDep` of C04, `Model/T3Emu` of C01), tied to the
code by `harness/props/c07.py`.  The theorems are about the REPAIRED code
(fixes/C07/0001..0008 and fixes/C09/0001); for every repaired defect the code as
found has a counter-example theorem whose witness is replayed by the L3 oracle.

* `pdu_decode_total`        every octet string decodes to a PDU or raises `DecodeError` (from C11)
* `dep_decode_total`        every octet string as an NFC-DEP frame, both roles, both framings:
                            a PDU, `ProtocolError` or `TransmissionError`
* `dep_rtox_total`          the RTOX value taken from a timeout extension PDU: value or `ProtocolError`;
                            `dep_target_rtox_total`, `dep_after_deselect_total` likewise
* `pax_total`               `llc.activate` on any general bytes: activated or `False`, never an exception
* `t3emu_total`             `process_command` on any command, tagtool's callbacks: response / `None`
* `dispatch_total`          `dispatch` of any PDU on any well-formed SAP table: no exception, table stays well formed
* `peer_octets_dispatch_total`  any octet string: DecodeError, or a PDU whose dispatch raises nothing and never waits
* `linkloop_never_waits`    `dispatch` of any PDU (aggregates included) on any SAP table never reaches
                            a wait on the link-loop thread
* `peer_bytes_flow`         every exception the decoders can raise ends the run loop through
                            `terminate()` with a normal return, and `connect()` returns normally
* `flow_contains`, `connect_returns_normally`, `card_loop_contains`  the same as closure properties
-/
namespace NfcVerif.C07
open NfcVerif NfcVerif.Peer NfcVerif.NfcDep

/-! ## decoders -/

/-- `pdu.decode(data)` of ANY octet string yields a PDU or `DecodeError` (C11, re-exported:
the run loop relies on it through `llc.exchange`). -/
theorem pdu_decode_total (b : Bytes) : Safe Pdu.OnlyDecodeError (Pdu.Impl.decode b) :=
  NfcVerif.C11.pdu_decode_total b

example : Pdu.Impl.decode [0x00, 0x80, 0x00, 0x02, 0x00, 0x80] = .error .decodeError := by decide

/-- `decode_frame` + the PDU class `decode` of the repaired code: for every octet string, for the
Initiator and the Target, with and without the 106 kbps start byte, the result is a PDU,
`ProtocolError` or `TransmissionError`. -/
theorem dep_decode_total (b106 req : Bool) (frame : Bytes) :
    Safe FrameErr (decodeFrameV true b106 req frame) :=
  Peer.dep_decode_total b106 req frame

example : decodeFrameV true false false [3, 0xD5, 1] = .error .protocol := by decide
example : decodeFrameV true true true [0xF0, 6, 0xD4, 6, 0x0C, 1, 2] = .ok (.dep 0 0 (some 1) (some 2) []) := by decide

/-- F11 on the code as found: the empty frame, the lone start byte and a 3-byte ATR_RES raise
`IndexError` / `ValueError`. -/
theorem dep_decode_counterexample :
    decodeFrameV false false false [] = .error .index ∧
    decodeFrameV false true true [0xF0] = .error .index ∧
    decodeFrameV false false false [3, 0xD5, 1] = .error .value ∧
    ¬ (∀ b106 req frame, Safe FrameErr (decodeFrameV false b106 req frame)) := by
  refine ⟨by decide, by decide, by decide, ?_⟩
  intro h
  have := h false false [] .index (by decide)
  rcases this with h | h <;> cases h

/-- the repaired frame model IS the frame decoder of property C04 (whose model follows the repaired
`dep.py`), so `dep_decode_total` is a statement about the decoder inside C04's state machines too -/
theorem dep_decode_is_c04 (b106 req : Bool) (frame : Bytes) :
    decodeFrameV true b106 req frame = NfcDep.decodeFrame b106 req frame :=
  Peer.decodeFrameV_repaired b106 req frame

theorem dep_decode_total_c04 (b106 req : Bool) (frame : Bytes) :
    Safe FrameErr (NfcDep.decodeFrame b106 req frame) := by
  rw [← Peer.decodeFrameV_repaired]; exact Peer.dep_decode_total b106 req frame

example : NfcDep.decodeFrame false false [] = .error .transmission := by decide

/-- `Initiator.exchange`: the RTOX value of a timeout extension response is a value in 1..59 or
`ProtocolError`, for every data field (repaired). -/
theorem dep_rtox_total (data : Bytes) : Safe (fun e => e = .protocol) (rtoxOf true data) :=
  Peer.rtoxOf_safe data

example : rtoxOf true [5] = .ok 5 := by decide
theorem dep_rtox_counterexample : rtoxOf false [] = .error .index := by decide

/-- `Target.send_timeout_extension` never raises on the initiator's answer (repaired) -/
theorem dep_target_rtox_total (data : Bytes) : ∃ r, tRtoxOf true data = .ok r := Peer.tRtoxOf_total data

theorem dep_target_rtox_counterexample : tRtoxOf false [] = .error .index := by decide

/-- after DSL_REQ / RLS_REQ `Target.exchange` returns `None` whatever frame follows (repaired);
as found an ATR/PSL/DSL/RLS request at that position raises `AttributeError` -/
theorem dep_after_deselect_total (nxt : Option Pdu) : afterDeselect true nxt = .ok none := rfl

theorem dep_after_deselect_counterexample : afterDeselect false (some (.dsl none)) = .error .attr := rfl

/-! ## LLCP parameters in the general bytes -/

/-- `llc.activate()` handles ANY general bytes: the link is activated or not, no exception (repaired) -/
theorem pax_total (gb : Option Bytes) : ∃ r, activateGb true gb = .ok r := Peer.pax_total gb

example : activateGb true (some [0x46, 0x66, 0x6D, 1, 1, 0x11, 2, 2, 7, 0xFF]) =
    .ok (some ⟨0x11, 2175, 100, 0, 0⟩) := by decide

/-- as found: a TLV with a wrong or truncated length makes `activate()` raise `DecodeError` -/
theorem pax_counterexample :
    activateGb false (some [0x46, 0x66, 0x6D, 1, 5, 0x11]) = .error .decodeError ∧
    activateGb true (some [0x46, 0x66, 0x6D, 1, 5, 0x11]) = .ok none := by decide

/-! ## Type 3 Tag emulation -/

/-- `process_command` (repaired) on ANY command, for an emulation whose IDm/PMm/system code have
their sizes (8/8/2, slices of SENSF_RES): a response or `None`; the only exception left is the
`TypeError` of tagtool's own write callback of the read-only service (`lambda: False` called with
four arguments) - application code, reached only by a well-formed write command to service 000Bh.
No `IndexError`, `KeyError` (block-count dictionary) or `ValueError` (response above 255 octets). -/
theorem t3emu_total (e : T3Emu.Emu) (hl : e.idm.length = 8 ∧ e.pmm.length = 8 ∧ e.sys.length = 2) (cmd : Bytes) :
    Safe (fun x => x = .type_) (processCommandR e cmd) :=
  Peer.processCommandR_total e hl cmd

example : processCommandR ⟨[1,2,3,4,5,6,7,8], [0,0,0,0,0,0,0,0], [0x12, 0xFC], []⟩ [1] =
    .ok (none, [], []) := by decide

/-- F23 as found: the empty command, a 1-byte command and a truncated read raise `IndexError` -/
theorem t3emu_counterexample :
    T3Emu.processCommand ⟨[1,2,3,4,5,6,7,8], [0,0,0,0,0,0,0,0], [0x12, 0xFC], []⟩ [] = .error .index ∧
    T3Emu.processCommand ⟨[1,2,3,4,5,6,7,8], [0,0,0,0,0,0,0,0], [0x12, 0xFC], []⟩
      [11, 6, 1, 2, 3, 4, 5, 6, 7, 8, 5] = .error .index := by decide

/-! ## the link loop -/

/-- `dispatch` (repaired: fixes/C09/0001) of ANY PDU, aggregate or not, against ANY table of service
access points with sockets of any kind in any state: the link-loop thread is never left waiting. -/
theorem linkloop_never_waits (f : Fix) (hf : f.f39 = true) (w : Llc) (p : Pdu.Pdu) :
    dispatch f w p ≠ .ok none :=
  Peer.dispatch_never_waits f hf w p

/-- `dispatch` (repaired) of ANY PDU whose DSAP fields are SAP numbers (`PduOk`: true of every decoded
PDU, the field is six bits wide - the tie runs this model on the decoded octets) against any
well-formed table: no exception, no wait, and the table stays well formed - so the statement
extends to every sequence of received PDUs. -/
theorem dispatch_total (f : Fix) (hf : f.f39 = true) (w : Llc) (hw : LlcOk w) (p : Pdu.Pdu) (hp : PduOk p) :
    ∃ w', dispatch f w p = .ok (some w') ∧ LlcOk w' :=
  Peer.dispatch_total f hf w hw p hp

/-- ANY octet string received from the peer, at any moment (any well-formed SAP table, sockets of any
kind in any state): `pdu.decode` raises `DecodeError` (-> `llc.exchange` returns None, `peer_bytes_flow`)
or yields a PDU whose `dispatch` raises nothing, never waits, and leaves the table well formed. -/
theorem peer_octets_dispatch_total (f : Fix) (hf : f.f39 = true) (w : Llc) (hw : LlcOk w) (b : Bytes) (hb : IsBytes b) :
    Pdu.Impl.decode b = .error .decodeError ∨
    ∃ p w', Pdu.Impl.decode b = .ok p ∧ dispatch f w p = .ok (some w') ∧ LlcOk w' := by
  cases hd : Pdu.Impl.decode b with
  | error e => left; rw [pdu_decode_total b e hd]
  | ok p =>
    right
    obtain ⟨w', h1, h2⟩ := dispatch_total f hf w hw p (Peer.decode_pduOk hb hd)
    exact ⟨p, w', rfl, h1, h2⟩

example : IsBytes [0x90, 0xE0] := by decide

/-- the established data link connection of the witness -/
def estab36 : Sock := ⟨.dlc, .established, 36, some 32, true, 0, 2, 128, 0, 0, 0, 0, []⟩

def world36 : Llc :=
  ⟨((List.replicate 64 Entry.empty).set 1 (.sdp [] 0)).set 36 (.sap ⟨[estab36], []⟩), []⟩

example : LlcOk world36 := ⟨by decide, ⟨[], 0, by decide⟩, by intro e he; cases he⟩

example : dispatch Fix.repaired world36 (.simple (.ui 36 32 [])) ≠ .ok none :=
  linkloop_never_waits _ rfl _ _

/-- F39 as found: a UI PDU (octets `90 E0`) - also as an element of an aggregate - addressed to an
established data link connection blocks the link loop for ever -/
theorem linkloop_never_waits_counterexample :
    dispatch Fix.asFound world36 (.simple (.ui 36 32 [])) = .ok none ∧
    dispatch Fix.asFound world36 (.agf 0 0 [.symm 0 0, .unknown 11 36 32 [1]]) = .ok none := by
  decide

/-- a second CC in the same aggregate is not queued for the connecting socket (repaired: fixes/C07/0008) -/
theorem second_cc_ignored (s : Sock) (hs : s.kind = .dlc ∧ s.st = .connect ∧ s.rq ≠ 0) (d a m r : Nat) :
    sockEnqueue Fix.repaired s (.cc d a m r) = some s := by
  obtain ⟨hk, hst, hq⟩ := hs
  unfold sockEnqueue dlcEnqueue
  simp [hk, hst, hq, isDlcPdu, Fix.repaired]

example : (sockEnqueue Fix.asFound { estab36 with st := .connect, rq := 1 } (.cc 36 32 128 1)).map (·.rq) = some 2 := by
  decide

/-! ## exception flow -/

/-- For every exception the decoders above can produce at the link loop (`ProtocolError`,
`TransmissionError`, `TimeoutError`, `BrokenLinkError`, `DecodeError`), raised by
`mac.exchange` / `pdu.decode` inside `llc.exchange`: `exchange` returns `None`, the run loop
returns normally after `terminate()`, and `connect()` returns normally. -/
theorem peer_bytes_flow (e : Exc) (h : PeerExc e) :
    llcExchange (.error e : Py Unit) = .ok none ∧
    runLoop (.error e : Py Unit) (fun _ => .ok ()) = some ⟨.returned, true⟩ ∧
    connectLlcp (.ok true) (runLoop (.error e : Py Unit) (fun _ => .ok ())) = some ⟨.returned, true⟩ := by
  have hr := runLoop_peer (α := Unit) e h (fun _ => .ok ())
  refine ⟨?_, hr, ?_⟩
  · unfold llcExchange; simp only [peerExc_caught h, if_true]
  · rw [hr]; rfl

example : PeerExc .protocol := Or.inl rfl

/-- why totality of the decoders matters: an internal exception is NOT contained - it leaves the
run loop without `terminate()` and leaves `connect()` -/
theorem peer_bytes_flow_counterexample :
    connectLlcp (.ok true) (runLoop (.error .index : Py Unit) (fun _ => .ok ())) = some ⟨.raised .index, false⟩ ∧
    connectLlcp (.error .decodeError) none = some ⟨.raised .decodeError, false⟩ := by
  decide

/-- one turn of the run loop with total decoders and a total dispatch/collect: the loop goes on or
ends with `terminate()` and a normal return -/
theorem flow_contains {α : Type} (x : Py α) (d : α → Py Unit)
    (hx : ∀ e, x = .error e → PeerExc e) (hd : ∀ a, ∃ u, d a = .ok u) :
    runLoop x d = none ∨ runLoop x d = some ⟨.returned, true⟩ :=
  runLoop_contains x d hx hd

example : runLoop (.ok 5 : Py Nat) (fun _ => .ok ()) = none := rfl

/-- `connect(llcp=..)`: with an activation that does not raise (`pax_total`, `dep_decode_total`) and a
contained run loop, `connect()` does not raise -/
theorem connect_returns_normally (act : Py Bool) (run : Option Flow)
    (ha : ∀ e, act ≠ .error e) (hr : run = none ∨ run = some ⟨.returned, true⟩) :
    connectLlcp act run = none ∨ connectLlcp act run = some ⟨.returned, false⟩ ∨
      connectLlcp act run = some ⟨.returned, true⟩ :=
  connectLlcp_returns act run ha hr

example : connectLlcp (.ok false) none = some ⟨.returned, false⟩ := rfl

/-- `connect(card=..)`: a `process_command` that returns (`t3emu_total`) and any
`CommunicationError` from the exchange keep the loop going or end `connect()` normally -/
theorem card_loop_contains {α : Type} (a : α) (e : Exc) (h : Peer.isComm e = true) :
    cardTurn (.ok a : Py α) (.error e) = none ∨ cardTurn (.ok a : Py α) (.error e) = some .returned :=
  cardTurn_comm a e h

/-- F23 at the level of `connect()`: an `IndexError` of `process_command` leaves `connect()` -/
theorem card_loop_counterexample : cardTurn (.error .index : Py Unit) (.ok ()) = some (.raised .index) := rfl

end NfcVerif.C07
