import NfcVerif.Lemmas.PeerDep
import NfcVerif.Lemmas.PeerPax
import NfcVerif.Lemmas.PeerDispatch
import NfcVerif.Lemmas.PeerT3
import NfcVerif.Lemmas.PeerDecode
import NfcVerif.Lemmas.PeerT3Gen
import NfcVerif.Lemmas.PeerSnep
import NfcVerif.Lemmas.PduSafe
/-!
# Property C07: bytes from the remote peer cannot crash or hang the stack

Statements only; the models are `Model/PeerDep`, `Model/PeerPax`, `Model/PeerDispatch`
(+ `Model/Pdu` of C11, `Model/NfcDep` of C04, `Model/T3Emu` of C01), tied to the
code by `harness/props/c07.py`.  The theorems are about the REPAIRED code
(fixes/C07/0001..0008 and fixes/C09/0001); for every repaired defect the code as
found has a counter-example theorem whose witness is replayed by the L3 oracle.

* `pdu_decode_total`        every octet string decodes to a PDU or raises `DecodeError` (from C11)
* `dep_decode_total`        every octet string as an NFC-DEP frame, both roles, both framings:
                            a PDU, `ProtocolError` or `TransmissionError`
* `dep_rtox_total`          the RTOX value taken from a timeout extension PDU: value or `ProtocolError`;
                            `dep_target_rtox_total`, `dep_after_deselect_total` likewise
* `pax_total`               `llc.activate` on any general bytes: activated or `False`, never an exception
* `t3emu_total`             `process_command` on any command, tagtool's callbacks: response / `None`
* `dispatch_total`          `dispatch` of any PDU on any well-formed SAP table: no exception, table stays well formed
* `peer_octets_dispatch_total`  any octet string: DecodeError, or a PDU whose dispatch raises nothing and never waits
* `linkloop_never_waits`    `dispatch` of any PDU (aggregates included) on any SAP table never reaches
                            a wait on the link-loop thread
* `peer_bytes_flow`         every exception the decoders can raise ends the run loop through
                            `terminate()` with a normal return, and `connect()` returns normally
* `flow_contains`, `connect_returns_normally`, `card_loop_contains`  the same as closure properties
* `t3emu_total_any_services` `process_command` for ANY registered services with total callbacks, ids of any
                            size a SENSF_RES slice can have: a response or `None`, NO exception - every
                            `bytearray([..])` of a computed value (status flags, block count, length octets) is in range
* `t3emu_response_framed`   every response of the emulation starts with its own length (<= 255)
* `card_session_returns`    `_card_connect` with the emulation: any commands and any `CommunicationError`s in between
                            end in a normal return
* `t3emu_status_flag_octet`, `t3emu_status_flag_counterexample`  the flag `1 << (i % 8)` is an octet for every list
                            position; `1 << i` is not from position 8 on
* `snep_request_total`, `snep_request_safe`  `process_snep_request` on any message: a response with a header
* `snep_serve_total`        `SnepServer._serve` on ANY sequence of fragments: ends orderly, no exception
* `snep_request_is_c06`     the `Py`-level request handler equals the one inside C06's SNEP model
* `snep_client_get_total`, `snep_client_put_total`  the client's response path on ANY fragments
-/
namespace NfcVerif.C07
open NfcVerif NfcVerif.Peer NfcVerif.NfcDep

/-! ## decoders -/

/-- `pdu.decode(data)` of ANY octet string yields a PDU or `DecodeError` (the statement of C11's
`pdu_decode_total`, proved from the same lemma `Pdu.Impl.decodeAt_safe`; the run loop relies on it
through `llc.exchange`). -/
theorem pdu_decode_total (b : Bytes) : Safe Pdu.OnlyDecodeError (Pdu.Impl.decode b) :=
  Pdu.Impl.decodeAt_safe b 0 b.length

example : Pdu.Impl.decode [0x00, 0x80, 0x00, 0x02, 0x00, 0x80] = .error .decodeError := by decide

/-- `decode_frame` + the PDU class `decode` of the repaired code: for every octet string, for the
Initiator and the Target, with and without the 106 kbps start byte, the result is a PDU,
`ProtocolError` or `TransmissionError`. -/
theorem dep_decode_total (b106 req : Bool) (frame : Bytes) :
    Safe FrameErr (decodeFrameV true b106 req frame) :=
  Peer.dep_decode_total b106 req frame

example : decodeFrameV true false false [3, 0xD5, 1] = .error .protocol := by decide
example : decodeFrameV true true true [0xF0, 6, 0xD4, 6, 0x0C, 1, 2] = .ok (.dep 0 0 (some 1) (some 2) []) := by decide

/-- F11 on the code as found: the empty frame, the lone start byte and a 3-byte ATR_RES raise
`IndexError` / `ValueError`. -/
theorem dep_decode_counterexample :
    decodeFrameV false false false [] = .error .index ∧
    decodeFrameV false true true [0xF0] = .error .index ∧
    decodeFrameV false false false [3, 0xD5, 1] = .error .value ∧
    ¬ (∀ b106 req frame, Safe FrameErr (decodeFrameV false b106 req frame)) := by
  refine ⟨by decide, by decide, by decide, ?_⟩
  intro h
  have := h false false [] .index (by decide)
  rcases this with h | h <;> cases h

/-- the repaired frame model IS the frame decoder of property C04 (whose model follows the repaired
`dep.py`), so `dep_decode_total` is a statement about the decoder inside C04's state machines too -/
theorem dep_decode_is_c04 (b106 req : Bool) (frame : Bytes) :
    decodeFrameV true b106 req frame = NfcDep.decodeFrame b106 req frame :=
  Peer.decodeFrameV_repaired b106 req frame

theorem dep_decode_total_c04 (b106 req : Bool) (frame : Bytes) :
    Safe FrameErr (NfcDep.decodeFrame b106 req frame) := by
  rw [← Peer.decodeFrameV_repaired]; exact Peer.dep_decode_total b106 req frame

example : NfcDep.decodeFrame false false [] = .error .transmission := by decide

/-- `Initiator.exchange`: the RTOX value of a timeout extension response is a value in 1..59 or
`ProtocolError`, for every data field (repaired). -/
theorem dep_rtox_total (data : Bytes) : Safe (fun e => e = .protocol) (rtoxOf true data) :=
  Peer.rtoxOf_safe data

example : rtoxOf true [5] = .ok 5 := by decide
theorem dep_rtox_counterexample : rtoxOf false [] = .error .index := by decide

/-- `Target.send_timeout_extension` never raises on the initiator's answer (repaired) -/
theorem dep_target_rtox_total (data : Bytes) : ∃ r, tRtoxOf true data = .ok r := Peer.tRtoxOf_total data

theorem dep_target_rtox_counterexample : tRtoxOf false [] = .error .index := by decide

/-- after DSL_REQ / RLS_REQ `Target.exchange` returns `None` whatever frame follows (repaired);
as found an ATR/PSL/DSL/RLS request at that position raises `AttributeError` -/
theorem dep_after_deselect_total (nxt : Option Pdu) : afterDeselect true nxt = .ok none := rfl

theorem dep_after_deselect_counterexample : afterDeselect false (some (.dsl none)) = .error .attr := rfl

/-! ## LLCP parameters in the general bytes -/

/-- `llc.activate()` handles ANY general bytes: the link is activated or not, no exception (repaired) -/
theorem pax_total (gb : Option Bytes) : ∃ r, activateGb true gb = .ok r := Peer.pax_total gb

example : activateGb true (some [0x46, 0x66, 0x6D, 1, 1, 0x11, 2, 2, 7, 0xFF]) =
    .ok (some ⟨0x11, 2175, 100, 0, 0⟩) := by decide

/-- as found: a TLV with a wrong or truncated length makes `activate()` raise `DecodeError` -/
theorem pax_counterexample :
    activateGb false (some [0x46, 0x66, 0x6D, 1, 5, 0x11]) = .error .decodeError ∧
    activateGb true (some [0x46, 0x66, 0x6D, 1, 5, 0x11]) = .ok none := by decide

/-! ## Type 3 Tag emulation -/

/-- `process_command` (repaired) on ANY command, for an emulation whose IDm/PMm/system code have
their sizes (8/8/2, slices of SENSF_RES): a response or `None`; the only exception left is the
`TypeError` of tagtool's own write callback of the read-only service (`lambda: False` called with
four arguments) - application code, reached only by a well-formed write command to service 000Bh.
No `IndexError`, `KeyError` (block-count dictionary) or `ValueError` (response above 255 octets). -/
theorem t3emu_total (e : T3Emu.Emu) (hl : e.idm.length = 8 ∧ e.pmm.length = 8 ∧ e.sys.length = 2) (cmd : Bytes) :
    Safe (fun x => x = .type_) (processCommandR e cmd) :=
  Peer.processCommandR_total e hl cmd

example : processCommandR ⟨[1,2,3,4,5,6,7,8], [0,0,0,0,0,0,0,0], [0x12, 0xFC], []⟩ [1] =
    .ok (none, [], []) := by decide

/-- F23 as found: the empty command, a 1-byte command and a truncated read raise `IndexError` -/
theorem t3emu_counterexample :
    T3Emu.processCommand ⟨[1,2,3,4,5,6,7,8], [0,0,0,0,0,0,0,0], [0x12, 0xFC], []⟩ [] = .error .index ∧
    T3Emu.processCommand ⟨[1,2,3,4,5,6,7,8], [0,0,0,0,0,0,0,0], [0x12, 0xFC], []⟩
      [11, 6, 1, 2, 3, 4, 5, 6, 7, 8, 5] = .error .index := by decide

/-- `process_command` (repaired) for ANY set of services registered with `add_service` whose callbacks
return (`ReadOk`: a read callback hands back at most one 16 octet block or `None`; write callbacks any
truth value), IDm / PMm / system code of whatever size the slices of SENSF_RES have, ANY application
state and ANY command octets: a response or `None` - no `IndexError`, no `KeyError`, and no `ValueError`
from any `bytearray([..])` built from a computed number (status flag 1 of the `A2`/`A3` error responses for
a failing element at ANY block list position, block count of the read response, length octets). -/
theorem t3emu_total_any_services {σ : Type} (e : PeerT3.Emu σ) (hl : PeerT3.IdsOk e) (hr : PeerT3.ReadOk e.svc)
    (s : σ) (cmd : Bytes) : ∃ r, PeerT3.processCommandR e s cmd = .ok r :=
  PeerT3.processCommandR_total e hl hr s cmd

/-- every response the emulation hands to the device is a well-formed frame: its first octet is its
length and fits one octet (IDm of 8 octets), for every command and any services - the reader is answered,
never sent a frame the driver would have to refuse -/
theorem t3emu_response_framed {σ : Type} (e : PeerT3.Emu σ) (hi : e.idm.length = 8) (s : σ) (cmd r : Bytes) (s' : σ)
    (lg : List T3Emu.Call) (h : PeerT3.processCommandR e s cmd = .ok (some r, s', lg)) :
    r.head? = some r.length ∧ r.length ≤ 255 :=
  PeerT3.processCommandR_framed e hi s cmd r s' lg h

/-- the services of the correspondence run satisfy the hypothesis, for every table -/
example (tab : List (Nat × PeerT3.Mode)) : PeerT3.ReadOk (PeerT3.storeSvc tab) := PeerT3.storeSvc_readOk tab

/-- eight readable blocks followed by one beyond the tag: flag 1 names list position 8 as `1 << 0` -/
example :
    (PeerT3.processCommandR ⟨[1,2,3,4,5,6,7,8], [0,0,0,0,0,0,0,0], [0x12, 0xFC], PeerT3.storeSvc [(9, .rw)]⟩
      (List.replicate 32 7)
      ([32, 6, 1,2,3,4,5,6,7,8, 1, 9, 0, 9] ++ [0x80,0, 0x80,1, 0x80,0, 0x80,1, 0x80,0, 0x80,1, 0x80,0, 0x80,1, 0x80,2])).map (·.1)
    = .ok (some [12, 7, 1,2,3,4,5,6,7,8, 1, 0xA2]) := by decide +kernel

/-- the status flag is an octet at every block list position -/
theorem t3emu_status_flag_octet (i : Nat) (c : Nat) (hc : c < 256) :
    PeerT3.mkBytes [PeerT3.flag1 i, c] = .ok [PeerT3.flag1 i, c] :=
  PeerT3.mkBytes_flag i c hc

/-- why the `% 8` matters: `bytearray([1 << 8, 0xA2])` raises `ValueError`, which neither
`process_command` nor `_card_connect` handles (`card_loop_counterexample`) -/
theorem t3emu_status_flag_counterexample : PeerT3.mkBytes [2 ^ 8, 0xA2] = .error .value := by decide

/-- `connect(card=..)` with an emulated Type 3 Tag: whatever the reader sends - the activating command, any
sequence of further commands, any `CommunicationError` of the exchange in between - `process_command` answers
every command and `_card_connect` ends with a normal return (`terminate()` or `BrokenLinkError`), for any
services with total callbacks.  Composition of `t3emu_total_any_services` with the handler structure. -/
theorem card_session_returns {σ : Type} (e : PeerT3.Emu σ) (hl : PeerT3.IdsOk e) (hr : PeerT3.ReadOk e.svc) (s : σ)
    (first : Bytes) (script : List PeerT3.CardEv) (hs : ∀ x, PeerT3.CardEv.err x ∈ script → Peer.isComm x = true) :
    PeerT3.cardSession e s first script = .returned :=
  PeerT3.cardSession_returns e hl hr s first script hs

example : PeerT3.cardSession ⟨[1,2,3,4,5,6,7,8], [0,0,0,0,0,0,0,0], [0x12, 0xFC], PeerT3.storeSvc [(9, .rw)]⟩ (List.replicate 16 0)
    [6, 0, 0x12, 0xFC, 0, 0] [.cmd [], .err .timeout, .cmd [10, 4, 1,2,3,4,5,6,7,8], .err .brokenLink, .err .index] = .returned := by
  decide +kernel

/-- an exception that is no `CommunicationError` does leave the loop (cf. `card_loop_counterexample`) -/
example : PeerT3.cardSession ⟨[1,2,3,4,5,6,7,8], [0,0,0,0,0,0,0,0], [0x12, 0xFC], PeerT3.storeSvc [(9, .rw)]⟩ (List.replicate 16 0)
    [6, 0, 0x12, 0xFC, 0, 0] [.err .value] = .raised .value := by decide +kernel

/-! ## SNEP -/

/-- `SnepServer.process_snep_request` on ANY message of two or more octets (`_serve` hands over six or
more), for any decoder/application/encoder that keeps the contract `AppOk` (codes are octets, only the
handled exceptions): a response with a complete header, never an exception - in particular the
acceptable-length field of a GET request is only unpacked when it is there. -/
theorem snep_request_total (app : PeerSnep.App) (h : PeerSnep.AppOk app) (data : Bytes) (hd : 2 ≤ data.length) :
    ∃ r, PeerSnep.processRequest app data = .ok r ∧ 6 ≤ r.length ∧ r.take 1 = [0x10] :=
  PeerSnep.processRequest_total app h data hd

/-- the default server: GET is not implemented (E0h), PUT succeeds, the decoder accepts `valid` -/
def defaultApp (valid : Bytes → Bool) : PeerSnep.App where
  get o := if valid o then .ok (.inl 0xE0) else .error .ndefDecode
  put o := if valid o then .ok 0x81 else .error .ndefDecode

example (valid : Bytes → Bool) : PeerSnep.AppOk (defaultApp valid) := by
  constructor
  · intro o; simp only [defaultApp]; cases valid o <;> simp
  · intro o; simp only [defaultApp]; cases valid o <;> simp

/-- a GET request of six octets (no acceptable-length field): Bad Request, not `struct.error` -/
example : PeerSnep.processRequest (defaultApp fun _ => true) [0x10, 1, 0, 0, 0, 0] = .ok [0x10, 0xC2, 0, 0, 0, 0] := by decide

example : PeerSnep.unpackL (sliceN [0x10, 1, 0, 0, 0, 3, 1, 2, 3] 6 10) = .error .struct := by decide

/-- for every message at all: the only exception is the `IndexError` of `request_data[1]` on fewer than two octets -/
theorem snep_request_safe (app : PeerSnep.App) (h : PeerSnep.AppOk app) (data : Bytes) :
    Safe (fun e => e = .index) (PeerSnep.processRequest app data) :=
  PeerSnep.processRequest_safe app h data

/-- `SnepServer._serve` on ANY sequence of fragments received on the connection, any send MIU and
acceptable length: the thread ends orderly (the messages it sent are the result), it is never killed by an
exception, and one turn of the receive loop per fragment suffices (no `OutOfFuel`). -/
theorem snep_serve_total (cfg : PeerSnep.Cfg) (h : PeerSnep.AppOk cfg.app) (inbox : List Bytes) :
    ∃ out, PeerSnep.serve cfg (inbox.length + 1) inbox [] = .ok out :=
  PeerSnep.serve_total cfg h _ inbox [] (Nat.lt_succ_self _)

/-- a GET announced with 100 octets of which 3 arrive before the peer leaves: Continue, then Bad Request -/
example : PeerSnep.serve ⟨1024, 128, defaultApp fun _ => true⟩ 3 [[0x10, 1, 0, 0, 0, 100, 0, 0], [0]] [] =
    .ok [[0x10, 0x80, 0, 0, 0, 0], [0x10, 0xC2, 0, 0, 0, 0]] := by decide

/-- the request handler of property C06's SNEP model is this one (handlers within the field ranges) -/
theorem snep_request_is_c06 (h : Snep.Handlers) (hb : PeerSnep.HandlersOk h) (data : Bytes) :
    PeerSnep.processRequest (PeerSnep.ofHandlers h) data = (Snep.process h data >>= fun r => .ok r.1) :=
  PeerSnep.processRequest_is_c06 h hb data

/-- the response path of `SnepClient.get_octets` / `put_octets` on ANY fragments from the server:
data, `None`/`True` or `SnepError` - no other exception -/
theorem snep_client_get_total (acc : Nat) (inbox : List Bytes) : ∃ r, PeerSnep.getOctets acc inbox = .ok r :=
  PeerSnep.getOctets_total acc inbox

theorem snep_client_put_total (inbox : List Bytes) : ∃ r, PeerSnep.putOctets inbox = .ok r :=
  PeerSnep.putOctets_total inbox

example : PeerSnep.getOctets 1024 [[0x10, 0x81, 0, 0, 0, 3, 0xD0], [0, 0]] = .ok (.data [0xD0, 0, 0]) := by decide
example : PeerSnep.getOctets 1024 [[0x10, 0xC0, 0, 0, 0, 0]] = .ok (.snepError 0xC0) := by decide

/-! ## the link loop -/

/-- `dispatch` (repaired: fixes/C09/0001) of ANY PDU, aggregate or not, against ANY table of service
access points with sockets of any kind in any state: the link-loop thread is never left waiting. -/
theorem linkloop_never_waits (f : Fix) (hf : f.f39 = true) (w : Llc) (p : Pdu.Pdu) :
    dispatch f w p ≠ .ok none :=
  Peer.dispatch_never_waits f hf w p

/-- `dispatch` (repaired) of ANY PDU whose DSAP fields are SAP numbers (`PduOk`: true of every decoded
PDU, the field is six bits wide - the tie runs this model on the decoded octets) against any
well-formed table: no exception, no wait, and the table stays well formed - so the statement
extends to every sequence of received PDUs. -/
theorem dispatch_total (f : Fix) (hf : f.f39 = true) (w : Llc) (hw : LlcOk w) (p : Pdu.Pdu) (hp : PduOk p) :
    ∃ w', dispatch f w p = .ok (some w') ∧ LlcOk w' :=
  Peer.dispatch_total f hf w hw p hp

/-- ANY octet string received from the peer, at any moment (any well-formed SAP table, sockets of any
kind in any state): `pdu.decode` raises `DecodeError` (-> `llc.exchange` returns None, `peer_bytes_flow`)
or yields a PDU whose `dispatch` raises nothing, never waits, and leaves the table well formed. -/
theorem peer_octets_dispatch_total (f : Fix) (hf : f.f39 = true) (w : Llc) (hw : LlcOk w) (b : Bytes) (hb : IsBytes b) :
    Pdu.Impl.decode b = .error .decodeError ∨
    ∃ p w', Pdu.Impl.decode b = .ok p ∧ dispatch f w p = .ok (some w') ∧ LlcOk w' := by
  cases hd : Pdu.Impl.decode b with
  | error e => left; rw [pdu_decode_total b e hd]
  | ok p =>
    right
    obtain ⟨w', h1, h2⟩ := dispatch_total f hf w hw p (Peer.decode_pduOk hb hd)
    exact ⟨p, w', rfl, h1, h2⟩

example : IsBytes [0x90, 0xE0] := by decide

/-- the established data link connection of the witness -/
def estab36 : Sock := ⟨.dlc, .established, 36, some 32, true, 0, 2, 128, 0, 0, 0, 0, []⟩

def world36 : Llc :=
  ⟨((List.replicate 64 Entry.empty).set 1 (.sdp [] 0)).set 36 (.sap ⟨[estab36], []⟩), []⟩

example : LlcOk world36 := ⟨by decide, ⟨[], 0, by decide⟩, by intro e he; cases he⟩

example : dispatch Fix.repaired world36 (.simple (.ui 36 32 [])) ≠ .ok none :=
  linkloop_never_waits _ rfl _ _

/-- F39 as found: a UI PDU (octets `90 E0`) - also as an element of an aggregate - addressed to an
established data link connection blocks the link loop for ever -/
theorem linkloop_never_waits_counterexample :
    dispatch Fix.asFound world36 (.simple (.ui 36 32 [])) = .ok none ∧
    dispatch Fix.asFound world36 (.agf 0 0 [.symm 0 0, .unknown 11 36 32 [1]]) = .ok none := by
  decide

/-- a second CC in the same aggregate is not queued for the connecting socket (repaired: fixes/C07/0008) -/
theorem second_cc_ignored (s : Sock) (hs : s.kind = .dlc ∧ s.st = .connect ∧ s.rq ≠ 0) (d a m r : Nat) :
    sockEnqueue Fix.repaired s (.cc d a m r) = some s := by
  obtain ⟨hk, hst, hq⟩ := hs
  unfold sockEnqueue dlcEnqueue
  simp [hk, hst, hq, isDlcPdu, Fix.repaired]

example : (sockEnqueue Fix.asFound { estab36 with st := .connect, rq := 1 } (.cc 36 32 128 1)).map (·.rq) = some 2 := by
  decide

/-! ## exception flow -/

/-- For every exception the decoders above can produce at the link loop (`ProtocolError`,
`TransmissionError`, `TimeoutError`, `BrokenLinkError`, `DecodeError`), raised by
`mac.exchange` / `pdu.decode` inside `llc.exchange`: `exchange` returns `None`, the run loop
returns normally after `terminate()`, and `connect()` returns normally. -/
theorem peer_bytes_flow (e : Exc) (h : PeerExc e) :
    llcExchange (.error e : Py Unit) = .ok none ∧
    runLoop (.error e : Py Unit) (fun _ => .ok ()) = some ⟨.returned, true⟩ ∧
    connectLlcp (.ok true) (runLoop (.error e : Py Unit) (fun _ => .ok ())) = some ⟨.returned, true⟩ := by
  have hr := runLoop_peer (α := Unit) e h (fun _ => .ok ())
  refine ⟨?_, hr, ?_⟩
  · unfold llcExchange; simp only [peerExc_caught h, if_true]
  · rw [hr]; rfl

example : PeerExc .protocol := Or.inl rfl

/-- why totality of the decoders matters: an internal exception is NOT contained - it leaves the
run loop without `terminate()` and leaves `connect()` -/
theorem peer_bytes_flow_counterexample :
    connectLlcp (.ok true) (runLoop (.error .index : Py Unit) (fun _ => .ok ())) = some ⟨.raised .index, false⟩ ∧
    connectLlcp (.error .decodeError) none = some ⟨.raised .decodeError, false⟩ := by
  decide

/-- one turn of the run loop with total decoders and a total dispatch/collect: the loop goes on or
ends with `terminate()` and a normal return -/
theorem flow_contains {α : Type} (x : Py α) (d : α → Py Unit)
    (hx : ∀ e, x = .error e → PeerExc e) (hd : ∀ a, ∃ u, d a = .ok u) :
    runLoop x d = none ∨ runLoop x d = some ⟨.returned, true⟩ :=
  runLoop_contains x d hx hd

example : runLoop (.ok 5 : Py Nat) (fun _ => .ok ()) = none := rfl

/-- `connect(llcp=..)`: with an activation that does not raise (`pax_total`, `dep_decode_total`) and a
contained run loop, `connect()` does not raise -/
theorem connect_returns_normally (act : Py Bool) (run : Option Flow)
    (ha : ∀ e, act ≠ .error e) (hr : run = none ∨ run = some ⟨.returned, true⟩) :
    connectLlcp act run = none ∨ connectLlcp act run = some ⟨.returned, false⟩ ∨
      connectLlcp act run = some ⟨.returned, true⟩ :=
  connectLlcp_returns act run ha hr

example : connectLlcp (.ok false) none = some ⟨.returned, false⟩ := rfl

/-- `connect(card=..)`: a `process_command` that returns (`t3emu_total`) and any
`CommunicationError` from the exchange keep the loop going or end `connect()` normally -/
theorem card_loop_contains {α : Type} (a : α) (e : Exc) (h : Peer.isComm e = true) :
    cardTurn (.ok a : Py α) (.error e) = none ∨ cardTurn (.ok a : Py α) (.error e) = some .returned :=
  cardTurn_comm a e h

/-- F23 at the level of `connect()`: an `IndexError` of `process_command` leaves `connect()` -/
theorem card_loop_counterexample : cardTurn (.error .index : Py Unit) (.ok ()) = some (.raised .index) := rfl

end NfcVerif.C07
