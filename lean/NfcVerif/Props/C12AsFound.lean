import NfcVerif.Lemmas.IsoDepLive
/-!
# C12 statements about the AS-FOUND loops of `Model/IsoDep.lean` (before `fixes/C08/0010 - 0012`)

Verbatim the former `Props/C12.lean`: the theorems are about `IsoDep.exchange` with plain fuel for the three
loops (no limit on S(WTX) requests, on retransmissions after R(ACK), on chained response blocks).  `Props/C12.lean`
now states the same theorems (same names, namespace `NfcVerif.C12`) about the REPAIRED initiator of
`Model/IsoDepV2.lean`; this module is kept for the function bridge of group IsoSm, whose regenerated definitions
follow `/repo` and equal the as-found loops until the repairs are applied there.  Never import both modules.
-/
namespace NfcVerif.C12
open NfcVerif NfcVerif.IsoDep

/-- the session invariant: as long as no unrecoverable error was raised, card and reader are in step -/
def SessInv (pcd : Pcd) (c : Card) : Prop := pcd.failed = none → pcd.pni < 2 ∧ Sync pcd.pni c

/-- activation state: PCD block number 0, PICC block number 1 (rules A and C), for every FSCI/FWI/device limit -/
theorem sess_init (fsci fwi maxSend : Nat) : SessInv (mkPcd fsci fwi maxSend) Card.init :=
  fun _ => ⟨by simp [mkPcd], ⟨rfl, rfl⟩⟩

/-- what one `exchange` guarantees in a session -/
def StepPost (cfg : CardCfg) (cmd : Bytes) (w : World Card) (r : World Card × Pcd × Py Bytes) : Prop :=
  (r.1.card.log = w.card.log ∨ r.1.card.log = w.card.log ++ [cmd]) ∧
  (∀ x, r.2.2 = .ok x → x = cfg.app w.card.log.length cmd ∧ r.1.card.log = w.card.log ++ [cmd]) ∧
  (r.2.2 ≠ .error .outOfFuel → SessInv r.2.1 r.1.card)

theorem exchange_step (cfg : CardCfg) (F : Nat) (pcd : Pcd) (cmd : Bytes) (w : World Card)
    (hs : SessInv pcd w.card) : StepPost cfg cmd w (exchange (isoPeer cfg) F pcd cmd w) := by
  unfold exchange
  cases hf : pcd.failed with
  | some e =>
    simp only
    refine ⟨Or.inl rfl, (by intro x hx; cases hx), ?_⟩
    intro _ hn; rw [hf] at hn; cases hn
  | none =>
    simp only
    obtain ⟨hp, hsync⟩ := hs hf
    have hfl := exchangeCmd_failed (isoPeer cfg) F pcd cmd w
    by_cases h : pcd.miu ≤ 0 ∨ cmd = []
    · -- nothing is sent: ValueError / UnboundLocalError before the first block
      have hun : exchangeCmd (isoPeer cfg) F pcd cmd w = (w, pcd, .error .value) ∨
          exchangeCmd (isoPeer cfg) F pcd cmd w = (w, pcd, .error .unbound) := by
        unfold exchangeCmd
        by_cases h0 : pcd.miu = 0
        · left; simp [h0]
        · right
          have : pcd.miu < 0 ∨ cmd = [] := by
            rcases h with h | h
            · exact Or.inl (by omega)
            · exact Or.inr h
          simp [h0, this]
      rcases hun with hun | hun <;> rw [hun] <;> simp only <;>
        exact ⟨Or.inl rfl, (by intro x hx; cases hx), fun _ _ => ⟨hp, hsync⟩⟩
    · have hpos : 0 < pcd.miu := by
        by_cases h' : pcd.miu ≤ 0
        · exact absurd (Or.inl h') h
        · omega
      have hm : 1 ≤ pcd.miu.toNat := by omega
      have hc : cmd ≠ [] := fun hc => h (Or.inr hc)
      have := exchangeCmd_post cfg F pcd cmd w pcd.miu.toNat (by omega) hm hc hp hsync (fun _ => True)
        (fun _ _ => trivial) (fun _ _ => trivial)
      obtain ⟨_, hres⟩ := this
      generalize exchangeCmd (isoPeer cfg) F pcd cmd w = r at hres hfl ⊢
      obtain ⟨w1, p1, res⟩ := r
      cases res with
      | ok x =>
        simp only at hres hfl ⊢
        refine ⟨Or.inr hres.1, ?_, fun _ _ => ⟨hres.2.2.1, hres.2.2.2⟩⟩
        intro y hy; cases hy; exact ⟨hres.2.1, hres.1⟩
      | error e =>
        simp only at hres hfl ⊢
        obtain ⟨hk, hlog⟩ := hres
        rcases hk with rfl | rfl | rfl | rfl
        · exact ⟨hlog, (by intro x hx; cases hx), fun hne => absurd rfl hne⟩
        all_goals
          exact ⟨hlog, (by intro x hx; cases hx), fun _ hn => by simp at hn⟩

/-- **At most once.** For every card application, response block size, S(WTX) placement, fuel,
retry budgets, frame size, command, *every fault script* and every state a session can be in:
the card's execution log after `exchange` is the old log, or the old log plus exactly the command
that was sent (never a second execution, never a truncated or spliced command) - also when
`exchange` fails, and also after earlier failures. -/
theorem isodep_at_most_once (cfg : CardCfg) (F : Nat) (pcd : Pcd) (cmd : Bytes) (w : World Card)
    (hs : SessInv pcd w.card) :
    (exchange (isoPeer cfg) F pcd cmd w).1.card.log = w.card.log ∨
    (exchange (isoPeer cfg) F pcd cmd w).1.card.log = w.card.log ++ [cmd] :=
  (exchange_step cfg F pcd cmd w hs).1

example : (exchange (isoPeer ⟨2, 1, 1, 1, 3, fun n c => c ++ [n, 0x90, 0]⟩) 20 { pni := 0, miu := 2, nNak := 5, nAck := 5 }
    [1, 2, 3, 4, 5]
    ⟨Card.init, [.d, .l, .l, .d, .c, .d, .d, .e, .d, .d, .d, .l], []⟩).1.card.log = [[1, 2, 3, 4, 5]] := by decide
/-- the same exchange with a retry budget of 2 fails, nothing was executed -/
example : (exchange (isoPeer ⟨2, 1, 1, 1, 3, fun n c => c ++ [n, 0x90, 0]⟩) 20 { pni := 0, miu := 3, nNak := 2, nAck := 2 }
    [1, 2, 3, 4, 5]
    ⟨Card.init, [.d, .l, .l, .d, .c, .d, .d, .e, .d, .d, .d, .l], []⟩).1.card.log = [] := by decide

/-- **Exact response.** A response that `exchange` returns is the complete response of the card's
execution of this very command (execution number `w.card.log.length`, so not a retransmission of
an earlier response) and the command was executed exactly once. No hypothesis on how earlier
exchanges of the session ended. -/
theorem isodep_response_exact (cfg : CardCfg) (F : Nat) (pcd : Pcd) (cmd : Bytes) (w : World Card)
    (hs : SessInv pcd w.card) (x : Bytes) (hx : (exchange (isoPeer cfg) F pcd cmd w).2.2 = .ok x) :
    x = cfg.app w.card.log.length cmd ∧
    (exchange (isoPeer cfg) F pcd cmd w).1.card.log = w.card.log ++ [cmd] :=
  (exchange_step cfg F pcd cmd w hs).2.1 x hx

/-- command chained in 3 blocks, response chained in 4 blocks, S(WTX) before every card block, 6 faults -/
example : (exchange (isoPeer ⟨2, 1, 1, 1, 3, fun n c => c ++ [n, 0x90, 0]⟩) 20 { pni := 0, miu := 2, nNak := 5, nAck := 5 }
    [1, 2, 3, 4, 5]
    ⟨Card.init, [.d, .l, .l, .d, .c, .d, .d, .e, .d, .d, .d, .l], []⟩).2.2 = .ok [1, 2, 3, 4, 5, 0, 0x90, 0] := by decide

/-- **The session invariant is preserved** by every exchange, whether it succeeds or raises. -/
theorem isodep_session_inv (cfg : CardCfg) (F : Nat) (pcd : Pcd) (cmd : Bytes) (w : World Card)
    (hs : SessInv pcd w.card) (hf : (exchange (isoPeer cfg) F pcd cmd w).2.2 ≠ .error .outOfFuel) :
    SessInv (exchange (isoPeer cfg) F pcd cmd w).2.1 (exchange (isoPeer cfg) F pcd cmd w).1.card :=
  (exchange_step cfg F pcd cmd w hs).2.2 hf

/-- at-most-once and exact response for every command of a sequence run on one activation -/
def SessionExact (cfg : CardCfg) (F : Nat) : List Bytes → Pcd → World Card → Prop
  | [], _, _ => True
  | c :: cs, pcd, w =>
    ((exchange (isoPeer cfg) F pcd c w).1.card.log = w.card.log ∨
     (exchange (isoPeer cfg) F pcd c w).1.card.log = w.card.log ++ [c]) ∧
    (∀ x, (exchange (isoPeer cfg) F pcd c w).2.2 = .ok x →
      x = cfg.app w.card.log.length c ∧ (exchange (isoPeer cfg) F pcd c w).1.card.log = w.card.log ++ [c]) ∧
    ((exchange (isoPeer cfg) F pcd c w).2.2 ≠ .error .outOfFuel →
      SessionExact cfg F cs (exchange (isoPeer cfg) F pcd c w).2.1 (exchange (isoPeer cfg) F pcd c w).1)

/-- **Sessions.** Any sequence of commands on one activation, any fault script, failed exchanges included: every
command is executed at most once and every response returned is the exact response to its command
(`outOfFuel` is the model's marker for "more than `F` blocks in one loop", see `isodep_absorbs` / `isodep_terminates`). -/
theorem isodep_session_exact (cfg : CardCfg) (F : Nat) (cmds : List Bytes) :
    ∀ (pcd : Pcd) (w : World Card), SessInv pcd w.card → SessionExact cfg F cmds pcd w := by
  induction cmds with
  | nil => intro _ _ _; trivial
  | cons c cs ih =>
    intro pcd w hs
    obtain ⟨h1, h2, h3⟩ := exchange_step cfg F pcd c w hs
    exact ⟨h1, h2, fun hf => ih _ _ (h3 hf)⟩

theorem isodep_session_from_activation (cfg : CardCfg) (F : Nat) (cmds : List Bytes) (fsci fwi maxSend : Nat)
    (script : List Fault) : SessionExact cfg F cmds (mkPcd fsci fwi maxSend) ⟨Card.init, script, []⟩ :=
  isodep_session_exact cfg F cmds _ _ (sess_init fsci fwi maxSend)

/-- **After an unrecoverable error** no block is sent any more: the error is raised again, the card is not touched. -/
theorem isodep_refuses_after_error {σ : Type} (P : Peer σ) (F : Nat) (pcd : Pcd) (cmd : Bytes) (w : World σ) (e : Int)
    (h : pcd.failed = some e) : exchange P F pcd cmd w = (w, pcd, .error (.tagCmd e)) := by
  unfold exchange; simp [h]

/-- every `Type4TagCommandError` raised by `exchange` sets the flag -/
theorem isodep_error_sets_flag {σ : Type} (P : Peer σ) (F : Nat) (pcd : Pcd) (cmd : Bytes) (w : World σ) (e : Int)
    (h : (exchange P F pcd cmd w).2.2 = .error (.tagCmd e)) : (exchange P F pcd cmd w).2.1.failed = some e := by
  unfold exchange at h ⊢
  cases hf : pcd.failed with
  | some e' => simp only [hf] at h ⊢; cases h; rfl
  | none =>
    simp only [hf] at h ⊢
    generalize exchangeCmd P F pcd cmd w = r at h ⊢
    obtain ⟨w1, p1, res⟩ := r
    cases res with
    | ok x => simp at h
    | error e' =>
      cases e' <;> simp only at h ⊢ <;> first | (cases h; rfl) | (cases h)

def exCfg : CardCfg := ⟨253, 0, 0, 0, 1, fun n c => c ++ [n, 0x90, 0]⟩
def exPcd : Pcd := { pni := 0, miu := 253, nNak := 1, nAck := 1 }
/-- first exchange: command delivered, response and its retransmission lost; second exchange: I-block would be lost -/
def exWorld : World Card := ⟨Card.init, [.d, .l, .d, .l, .l, .d, .d], []⟩

/-- the witness of the former finding `isodep-stale-after-error`: the second command used to return the response of
the first one; now it raises the error of the first exchange and the card sees no further block -/
example :
    (exchange (isoPeer exCfg) 8 exPcd [1, 1] exWorld).2.2 = .error (.tagCmd TIMEOUT_ERROR) ∧
    (exchange (isoPeer exCfg) 8 (exchange (isoPeer exCfg) 8 exPcd [1, 1] exWorld).2.1 [2, 2]
      (exchange (isoPeer exCfg) 8 exPcd [1, 1] exWorld).1).2.2 = .error (.tagCmd TIMEOUT_ERROR) ∧
    (exchange (isoPeer exCfg) 8 (exchange (isoPeer exCfg) 8 exPcd [1, 1] exWorld).2.1 [2, 2]
      (exchange (isoPeer exCfg) 8 exPcd [1, 1] exWorld).1).1.trace = [[2, 1, 1], [0xB2]] := by decide

/-- **send_apdu.** When `send_apdu(..., check_status=True)` returns `x`, the card executed exactly one command, namely
the ISO 7816-4 encoding of the arguments, and answered `x` followed by the status word 9000; any other status word
is raised as `Type4TagCommandError(SW)`. -/
theorem isodep_send_apdu_exact (cfg : CardCfg) (F : Nat) (pcd : Pcd) (ext : Bool) (cla ins p1 p2 : Nat) (data : Bytes)
    (mrl : Nat) (w : World Card) (hs : SessInv pcd w.card) (x : Bytes)
    (hx : (sendApdu (isoPeer cfg) F pcd ext cla ins p1 p2 data mrl true w).2.2 = .ok x) :
    ∃ apdu, encodeApdu ext cla ins p1 p2 data mrl = .ok apdu ∧
      (sendApdu (isoPeer cfg) F pcd ext cla ins p1 p2 data mrl true w).1.card.log = w.card.log ++ [apdu] ∧
      cfg.app w.card.log.length apdu = x ++ [0x90, 0x00] := by
  unfold sendApdu at hx ⊢
  cases henc : encodeApdu ext cla ins p1 p2 data mrl with
  | error e => simp [henc] at hx
  | ok apdu =>
    simp only [henc] at hx ⊢
    refine ⟨apdu, rfl, ?_⟩
    cases hex : (exchange (isoPeer cfg) F pcd apdu w).2.2 with
    | error e => simp [hex] at hx
    | ok rsp =>
      simp only [hex] at hx ⊢
      obtain ⟨hr, hlog⟩ := isodep_response_exact cfg F pcd apdu w hs rsp hex
      refine ⟨hlog, ?_⟩
      rw [← hr]
      unfold checkStatus at hx
      by_cases hlen : rsp.length < 2
      · simp [hlen] at hx
      · by_cases hsw : rsp.drop (rsp.length - 2) = [0x90, 0x00]
        · simp [hlen, hsw] at hx
          rw [← hx, ← hsw, List.take_append_drop]
        · simp [hlen, hsw] at hx

example : (sendApdu (isoPeer ⟨3, 0, 0, 0, 1, fun _ c => c.take 2 ++ [0x90, 0]⟩) 20 { pni := 0, miu := 4, nNak := 2, nAck := 2 } false 0 0xB0 0 0 [] 2 true
    ⟨Card.init, [.d, .l, .c], []⟩).2.2 = .ok [0, 0xB0] := by decide

/-- the error flag holds one of the three documented error numbers -/
def FlagOk (pcd : Pcd) : Prop :=
  ∀ e, pcd.failed = some e → e = TIMEOUT_ERROR ∨ e = RECEIVE_ERROR ∨ e = PROTOCOL_ERROR

/-- **Error kind.** Whatever the card does (any `Peer`, not only the ISO PICC), every fault script, every session
state: if `exchange` raises, it raises `Type4TagCommandError` with errno `TIMEOUT_ERROR`, `RECEIVE_ERROR` or
`PROTOCOL_ERROR` - no `IndexError`, no raw `nfc.clf` exception.  (`outOfFuel` is not a Python exception:
it marks a run in which the card kept the reader busy for more than `F` blocks in one loop; `isodep_terminates`
excludes it for the ISO card.) -/
theorem isodep_error_kind {σ : Type} (P : Peer σ) (F : Nat) (pcd : Pcd) (cmd : Bytes) (w : World σ)
    (hm : 0 < pcd.miu) (hcmd : cmd ≠ []) (hfl : FlagOk pcd) :
    (∀ e, (exchange P F pcd cmd w).2.2 = .error e →
      e = .outOfFuel ∨ e = .tagCmd TIMEOUT_ERROR ∨ e = .tagCmd RECEIVE_ERROR ∨ e = .tagCmd PROTOCOL_ERROR) ∧
    FlagOk (exchange P F pcd cmd w).2.1 := by
  unfold exchange
  cases hf : pcd.failed with
  | some e' =>
    simp only
    rcases hfl e' hf with rfl | rfl | rfl
    · exact ⟨fun e h => (by cases h; simp), hfl⟩
    · exact ⟨fun e h => (by cases h; simp), hfl⟩
    · exact ⟨fun e h => (by cases h; simp), hfl⟩
  | none =>
    simp only
    have hk := exchangeCmd_error_kind_any P F pcd cmd w hm hcmd
    have hfl' := exchangeCmd_failed P F pcd cmd w
    generalize exchangeCmd P F pcd cmd w = r at hk hfl' ⊢
    obtain ⟨w1, p1, res⟩ := r
    simp only at hk hfl'
    have hp1 : FlagOk p1 := by intro e he; rw [hfl', hf] at he; cases he
    cases res with
    | ok x => exact ⟨fun e h => (by cases h), hp1⟩
    | error e' =>
      rcases hk e' rfl with rfl | rfl | rfl | rfl
      · exact ⟨fun e h => (by cases h; simp), hp1⟩
      · exact ⟨fun e h => (by cases h; simp), fun e he => by simp at he; subst he; simp⟩
      · exact ⟨fun e h => (by cases h; simp), fun e he => by simp at he; subst he; simp⟩
      · exact ⟨fun e h => (by cases h; simp), fun e he => by simp at he; subst he; simp⟩

example : (exchange (isoPeer ⟨2, 1, 0, 0, 3, fun n c => c ++ [n, 0x90, 0]⟩) 20 { pni := 0, miu := 3, nNak := 1, nAck := 1 } [1, 2]
    ⟨Card.init, [.d, .d, .d, .c, .d, .l], []⟩).2.2 = .error (.tagCmd TIMEOUT_ERROR) := by decide

/-- fuel of the model loops that is enough for the ISO card: `W` bounds the S(WTX) requests per block, the retry
loops run at most `2n+3` times, the response chain has at most as many blocks as the response has octets -/
def FuelEnough (cfg : CardCfg) (W F : Nat) (pcd : Pcd) (cmd : Bytes) (w : World Card) : Prop :=
  1 ≤ cfg.chunk ∧ cfg.wtxAck ≤ W ∧ cfg.wtxI ≤ W ∧ cfg.wtxChain ≤ W ∧
  W + 1 ≤ F ∧ 2 * pcd.nNak + 3 ≤ F ∧ 2 * pcd.nAck + 3 ≤ F ∧ (cfg.app w.card.log.length cmd).length < F

/-- **Termination.** Against the ISO/IEC 14443-4 card every loop of `exchange` ends, for every fault script: the
`outOfFuel` disjunct of `isodep_error_kind` does not occur once the fuel exceeds the stated bounds (the card
sends at most `W` S(WTX) requests per block and its response blocks are not empty). -/
theorem isodep_terminates (cfg : CardCfg) (W F : Nat) (pcd : Pcd) (cmd : Bytes) (w : World Card)
    (hs : SessInv pcd w.card) (hm : 0 < pcd.miu) (hcmd : cmd ≠ []) (hfuel : FuelEnough cfg W F pcd cmd w) :
    (exchange (isoPeer cfg) F pcd cmd w).2.2 ≠ .error .outOfFuel := by
  cases hf : pcd.failed with
  | some e => rw [isodep_refuses_after_error _ F pcd cmd w e hf]; simp
  | none =>
    obtain ⟨hp, hsync⟩ := hs hf
    obtain ⟨h1, h2, h3, h4, h5, h6, h7, h8⟩ := hfuel
    rw [(exchange_unfailed _ F pcd cmd w hf).1]
    exact (exchangeCmd_live cfg W F pcd cmd w pcd.miu.toNat (by omega) (by omega) hcmd hp hsync h1 h2 h3 h4 h5 h6 h7 h8).1

/-- the documented errors only, for the ISO card -/
theorem isodep_error_kind_iso (cfg : CardCfg) (W F : Nat) (pcd : Pcd) (cmd : Bytes) (w : World Card)
    (hs : SessInv pcd w.card) (hm : 0 < pcd.miu) (hcmd : cmd ≠ []) (hfl : FlagOk pcd)
    (hfuel : FuelEnough cfg W F pcd cmd w) (e : Exc) (h : (exchange (isoPeer cfg) F pcd cmd w).2.2 = .error e) :
    e = .tagCmd TIMEOUT_ERROR ∨ e = .tagCmd RECEIVE_ERROR ∨ e = .tagCmd PROTOCOL_ERROR := by
  rcases (isodep_error_kind (isoPeer cfg) F pcd cmd w hm hcmd hfl).1 e h with rfl | h' | h' | h'
  · exact absurd h (isodep_terminates cfg W F pcd cmd w hs hm hcmd hfuel)
  · exact Or.inl h'
  · exact Or.inr (Or.inl h')
  · exact Or.inr (Or.inr h')

/-- **Absorbed faults.** If the fault script (over the whole exchange: all command blocks, S(WTX) exchanges and response
blocks) contains `k` lost / corrupted / empty blocks with `2k ≤ n_retry + 1` and no reader protocol error, the exchange
succeeds and returns the card's response.  The bound is exact for the code as written: the retransmission of an I-block
after R(ACK) advances the retry counter as well, so a fault can cost two counts; `k ≤ n_retry` is *not* enough
(`isodep_absorbs_bound_tight`). -/
theorem isodep_absorbs (cfg : CardCfg) (W F : Nat) (pcd : Pcd) (cmd : Bytes) (w : World Card)
    (hs : SessInv pcd w.card) (hf : pcd.failed = none) (hm : 0 < pcd.miu) (hcmd : cmd ≠ [])
    (hfuel : FuelEnough cfg W F pcd cmd w) (hnp : Fault.p ∉ w.script)
    (hk1 : 2 * nfaults w.script ≤ pcd.nNak + 1) (hk2 : 2 * nfaults w.script ≤ pcd.nAck + 1) :
    (exchange (isoPeer cfg) F pcd cmd w).2.2 = .ok (cfg.app w.card.log.length cmd) := by
  obtain ⟨hp, hsync⟩ := hs hf
  obtain ⟨h1, h2, h3, h4, h5, h6, h7, h8⟩ := hfuel
  have hl := (exchangeCmd_live cfg W F pcd cmd w pcd.miu.toNat (by omega) (by omega) hcmd hp hsync h1 h2 h3 h4 h5 h6 h7 h8).2
    hnp ⟨hk1, hk2⟩
  obtain ⟨⟨d, hd⟩, _⟩ := hl
  rw [← (exchange_unfailed _ F pcd cmd w hf).1] at hd
  rw [hd, (isodep_response_exact cfg F pcd cmd w hs d hd).1]

/-- 3 faults with the maximal budget 5 (2k-1 = 5): absorbed -/
example : (exchange (isoPeer ⟨8, 1, 0, 0, 3, fun n c => c ++ [n, 0x90, 0]⟩) 14 { pni := 0, miu := 13, nNak := 5, nAck := 5 }
    [1, 2] ⟨Card.init, [.l, .d, .d, .l, .d, .d, .d, .c], []⟩).2.2 = .ok [1, 2, 0, 0x90, 0] := by decide

/-- the bound is tight: budget 2, two faults (`2k = 4 > n + 1`): the I-block is lost, R(NAK) is answered by R(ACK), the
I-block is retransmitted at count 3 and its answer is lost - `Type4TagCommandError` although only two blocks were lost -/
theorem isodep_absorbs_bound_tight :
    (exchange (isoPeer ⟨8, 0, 0, 0, 3, fun n c => c ++ [n, 0x90, 0]⟩) 14 { pni := 0, miu := 13, nNak := 2, nAck := 2 }
      [1, 2] ⟨Card.init, [.l, .d, .d, .d, .l], []⟩).2.2 = .error (.tagCmd TIMEOUT_ERROR) := by decide

/-- **Block bound.** With `miu = FSC - 3` every block handed to the reader during the exchange - I-blocks,
R(ACK), R(NAK) and S(WTX) responses - is at most `FSC - 2` octets, i.e. fits the card's frame size with
its two CRC octets. -/
theorem isodep_block_bound (cfg : CardCfg) (F : Nat) (pcd : Pcd) (cmd : Bytes) (w : World Card) (fsc : Nat)
    (hfsc : 4 ≤ fsc) (hmiu : pcd.miu = (fsc : Int) - 3) (hcmd : cmd ≠ []) (hs : SessInv pcd w.card) :
    ∀ b ∈ (exchange (isoPeer cfg) F pcd cmd w).1.trace, b ∈ w.trace ∨ b.length + 2 ≤ fsc := by
  unfold exchange
  cases hf : pcd.failed with
  | some e => intro b hb; exact Or.inl hb
  | none =>
    obtain ⟨hp, hsync⟩ := hs hf
    have := exchangeCmd_post cfg F pcd cmd w (fsc - 3) (by omega) (by omega) hcmd hp hsync
      (fun b => b ∈ w.trace ∨ b.length + 2 ≤ fsc) (fun b hb => Or.inr (by omega)) (fun b hb => Or.inl hb)
    have h1 := this.1
    simp only
    generalize exchangeCmd (isoPeer cfg) F pcd cmd w = r at h1 ⊢
    obtain ⟨w1, p1, res⟩ := r
    cases res with
    | ok x => exact h1
    | error e => cases e <;> exact h1

/-- the frame size of the card after clamping to the device limit, FSCI 0..8 and RFU values -/
theorem isodep_block_bound_derived (cfg : CardCfg) (F : Nat) (fsci fwi maxSend : Nat) (cmd : Bytes)
    (script : List Fault) (hdev : 4 ≤ maxSend) (hcmd : cmd ≠ []) :
    ∀ b ∈ (exchange (isoPeer cfg) F (mkPcd fsci fwi maxSend) cmd ⟨Card.init, script, []⟩).1.trace,
      b.length + 2 ≤ maxSend ∧ b.length + 2 ≤ fscTable.getD (min fsci 8) 256 := by
  intro b hb
  have hmin : (if fsci > 8 then 8 else fsci) = min fsci 8 := by split <;> omega
  have htab : ∀ i, i < 9 → 16 ≤ fscTable.getD i 256 := by decide
  have h16 := htab (min fsci 8) (by omega)
  have hle1 : deriveFsc fsci maxSend ≤ maxSend := by unfold deriveFsc; simp only [hmin]; split <;> omega
  have hle2 : deriveFsc fsci maxSend ≤ fscTable.getD (min fsci 8) 256 := by
    unfold deriveFsc; simp only [hmin]; split <;> omega
  have hge : 4 ≤ deriveFsc fsci maxSend := by unfold deriveFsc; simp only [hmin]; split <;> omega
  have := isodep_block_bound cfg F (mkPcd fsci fwi maxSend) cmd ⟨Card.init, script, []⟩ (deriveFsc fsci maxSend)
    hge rfl hcmd (sess_init fsci fwi maxSend) b hb
  rcases this with h | h
  · simp at h
  · omega

example : ∀ b ∈ (exchange (isoPeer ⟨13, 1, 0, 0, 3, fun n c => c ++ [n, 0x90, 0]⟩) 20 (mkPcd 0 4 256)
    (List.range 30) ⟨Card.init, [.d, .l], []⟩).1.trace, b.length + 2 ≤ 16 := by decide

/-- **FSC / FWT derivation.** FSCI indexes the ISO table (RFU values 9..15 read as 8 = 256 octets), the result is
clamped to the device limit; the retry budget is `min(int(1/FWT), 5)` with `FWT = 4096/13.56 MHz * 2^FWI`
(FWI 15 read as 4): 5 for FWI ≤ 9, 3 for FWI 10, 1 for FWI 11, none from FWI 12 on. -/
theorem fsc_fwt_derivation (fsci fwi maxSend : Nat) :
    deriveFsc fsci maxSend = min (fscTable.getD (min fsci 8) 256) maxSend ∧
    fscTable.getD (min fsci 8) 256 ∈ fscTable ∧
    (mkPcd fsci fwi maxSend).miu = (deriveFsc fsci maxSend : Int) - 3 ∧
    (mkPcd fsci fwi maxSend).pni = 0 ∧
    (mkPcd fsci fwi maxSend).nNak = deriveRetry fwi ∧ (mkPcd fsci fwi maxSend).nAck = deriveRetry fwi ∧
    deriveRetry fwi ≤ 5 ∧
    (fwi ≤ 9 ∨ fwi = 15 → deriveRetry fwi = 5) ∧ (fwi = 10 → deriveRetry fwi = 3) ∧
    (fwi = 11 → deriveRetry fwi = 1) ∧ (12 ≤ fwi ∧ fwi ≤ 14 → deriveRetry fwi = 0) ∧
    (16 ≤ maxSend → 13 ≤ (mkPcd fsci fwi maxSend).miu) := by
  have hmin : (if fsci > 8 then 8 else fsci) = min fsci 8 := by split <;> omega
  have htab : ∀ i, i < 9 → fscTable.getD i 256 ∈ fscTable ∧ 16 ≤ fscTable.getD i 256 := by decide
  have ht := htab (min fsci 8) (by omega)
  have hfsc : deriveFsc fsci maxSend = min (fscTable.getD (min fsci 8) 256) maxSend := by
    unfold deriveFsc; simp only [hmin]; split <;> omega
  have hretry : ∀ k, k < 15 → min (13560000 / (4096 * 2 ^ k)) 5 ≤ 5 ∧ (k ≤ 9 → min (13560000 / (4096 * 2 ^ k)) 5 = 5) ∧
      (k = 10 → min (13560000 / (4096 * 2 ^ k)) 5 = 3) ∧ (k = 11 → min (13560000 / (4096 * 2 ^ k)) 5 = 1) ∧
      (12 ≤ k → min (13560000 / (4096 * 2 ^ k)) 5 = 0) := by decide
  have hfwi : deriveFwi fwi < 15 := by unfold deriveFwi; split <;> omega
  have hr := hretry (deriveFwi fwi) hfwi
  refine ⟨hfsc, ht.1, rfl, rfl, rfl, rfl, hr.1, ?_, ?_, ?_, ?_, ?_⟩
  · intro h
    have : deriveFwi fwi ≤ 9 := by unfold deriveFwi; split <;> omega
    exact hr.2.1 this
  · intro h; exact hr.2.2.1 (by unfold deriveFwi; split <;> omega)
  · intro h; exact hr.2.2.2.1 (by unfold deriveFwi; split <;> omega)
  · intro h; exact hr.2.2.2.2 (by unfold deriveFwi; split <;> omega)
  · intro h
    show 13 ≤ (deriveFsc fsci maxSend : Int) - 3
    omega

example : mkPcd 2 11 24 = { pni := 0, miu := 21, nNak := 1, nAck := 1 } := by decide
theorem t0_bits : ∀ (f : Fin 16) (a b c : Bool),
    ((f.val ||| (if a then 0x10 else 0) ||| (if b then 0x20 else 0) ||| (if c then 0x40 else 0)) &&& 0x0F = f.val) ∧
    (((f.val ||| (if a then 0x10 else 0) ||| (if b then 0x20 else 0) ||| (if c then 0x40 else 0)) &&& 0x10 ≠ 0) ↔ a = true) ∧
    (((f.val ||| (if a then 0x10 else 0) ||| (if b then 0x20 else 0) ||| (if c then 0x40 else 0)) &&& 0x20 ≠ 0) ↔ b = true) := by
  decide

/-- **ATS evaluation (Type 4A).** For every Answer To Select laid out as in ISO/IEC 14443-4 - FSCI 0..15 in T0, any
subset of TA(1), TB(1), TC(1) present, any historical bytes - activation derives the parameters from the FSCI
announced in T0 and from the FWI in TB(1), or FWI 4 when TB(1) is absent. -/
theorem ats_derivation (fsci : Nat) (hf : fsci < 16) (ta tb tc : Option Nat) (hist : Bytes) (maxSend : Nat) :
    activateA (mkAts fsci ta tb tc hist) maxSend =
      .ok (mkPcd fsci (match tb with | some b => b >>> 4 | none => 4) maxSend) := by
  obtain ⟨h1, h2, h3⟩ := t0_bits ⟨fsci, hf⟩ ta.isSome tb.isSome tc.isSome
  simp only at h1 h2 h3
  unfold activateA mkAts
  simp only [List.getElem?_cons_succ, List.getElem?_cons_zero, h1]
  cases ta <;> cases tb <;> cases tc <;> simp_all

/-- an ATS that consists of the length byte only: the defaults FSCI 2 (32 octets) and FWI 4 -/
theorem ats_tl_only (maxSend : Nat) : activateA [1] maxSend = .ok (mkPcd 2 4 maxSend) := rfl

/-- **Block bound after a Type 4A activation**: whatever the shape of the ATS, every block of a following exchange fits
the frame size the card announced in T0 (and the device limit). -/
theorem isodep_block_bound_ats (cfg : CardCfg) (F : Nat) (fsci : Nat) (hf : fsci < 16) (ta tb tc : Option Nat)
    (hist : Bytes) (maxSend : Nat) (cmd : Bytes) (script : List Fault) (hdev : 4 ≤ maxSend) (hcmd : cmd ≠ []) :
    ∃ pcd, activateA (mkAts fsci ta tb tc hist) maxSend = .ok pcd ∧
      ∀ b ∈ (exchange (isoPeer cfg) F pcd cmd ⟨Card.init, script, []⟩).1.trace,
        b.length + 2 ≤ maxSend ∧ b.length + 2 ≤ fscTable.getD (min fsci 8) 256 :=
  ⟨_, ats_derivation fsci hf ta tb tc hist maxSend,
    isodep_block_bound_derived cfg F fsci _ maxSend cmd script hdev hcmd⟩

example : activateA [2, 0x00] 256 = .ok { pni := 0, miu := 13, nNak := 5, nAck := 5 } := by decide
example : activateA (mkAts 1 none (some 0xB0) (some 2) [0x80, 0x01]) 256 = .ok { pni := 0, miu := 21, nNak := 1, nAck := 1 } := by decide
example : activateA [5, 0x78, 0x80, 0x70, 0x02] 256 = .ok { pni := 0, miu := 253, nNak := 5, nAck := 5 } := by decide

end NfcVerif.C12
