import NfcVerif.Lemmas.ExcFlow
import NfcVerif.Gen.ClassTree
import NfcVerif.Gen.ExcFlow
/-!
# Exception flow of the current nfcpy source (T-tie for "only documented exceptions escape")

Common part; the instance theorems are in `Props/ExcFlowTags.lean` (C16, C12), `ExcFlowNdef.lean` (C08, C16),
`ExcFlowDrivers.lean` (C13), `ExcFlowClf.lean` (C18, C09), `ExcFlowLlc.lean` (C07, C09) - one module per group so
that a statement that stops holding breaks only the checks that use it.

`Gen/ClassTree.lean` and `Gen/ExcFlow.lean` are regenerated from `/repo/src/nfc` by
`harness/translate_exc.py` on every run of a check that calls `excflow.run`; every theorem below is
therefore re-checked (kernel evaluation of `escapesWithin` / `canEscape` on the regenerated terms)
against what the code says now.  The generic part (`Lemmas/ExcFlow.lean`) is proved once:

* `Only f allowed` (`EscapesOnly`): for **every** behaviour of the primitive call sites that stays within
  the assumption table `Gen.ExcFlow.table` (site `k` raises only classes below a class listed for `k`;
  unlisted sites raise anything), an exception that leaves an execution of the translated function `f` -
  translated callees are executed, not assumed - is a subclass of one of `allowed`.
* `Can f c` (`CanEscape`): there **is** such a behaviour and an execution of `f` that ends with exception `c`
  (in the abstract semantics: branches and loop counts are free).  Used as non-vacuity witness ("the
  handler that turns X into Y is reached") and to state what the current code does *not* guarantee.

What an instance theorem does not say: exceptions raised implicitly by data operations (an index out of
range, `struct.error`, `.index()` ...) are not call sites of the table and are outside this analysis; they
are the subject of the executable models of the same properties.
-/
namespace NfcVerif.ExcFlowProps
open NfcVerif.ExcFlow NfcVerif.Gen.ClassTree NfcVerif.Gen.ExcFlow

/-- the generated class tree lists every class before its bases: `sub` is `issubclass` on it -/
theorem tree_ordered : ordered world.tree = true := by decide +kernel

/-- the two classes the semantics refers to are the ones the generated names say -/
theorem world_names : names.lookup world.top = some "BaseException" ∧ names.lookup world.rte = some "RuntimeError" ∧
    names.lookup Cls.AssertionError = some "AssertionError" := by decide +kernel

abbrev Only (f : Site) (allowed : List Cls) : Prop := EscapesOnly world table prog f allowed
abbrev Can (f : Site) (c : Cls) : Prop := CanEscape world table prog f c

/-- all statements of a checked list -/
theorem only_all {specs : List (Site × List Cls)} (h : checkOnly world table prog specs = true) :
    ∀ fa ∈ specs, Only fa.1 fa.2 :=
  fun fa hm => escapesOnly_of_checkOnly tree_ordered h (by cases fa; exact hm)

/-- the same with a host link that may fail: `clf.exchange` / `clf.sense` may also raise `IOError` -/
def tableIO : List (Site × List Cls) :=
  [(Site.self_clf_exchange, [Cls.clf_CommunicationError, Cls.OSError]),
   (Site.clf_exchange, [Cls.clf_CommunicationError, Cls.OSError]),
   (Site.self_clf_sense, [Cls.OSError]), (Site.clf_sense, [Cls.OSError])] ++ table
abbrev OnlyIO (f : Site) (allowed : List Cls) : Prop := EscapesOnly world tableIO prog f allowed

/-- unfolding of `Only`: the statement about `Runs` on the generated body -/
theorem only_iff_runs {f : Site} {body : Stmt} {rest : Prog} (h : progFrom f prog = (f, body) :: rest)
    (allowed : List Cls) :
    Only f allowed ↔ ∀ prim : Site → Cls → Prop, Respects world prim (lookupAbs world table) →
      ∀ c, Runs world (link world prim rest) none body (.raised c) → ∃ A, A ∈ allowed ∧ Below world.tree c A := by
  constructor
  · intro ho prim hp c hr
    exact ho prim hp c ((link_at prim prog h c).mpr hr)
  · intro ho prim hp c hl
    exact ho prim hp c ((link_at prim prog h c).mp hl)

/-! ## sanity of the machinery on hand-written programs -/

section examples
open Stmt Handlers

/-- a concrete derivation: three attempts fail with `TimeoutError`, the `else` clause raises the tag error -/
example : Runs world (fun k c => k = 7 ∧ c = Cls.clf_TimeoutError) none
    (loop (tryExcept (seq (call 7) brk) (.cons [Cls.clf_CommunicationError] skip .nil) skip)
      (raise Cls.tag_tt2_Type2TagCommandError))
    (.raised Cls.tag_tt2_Type2TagCommandError) := by
  have hsel : Selects world.tree Cls.clf_TimeoutError (.cons [Cls.clf_CommunicationError] skip .nil) (some skip) :=
    .hit ⟨_, List.mem_singleton.mpr rfl, (sub_iff_below tree_ordered _ _).mp (by decide +kernel)⟩
  have step : Runs world (fun k c => k = 7 ∧ c = Cls.clf_TimeoutError) none
      (tryExcept (seq (call 7) brk) (.cons [Cls.clf_CommunicationError] skip .nil) skip) .normal :=
    .tryCaught (.seqStop (.callRaise ⟨rfl, rfl⟩) (by simp)) hsel .skip
  exact .loopNext step (.inl rfl) (.loopNext step (.inl rfl) (.loopNext step (.inl rfl) (.loopEnd .raise)))

def tbl0 : List (Site × List Cls) := [(7, [Cls.clf_CommunicationError])]
-- handlers are tried in order and a subclass handler placed after its base class is dead
example : escapesWithin world tbl0 [(1, tryExcept (call 7) (.cons [Cls.clf_CommunicationError] skip
    (.cons [Cls.clf_TimeoutError] (raise Cls.SystemExit) .nil)) skip)] 1 [] = true := by decide +kernel
example : canEscape world tbl0 [(1, tryExcept (call 7) (.cons [Cls.clf_TimeoutError] (raise Cls.SystemExit)
    (.cons [Cls.clf_CommunicationError] skip .nil)) skip)] 1 Cls.SystemExit = true := by decide +kernel
-- `finally` runs on the exceptional exit and its `return` swallows the exception
example : escapesWithin world tbl0 [(1, tryFinally (call 7) ret)] 1 [] = true := by decide +kernel
example : canEscape world tbl0 [(1, tryFinally (call 7) skip)] 1 Cls.clf_BrokenLinkError = true := by decide +kernel
-- an exception raised in a handler replaces the handled one; bare `raise` re-raises it
example : escapesWithin world tbl0 [(1, tryExcept (call 7) (.cons [Cls.clf_Error] (raise Cls.OSError) .nil) skip)] 1
    [Cls.OSError] = true := by decide +kernel
example : canEscape world tbl0 [(1, tryExcept (call 7) (.cons [Cls.clf_Error] reraise .nil) skip)] 1
    Cls.clf_ProtocolError = true := by decide +kernel
-- the `else` clause is not protected by the handlers
example : canEscape world tbl0 [(1, tryExcept skip (.cons [Cls.BaseException] skip .nil) (call 7))] 1
    Cls.clf_TimeoutError = true := by decide +kernel
-- an untranslatable statement or an unknown site may raise anything
example : canEscape world tbl0 [(1, other "exec(code)")] 1 Cls.KeyboardInterrupt = true := by decide +kernel
example : canEscape world tbl0 [(1, call 99)] 1 Cls.SystemExit = true := by decide +kernel
-- a translated callee is executed: its handlers count
example : escapesWithin world tbl0 [(2, call 1), (1, tryExcept (call 7) (.cons [Cls.clf_Error] ret .nil) skip)] 2 [] = true := by
  decide +kernel
end examples

end NfcVerif.ExcFlowProps
