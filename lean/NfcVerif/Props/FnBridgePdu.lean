import NfcVerif.Lemmas.FnBridgePdu
import NfcVerif.Lemmas.PduSafe
import NfcVerif.Lemmas.PduRound
/-!
# Bridge theorems, group Pdu (`nfc/llcp/pdu.py` -> `Gen/FnPdu.lean` -> `Model/Pdu.lean`; C11, C10, C07)

Encodings stated in the theorems:
* offsets, sizes and field values are naturals in the model and (non-negative) Python ints in the source:
  `(n : Int)` casts on the arguments, `i2`/`i4` on results;
* a constructor call `Cls(a, b, ..)` of the source is the tuple of its arguments in `Gen/FnPdu.lean`
  (`__init__` is not translated) and the constructor `SPdu.cls a b ..` of the model;
* `self.ptype` is an argument of the regenerated encoders; the theorems instantiate it with the constant
  the class constructor passes to the base class (0 SYMM, 3 UI, 5 DISC, 7 DM, 8 FRMR, 12 I, 13 RR, 14 RNR);
* `Parameter.decode` returns values of different Python types: `PyFn.Val`, related to the model's `TlvV` by `encV`;
* `Parameter.encode` is translated once per value type (int, octet string, `(tid, sn)`, `(tid, sap)`).
-/
namespace NfcVerif.FnBridge.Pdu
open NfcVerif NfcVerif.PyFn NfcVerif.Pdu NfcVerif.Pdu.Impl

/-- `ProtocolDataUnit.decode_header(data, offset, size)` -/
theorem decode_header_bridge (d : Bytes) (off size : Nat) :
    Gen.Fn.pdu_decode_header d off (some (size : Int)) = decodeHeader d off size >>= fun p => .ok (i2 p) := by
  unfold Gen.Fn.pdu_decode_header decodeHeader
  simp only [unpackBB_eq]
  py_bits
  by_cases hs : size < 2
  · simp [hs]
  · by_cases hl : off + 2 ≤ d.length
    · simp only [hs, hl, if_true, if_false]; py_bits; rfl
    · simp [hs, hl]

example : Gen.Fn.pdu_decode_header [0x11, 0x20] 0 (some 2) = .ok (4, 32) := by decide +kernel
example : Gen.Fn.pdu_decode_header [0x11] 0 (some 2) = .error .struct := by decide +kernel

/-- `NumberedProtocolDataUnit.decode_header` -/
theorem decode_header_n_bridge (d : Bytes) (off size : Nat) :
    Gen.Fn.pdu_decode_header_n d off (some (size : Int)) = decodeHeaderN d off size >>= fun p => .ok (i4 p) := by
  unfold Gen.Fn.pdu_decode_header_n decodeHeaderN
  simp only [unpackBBB_eq]
  py_bits
  by_cases hs : size < 3
  · simp [hs]
  · by_cases hl : off + 3 ≤ d.length
    · simp only [hs, hl, if_true, if_false]; py_bits; rfl
    · simp [hs, hl]

example : Gen.Fn.pdu_decode_header_n [0x13, 0x20, 0x5A] 0 (some 3) = .ok (4, 32, 5, 10) := by decide +kernel

/-- `ProtocolDataUnit.encode_header` for non-negative field values (the model's domain) -/
theorem encode_header_bridge (ptype dsap ssap : Nat) :
    Gen.Fn.pdu_encode_header ptype dsap ssap = encodeHeader ptype dsap ssap := by
  unfold Gen.Fn.pdu_encode_header encodeHeader orShl
  py_bits
  simp only [← Nat.shiftLeft_eq, pack_Hbe, Nat.or_assoc]
  have h1 : ¬ (dsap < 0 ∨ ssap < 0) := by omega
  simp only [or_self, if_false, h1, gt_iff_lt]

example : Gen.Fn.pdu_encode_header 4 16 32 = .ok [0x41, 0x20] := by decide +kernel
example : Gen.Fn.pdu_encode_header 4 64 32 = .error .encodeError := by decide +kernel

/-- `NumberedProtocolDataUnit.encode_header` -/
theorem encode_header_n_bridge (ptype dsap ssap ns nr : Nat) :
    Gen.Fn.pdu_encode_header_n ptype dsap ssap ns nr = encodeHeaderN ptype dsap ssap ns nr := by
  unfold Gen.Fn.pdu_encode_header_n encodeHeaderN orShl
  rw [encode_header_bridge]
  cases encodeHeader ptype dsap ssap with
  | error e => rfl
  | ok h =>
    py_bits
    simp only [← Nat.shiftLeft_eq, pack_B1]
    have h1 : ¬ (ns < 0 ∨ nr < 0) := by omega
    simp only [or_self, if_false, h1, gt_iff_lt]
    by_cases h2 : 15 < ns ∨ 15 < nr
    · simp [h2]
    · have : ¬ 255 < ns <<< 4 ||| nr := by
        have a : ns <<< 4 < 2 ^ 8 := by rw [Nat.shiftLeft_eq]; omega
        have b : nr < 2 ^ 8 := by omega
        have := Nat.or_lt_two_pow a b
        omega
      simp [h2, this]

example : Gen.Fn.pdu_encode_header_n 12 16 32 5 10 = .ok [0x43, 0x20, 0x5A] := by decide +kernel

/-- `Symmetry.decode`; the constructor call `Symmetry(dsap, ssap)` is the model's `SPdu.symm dsap ssap` (likewise below) -/
theorem symm_decode_bridge (d : Bytes) (off size : Nat) :
    (Gen.Fn.pdu_symm_decode d off size >>= fun r => .ok (SPdu.symm r.1.toNat r.2.toNat)) = decSymm d off size := by
  unfold Gen.Fn.pdu_symm_decode decSymm
  rw [decode_header_bridge]
  cases decodeHeader d off size with
  | error e => rfl
  | ok p =>
    obtain ⟨a, b⟩ := p
    simp only [i2]
    py_bits
    by_cases h1 : (¬a = 0 ∨ ¬b = 0) <;> by_cases h2 : 3 ≤ size <;> simp [h1, h2]

example : Gen.Fn.pdu_symm_decode [0, 0] 0 2 = .ok (0, 0) := by decide +kernel

theorem disc_decode_bridge (d : Bytes) (off size : Nat) :
    (Gen.Fn.pdu_disc_decode d off size >>= fun r => .ok (SPdu.disc r.1.toNat r.2.toNat)) = decDisc d off size := by
  unfold Gen.Fn.pdu_disc_decode decDisc
  rw [decode_header_bridge]
  cases decodeHeader d off size with
  | error e => rfl
  | ok p => obtain ⟨a, b⟩ := p; simp [i2]

theorem dm_decode_bridge (d : Bytes) (off size : Nat) :
    (Gen.Fn.pdu_dm_decode d off size >>= fun r => .ok (SPdu.dm r.1.toNat r.2.1.toNat r.2.2.toNat)) = decDm d off size := by
  unfold Gen.Fn.pdu_dm_decode decDm
  rw [decode_header_bridge]
  py_bits
  by_cases hs : size = 3
  · simp only [hs, not_true, if_false]
    cases decodeHeader d off 3 with
    | error e => rfl
    | ok p =>
      obtain ⟨a, b⟩ := p
      simp only [i2, unpackB_eq]
      py_bits
      by_cases hl : off + 2 + 1 ≤ d.length
      · simp only [hl, if_true, Py.bind_ok]; py_bits; py_done
      · simp only [hl, if_false, Py.bind_error]
  · simp [hs]

example : Gen.Fn.pdu_dm_decode [0x11, 0xE0, 0x02] 0 3 = .ok (4, 32, 2) := by decide +kernel

theorem frmr_decode_bridge (d : Bytes) (off size : Nat) :
    (Gen.Fn.pdu_frmr_decode d off size >>= fun r => .ok (SPdu.frmr r.1.toNat r.2.1.toNat r.2.2.1.toNat r.2.2.2.1.toNat
      r.2.2.2.2.1.toNat r.2.2.2.2.2.1.toNat r.2.2.2.2.2.2.1.toNat r.2.2.2.2.2.2.2.1.toNat r.2.2.2.2.2.2.2.2.1.toNat
      r.2.2.2.2.2.2.2.2.2.toNat)) = decFrmr d off size := by
  unfold Gen.Fn.pdu_frmr_decode decFrmr
  rw [decode_header_bridge]
  py_bits
  by_cases hs : size = 6
  · simp only [hs, not_true, if_false]
    cases decodeHeader d off 6 with
    | error e => rfl
    | ok p =>
      obtain ⟨a, b⟩ := p
      simp only [i2, unpackBBBB_eq]
      py_bits
      by_cases hl : off + 2 + 4 ≤ d.length
      · simp only [hl, if_true, Py.bind_ok]; py_bits; py_done
      · simp only [hl, if_false, Py.bind_error]
  · simp [hs]

example : Gen.Fn.pdu_frmr_decode [0x12, 0x20, 0x8C, 0x12, 0x34, 0x56] 0 6 = .ok (4, 32, 8, 12, 1, 2, 3, 4, 5, 6) := by rfl

theorem ui_decode_bridge (d : Bytes) (off size : Nat) :
    (Gen.Fn.pdu_ui_decode d off size >>= fun r => .ok (SPdu.ui r.1.toNat r.2.1.toNat (r.2.2.getD []))) = decUi d off size := by
  unfold Gen.Fn.pdu_ui_decode decUi
  rw [decode_header_bridge]
  cases decodeHeader d off size with
  | error e => rfl
  | ok p => obtain ⟨a, b⟩ := p; simp only [i2]; py_bits; py_done

example : Gen.Fn.pdu_ui_decode [0x10, 0xE0, 1, 2, 3] 0 5 = .ok (4, 32, some [1, 2, 3]) := by decide +kernel

theorem i_decode_bridge (d : Bytes) (off size : Nat) :
    (Gen.Fn.pdu_i_decode d off size >>= fun r => .ok (SPdu.info r.1.toNat r.2.1.toNat (r.2.2.1.getD 0).toNat
      (r.2.2.2.1.getD 0).toNat (r.2.2.2.2.getD []))) = decInfo d off size := by
  unfold Gen.Fn.pdu_i_decode decInfo
  rw [decode_header_n_bridge]
  cases decodeHeaderN d off size with
  | error e => rfl
  | ok p => obtain ⟨a, b, c, e⟩ := p; simp only [i4]; py_bits; py_done

example : Gen.Fn.pdu_i_decode [0x13, 0x20, 0x5A, 9] 0 4 = .ok (4, 32, some 5, some 10, some [9]) := by rfl

theorem rr_decode_bridge (d : Bytes) (off size : Nat) :
    (Gen.Fn.pdu_rr_decode d off size >>= fun r => .ok (SPdu.rr r.1.toNat r.2.1.toNat (r.2.2.getD 0).toNat)) = decRr d off size := by
  unfold Gen.Fn.pdu_rr_decode decRr
  rw [decode_header_n_bridge]
  cases decodeHeaderN d off size with
  | error e => rfl
  | ok p => obtain ⟨a, b, c, e⟩ := p; simp [i4]

theorem rnr_decode_bridge (d : Bytes) (off size : Nat) :
    (Gen.Fn.pdu_rnr_decode d off size >>= fun r => .ok (SPdu.rnr r.1.toNat r.2.1.toNat r.2.2.toNat)) = decRnr d off size := by
  unfold Gen.Fn.pdu_rnr_decode decRnr
  rw [decode_header_n_bridge]
  cases decodeHeaderN d off size with
  | error e => rfl
  | ok p => obtain ⟨a, b, c, e⟩ := p; simp [i4]

/-- `UnknownProtocolDataUnit.decode`; needs octets (`IsBytes`): the model adds where the code ORs -/
theorem unknown_decode_bridge (d : Bytes) (hd : IsBytes d) (off size : Nat) :
    (Gen.Fn.pdu_unknown_decode d off size >>= fun r => .ok (SPdu.unknown r.1.toNat r.2.1.toNat r.2.2.1.toNat r.2.2.2))
      = decUnknown d off size := by
  unfold Gen.Fn.pdu_unknown_decode decUnknown
  rw [decode_header_bridge]
  cases decodeHeader d off size with
  | error e => rfl
  | ok p =>
    obtain ⟨a, b⟩ := p
    simp only [i2]
    py_bits
    simp only [getB_nat, idxN_nat]
    by_cases h0 : off < d.length
    · by_cases h1 : off + 1 < d.length
      · simp only [h0, h1, if_true, Py.bind_ok]
        py_bits
        have hb : at0 d (off + 1) / 2 ^ 6 < 2 ^ 2 := by have := at0_lt_256 hd (off + 1); omega
        rw [← Nat.shiftLeft_eq, ← Nat.shiftLeft_add_eq_or_of_lt hb, Nat.shiftLeft_eq]
        py_done
      · simp only [h0, h1, if_true, if_false, Py.bind_ok, Py.bind_error]
    · simp only [h0, if_false, Py.bind_error]

example : Gen.Fn.pdu_unknown_decode [0x12, 0xE0, 7] 0 3 = .ok (11, 4, 32, [7]) := by decide +kernel

/-! ## encoders (the `ptype` attribute is the constant the class constructor passes to the base class) -/

theorem symm_encode_bridge (dsap ssap : Nat) : Gen.Fn.pdu_symm_encode 0 dsap ssap = encodeS (.symm dsap ssap) := by
  unfold Gen.Fn.pdu_symm_encode
  simp only [encodeS]
  have := encode_header_bridge 0 dsap ssap
  simp only [Int.natCast_zero] at this
  rw [this]; py_bits

theorem disc_encode_bridge (dsap ssap : Nat) : Gen.Fn.pdu_disc_encode 5 dsap ssap = encodeS (.disc dsap ssap) := by
  unfold Gen.Fn.pdu_disc_encode
  simp only [encodeS]
  exact encode_header_bridge 5 dsap ssap

theorem dm_encode_bridge (dsap ssap reason : Nat) :
    Gen.Fn.pdu_dm_encode 7 dsap ssap reason = encodeS (.dm dsap ssap reason) := by
  unfold Gen.Fn.pdu_dm_encode
  simp only [encodeS, packB]
  rw [show (7 : Int) = ((7 : Nat) : Int) from rfl, encode_header_bridge, pack_B1]
  cases encodeHeader 7 dsap ssap with
  | error e => rfl
  | ok h => simp only [Py.bind_ok]; split <;> rfl

example : Gen.Fn.pdu_dm_encode 7 4 32 256 = .error .struct := by decide +kernel

theorem frmr_encode_bridge (dsap ssap flags ptype ns nr vs vr vsa vra : Nat) :
    Gen.Fn.pdu_frmr_encode 8 dsap ssap flags ptype ns nr vs vr vsa vra
      = encodeS (.frmr dsap ssap flags ptype ns nr vs vr vsa vra) := by
  unfold Gen.Fn.pdu_frmr_encode
  simp only [encodeS, orShl]
  rw [show (8 : Int) = ((8 : Nat) : Int) from rfl, encode_header_bridge]
  cases encodeHeader 8 dsap ssap with
  | error e => rfl
  | ok h =>
    py_bits
    simp only [← Nat.shiftLeft_eq, pack_BBBB]
    split <;> rfl

example : Gen.Fn.pdu_frmr_encode 8 4 32 8 12 1 2 3 4 5 6 = .ok [0x12, 0x20, 0x8C, 0x12, 0x34, 0x56] := by decide +kernel

theorem ui_encode_bridge (dsap ssap : Nat) (data : Bytes) :
    Gen.Fn.pdu_ui_encode 3 dsap ssap data = encodeS (.ui dsap ssap data) := by
  unfold Gen.Fn.pdu_ui_encode
  simp only [encodeS]
  rw [show (3 : Int) = ((3 : Nat) : Int) from rfl, encode_header_bridge]; rfl

theorem i_encode_bridge (dsap ssap ns nr : Nat) (data : Bytes) :
    Gen.Fn.pdu_i_encode 12 dsap ssap ns nr data = encodeS (.info dsap ssap ns nr data) := by
  unfold Gen.Fn.pdu_i_encode
  simp only [encodeS]
  rw [show (12 : Int) = ((12 : Nat) : Int) from rfl, encode_header_n_bridge]; rfl

theorem rr_encode_bridge (dsap ssap nr : Nat) : Gen.Fn.pdu_rr_encode 13 dsap ssap 0 nr = encodeS (.rr dsap ssap nr) := by
  unfold Gen.Fn.pdu_rr_encode
  simp only [encodeS]
  exact encode_header_n_bridge 13 dsap ssap 0 nr

theorem rnr_encode_bridge (dsap ssap nr : Nat) : Gen.Fn.pdu_rnr_encode 14 dsap ssap 0 nr = encodeS (.rnr dsap ssap nr) := by
  unfold Gen.Fn.pdu_rnr_encode
  simp only [encodeS]
  exact encode_header_n_bridge 14 dsap ssap 0 nr

theorem unknown_encode_bridge (ptype dsap ssap : Nat) (payload : Bytes) :
    Gen.Fn.pdu_unknown_encode ptype dsap ssap payload = encodeS (.unknown ptype dsap ssap payload) := by
  unfold Gen.Fn.pdu_unknown_encode
  simp only [encodeS]
  rw [encode_header_bridge]; rfl

theorem ui_len_bridge (dsap ssap : Nat) (data : Bytes) : Gen.Fn.pdu_ui_len data = (lenS (.ui dsap ssap data) : Nat) := by
  unfold Gen.Fn.pdu_ui_len; simp only [lenS]; py_bits

theorem i_len_bridge (dsap ssap ns nr : Nat) (data : Bytes) :
    Gen.Fn.pdu_i_len data = (lenS (.info dsap ssap ns nr data) : Nat) := by
  unfold Gen.Fn.pdu_i_len; simp only [lenS]; py_bits

/-! ## Parameter.encode -/

theorem param_encode_int_B (t v : Nat) (ht : t = 1 ∨ t = 4 ∨ t = 5 ∨ t = 7) :
    Gen.Fn.pdu_param_encode_int t v = encB t v := by
  unfold Gen.Fn.pdu_param_encode_int encB
  py_bits
  have h1 : (t = 1 ∨ t = 4 ∨ t = 5 ∨ t = 7) := ht
  have ht' : ¬ t > 255 := by omega
  simp only [h1, if_true, PyFn.pack, packField_B, ht']
  by_cases hv : v > 255 <;> simp [hv, wrapExc]

example : Gen.Fn.pdu_param_encode_int 5 15 = .ok [5, 1, 15] := by decide +kernel
example : Gen.Fn.pdu_param_encode_int 5 256 = .error .encodeError := by decide +kernel

theorem param_encode_int_H (t v : Nat) (ht : t = 2 ∨ t = 3) :
    Gen.Fn.pdu_param_encode_int t v = encH t v := by
  unfold Gen.Fn.pdu_param_encode_int encH
  py_bits
  have h0 : ¬ (t = 1 ∨ t = 4 ∨ t = 5 ∨ t = 7) := by omega
  have ht' : ¬ t > 255 := by omega
  simp only [h0, ht, if_true, if_false, PyFn.pack, packField_B, packField_Hbe, ht']
  by_cases hv : v > 65535 <;> simp [hv, wrapExc]

example : Gen.Fn.pdu_param_encode_int 2 0x7FF = .ok [2, 2, 7, 255] := by decide +kernel

theorem param_encode_bytes_S (t : Nat) (v : Bytes) (ht : t = 6 ∨ t = 10 ∨ t = 11) :
    Gen.Fn.pdu_param_encode_bytes t v = encS t v := by
  unfold Gen.Fn.pdu_param_encode_bytes encS
  py_bits
  have h0 : ¬ (t = 1 ∨ t = 4 ∨ t = 5 ∨ t = 7) := by omega
  have h1 : ¬ (t = 2 ∨ t = 3) := by omega
  have ht' : ¬ t > 255 := by omega
  simp only [h0, h1, ht, if_true, if_false, PyFn.pack, packField_B, ht']
  by_cases hv : 255 < v.length
  · simp [hv, wrapExc]
  · have : ¬ v.length > 255 := hv
    simp [hv, this, wrapExc]

example : Gen.Fn.pdu_param_encode_bytes 6 [0x75, 0x72] = .ok [6, 2, 0x75, 0x72] := by decide +kernel

theorem param_encode_sdreq_bridge (tid : Nat) (sn : Bytes) :
    Gen.Fn.pdu_param_encode_sdreq 8 ((tid : Int), sn) = encSdreq (tid, sn) := by
  unfold Gen.Fn.pdu_param_encode_sdreq encSdreq
  py_bits
  simp only [show ¬ ((8:Nat) = 1 ∨ (8:Nat) = 4 ∨ (8:Nat) = 5 ∨ (8:Nat) = 7) by omega, show ¬ ((8:Nat) = 2 ∨ (8:Nat) = 3) by omega,
    show ¬ ((8:Nat) = 6 ∨ (8:Nat) = 10 ∨ (8:Nat) = 11) by omega, if_true, if_false, PyFn.pack, packField_B]
  by_cases hv : 254 < sn.length
  · simp [hv, wrapExc]
  · have h2 : ¬ (1 + sn.length > 255) := by omega
    by_cases ht : tid > 255 <;> simp [hv, h2, ht, wrapExc]

example : Gen.Fn.pdu_param_encode_sdreq 8 (1, [0x75]) = .ok [8, 2, 1, 0x75] := by decide +kernel

theorem param_encode_sdres_bridge (tid sap : Nat) :
    Gen.Fn.pdu_param_encode_sdres 9 ((tid : Int), (sap : Int)) = encSdres (tid, sap) := by
  unfold Gen.Fn.pdu_param_encode_sdres encSdres
  py_bits
  simp only [show ¬ ((9:Nat) = 1 ∨ (9:Nat) = 4 ∨ (9:Nat) = 5 ∨ (9:Nat) = 7) by omega, show ¬ ((9:Nat) = 2 ∨ (9:Nat) = 3) by omega,
    show ¬ ((9:Nat) = 6 ∨ (9:Nat) = 10 ∨ (9:Nat) = 11) by omega, show ¬ ((9:Nat) = 8) by omega, if_true, if_false, PyFn.pack, packField_B]
  by_cases ht : tid > 255 <;> by_cases hs : sap > 255 <;> simp [ht, hs, wrapExc]

example : Gen.Fn.pdu_param_encode_sdres 9 (1, 16) = .ok [9, 2, 1, 16] := by decide +kernel

/-! ## Parameter.decode -/

/-- `Parameter.decode(data, offset)` for every octet string and offset; `encV` is the stated encoding of the
model's typed TLV value as the dynamically typed Python value -/
theorem param_decode_bridge (d : Bytes) (hd : IsBytes d) (off : Nat) :
    Gen.Fn.pdu_param_decode d off = paramDecode d off >>= fun r => .ok ((r.1 : Int), (r.2.1 : Int), encV r.2.2) := by
  unfold Gen.Fn.pdu_param_decode paramDecode structToDecode
  simp only [unpackBB_eq, unpackS]
  py_bits
  by_cases h1 : off + 2 ≤ d.length
  · simp only [h1, if_true, Py.bind_ok, Nat.not_lt_zero, if_false, Nat.zero_add]
    py_bits
    by_cases h2 : off + 2 + at0 d (off + 1) ≤ d.length
    · have h2' : off + 2 + (0 + at0 d (off + 1)) ≤ d.length := by omega
      simp only [h2, h2', if_true, Py.bind_ok, wrapExc, Nat.not_lt_zero, if_false]
      py_bits
      have hvl : ((d.drop (off + 2)).take (at0 d (off + 1))).length = at0 d (off + 1) := by
        rw [List.length_take, List.length_drop]; omega
      have hvb : IsBytes ((d.drop (off + 2)).take (at0 d (off + 1))) := isBytes_take (isBytes_drop hd _) _
      generalize (d.drop (off + 2)).take (at0 d (off + 1)) = v at hvl hvb ⊢
      generalize at0 d (off + 1) = l at hvl ⊢
      generalize at0 d off = t
      subst hvl
      have ite_cast : ∀ (c : Prop) [Decidable c] (a b : Nat), (if c then (a : Int) else (b : Int)) = ((if c then a else b : Nat) : Int) := by
        intro c _ a b; split <;> rfl
      have cls : t = 1 ∨ t = 2 ∨ t = 3 ∨ t = 4 ∨ t = 5 ∨ t = 7 ∨ t = 8 ∨ t = 9 ∨ (t ≠ 1 ∧ t ≠ 2 ∧ t ≠ 3 ∧ t ≠ 4 ∧ t ≠ 5 ∧ t ≠ 7 ∧ t ≠ 8 ∧ t ≠ 9) := by omega
      rcases cls with rfl | rfl | rfl | rfl | rfl | rfl | rfl | rfl | hne
      · -- VERSION
        by_cases hl : v.length = 1
        · obtain ⟨a, rfl⟩ := List.length_eq_one_iff.mp hl
          simp [unpackB, at0, encV]
        · simp [hl]
      · -- MIUX
        by_cases hl : v.length = 2
        · obtain ⟨a, b, rfl⟩ := len_two hl
          have ha : a < 256 := hvb a (by simp)
          have hb : b < 256 := hvb b (by simp)
          rw [ube_two [a, b] 0 (by simp)]
          simp only [band_ofNat, Int.natCast_inj, ite_cast, at0_cons_zero, at0_cons_succ, Nat.zero_add]
          rw [miux_mask (a * 256 + b) (by omega)]
          simp [unpackH, encV]
        · simp [hl]
      · -- WKS
        by_cases hl : v.length = 2
        · obtain ⟨a, b, rfl⟩ := len_two hl
          rw [ube_two [a, b] 0 (by simp)]
          simp [unpackH, encV, at0]
        · simp [hl]
      · -- LTO
        by_cases hl : v.length = 1
        · obtain ⟨a, rfl⟩ := List.length_eq_one_iff.mp hl
          simp [unpackB, at0, encV]
        · simp [hl]
      · -- RW
        by_cases hl : v.length = 1
        · obtain ⟨a, rfl⟩ := List.length_eq_one_iff.mp hl
          have ha : a < 256 := hvb a (by simp)
          have hm := rw_mask a ha
          rw [and15] at hm
          by_cases hc : a &&& 240 = 0
          · simp only [hc, not_true, if_false] at hm
            simp [hc, unpackB, encV, at0]; omega
          · simp [hc, unpackB, encV, at0]
        · simp [hl]
      · -- OPT
        by_cases hl : v.length = 1
        · obtain ⟨a, rfl⟩ := List.length_eq_one_iff.mp hl
          have ha : a < 256 := hvb a (by simp)
          simp only [List.length_cons, List.length_nil, Nat.le_refl, if_true, Py.bind_ok, ube_one, at0_cons_zero, band_ofNat,
            Int.natCast_inj, ite_cast, Nat.zero_add]
          rw [opt_mask a ha]
          simp [unpackB, encV]
        · simp [hl]
      · -- SDREQ
        match v, hvb with
        | [], _ => simp
        | a :: w, _ =>
          have e : (((a :: w).length : Nat) : Int) - ((1 : Nat) : Int) = ((w.length : Nat) : Int) := by
            simp only [List.length_cons]; omega
          simp only [e]
          py_bits
          simp [unpackB, encV, at0, Nat.add_comm]
      · -- SDRES
        by_cases hl : v.length = 2
        · obtain ⟨a, b, rfl⟩ := len_two hl
          simp [encV, at0]
        · simp [hl]
      · -- SN, ECPK, RN and unknown types
        obtain ⟨n1, n2, n3, n4, n5, n7, n8, n9⟩ := hne
        simp [n1, n2, n3, n4, n5, n7, n8, n9, encV]

    · simp [h2, wrapExc]
  · simp [h1, wrapExc]

example : Gen.Fn.pdu_param_decode [2, 2, 0xFF, 0xFF] 0 = .ok (2, 2, .int 0x7FF) := by rfl
example : Gen.Fn.pdu_param_decode [8, 2, 1, 0x75] 0 = .ok (8, 2, .tuple [.int 1, .bytes [0x75]]) := by rfl
example : Gen.Fn.pdu_param_decode [2, 1, 0xFF] 0 = .error .decodeError := by rfl
example : IsBytes [2, 2, 0xFF, 0xFF] := by decide

/-! ## property statements for the regenerated functions -/

/-- C07/C11 `paramDecode_safe` for the source: on every octet string `Parameter.decode` raises nothing but `DecodeError` -/
theorem gen_param_decode_total (d : Bytes) (hd : IsBytes d) (off : Nat) :
    Safe OnlyDecodeError (Gen.Fn.pdu_param_decode d off) := by
  rw [param_decode_bridge d hd off]
  exact Safe.bind' (paramDecode_safe d off) (fun _ => Safe.ok _)

/-- the regenerated header codec round-trips (C11 `pdu_roundtrip` rests on `decodeHeader_hdr`) -/
theorem gen_header_roundtrip (t dsap ssap : Nat) (ht : t ≤ 15) (hd : dsap ≤ 63) (hs : ssap ≤ 63) :
    (Gen.Fn.pdu_encode_header t dsap ssap >>= fun h => Gen.Fn.pdu_decode_header h 0 (some 2)) = .ok ((dsap : Int), (ssap : Int)) := by
  rw [encode_header_bridge, encodeHeader_eq ht hd hs]
  simp only [Py.bind_ok]
  have := decode_header_bridge (hdr t dsap ssap) 0 2
  simp only [Int.natCast_zero, show ((2 : Nat) : Int) = 2 from rfl] at this
  rw [this]
  have h2 := decodeHeader_hdr ht hd hs [] 0
  simp only [List.append_nil, Nat.add_zero] at h2
  rw [h2]
  rfl

end NfcVerif.FnBridge.Pdu
