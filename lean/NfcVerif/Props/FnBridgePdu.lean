import NfcVerif.Lemmas.FnBridgePdu
import NfcVerif.Lemmas.PduSafe
import NfcVerif.Lemmas.PduRound
/-!
# Bridge theorems, group Pdu (`nfc/llcp/pdu.py` -> `Gen/FnPdu.lean` -> `Model/Pdu.lean`; C11, C10, C07)

Encodings stated in the theorems:
* offsets, sizes and field values are naturals in the model and (non-negative) Python ints in the source:
  `(n : Int)` casts on the arguments, `i2`/`i4` on results;
* a constructor call `Cls(a, b, ..)` of the source is the tuple of its arguments in `Gen/FnPdu.lean`
  (`__init__` is not translated) and the constructor `SPdu.cls a b ..` of the model;
* `self.ptype` is an argument of the regenerated encoders; the theorems instantiate it with the constant
  the class constructor passes to the base class (0 SYMM, 3 UI, 5 DISC, 7 DM, 8 FRMR, 12 I, 13 RR, 14 RNR);
* `Parameter.decode` returns values of different Python types: `PyFn.Val`, related to the model's `TlvV` by `encV`;
* `Parameter.encode` is translated once per value type (int, octet string, `(tid, sn)`, `(tid, sap)`).
-/
namespace NfcVerif.FnBridge.Pdu
open NfcVerif NfcVerif.PyFn NfcVerif.Pdu NfcVerif.Pdu.Impl

/-- `ProtocolDataUnit.decode_header(data, offset, size)` -/
theorem decode_header_bridge (d : Bytes) (off size : Nat) :
    Gen.Fn.pdu_decode_header d off (some (size : Int)) = decodeHeader d off size >>= fun p => .ok (i2 p) := by
  unfold Gen.Fn.pdu_decode_header decodeHeader
  simp only [unpackBB_eq]
  py_bits
  by_cases hs : size < 2
  · simp [hs]
  · by_cases hl : off + 2 ≤ d.length
    · simp only [hs, hl, if_true, if_false]; py_bits; rfl
    · simp [hs, hl]

example : Gen.Fn.pdu_decode_header [0x11, 0x20] 0 (some 2) = .ok (4, 32) := by decide +kernel
example : Gen.Fn.pdu_decode_header [0x11] 0 (some 2) = .error .struct := by decide +kernel

/-- `NumberedProtocolDataUnit.decode_header` -/
theorem decode_header_n_bridge (d : Bytes) (off size : Nat) :
    Gen.Fn.pdu_decode_header_n d off (some (size : Int)) = decodeHeaderN d off size >>= fun p => .ok (i4 p) := by
  unfold Gen.Fn.pdu_decode_header_n decodeHeaderN
  simp only [unpackBBB_eq]
  py_bits
  by_cases hs : size < 3
  · simp [hs]
  · by_cases hl : off + 3 ≤ d.length
    · simp only [hs, hl, if_true, if_false]; py_bits; rfl
    · simp [hs, hl]

example : Gen.Fn.pdu_decode_header_n [0x13, 0x20, 0x5A] 0 (some 3) = .ok (4, 32, 5, 10) := by decide +kernel

/-- `ProtocolDataUnit.encode_header` for non-negative field values (the model's domain) -/
theorem encode_header_bridge (ptype dsap ssap : Nat) :
    Gen.Fn.pdu_encode_header ptype dsap ssap = encodeHeader ptype dsap ssap := by
  unfold Gen.Fn.pdu_encode_header encodeHeader orShl
  py_bits
  simp only [← Nat.shiftLeft_eq, pack_Hbe, Nat.or_assoc]
  have h1 : ¬ (dsap < 0 ∨ ssap < 0) := by omega
  simp only [or_self, if_false, h1, gt_iff_lt]

example : Gen.Fn.pdu_encode_header 4 16 32 = .ok [0x41, 0x20] := by decide +kernel
example : Gen.Fn.pdu_encode_header 4 64 32 = .error .encodeError := by decide +kernel

/-- `NumberedProtocolDataUnit.encode_header` -/
theorem encode_header_n_bridge (ptype dsap ssap ns nr : Nat) :
    Gen.Fn.pdu_encode_header_n ptype dsap ssap ns nr = encodeHeaderN ptype dsap ssap ns nr := by
  unfold Gen.Fn.pdu_encode_header_n encodeHeaderN orShl
  rw [encode_header_bridge]
  cases encodeHeader ptype dsap ssap with
  | error e => rfl
  | ok h =>
    py_bits
    simp only [← Nat.shiftLeft_eq, pack_B1]
    have h1 : ¬ (ns < 0 ∨ nr < 0) := by omega
    simp only [or_self, if_false, h1, gt_iff_lt]
    by_cases h2 : 15 < ns ∨ 15 < nr
    · simp [h2]
    · have : ¬ 255 < ns <<< 4 ||| nr := by
        have a : ns <<< 4 < 2 ^ 8 := by rw [Nat.shiftLeft_eq]; omega
        have b : nr < 2 ^ 8 := by omega
        have := Nat.or_lt_two_pow a b
        omega
      simp [h2, this]

example : Gen.Fn.pdu_encode_header_n 12 16 32 5 10 = .ok [0x43, 0x20, 0x5A] := by decide +kernel

/-- `Symmetry.decode`; the constructor call `Symmetry(dsap, ssap)` is the model's `SPdu.symm dsap ssap` (likewise below) -/
theorem symm_decode_bridge (d : Bytes) (off size : Nat) :
    (Gen.Fn.pdu_symm_decode d off size >>= fun r => .ok (SPdu.symm r.1.toNat r.2.toNat)) = decSymm d off size := by
  unfold Gen.Fn.pdu_symm_decode decSymm
  rw [decode_header_bridge]
  cases decodeHeader d off size with
  | error e => rfl
  | ok p =>
    obtain ⟨a, b⟩ := p
    simp only [i2]
    py_bits
    by_cases h1 : (¬a = 0 ∨ ¬b = 0) <;> by_cases h2 : 3 ≤ size <;> simp [h1, h2]

example : Gen.Fn.pdu_symm_decode [0, 0] 0 2 = .ok (0, 0) := by decide +kernel

theorem disc_decode_bridge (d : Bytes) (off size : Nat) :
    (Gen.Fn.pdu_disc_decode d off size >>= fun r => .ok (SPdu.disc r.1.toNat r.2.toNat)) = decDisc d off size := by
  unfold Gen.Fn.pdu_disc_decode decDisc
  rw [decode_header_bridge]
  cases decodeHeader d off size with
  | error e => rfl
  | ok p => obtain ⟨a, b⟩ := p; simp [i2]

theorem dm_decode_bridge (d : Bytes) (off size : Nat) :
    (Gen.Fn.pdu_dm_decode d off size >>= fun r => .ok (SPdu.dm r.1.toNat r.2.1.toNat r.2.2.toNat)) = decDm d off size := by
  unfold Gen.Fn.pdu_dm_decode decDm
  rw [decode_header_bridge]
  py_bits
  by_cases hs : size = 3
  · simp only [hs, not_true, if_false]
    cases decodeHeader d off 3 with
    | error e => rfl
    | ok p =>
      obtain ⟨a, b⟩ := p
      simp only [i2, unpackB_eq]
      py_bits
      by_cases hl : off + 2 + 1 ≤ d.length
      · simp only [hl, if_true, Py.bind_ok]; py_bits; py_done
      · simp only [hl, if_false, Py.bind_error]
  · simp [hs]

example : Gen.Fn.pdu_dm_decode [0x11, 0xE0, 0x02] 0 3 = .ok (4, 32, 2) := by decide +kernel

theorem frmr_decode_bridge (d : Bytes) (off size : Nat) :
    (Gen.Fn.pdu_frmr_decode d off size >>= fun r => .ok (SPdu.frmr r.1.toNat r.2.1.toNat r.2.2.1.toNat r.2.2.2.1.toNat
      r.2.2.2.2.1.toNat r.2.2.2.2.2.1.toNat r.2.2.2.2.2.2.1.toNat r.2.2.2.2.2.2.2.1.toNat r.2.2.2.2.2.2.2.2.1.toNat
      r.2.2.2.2.2.2.2.2.2.toNat)) = decFrmr d off size := by
  unfold Gen.Fn.pdu_frmr_decode decFrmr
  rw [decode_header_bridge]
  py_bits
  by_cases hs : size = 6
  · simp only [hs, not_true, if_false]
    cases decodeHeader d off 6 with
    | error e => rfl
    | ok p =>
      obtain ⟨a, b⟩ := p
      simp only [i2, unpackBBBB_eq]
      py_bits
      by_cases hl : off + 2 + 4 ≤ d.length
      · simp only [hl, if_true, Py.bind_ok]; py_bits; py_done
      · simp only [hl, if_false, Py.bind_error]
  · simp [hs]

example : Gen.Fn.pdu_frmr_decode [0x12, 0x20, 0x8C, 0x12, 0x34, 0x56] 0 6 = .ok (4, 32, 8, 12, 1, 2, 3, 4, 5, 6) := by rfl

theorem ui_decode_bridge (d : Bytes) (off size : Nat) :
    (Gen.Fn.pdu_ui_decode d off size >>= fun r => .ok (SPdu.ui r.1.toNat r.2.1.toNat (r.2.2.getD []))) = decUi d off size := by
  unfold Gen.Fn.pdu_ui_decode decUi
  rw [decode_header_bridge]
  cases decodeHeader d off size with
  | error e => rfl
  | ok p => obtain ⟨a, b⟩ := p; simp only [i2]; py_bits; py_done

example : Gen.Fn.pdu_ui_decode [0x10, 0xE0, 1, 2, 3] 0 5 = .ok (4, 32, some [1, 2, 3]) := by decide +kernel

theorem i_decode_bridge (d : Bytes) (off size : Nat) :
    (Gen.Fn.pdu_i_decode d off size >>= fun r => .ok (SPdu.info r.1.toNat r.2.1.toNat (r.2.2.1.getD 0).toNat
      (r.2.2.2.1.getD 0).toNat (r.2.2.2.2.getD []))) = decInfo d off size := by
  unfold Gen.Fn.pdu_i_decode decInfo
  rw [decode_header_n_bridge]
  cases decodeHeaderN d off size with
  | error e => rfl
  | ok p => obtain ⟨a, b, c, e⟩ := p; simp only [i4]; py_bits; py_done

example : Gen.Fn.pdu_i_decode [0x13, 0x20, 0x5A, 9] 0 4 = .ok (4, 32, some 5, some 10, some [9]) := by rfl

theorem rr_decode_bridge (d : Bytes) (off size : Nat) :
    (Gen.Fn.pdu_rr_decode d off size >>= fun r => .ok (SPdu.rr r.1.toNat r.2.1.toNat (r.2.2.getD 0).toNat)) = decRr d off size := by
  unfold Gen.Fn.pdu_rr_decode decRr
  rw [decode_header_n_bridge]
  cases decodeHeaderN d off size with
  | error e => rfl
  | ok p => obtain ⟨a, b, c, e⟩ := p; simp [i4]

theorem rnr_decode_bridge (d : Bytes) (off size : Nat) :
    (Gen.Fn.pdu_rnr_decode d off size >>= fun r => .ok (SPdu.rnr r.1.toNat r.2.1.toNat r.2.2.toNat)) = decRnr d off size := by
  unfold Gen.Fn.pdu_rnr_decode decRnr
  rw [decode_header_n_bridge]
  cases decodeHeaderN d off size with
  | error e => rfl
  | ok p => obtain ⟨a, b, c, e⟩ := p; simp [i4]

/-- `UnknownProtocolDataUnit.decode`; needs octets (`IsBytes`): the model adds where the code ORs -/
theorem unknown_decode_bridge (d : Bytes) (hd : IsBytes d) (off size : Nat) :
    (Gen.Fn.pdu_unknown_decode d off size >>= fun r => .ok (SPdu.unknown r.1.toNat r.2.1.toNat r.2.2.1.toNat r.2.2.2))
      = decUnknown d off size := by
  unfold Gen.Fn.pdu_unknown_decode decUnknown
  rw [decode_header_bridge]
  cases decodeHeader d off size with
  | error e => rfl
  | ok p =>
    obtain ⟨a, b⟩ := p
    simp only [i2]
    py_bits
    simp only [getB_nat, idxN_nat]
    by_cases h0 : off < d.length
    · by_cases h1 : off + 1 < d.length
      · simp only [h0, h1, if_true, Py.bind_ok]
        py_bits
        have hb : at0 d (off + 1) / 2 ^ 6 < 2 ^ 2 := by have := at0_lt_256 hd (off + 1); omega
        rw [← Nat.shiftLeft_eq, ← Nat.shiftLeft_add_eq_or_of_lt hb, Nat.shiftLeft_eq]
        py_done
      · simp only [h0, h1, if_true, if_false, Py.bind_ok, Py.bind_error]
    · simp only [h0, if_false, Py.bind_error]

example : Gen.Fn.pdu_unknown_decode [0x12, 0xE0, 7] 0 3 = .ok (11, 4, 32, [7]) := by decide +kernel

/-! ## encoders (the `ptype` attribute is the constant the class constructor passes to the base class) -/

theorem symm_encode_bridge (dsap ssap : Nat) : Gen.Fn.pdu_symm_encode 0 dsap ssap = encodeS (.symm dsap ssap) := by
  unfold Gen.Fn.pdu_symm_encode
  simp only [encodeS]
  have := encode_header_bridge 0 dsap ssap
  simp only [Int.natCast_zero] at this
  rw [this]; py_bits

theorem disc_encode_bridge (dsap ssap : Nat) : Gen.Fn.pdu_disc_encode 5 dsap ssap = encodeS (.disc dsap ssap) := by
  unfold Gen.Fn.pdu_disc_encode
  simp only [encodeS]
  exact encode_header_bridge 5 dsap ssap

theorem dm_encode_bridge (dsap ssap reason : Nat) :
    Gen.Fn.pdu_dm_encode 7 dsap ssap reason = encodeS (.dm dsap ssap reason) := by
  unfold Gen.Fn.pdu_dm_encode
  simp only [encodeS, packB]
  rw [show (7 : Int) = ((7 : Nat) : Int) from rfl, encode_header_bridge, pack_B1]
  cases encodeHeader 7 dsap ssap with
  | error e => rfl
  | ok h => simp only [Py.bind_ok]; split <;> rfl

example : Gen.Fn.pdu_dm_encode 7 4 32 256 = .error .struct := by decide +kernel

theorem frmr_encode_bridge (dsap ssap flags ptype ns nr vs vr vsa vra : Nat) :
    Gen.Fn.pdu_frmr_encode 8 dsap ssap flags ptype ns nr vs vr vsa vra
      = encodeS (.frmr dsap ssap flags ptype ns nr vs vr vsa vra) := by
  unfold Gen.Fn.pdu_frmr_encode
  simp only [encodeS, orShl]
  rw [show (8 : Int) = ((8 : Nat) : Int) from rfl, encode_header_bridge]
  cases encodeHeader 8 dsap ssap with
  | error e => rfl
  | ok h =>
    py_bits
    simp only [← Nat.shiftLeft_eq, pack_BBBB]
    split <;> rfl

example : Gen.Fn.pdu_frmr_encode 8 4 32 8 12 1 2 3 4 5 6 = .ok [0x12, 0x20, 0x8C, 0x12, 0x34, 0x56] := by decide +kernel

theorem ui_encode_bridge (dsap ssap : Nat) (data : Bytes) :
    Gen.Fn.pdu_ui_encode 3 dsap ssap data = encodeS (.ui dsap ssap data) := by
  unfold Gen.Fn.pdu_ui_encode
  simp only [encodeS]
  rw [show (3 : Int) = ((3 : Nat) : Int) from rfl, encode_header_bridge]; rfl

theorem i_encode_bridge (dsap ssap ns nr : Nat) (data : Bytes) :
    Gen.Fn.pdu_i_encode 12 dsap ssap ns nr data = encodeS (.info dsap ssap ns nr data) := by
  unfold Gen.Fn.pdu_i_encode
  simp only [encodeS]
  rw [show (12 : Int) = ((12 : Nat) : Int) from rfl, encode_header_n_bridge]; rfl

theorem rr_encode_bridge (dsap ssap nr : Nat) : Gen.Fn.pdu_rr_encode 13 dsap ssap 0 nr = encodeS (.rr dsap ssap nr) := by
  unfold Gen.Fn.pdu_rr_encode
  simp only [encodeS]
  exact encode_header_n_bridge 13 dsap ssap 0 nr

theorem rnr_encode_bridge (dsap ssap nr : Nat) : Gen.Fn.pdu_rnr_encode 14 dsap ssap 0 nr = encodeS (.rnr dsap ssap nr) := by
  unfold Gen.Fn.pdu_rnr_encode
  simp only [encodeS]
  exact encode_header_n_bridge 14 dsap ssap 0 nr

theorem unknown_encode_bridge (ptype dsap ssap : Nat) (payload : Bytes) :
    Gen.Fn.pdu_unknown_encode ptype dsap ssap payload = encodeS (.unknown ptype dsap ssap payload) := by
  unfold Gen.Fn.pdu_unknown_encode
  simp only [encodeS]
  rw [encode_header_bridge]; rfl

theorem ui_len_bridge (dsap ssap : Nat) (data : Bytes) : Gen.Fn.pdu_ui_len data = (lenS (.ui dsap ssap data) : Nat) := by
  unfold Gen.Fn.pdu_ui_len; simp only [lenS]; py_bits

theorem i_len_bridge (dsap ssap ns nr : Nat) (data : Bytes) :
    Gen.Fn.pdu_i_len data = (lenS (.info dsap ssap ns nr data) : Nat) := by
  unfold Gen.Fn.pdu_i_len; simp only [lenS]; py_bits

/-! ## Parameter.encode -/

theorem param_encode_int_B (t v : Nat) (ht : t = 1 ∨ t = 4 ∨ t = 5 ∨ t = 7) :
    Gen.Fn.pdu_param_encode_int t v = encB t v := by
  unfold Gen.Fn.pdu_param_encode_int encB
  py_bits
  have h1 : (t = 1 ∨ t = 4 ∨ t = 5 ∨ t = 7) := ht
  have ht' : ¬ t > 255 := by omega
  simp only [h1, if_true, PyFn.pack, packField_B, ht']
  by_cases hv : v > 255 <;> simp [hv, wrapExc]

example : Gen.Fn.pdu_param_encode_int 5 15 = .ok [5, 1, 15] := by decide +kernel
example : Gen.Fn.pdu_param_encode_int 5 256 = .error .encodeError := by decide +kernel

theorem param_encode_int_H (t v : Nat) (ht : t = 2 ∨ t = 3) :
    Gen.Fn.pdu_param_encode_int t v = encH t v := by
  unfold Gen.Fn.pdu_param_encode_int encH
  py_bits
  have h0 : ¬ (t = 1 ∨ t = 4 ∨ t = 5 ∨ t = 7) := by omega
  have ht' : ¬ t > 255 := by omega
  simp only [h0, ht, if_true, if_false, PyFn.pack, packField_B, packField_Hbe, ht']
  by_cases hv : v > 65535 <;> simp [hv, wrapExc]

example : Gen.Fn.pdu_param_encode_int 2 0x7FF = .ok [2, 2, 7, 255] := by decide +kernel

theorem param_encode_bytes_S (t : Nat) (v : Bytes) (ht : t = 6 ∨ t = 10 ∨ t = 11) :
    Gen.Fn.pdu_param_encode_bytes t v = encS t v := by
  unfold Gen.Fn.pdu_param_encode_bytes encS
  py_bits
  have h0 : ¬ (t = 1 ∨ t = 4 ∨ t = 5 ∨ t = 7) := by omega
  have h1 : ¬ (t = 2 ∨ t = 3) := by omega
  have ht' : ¬ t > 255 := by omega
  simp only [h0, h1, ht, if_true, if_false, PyFn.pack, packField_B, ht']
  by_cases hv : 255 < v.length
  · simp [hv, wrapExc]
  · have : ¬ v.length > 255 := hv
    simp [hv, this, wrapExc]

example : Gen.Fn.pdu_param_encode_bytes 6 [0x75, 0x72] = .ok [6, 2, 0x75, 0x72] := by decide +kernel

theorem param_encode_sdreq_bridge (tid : Nat) (sn : Bytes) :
    Gen.Fn.pdu_param_encode_sdreq 8 ((tid : Int), sn) = encSdreq (tid, sn) := by
  unfold Gen.Fn.pdu_param_encode_sdreq encSdreq
  py_bits
  simp only [show ¬ ((8:Nat) = 1 ∨ (8:Nat) = 4 ∨ (8:Nat) = 5 ∨ (8:Nat) = 7) by omega, show ¬ ((8:Nat) = 2 ∨ (8:Nat) = 3) by omega,
    show ¬ ((8:Nat) = 6 ∨ (8:Nat) = 10 ∨ (8:Nat) = 11) by omega, if_true, if_false, PyFn.pack, packField_B]
  by_cases hv : 254 < sn.length
  · simp [hv, wrapExc]
  · have h2 : ¬ (1 + sn.length > 255) := by omega
    by_cases ht : tid > 255 <;> simp [hv, h2, ht, wrapExc]

example : Gen.Fn.pdu_param_encode_sdreq 8 (1, [0x75]) = .ok [8, 2, 1, 0x75] := by decide +kernel

theorem param_encode_sdres_bridge (tid sap : Nat) :
    Gen.Fn.pdu_param_encode_sdres 9 ((tid : Int), (sap : Int)) = encSdres (tid, sap) := by
  unfold Gen.Fn.pdu_param_encode_sdres encSdres
  py_bits
  simp only [show ¬ ((9:Nat) = 1 ∨ (9:Nat) = 4 ∨ (9:Nat) = 5 ∨ (9:Nat) = 7) by omega, show ¬ ((9:Nat) = 2 ∨ (9:Nat) = 3) by omega,
    show ¬ ((9:Nat) = 6 ∨ (9:Nat) = 10 ∨ (9:Nat) = 11) by omega, show ¬ ((9:Nat) = 8) by omega, if_true, if_false, PyFn.pack, packField_B]
  by_cases ht : tid > 255 <;> by_cases hs : sap > 255 <;> simp [ht, hs, wrapExc]

example : Gen.Fn.pdu_param_encode_sdres 9 (1, 16) = .ok [9, 2, 1, 16] := by decide +kernel

/-! ## Parameter.decode -/

/-- `Parameter.decode(data, offset)` for every octet string and offset; `encV` is the stated encoding of the
model's typed TLV value as the dynamically typed Python value -/
theorem param_decode_bridge (d : Bytes) (hd : IsBytes d) (off : Nat) :
    Gen.Fn.pdu_param_decode d off = paramDecode d off >>= fun r => .ok ((r.1 : Int), (r.2.1 : Int), encV r.2.2) := by
  unfold Gen.Fn.pdu_param_decode paramDecode structToDecode
  simp only [unpackBB_eq, unpackS]
  py_bits
  by_cases h1 : off + 2 ≤ d.length
  · simp only [h1, if_true, Py.bind_ok, Nat.not_lt_zero, if_false, Nat.zero_add]
    py_bits
    by_cases h2 : off + 2 + at0 d (off + 1) ≤ d.length
    · have h2' : off + 2 + (0 + at0 d (off + 1)) ≤ d.length := by omega
      simp only [h2, h2', if_true, Py.bind_ok, wrapExc, Nat.not_lt_zero, if_false]
      py_bits
      have hvl : ((d.drop (off + 2)).take (at0 d (off + 1))).length = at0 d (off + 1) := by
        rw [List.length_take, List.length_drop]; omega
      have hvb : IsBytes ((d.drop (off + 2)).take (at0 d (off + 1))) := isBytes_take (isBytes_drop hd _) _
      generalize (d.drop (off + 2)).take (at0 d (off + 1)) = v at hvl hvb ⊢
      generalize at0 d (off + 1) = l at hvl ⊢
      generalize at0 d off = t
      subst hvl
      have ite_cast : ∀ (c : Prop) [Decidable c] (a b : Nat), (if c then (a : Int) else (b : Int)) = ((if c then a else b : Nat) : Int) := by
        intro c _ a b; split <;> rfl
      have cls : t = 1 ∨ t = 2 ∨ t = 3 ∨ t = 4 ∨ t = 5 ∨ t = 7 ∨ t = 8 ∨ t = 9 ∨ (t ≠ 1 ∧ t ≠ 2 ∧ t ≠ 3 ∧ t ≠ 4 ∧ t ≠ 5 ∧ t ≠ 7 ∧ t ≠ 8 ∧ t ≠ 9) := by omega
      rcases cls with rfl | rfl | rfl | rfl | rfl | rfl | rfl | rfl | hne
      · -- VERSION
        by_cases hl : v.length = 1
        · obtain ⟨a, rfl⟩ := List.length_eq_one_iff.mp hl
          simp [unpackB, at0, encV]
        · simp [hl]
      · -- MIUX
        by_cases hl : v.length = 2
        · obtain ⟨a, b, rfl⟩ := len_two hl
          have ha : a < 256 := hvb a (by simp)
          have hb : b < 256 := hvb b (by simp)
          rw [ube_two [a, b] 0 (by simp)]
          simp only [band_ofNat, Int.natCast_inj, ite_cast, at0_cons_zero, at0_cons_succ, Nat.zero_add]
          rw [miux_mask (a * 256 + b) (by omega)]
          simp [unpackH, encV]
        · simp [hl]
      · -- WKS
        by_cases hl : v.length = 2
        · obtain ⟨a, b, rfl⟩ := len_two hl
          rw [ube_two [a, b] 0 (by simp)]
          simp [unpackH, encV, at0]
        · simp [hl]
      · -- LTO
        by_cases hl : v.length = 1
        · obtain ⟨a, rfl⟩ := List.length_eq_one_iff.mp hl
          simp [unpackB, at0, encV]
        · simp [hl]
      · -- RW
        by_cases hl : v.length = 1
        · obtain ⟨a, rfl⟩ := List.length_eq_one_iff.mp hl
          have ha : a < 256 := hvb a (by simp)
          have hm := rw_mask a ha
          rw [and15] at hm
          by_cases hc : a &&& 240 = 0
          · simp only [hc, not_true, if_false] at hm
            simp [hc, unpackB, encV, at0]; omega
          · simp [hc, unpackB, encV, at0]
        · simp [hl]
      · -- OPT
        by_cases hl : v.length = 1
        · obtain ⟨a, rfl⟩ := List.length_eq_one_iff.mp hl
          have ha : a < 256 := hvb a (by simp)
          simp only [List.length_cons, List.length_nil, Nat.le_refl, if_true, Py.bind_ok, ube_one, at0_cons_zero, band_ofNat,
            Int.natCast_inj, ite_cast, Nat.zero_add]
          rw [opt_mask a ha]
          simp [unpackB, encV]
        · simp [hl]
      · -- SDREQ
        match v, hvb with
        | [], _ => simp
        | a :: w, _ =>
          have e : (((a :: w).length : Nat) : Int) - ((1 : Nat) : Int) = ((w.length : Nat) : Int) := by
            simp only [List.length_cons]; omega
          simp only [e]
          py_bits
          simp [unpackB, encV, at0, Nat.add_comm]
      · -- SDRES
        by_cases hl : v.length = 2
        · obtain ⟨a, b, rfl⟩ := len_two hl
          simp [encV, at0]
        · simp [hl]
      · -- SN, ECPK, RN and unknown types
        obtain ⟨n1, n2, n3, n4, n5, n7, n8, n9⟩ := hne
        simp [n1, n2, n3, n4, n5, n7, n8, n9, encV]

    · simp [h2, wrapExc]
  · simp [h1, wrapExc]

example : Gen.Fn.pdu_param_decode [2, 2, 0xFF, 0xFF] 0 = .ok (2, 2, .int 0x7FF) := by rfl
example : Gen.Fn.pdu_param_decode [8, 2, 1, 0x75] 0 = .ok (8, 2, .tuple [.int 1, .bytes [0x75]]) := by rfl
example : Gen.Fn.pdu_param_decode [2, 1, 0xFF] 0 = .error .decodeError := by rfl
example : IsBytes [2, 2, 0xFF, 0xFF] := by decide

/-! ## PAX, CONNECT, CC, SNL, DPS, AGF: `encode` and `__len__`

Optional integer fields of the model (`Option Nat`) are the optional Python ints `oi o`; the SDREQ/SDRES lists are
`sdreqI`/`sdresI`; `AggregatedFrame.encode` is translated with the encodings of the aggregated PDUs as a parameter
(`[pdu.encode() for pdu in self._aggregate]`, dynamic dispatch) and is `Impl.encode (.agf ..)` when those are the
model's encodings (`agf_encode_model`). -/

/-- optional natural field of the model as the optional Python int of the source -/
def oi (o : Option Nat) : Option Int := o.map (fun (n : Nat) => (n : Int))

theorem enc_int_1 (v : Nat) : Gen.Fn.pdu_param_encode_int 1 v = encB 1 v := param_encode_int_B 1 v (by simp)
theorem enc_int_4 (v : Nat) : Gen.Fn.pdu_param_encode_int 4 v = encB 4 v := param_encode_int_B 4 v (by simp)
theorem enc_int_5 (v : Nat) : Gen.Fn.pdu_param_encode_int 5 v = encB 5 v := param_encode_int_B 5 v (by simp)
theorem enc_int_7 (v : Nat) : Gen.Fn.pdu_param_encode_int 7 v = encB 7 v := param_encode_int_B 7 v (by simp)
theorem enc_int_2 (v : Nat) : Gen.Fn.pdu_param_encode_int 2 v = encH 2 v := param_encode_int_H 2 v (by simp)
theorem enc_int_3 (v : Nat) : Gen.Fn.pdu_param_encode_int 3 v = encH 3 v := param_encode_int_H 3 v (by simp)
theorem enc_bytes_6 (v : Bytes) : Gen.Fn.pdu_param_encode_bytes 6 v = encS 6 v := param_encode_bytes_S 6 v (by simp)
theorem enc_bytes_10 (v : Bytes) : Gen.Fn.pdu_param_encode_bytes 10 v = encS 10 v := param_encode_bytes_S 10 v (by simp)
theorem enc_bytes_11 (v : Bytes) : Gen.Fn.pdu_param_encode_bytes 11 v = encS 11 v := param_encode_bytes_S 11 v (by simp)

theorem pax_encode_bridge (d s : Nat) (ver miux wks lto opt : Option Nat) :
    Gen.Fn.pdu_pax_encode 1 d s (oi ver) (oi miux) (oi wks) (oi lto) (oi opt)
      = encodeS (.pax d s ver miux wks lto opt) := by
  unfold Gen.Fn.pdu_pax_encode
  simp only [encodeS]
  have hh := encode_header_bridge 1 d s
  simp only [show ((1 : Nat) : Int) = 1 from rfl] at hh
  rw [hh]
  by_cases h0 : (d ≠ 0 ∨ s ≠ 0)
  · have : ((d : Int) ≠ 0 ∨ (s : Int) ≠ 0) := by omega
    simp [h0, this]
  · have : ¬ ((d : Int) ≠ 0 ∨ (s : Int) ≠ 0) := by omega
    simp only [h0, this, if_false]
    cases encodeHeader 1 d s with
    | error e => rfl
    | ok h =>
      simp only [Py.bind_ok]
      cases ver <;> cases miux <;> cases wks <;> cases lto <;> cases opt <;>
        simp [oi, optTlv, enc_int_1, enc_int_2, enc_int_3, enc_int_4, enc_int_7, bind_assoc]

theorem pax_len_bridge (d s : Nat) (ver miux wks lto opt : Option Nat) :
    Gen.Fn.pdu_pax_len (oi ver) (oi miux) (oi wks) (oi lto) (oi opt) = (lenS (.pax d s ver miux wks lto opt) : Nat) := by
  unfold Gen.Fn.pdu_pax_len
  simp only [lenS]
  cases ver <;> cases miux <;> cases wks <;> cases lto <;> cases opt <;> simp [oi, optLen] <;> omega

/-- the `if self.miu and self.miu > 128` / `if self.rw is not None and self.rw != 1` TLVs of CONNECT and CC -/
theorem miu_rw_step (miu rw : Nat) (h : Bytes) {β} (k : Bytes → Py β) :
    ((if (((miu : Int) ≠ 0) ∧ ((miu : Int) > 128)) then
        (Gen.Fn.pdu_param_encode_int 2 ((miu : Int) - 128) >>= fun t2 => Except.ok (h ++ t2)) else Except.ok h) >>= fun data_2 =>
      (if (True ∧ ((rw : Int) ≠ 1)) then
        (Gen.Fn.pdu_param_encode_int 5 rw >>= fun t3 => Except.ok (data_2 ++ t3)) else Except.ok data_2) >>= k)
    = ((if miu ≠ 0 ∧ miu > 128 then encH 2 (miu - 128) else pure []) >>= fun a =>
       (if rw ≠ 1 then encB 5 rw else pure []) >>= fun b => k (h ++ a ++ b)) := by
  simp only [true_and]
  by_cases h1 : miu ≠ 0 ∧ miu > 128
  · have h1' : (((miu : Int) ≠ 0) ∧ ((miu : Int) > 128)) := by omega
    have e : (miu : Int) - 128 = ((miu - 128 : Nat) : Int) := by omega
    rw [if_pos h1', if_pos h1, e, enc_int_2]
    by_cases h2 : rw ≠ 1
    · have h2' : ((rw : Int) ≠ 1) := by omega
      rw [if_pos h2]
      simp only [if_pos h2', enc_int_5, bind_assoc, Py.bind_ok]
    · have h2' : ¬ ((rw : Int) ≠ 1) := by omega
      rw [if_neg h2]
      simp only [if_neg h2', bind_assoc, Py.bind_ok, Py.pure_eq, List.append_nil]
  · have h1' : ¬ (((miu : Int) ≠ 0) ∧ ((miu : Int) > 128)) := by omega
    rw [if_neg h1', if_neg h1]
    by_cases h2 : rw ≠ 1
    · have h2' : ((rw : Int) ≠ 1) := by omega
      rw [if_pos h2]
      simp only [if_pos h2', enc_int_5, bind_assoc, Py.bind_ok, Py.pure_eq, List.append_nil]
    · have h2' : ¬ ((rw : Int) ≠ 1) := by omega
      rw [if_neg h2]
      simp only [if_neg h2', Py.bind_ok, Py.pure_eq, List.append_nil]

theorem cc_encode_bridge (d s miu rw : Nat) :
    Gen.Fn.pdu_cc_encode 6 d s miu rw = encodeS (.cc d s miu rw) := by
  unfold Gen.Fn.pdu_cc_encode
  simp only [encodeS]
  have hh := encode_header_bridge 6 d s
  simp only [show ((6 : Nat) : Int) = 6 from rfl] at hh
  rw [hh]
  cases encodeHeader 6 d s with
  | error e => rfl
  | ok h =>
    simp only [Py.bind_ok]
    have := miu_rw_step miu rw h (fun x => (Except.ok x : Py Bytes))
    simpa using this

theorem cc_len_bridge (d s miu rw : Nat) : Gen.Fn.pdu_cc_len miu rw = (lenS (.cc d s miu rw) : Nat) := by
  unfold Gen.Fn.pdu_cc_len
  simp only [lenS]
  have h1' : ((((miu : Int) ≠ 0) ∧ ((miu : Int) > 128)) ↔ (miu ≠ 0 ∧ miu > 128)) := by omega
  have h2' : ((((rw : Int) ≠ 1)) ↔ rw ≠ 1) := by omega
  simp only [true_and, h1', h2']
  by_cases h1 : miu ≠ 0 ∧ miu > 128 <;> by_cases h2 : rw ≠ 1
  · rw [if_pos h1, if_pos h2, if_pos h1, if_pos h2]; rfl
  · rw [if_pos h1, if_neg h2, if_pos h1, if_neg h2]; rfl
  · rw [if_neg h1, if_pos h2, if_neg h1, if_pos h2]; rfl
  · rw [if_neg h1, if_neg h2, if_neg h1, if_neg h2]; rfl

/-- the optional octet string TLVs (`if self.sn:` - None and the empty string are skipped), `some` case -/
theorem truthy_some (t : Nat) (gt : Int) (hg : ∀ v, Gen.Fn.pdu_param_encode_bytes gt v = encS t v) (v h : Bytes) :
    (if v ≠ [] then (Gen.Fn.pdu_param_encode_bytes gt v >>= fun t4 => Except.ok (h ++ t4)) else (Except.ok h : Py Bytes))
    = (truthyTlv t (some v) >>= fun c => Except.ok (h ++ c)) := by
  by_cases hv : v = []
  · subst hv; simp [truthyTlv]
  · have : v.isEmpty = false := by cases v <;> simp_all
    simp only [hv, ne_eq, not_false_eq_true, if_true, hg, truthyTlv, this, Bool.false_eq_true, if_false]

theorem truthy_len_some (v : Bytes) :
    ((if v ≠ [] then 2 + PyFn.len v else 0 : Int)) = ((truthyLen (some v) : Nat) : Int) := by
  by_cases hv : v = []
  · subst hv; rfl
  · have : v.isEmpty = false := by cases v <;> simp_all
    simp [truthyLen, hv, this, PyFn.len_eq]

theorem connect_encode_bridge (d s miu rw : Nat) (sn : Option Bytes) :
    Gen.Fn.pdu_connect_encode 4 d s miu rw sn = encodeS (.connect d s miu rw sn) := by
  unfold Gen.Fn.pdu_connect_encode
  simp only [encodeS]
  have hh := encode_header_bridge 4 d s
  simp only [show ((4 : Nat) : Int) = 4 from rfl] at hh
  rw [hh]
  cases encodeHeader 4 d s with
  | error e => rfl
  | ok h =>
    simp only [Py.bind_ok]
    rw [miu_rw_step miu rw h]
    congr 1; funext a; congr 1; funext b
    cases sn with
    | none => simp [truthyTlv]
    | some v =>
      simp only []
      rw [truthy_some 6 6 enc_bytes_6 v (h ++ a ++ b)]
      simp [bind_assoc]

theorem connect_len_bridge (d s miu rw : Nat) (sn : Option Bytes) :
    Gen.Fn.pdu_connect_len miu rw sn = (lenS (.connect d s miu rw sn) : Nat) := by
  unfold Gen.Fn.pdu_connect_len
  simp only [lenS]
  have h1' : ((((miu : Int) ≠ 0) ∧ ((miu : Int) > 128)) ↔ (miu ≠ 0 ∧ miu > 128)) := by omega
  have h2' : ((((rw : Int) ≠ 1)) ↔ rw ≠ 1) := by omega
  simp only [true_and, h1', h2']
  cases sn with
  | none =>
    simp only [truthyLen]
    by_cases h1 : miu ≠ 0 ∧ miu > 128 <;> by_cases h2 : rw ≠ 1
    · rw [if_pos h1, if_pos h2, if_pos h1, if_pos h2]; omega
    · rw [if_pos h1, if_neg h2, if_pos h1, if_neg h2]; omega
    · rw [if_neg h1, if_pos h2, if_neg h1, if_pos h2]; omega
    · rw [if_neg h1, if_neg h2, if_neg h1, if_neg h2]; omega
  | some v =>
    simp only []
    rw [truthy_len_some v]
    by_cases h1 : miu ≠ 0 ∧ miu > 128 <;> by_cases h2 : rw ≠ 1
    · rw [if_pos h1, if_pos h2, if_pos h1, if_pos h2]; omega
    · rw [if_pos h1, if_neg h2, if_pos h1, if_neg h2]; omega
    · rw [if_neg h1, if_pos h2, if_neg h1, if_pos h2]; omega
    · rw [if_neg h1, if_neg h2, if_neg h1, if_neg h2]; omega

theorem dps_encode_bridge (d s : Nat) (ecpk rn : Option Bytes) :
    Gen.Fn.pdu_dps_encode 10 d s ecpk rn = encodeS (.dps d s ecpk rn) := by
  unfold Gen.Fn.pdu_dps_encode
  simp only [encodeS]
  have hh := encode_header_bridge 10 d s
  simp only [show ((10 : Nat) : Int) = 10 from rfl] at hh
  rw [hh]
  by_cases h0 : (d ≠ 0 ∨ s ≠ 0)
  · have : ((d : Int) ≠ 0 ∨ (s : Int) ≠ 0) := by omega
    simp [h0, this]
  · have : ¬ ((d : Int) ≠ 0 ∨ (s : Int) ≠ 0) := by omega
    simp only [h0, this, if_false]
    cases encodeHeader 10 d s with
    | error e => rfl
    | ok h =>
      simp only [Py.bind_ok]
      cases ecpk <;> cases rn <;> simp [truthyTlv, truthy_some 10 10 enc_bytes_10, truthy_some 11 11 enc_bytes_11, bind_assoc]

theorem dps_len_bridge (d s : Nat) (ecpk rn : Option Bytes) :
    Gen.Fn.pdu_dps_len ecpk rn = (lenS (.dps d s ecpk rn) : Nat) := by
  unfold Gen.Fn.pdu_dps_len
  simp only [lenS]
  cases ecpk <;> cases rn <;> simp only [truthy_len_some, truthyLen] <;> omega


/-- `for x in xs: data += enc(x)` -/
theorem forM_enc {α β} (g : β → α) (genc : α → Py Bytes) (enc : β → Py Bytes) (hg : ∀ y, genc (g y) = enc y)
    (ys : List β) : ∀ data : Bytes,
    PyFn.forM (ys.map g) data (fun d x => genc x >>= fun t => Except.ok (d ++ t))
      = (encList enc ys >>= fun a => Except.ok (data ++ a)) := by
  induction ys with
  | nil => intro data; simp [PyFn.forM, encList]
  | cons y t ih =>
    intro data
    simp only [List.map_cons, PyFn.forM, encList, hg]
    cases enc y with
    | error e => rfl
    | ok a =>
      simp only [Py.bind_ok]
      rw [ih (data ++ a)]
      cases encList enc t with
      | error e => rfl
      | ok b => simp

/-- the SDREQ / SDRES lists of the model as the lists of Python tuples -/
def sdreqI (l : List (Nat × Bytes)) : List (Int × Bytes) := l.map (fun r => ((r.1 : Int), r.2))
def sdresI (l : List (Nat × Nat)) : List (Int × Int) := l.map (fun r => ((r.1 : Int), (r.2 : Int)))

theorem snl_encode_bridge (d s : Nat) (sdreq : List (Nat × Bytes)) (sdres : List (Nat × Nat)) :
    Gen.Fn.pdu_snl_encode 9 d s (sdreqI sdreq) (sdresI sdres) = encodeS (.snl d s sdreq sdres) := by
  unfold Gen.Fn.pdu_snl_encode
  simp only [encodeS]
  have hh := encode_header_bridge 9 d s
  simp only [show ((9 : Nat) : Int) = 9 from rfl] at hh
  rw [hh]
  cases encodeHeader 9 d s with
  | error e => rfl
  | ok h =>
    simp only [Py.bind_ok, sdreqI, sdresI]
    rw [forM_enc (fun (r : Nat × Bytes) => ((r.1 : Int), r.2)) (Gen.Fn.pdu_param_encode_sdreq 8) encSdreq
      (fun y => param_encode_sdreq_bridge y.1 y.2) sdreq h]
    simp only [bind_assoc, Py.bind_ok]
    congr 1; funext a
    rw [forM_enc (fun (r : Nat × Nat) => ((r.1 : Int), (r.2 : Int))) (Gen.Fn.pdu_param_encode_sdres 9) encSdres
      (fun y => param_encode_sdres_bridge y.1 y.2) sdres (h ++ a)]
    simp [bind_assoc]

theorem sum_map_len (l : List (Nat × Bytes)) :
    PyFn.sum (List.map (fun (r : Int × Bytes) => 3 + PyFn.len r.2) (sdreqI l)) = ((sumMap (fun r => 3 + r.2.length) l : Nat) : Int) := by
  have gen : ∀ (acc : Int), List.foldl (· + ·) acc (List.map (fun (r : Int × Bytes) => 3 + PyFn.len r.2) (sdreqI l))
      = acc + ((sumMap (fun r => 3 + r.2.length) l : Nat) : Int) := by
    induction l with
    | nil => intro acc; simp [sdreqI, sumMap]
    | cons x t ih =>
      intro acc
      simp only [sdreqI, List.map_cons, List.foldl_cons, sumMap] at ih ⊢
      rw [ih]; simp only [PyFn.len_eq]; omega
  unfold PyFn.sum
  rw [gen 0]; omega

theorem snl_len_bridge (d s : Nat) (sdreq : List (Nat × Bytes)) (sdres : List (Nat × Nat)) :
    Gen.Fn.pdu_snl_len (sdreqI sdreq) (sdresI sdres) = (lenS (.snl d s sdreq sdres) : Nat) := by
  unfold Gen.Fn.pdu_snl_len
  simp only [lenS]
  rw [sum_map_len]
  simp only [PyFn.len_eq, sdresI, List.length_map]
  omega

/-- `for e in encoded: data += struct.pack('!H', len(e)) + e` -/
theorem forM_agf (es : List Bytes) : ∀ data : Bytes,
    PyFn.forM es data (fun d e => PyFn.pack [.Hbe] [PyFn.len e] >>= fun t => Except.ok (d ++ (t ++ e)))
      = (agfJoin es >>= fun body => Except.ok (data ++ body)) := by
  induction es with
  | nil => intro data; simp [PyFn.forM, agfJoin]
  | cons e t ih =>
    intro data
    simp only [PyFn.forM, agfJoin]
    have hp : PyFn.pack [.Hbe] [PyFn.len e] = if e.length > 65535 then .error .struct else .ok [e.length / 256, e.length % 256] := by
      rw [PyFn.len_eq, pack_Hbe]
    rw [hp]
    by_cases h : e.length > 65535
    · simp [h]
    · simp only [h, if_false, Py.bind_ok, Py.pure_eq]
      rw [ih]
      cases agfJoin t with
      | error x => rfl
      | ok r => simp

/-- `AggregatedFrame.encode` given the encodings of the aggregated PDUs -/
theorem agf_encode_bridge (d s : Nat) (es : List Bytes) :
    Gen.Fn.pdu_agf_encode 2 d s es
      = (if d ≠ 0 ∨ s ≠ 0 then .error .encodeError else
          encodeHeader 2 d s >>= fun h => agfJoin es >>= fun body => pure (h ++ body)) := by
  unfold Gen.Fn.pdu_agf_encode
  have hh := encode_header_bridge 2 d s
  simp only [show ((2 : Nat) : Int) = 2 from rfl] at hh
  rw [hh]
  by_cases h0 : (d ≠ 0 ∨ s ≠ 0)
  · have : ((d : Int) ≠ 0 ∨ (s : Int) ≠ 0) := by omega
    simp [h0, this]
  · have : ¬ ((d : Int) ≠ 0 ∨ (s : Int) ≠ 0) := by omega
    simp only [h0, this, if_false]
    cases encodeHeader 2 d s with
    | error e => rfl
    | ok h => simp only [Py.bind_ok]; rw [forM_agf]; simp [bind_assoc]

/-- with the encodings the model computes, this is `Impl.encode` of the aggregate -/
theorem agf_encode_model (d s : Nat) (items : List SPdu) (es : List Bytes) (h : encodeAll items = .ok es) :
    Gen.Fn.pdu_agf_encode 2 d s es = Impl.encode (.agf d s items) := by
  rw [agf_encode_bridge]
  simp only [Impl.encode, h, Py.bind_ok]
  by_cases h0 : (d ≠ 0 ∨ s ≠ 0) <;> simp [h0]


/-! ## PAX, CONNECT, CC, DPS: `decode` (the `while size >= 2` TLV loops)

The generated loops take `fuel`; `size ≤ fuel` suffices (every iteration consumes at least two octets).  The record
under construction has dynamically typed fields (`PyFn.Val`: whatever `Parameter.decode` returned); `connOf`, `ccOf`,
`paxOf`, `dpsOf` read it back as the model's PDU (`TypeError` for a field of an unexpected type - excluded by
`paramDecode_wt`).  Not translated: `ServiceNameLookup.decode` (appends to a list attribute of the object) and
`AggregatedFrame.decode` (recursive dynamic dispatch). -/

/-- what `Parameter.decode` guarantees about the type of the value it returns for a TLV type -/
def WT (t : Nat) (v : TlvV) : Prop :=
  if t = 1 ∨ t = 2 ∨ t = 3 ∨ t = 4 ∨ t = 5 ∨ t = 7 then ∃ x, v = .num x
  else if t = 8 then ∃ a b, v = .sdreq a b
  else if t = 9 then ∃ a b, v = .sdres a b
  else ∃ x, v = .raw x

theorem paramDecode_wt (d : Bytes) (off t l : Nat) (v : TlvV) (h : paramDecode d off = .ok (t, l, v)) : WT t v := by
  rw [paramDecode_eq] at h
  cases hr : paramRaw d off with
  | error e => rw [hr] at h; cases h
  | ok p =>
    obtain ⟨t0, l0, v0⟩ := p
    rw [hr] at h
    simp only [Py.bind_ok] at h
    unfold WT
    repeat' split at h
    all_goals first
      | cases h
      | (simp only [Py.throw_eq] at h; cases h)
      | skip
    all_goals try (
      simp only [Py.bind_eq_ok, Py.pure_eq, Except.ok.injEq, Prod.mk.injEq] at h
      first
        | (rcases h with ⟨a, -, rfl, rfl, rfl⟩; simp_all)
        | (rcases h with ⟨a, -, b, -, rfl, rfl, rfl⟩; simp_all)
        | (rcases h with ⟨⟨a, b⟩, -, rfl, rfl, rfl⟩; simp_all)
        | (rcases h with ⟨rfl, rfl, rfl⟩; simp_all))
    all_goals simp_all
/-- The `while size >= 2: T, L, V = Parameter.decode(data, offset); <update>; offset, size = offset + 2 + L, size - 2 - L`
loop of the generated decoders against `tlvLoop` of the model.  `C`/`B` are the condition and body lambdas of
the generated `whileM` (`hC`, `hB` say what they compute), `upd` the class specific update of the record under
construction, `R` relates that record with the model's loop state.  The Python `size` may become negative
(`z`), the model's is truncated at 0 - both end the loop. -/
theorem tlv_sim {ρ σ' : Type} (d : Bytes) (hd : IsBytes d)
    (C : ρ × Int × Int → Py Bool) (B : ρ × Int × Int → Py (ρ × Int × Int))
    (upd : ρ → Int → Int → Val → Py ρ) (app : σ' → Nat → TlvV → σ') (R : ρ → σ' → Prop)
    (hC : ∀ r o z, C (r, o, z) = .ok (decide (z ≥ 2)))
    (hB : ∀ r o z, B (r, o, z) = (Gen.Fn.pdu_param_decode d o >>= fun t =>
      upd r t.1 t.2.1 t.2.2 >>= fun r' => Except.ok (r', o + 2 + t.2.1, z - 2 - t.2.1)))
    (hupd : ∀ r st (t l : Nat) (v : TlvV), WT t v → R r st → ∃ r', upd r t l (encV v) = .ok r' ∧ R r' (app st t v)) :
    ∀ (fuel F off size : Nat) (z : Int) (r : ρ) (st : σ'),
      size ≤ fuel → fuel < F → R r st → ((z < 2 ∧ size < 2) ∨ z = size) →
      match tlvLoop app fuel d off size st with
      | .error e => PyFn.whileM F (r, (off : Int), z) C B = .error e
      | .ok st' => ∃ r' o' z', PyFn.whileM F (r, (off : Int), z) C B = .ok (r', o', z') ∧ R r' st' := by
  intro fuel
  induction fuel with
  | zero =>
    intro F off size z r st hsf hF hR hz
    have hs : size < 2 := by omega
    rw [tlvLoop_done _ _ _ _ _ _ hs]
    obtain ⟨F', rfl⟩ : ∃ F', F = F' + 1 := ⟨F - 1, by omega⟩
    have hz2 : ¬ z ≥ 2 := by rcases hz with h | h <;> omega
    refine ⟨r, off, z, ?_, hR⟩
    simp [PyFn.whileM, hC, hz2]
  | succ n ih =>
    intro F off size z r st hsf hF hR hz
    obtain ⟨F', rfl⟩ : ∃ F', F = F' + 1 := ⟨F - 1, by omega⟩
    by_cases hs : size < 2
    · rw [tlvLoop_done _ _ _ _ _ _ hs]
      have hz2 : ¬ z ≥ 2 := by rcases hz with h | h <;> omega
      refine ⟨r, off, z, ?_, hR⟩
      simp [PyFn.whileM, hC, hz2]
    · have hzz : z = size := by rcases hz with h | h; omega; exact h
      have hz2 : z ≥ 2 := by omega
      rw [tlvLoop_succ _ _ _ _ _ _ hs]
      simp only [PyFn.whileM, hC, hz2, decide_true, hB]
      rw [param_decode_bridge d hd off]
      cases hp : paramDecode d off with
      | error e => simp
      | ok p =>
        obtain ⟨t, l, v⟩ := p
        simp only [Py.bind_ok]
        obtain ⟨r', hr', hR'⟩ := hupd r st t l v (paramDecode_wt d off t l v hp) hR
        rw [hr']
        simp only [Py.bind_ok]
        have e1 : (off : Int) + 2 + (l : Int) = ((off + 2 + l : Nat) : Int) := by omega
        rw [e1]
        have := ih F' (off + 2 + l) (size - 2 - l) (z - 2 - (l : Int)) r' (app st t v) (by omega) (by omega) hR' (by omega)
        exact this

/-- `tlv_sim` with continuations: usable with `refine`, which finds `C` and `B` in the goal -/
theorem tlv_sim' {ρ σ' β : Type} (d : Bytes) (hd : IsBytes d)
    (C : ρ × Int × Int → Py Bool) (B : ρ × Int × Int → Py (ρ × Int × Int))
    (upd : ρ → Int → Int → Val → Py ρ) (app : σ' → Nat → TlvV → σ') (R : ρ → σ' → Prop)
    (hC : ∀ r o z, C (r, o, z) = .ok (decide (z ≥ 2)))
    (hB : ∀ r o z, B (r, o, z) = (Gen.Fn.pdu_param_decode d o >>= fun t =>
      upd r t.1 t.2.1 t.2.2 >>= fun r' => Except.ok (r', o + 2 + t.2.1, z - 2 - t.2.1)))
    (hupd : ∀ r st (t l : Nat) (v : TlvV), WT t v → R r st → ∃ r', upd r t l (encV v) = .ok r' ∧ R r' (app st t v))
    (fuel F off size : Nat) (z o : Int) (r : ρ) (st : σ') (k : ρ × Int × Int → Py β) (k' : σ' → Py β)
    (hsf : size ≤ fuel) (hF : fuel < F) (hR : R r st) (hz : z = size) (ho : o = off)
    (hk : ∀ r' o' z' st', R r' st' → k (r', o', z') = k' st') :
    (PyFn.whileM F (r, o, z) C B >>= k) = (tlvLoop app fuel d off size st >>= k') := by
  subst ho
  have := tlv_sim d hd C B upd app R hC hB hupd fuel F off size z r st hsf hF hR (Or.inr hz)
  cases hl : tlvLoop app fuel d off size st with
  | error e => rw [hl] at this; simp only [this]; rfl
  | ok st' =>
    rw [hl] at this
    obtain ⟨r', o', z', hw, hR'⟩ := this
    rw [hw]; exact hk r' o' z' st' hR'

/-- `Connect(dsap, ssap)` under construction against the model's loop state -/
def connR (a b : Nat) (r : Int × Int × Int × Val × Val) (st : ConnSt) : Prop :=
  r = ((a : Int), (b : Int), (st.miu : Int), Val.int st.rw, (match st.sn with | none => Val.none | some x => Val.bytes x))

/-- the decoded CONNECT record as the model's PDU -/
def connOf (r : Int × Int × Int × Val × Val) : Py SPdu :=
  match r.2.2.2.1, r.2.2.2.2 with
  | .int rw, .none => .ok (.connect r.1.toNat r.2.1.toNat r.2.2.1.toNat rw.toNat none)
  | .int rw, .bytes x => .ok (.connect r.1.toNat r.2.1.toNat r.2.2.1.toNat rw.toNat (some x))
  | _, _ => .error .type_

theorem connect_decode_bridge (d : Bytes) (hd : IsBytes d) (off size fuel : Nat) (hf : size ≤ fuel) :
    (Gen.Fn.pdu_connect_decode fuel d off size >>= connOf) = decConnect d off size := by
  unfold Gen.Fn.pdu_connect_decode decConnect
  rw [decode_header_bridge]
  cases hh : decodeHeader d off size with
  | error e => rfl
  | ok p =>
    obtain ⟨a, b⟩ := p
    have hs : 2 ≤ size := by
      unfold decodeHeader at hh
      by_cases h : size < 2
      · simp [h] at hh
      · omega
    simp only [Py.bind_ok, i2]
    simp only [bind_assoc]
    refine tlv_sim' d hd _ _
      (fun (r : Int × Int × Int × Val × Val) (T L : Int) (V : Val) =>
        (if T = 2 then (PyFn.asInt V >>= fun t3 => Except.ok (r.1, r.2.1, 128 + t3, r.2.2.2.1, r.2.2.2.2))
         else Except.ok (if T = 5 then (r.1, r.2.1, r.2.2.1, V, r.2.2.2.2)
            else if T = 6 then (r.1, r.2.1, r.2.2.1, r.2.2.2.1, V) else r)))
      connApp (connR a b) ?hC ?hB ?hupd (size - 2) fuel (off + 2) (size - 2) _ _ _ {} _ _ (by omega) (by omega) rfl
      (by omega) (by omega) ?hk
    case hC => intro r o z; rfl
    case hB => intro r o z; rfl
    case hupd =>
      intro r st t l v hwt hR
      unfold connR at hR
      subst hR
      unfold WT at hwt
      by_cases h2 : t = 2
      · subst h2
        obtain ⟨x, rfl⟩ : ∃ x, v = .num x := by simpa using hwt
        refine ⟨((a : Int), (b : Int), 128 + (x : Int), Val.int st.rw,
          (match st.sn with | none => Val.none | some y => Val.bytes y)), ?_, ?_⟩
        · simp [encV, PyFn.asInt]
        · simp [connR, connApp]
      · by_cases h5 : t = 5
        · subst h5
          obtain ⟨x, rfl⟩ : ∃ x, v = .num x := by simpa using hwt
          exact ⟨((a : Int), (b : Int), (st.miu : Int), Val.int x,
            (match st.sn with | none => Val.none | some y => Val.bytes y)), by simp [encV], by simp [connR, connApp]⟩
        · by_cases h6 : t = 6
          · subst h6
            obtain ⟨x, rfl⟩ : ∃ x, v = .raw x := by simpa using hwt
            exact ⟨((a : Int), (b : Int), (st.miu : Int), Val.int st.rw, Val.bytes x), by simp [encV], by simp [connR, connApp]⟩
          · have e2 : ¬ ((t : Int) = 2) := by omega
            have e5 : ¬ ((t : Int) = 5) := by omega
            have e6 : ¬ ((t : Int) = 6) := by omega
            refine ⟨((a : Int), (b : Int), (st.miu : Int), Val.int st.rw,
              (match st.sn with | none => Val.none | some y => Val.bytes y)), by simp [e2, e5, e6], ?_⟩
            have : connApp st t v = st := by
              unfold connApp
              split <;> first | rfl | (exfalso; omega) | skip
              all_goals simp_all
            rw [this]; rfl
    case hk =>
      intro r' o' z' st' hR
      unfold connR at hR
      subst hR
      cases hsn : st'.sn <;> simp [connOf, hsn]

/-! ### CC -/
def ccR (a b : Nat) (r : Int × Int × Int × Val) (st : ConnSt) : Prop :=
  r = ((a : Int), (b : Int), (st.miu : Int), Val.int st.rw)

def ccOf (r : Int × Int × Int × Val) : Py SPdu :=
  match r.2.2.2 with
  | .int rw => .ok (.cc r.1.toNat r.2.1.toNat r.2.2.1.toNat rw.toNat)
  | _ => .error .type_

theorem cc_decode_bridge (d : Bytes) (hd : IsBytes d) (off size fuel : Nat) (hf : size ≤ fuel) :
    (Gen.Fn.pdu_cc_decode fuel d off size >>= ccOf) = decCc d off size := by
  unfold Gen.Fn.pdu_cc_decode decCc
  rw [decode_header_bridge]
  cases hh : decodeHeader d off size with
  | error e => rfl
  | ok p =>
    obtain ⟨a, b⟩ := p
    have hs : 2 ≤ size := by
      unfold decodeHeader at hh
      by_cases h : size < 2
      · simp [h] at hh
      · omega
    simp only [Py.bind_ok, i2, bind_assoc]
    refine tlv_sim' d hd _ _
      (fun (r : Int × Int × Int × Val) (T L : Int) (V : Val) =>
        (if T = 2 then (PyFn.asInt V >>= fun t3 => Except.ok (r.1, r.2.1, 128 + t3, r.2.2.2))
         else Except.ok (if T = 5 then (r.1, r.2.1, r.2.2.1, V) else r)))
      ccApp (ccR a b) ?hC ?hB ?hupd (size - 2) fuel (off + 2) (size - 2) _ _ _ {} _ _ (by omega) (by omega) rfl
      (by omega) (by omega) ?hk
    case hC => intro r o z; rfl
    case hB => intro r o z; rfl
    case hupd =>
      intro r st t l v hwt hR
      unfold ccR at hR
      subst hR
      unfold WT at hwt
      by_cases h2 : t = 2
      · subst h2
        obtain ⟨x, rfl⟩ : ∃ x, v = .num x := by simpa using hwt
        exact ⟨((a : Int), (b : Int), 128 + (x : Int), Val.int st.rw), by simp [encV, PyFn.asInt], by simp [ccR, ccApp]⟩
      · by_cases h5 : t = 5
        · subst h5
          obtain ⟨x, rfl⟩ : ∃ x, v = .num x := by simpa using hwt
          exact ⟨((a : Int), (b : Int), (st.miu : Int), Val.int x), by simp [encV], by simp [ccR, ccApp]⟩
        · have e2 : ¬ ((t : Int) = 2) := by omega
          have e5 : ¬ ((t : Int) = 5) := by omega
          refine ⟨((a : Int), (b : Int), (st.miu : Int), Val.int st.rw), by simp [e2, e5], ?_⟩
          have : ccApp st t v = st := by
            unfold ccApp
            split <;> first | rfl | (exfalso; omega) | skip
            all_goals simp_all
          rw [this]; rfl
    case hk =>
      intro r' o' z' st' hR
      unfold ccR at hR
      subst hR
      simp [ccOf]

/-! ### PAX, DPS: optional fields -/
/-- an optional integer / octet string field of the model as the Python value (`None` or the value) -/
def oe : Option Nat → Val
  | none => .none
  | some x => .int x
def ob : Option Bytes → Val
  | none => .none
  | some x => .bytes x
def vo : Val → Py (Option Nat)
  | .none => .ok none
  | .int i => .ok (some i.toNat)
  | _ => .error .type_
def vb : Val → Py (Option Bytes)
  | .none => .ok none
  | .bytes x => .ok (some x)
  | _ => .error .type_
theorem vo_oe (o : Option Nat) : vo (oe o) = .ok o := by cases o <;> simp [vo, oe]
theorem vb_ob (o : Option Bytes) : vb (ob o) = .ok o := by cases o <;> simp [vb, ob]

def dpsR (a b : Nat) (r : Int × Int × Val × Val) (st : DpsSt) : Prop :=
  r = ((a : Int), (b : Int), ob st.ecpk, ob st.rn)
def dpsOf (r : Int × Int × Val × Val) : Py SPdu :=
  vb r.2.2.1 >>= fun e => vb r.2.2.2 >>= fun n => .ok (.dps r.1.toNat r.2.1.toNat e n)

theorem dps_decode_bridge (d : Bytes) (hd : IsBytes d) (off size fuel : Nat) (hf : size ≤ fuel) :
    (Gen.Fn.pdu_dps_decode fuel d off size >>= dpsOf) = decDps d off size := by
  unfold Gen.Fn.pdu_dps_decode decDps
  rw [decode_header_bridge]
  cases hh : decodeHeader d off size with
  | error e => rfl
  | ok p =>
    obtain ⟨a, b⟩ := p
    have hs : 2 ≤ size := by
      unfold decodeHeader at hh
      by_cases h : size < 2
      · simp [h] at hh
      · omega
    simp only [Py.bind_ok, i2]
    by_cases h0 : (a ≠ 0 ∨ b ≠ 0)
    · have : ((a : Int) ≠ 0 ∨ (b : Int) ≠ 0) := by omega
      simp [h0, this]
    · have h0' : ¬ ((a : Int) ≠ 0 ∨ (b : Int) ≠ 0) := by omega
      simp only [h0, h0', if_false, bind_assoc]
      refine tlv_sim' d hd _ _
        (fun (r : Int × Int × Val × Val) (T L : Int) (V : Val) =>
          Except.ok (if T = 10 then (r.1, r.2.1, V, r.2.2.2) else if T = 11 then (r.1, r.2.1, r.2.2.1, V) else r))
        dpsApp (dpsR a b) ?hC ?hB ?hupd (size - 2) fuel (off + 2) (size - 2) _ _ _ {} _ _ (by omega) (by omega) rfl
        (by omega) (by omega) ?hk
      case hC => intro r o z; rfl
      case hB => intro r o z; rfl
      case hupd =>
        intro r st t l v hwt hR
        unfold dpsR at hR
        subst hR
        unfold WT at hwt
        by_cases h10 : t = 10
        · subst h10
          obtain ⟨x, rfl⟩ : ∃ x, v = .raw x := by simpa using hwt
          exact ⟨((a : Int), (b : Int), Val.bytes x, ob st.rn), by simp [encV], by simp [dpsR, dpsApp, ob]⟩
        · by_cases h11 : t = 11
          · subst h11
            obtain ⟨x, rfl⟩ : ∃ x, v = .raw x := by simpa using hwt
            exact ⟨((a : Int), (b : Int), ob st.ecpk, Val.bytes x), by simp [encV], by simp [dpsR, dpsApp, ob]⟩
          · have e10 : ¬ ((t : Int) = 10) := by omega
            have e11 : ¬ ((t : Int) = 11) := by omega
            refine ⟨((a : Int), (b : Int), ob st.ecpk, ob st.rn), by simp [e10, e11], ?_⟩
            have : dpsApp st t v = st := by
              unfold dpsApp
              split <;> first | rfl | (exfalso; omega) | skip
              all_goals simp_all
            rw [this]; rfl
      case hk =>
        intro r' o' z' st' hR
        unfold dpsR at hR
        subst hR
        simp [dpsOf, vb_ob]


def paxR (a b : Nat) (r : Int × Int × Val × Val × Val × Val × Val) (st : PaxSt) : Prop :=
  r = ((a : Int), (b : Int), oe st.version, oe st.miux, oe st.wks, oe st.lto, oe st.opt)
def paxOf (r : Int × Int × Val × Val × Val × Val × Val) : Py SPdu :=
  vo r.2.2.1 >>= fun v => vo r.2.2.2.1 >>= fun m => vo r.2.2.2.2.1 >>= fun w => vo r.2.2.2.2.2.1 >>= fun l =>
  vo r.2.2.2.2.2.2 >>= fun o => .ok (.pax r.1.toNat r.2.1.toNat v m w l o)

theorem pax_decode_bridge (d : Bytes) (hd : IsBytes d) (off size fuel : Nat) (hf : size ≤ fuel) :
    (Gen.Fn.pdu_pax_decode fuel d off size >>= paxOf) = decPax d off size := by
  unfold Gen.Fn.pdu_pax_decode decPax
  rw [decode_header_bridge]
  cases hh : decodeHeader d off size with
  | error e => rfl
  | ok p =>
    obtain ⟨a, b⟩ := p
    have hs : 2 ≤ size := by
      unfold decodeHeader at hh
      by_cases h : size < 2
      · simp [h] at hh
      · omega
    simp only [Py.bind_ok, i2]
    by_cases h0 : (a ≠ 0 ∨ b ≠ 0)
    · have : ((a : Int) ≠ 0 ∨ (b : Int) ≠ 0) := by omega
      simp [h0, this]
    · have h0' : ¬ ((a : Int) ≠ 0 ∨ (b : Int) ≠ 0) := by omega
      simp only [h0, h0', if_false, bind_assoc]
      refine tlv_sim' d hd _ _
        (fun (r : Int × Int × Val × Val × Val × Val × Val) (T L : Int) (V : Val) =>
          Except.ok (if T = 1 then (r.1, r.2.1, V, r.2.2.2.1, r.2.2.2.2.1, r.2.2.2.2.2.1, r.2.2.2.2.2.2)
            else if T = 2 then (r.1, r.2.1, r.2.2.1, V, r.2.2.2.2.1, r.2.2.2.2.2.1, r.2.2.2.2.2.2)
            else if T = 3 then (r.1, r.2.1, r.2.2.1, r.2.2.2.1, V, r.2.2.2.2.2.1, r.2.2.2.2.2.2)
            else if T = 4 then (r.1, r.2.1, r.2.2.1, r.2.2.2.1, r.2.2.2.2.1, V, r.2.2.2.2.2.2)
            else if T = 7 then (r.1, r.2.1, r.2.2.1, r.2.2.2.1, r.2.2.2.2.1, r.2.2.2.2.2.1, V) else r))
        paxApp (paxR a b) ?hC ?hB ?hupd (size - 2) fuel (off + 2) (size - 2) _ _ _ {} _ _ (by omega) (by omega) rfl
        (by omega) (by omega) ?hk
      case hC => intro r o z; rfl
      case hB => intro r o z; rfl
      case hupd =>
        intro r st t l v hwt hR
        unfold paxR at hR
        subst hR
        unfold WT at hwt
        have cls : t = 1 ∨ t = 2 ∨ t = 3 ∨ t = 4 ∨ t = 7 ∨ (t ≠ 1 ∧ t ≠ 2 ∧ t ≠ 3 ∧ t ≠ 4 ∧ t ≠ 7) := by omega
        rcases cls with rfl | rfl | rfl | rfl | rfl | hne
        · obtain ⟨x, rfl⟩ : ∃ x, v = .num x := by simpa using hwt
          exact ⟨_, rfl, by simp [paxR, paxApp, oe, encV]⟩
        · obtain ⟨x, rfl⟩ : ∃ x, v = .num x := by simpa using hwt
          exact ⟨_, rfl, by simp [paxR, paxApp, oe, encV]⟩
        · obtain ⟨x, rfl⟩ : ∃ x, v = .num x := by simpa using hwt
          exact ⟨_, rfl, by simp [paxR, paxApp, oe, encV]⟩
        · obtain ⟨x, rfl⟩ : ∃ x, v = .num x := by simpa using hwt
          exact ⟨_, rfl, by simp [paxR, paxApp, oe, encV]⟩
        · obtain ⟨x, rfl⟩ : ∃ x, v = .num x := by simpa using hwt
          exact ⟨_, rfl, by simp [paxR, paxApp, oe, encV]⟩
        · obtain ⟨n1, n2, n3, n4, n7⟩ := hne
          have e1 : ¬ ((t : Int) = 1) := by omega
          have e2 : ¬ ((t : Int) = 2) := by omega
          have e3 : ¬ ((t : Int) = 3) := by omega
          have e4 : ¬ ((t : Int) = 4) := by omega
          have e7 : ¬ ((t : Int) = 7) := by omega
          refine ⟨((a : Int), (b : Int), oe st.version, oe st.miux, oe st.wks, oe st.lto, oe st.opt), by simp [e1, e2, e3, e4, e7], ?_⟩
          have : paxApp st t v = st := by
            unfold paxApp
            split <;> first | rfl | (exfalso; omega) | skip
            all_goals simp_all
          rw [this]; rfl
      case hk =>
        intro r' o' z' st' hR
        unfold paxR at hR
        subst hR
        simp [paxOf, vo_oe]


/-! ## property statements for the regenerated functions -/

/-- C07/C11 `paramDecode_safe` for the source: on every octet string `Parameter.decode` raises nothing but `DecodeError` -/
theorem gen_param_decode_total (d : Bytes) (hd : IsBytes d) (off : Nat) :
    Safe OnlyDecodeError (Gen.Fn.pdu_param_decode d off) := by
  rw [param_decode_bridge d hd off]
  exact Safe.bind' (paramDecode_safe d off) (fun _ => Safe.ok _)

/-- the regenerated header codec round-trips (C11 `pdu_roundtrip` rests on `decodeHeader_hdr`) -/
theorem gen_header_roundtrip (t dsap ssap : Nat) (ht : t ≤ 15) (hd : dsap ≤ 63) (hs : ssap ≤ 63) :
    (Gen.Fn.pdu_encode_header t dsap ssap >>= fun h => Gen.Fn.pdu_decode_header h 0 (some 2)) = .ok ((dsap : Int), (ssap : Int)) := by
  rw [encode_header_bridge, encodeHeader_eq ht hd hs]
  simp only [Py.bind_ok]
  have := decode_header_bridge (hdr t dsap ssap) 0 2
  simp only [Int.natCast_zero, show ((2 : Nat) : Int) = 2 from rfl] at this
  rw [this]
  have h2 := decodeHeader_hdr ht hd hs [] 0
  simp only [List.append_nil, Nat.add_zero] at h2
  rw [h2]
  rfl

end NfcVerif.FnBridge.Pdu
