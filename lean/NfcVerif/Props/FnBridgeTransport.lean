import NfcVerif.Lemmas.FnBridgeTransport
import NfcVerif.Props.C14
/-!
# Bridge theorems, group Transport (`nfc/clf/transport.py` -> `Gen/FnTransport.lean` -> `Model/FnTransportRef.lean`)

Properties C14 (the response frame `Chipset.command` validates is the frame that was on the serial line / in the
bulk transfer) and C13 (what `transport.read` raises).  `Gen/FnTransport.lean` is regenerated from the source of
`TTY.read/write/find`, `USB.read/write/find` on every run.

No model counterpart existed.  The reference `Model/FnTransportRef.lean` writes `TTY.read` as a program over
`tty.read(n)`; the regenerated definition is that program for every pure reader (`tty_read_bridge`), the property
theorems are about the same program on a serial line that delivers a list of octets (`ttyRead`).

The reference models the REPAIRED source (fixes/C13/0004, finding `tty-short-read-internal-error`: a line that ran dry
after 1..3 octets - 4..6 of an extended header - made `TTY.read` raise `IndexError`, which left `Chipset.command`):
`read_errors` says that only `IOError` is raised; reverting the repair breaks `tty_read_bridge`.

Observation stated here as a theorem about the reference (reproduced on the real code, see the group's report):
* `read_normal255_counterexample`: a valid NORMAL frame with `LEN = 0xFF` (253 payload octets) is taken for an
  extended frame and `TTY.read` swallows what follows it on the line; `read_returns_frame_partial` excludes it.
-/
namespace NfcVerif.FnBridge.Transport
open NfcVerif NfcVerif.PyFn NfcVerif.HostFrame NfcVerif.FnTransportRef

/-! ## bridges: regenerated definition = reference, for all inputs -/

/-- `TTY.read` (behind the timeout assignment): the regenerated statements are the program `ttyReadProg` with every
`tty.read(n)` answered by `rd`, for every function `rd` (also a raising one: its exception propagates unchanged) -/
theorem tty_read_bridge (rd : Int → Py Bytes) : Gen.Fn.tty_read rd = ttyReadWith rd := by
  unfold Gen.Fn.tty_read ttyReadWith ttyReadProg ack etimedout eio
  simp only [RdProg.runWith]
  congr 1
  funext c6
  simp only [len_eq, false_or, getB3, getB5, getB6, runWith_ite, RdProg.runWith, Int.natCast_eq_zero, cast_lt_lit]
  by_cases h0 : c6.length = 0
  · simp only [h0, if_true]
  · simp only [h0, if_false]
    by_cases ha : List.isPrefixOf [0, 0, 255, 0, 255, 0] c6 = true
    · simp only [ha, if_true]
    · simp only [ha, Bool.false_eq_true, if_false]
      by_cases h6 : c6.length < 6
      · simp only [h6, if_true]
      · simp only [h6, if_false]
        cases h3 : c6[3]? with
        | none => simp only [RdProg.runWith, Py.bind_error]
        | some len =>
          simp only [Py.bind_ok, runWith_ite, RdProg.runWith, cast_eq_lit]
          by_cases hl : len = 255
          · subst hl
            simp only [if_true, bind_assoc]
            cases rd 3 with
            | error e => simp only [Py.bind_error]
            | ok c3 =>
              simp only [Py.bind_ok, runWith_ite, RdProg.runWith]
              by_cases h9 : (c6 ++ c3).length < 9
              · simp only [h9, if_true, Py.bind_error]
              · simp only [h9, if_false]
                cases (c6 ++ c3)[5]? with
                | none => simp only [Py.bind_error, RdProg.runWith]
                | some hi =>
                  cases (c6 ++ c3)[6]? with
                  | none => simp only [Py.bind_ok, Py.bind_error, RdProg.runWith]
                  | some lo => simp only [Py.bind_ok, RdProg.runWith, bor_shl8]
          · simp only [hl, if_false, Py.bind_ok]

/-- the same statements with the results of the three reads as parameters: the program `ttyReadProg` run on that
script (the extended header chunk `c3` is consumed only behind `LEN == 0xFF`) -/
theorem tty_read_chunks_bridge (c6 c3 cn : Bytes) :
    Gen.Fn.tty_read_chunks c6 c3 cn = ttyReadProg.runScript (if c6[3]? = some 255 then [c6, c3, cn] else [c6, cn]) := by
  unfold Gen.Fn.tty_read_chunks ttyReadProg ack etimedout eio
  have e : ∀ l : List Bytes, (if c6[3]? = some 255 then [c6, c3, cn] else l) = c6 :: (if c6[3]? = some 255 then [c3, cn] else l.tail) → True := fun _ _ => trivial
  have e2 : (if c6[3]? = some 255 then [c6, c3, cn] else [c6, cn]) = c6 :: (if c6[3]? = some 255 then [c3, cn] else [cn]) := by
    split <;> rfl
  rw [e2]
  simp only [RdProg.runScript, len_eq, false_or, getB3, getB5, getB6, runScript_ite, Int.natCast_eq_zero, cast_lt_lit]
  by_cases h0 : c6.length = 0
  · simp only [h0, if_true]
  · simp only [h0, if_false]
    by_cases ha : List.isPrefixOf [0, 0, 255, 0, 255, 0] c6 = true
    · simp only [ha, if_true]
    · simp only [ha, Bool.false_eq_true, if_false]
      by_cases h6 : c6.length < 6
      · simp only [h6, if_true]
      · simp only [h6, if_false]
        cases h3 : c6[3]? with
        | none => simp only [RdProg.runScript, Py.bind_error]
        | some len =>
          simp only [Py.bind_ok, runScript_ite, RdProg.runScript, cast_eq_lit, Option.some.injEq]
          by_cases hl : len = 255
          · subst hl
            simp only [if_true, bind_assoc, RdProg.runScript, runScript_ite]
            by_cases h9 : (c6 ++ c3).length < 9
            · simp only [h9, if_true, Py.bind_error]
            · simp only [h9, if_false]
              cases (c6 ++ c3)[5]? with
              | none => simp only [Py.bind_error, RdProg.runScript]
              | some hi =>
                cases (c6 ++ c3)[6]? with
                | none => simp only [Py.bind_ok, Py.bind_error, RdProg.runScript]
                | some lo => simp only [Py.bind_ok, RdProg.runScript]
          · simp only [hl, if_false, Py.bind_ok, RdProg.runScript]

/-- `TTY.write`: `flushInput()` first, then the frame unchanged (the two regenerated slices in source order) -/
theorem tty_write_bridge (flush : Py Int) (wr : Bytes → Py Int) (frame : Bytes) :
    (Gen.Fn.tty_write_flush frame flush >>= fun _ => Gen.Fn.tty_write_body frame wr) = ttyWriteWith flush wr frame := by
  unfold Gen.Fn.tty_write_flush Gen.Fn.tty_write_body ttyWriteWith
  simp only [bind_assoc, Py.bind_ok]

/-- body of the `try` of `USB.read`: one `bulkRead(ep, 300, timeout)` on the IN endpoint -/
theorem usb_read_xfer_bridge (br : Int → Int → Int → Py Bytes) (addr : Py Int) (timeout : Int) :
    Gen.Fn.usb_read_xfer timeout br addr = usbReadXfer br addr timeout := by
  unfold Gen.Fn.usb_read_xfer usbReadXfer
  congr 1; funext ep
  dsimp only
  cases br ep 300 timeout <;> rfl

/-- behind the `try` of `USB.read`: a zero-length read is `IOError(EIO)` -/
theorem usb_read_check_bridge (frame : Bytes) : Gen.Fn.usb_read_check frame = usbReadCheck frame := by
  unfold Gen.Fn.usb_read_check usbReadCheck
  simp only [len_eq, Int.natCast_eq_zero]

/-- body of the `try` of `USB.write`, for all libusb1 behaviours (`bw`, `addr`, `mps` may raise, `mps` may be any int) -/
theorem usb_write_bridge (bw : Int → Bytes → Int → Py Int) (addr mps : Py Int) (frame : Bytes) (timeout : Int) :
    Gen.Fn.usb_write frame timeout bw addr mps = usbWriteWith bw addr mps frame timeout := by
  unfold Gen.Fn.usb_write usbWriteWith
  congr 1; funext ep
  dsimp only
  congr 1; funext _
  congr 1; funext m
  unfold modP
  simp only [len_eq]
  by_cases hm : m = 0
  · simp only [hm, if_true, Py.bind_error]
  · simp only [hm, if_false, Py.bind_ok]
    split
    · cases bw ep [] timeout <;> rfl
    · rfl

/-- the condition of the zero-length packet, for every int packet size (0: `ZeroDivisionError`) -/
theorem usb_write_zlp_bridge (frame : Bytes) (mps : Int) :
    Gen.Fn.usb_write_zlp frame mps
      = if mps = 0 then .error .zeroDiv else .ok (decide (Int.fmod (frame.length : Int) mps = 0)) := by
  unfold Gen.Fn.usb_write_zlp modP
  simp only [len_eq]
  split <;> rfl

/-- `TTY.find`: the first test -/
theorem tty_find_guard_bridge (path : String) : Gen.Fn.tty_find_guard path = ttyPathForeign path := by
  unfold Gen.Fn.tty_find_guard ttyPathForeign PyFn.strStartsWith FnTransportRef.strStartsWith
  cases List.isPrefixOf "tty".toList path.toList <;> cases List.isPrefixOf "com".toList path.toList <;> rfl

/-- `USB.find`: the first test -/
theorem usb_find_guard_bridge (path : String) : Gen.Fn.usb_find_guard path = usbPathForeign path := by
  unfold Gen.Fn.usb_find_guard usbPathForeign PyFn.strStartsWith FnTransportRef.strStartsWith
  cases List.isPrefixOf "usb".toList path.toList <;> rfl

/-- `TTY.find`: the tests that select the `tty` / `com` branch -/
theorem tty_find_sel_bridge (m : Bool) (g1 : String) :
    Gen.Fn.tty_find_sel_tty m g1 = (m && decide (g1 = "tty")) ∧ Gen.Fn.tty_find_sel_com m g1 = (m && decide (g1 = "com")) := by
  unfold Gen.Fn.tty_find_sel_tty Gen.Fn.tty_find_sel_com
  cases m <;> simp

/-- `TTY.find`: the if / elif chain over the second path component sets `glob` as the reference classification says,
for all 32 outcomes of the five regular expression tests -/
theorem tty_find_glob_bridge (a b c d e : Bool) : Gen.Fn.tty_find_glob a b c d e = (ttyKind a b c d e).glob := by
  cases a <;> cases b <;> cases c <;> cases d <;> cases e <;> rfl

example : Gen.Fn.tty_read (fun n => if n = 6 then .ok [0, 0, 255, 0, 255, 0] else .error .runtime) = .ok [0, 0, 255, 0, 255, 0] := by
  decide +kernel
example : Gen.Fn.tty_read (fun _ => .ok []) = .error (.io 110) := by decide +kernel
example : Gen.Fn.tty_read_chunks [0, 0, 255, 3, 253, 0xD5] [] [3, 7, 33, 0] = .ok [0, 0, 255, 3, 253, 0xD5, 3, 7, 33, 0] := by
  decide +kernel
/-- start code, then silence: `IOError(EIO)` (it was `IndexError` before fixes/C13/0004) -/
example : Gen.Fn.tty_read_chunks [0, 0, 255] [] [] = .error (.io 5) := by decide +kernel
/-- an extended header that stops after `LENM` -/
example : Gen.Fn.tty_read_chunks [0, 0, 255, 255, 255, 1] [] [] = .error (.io 5) := by decide +kernel
example : Gen.Fn.usb_read_check [] = .error (.io 5) := by decide
example : Gen.Fn.usb_write_zlp (List.replicate 64 0) 64 = .ok true := by decide +kernel
example : Gen.Fn.usb_write_zlp [1, 2, 3] 0 = .error .zeroDiv := by decide +kernel
example : Gen.Fn.tty_find_guard "usb:054c" = true ∧ Gen.Fn.tty_find_guard "tty:USB0" = false := by decide +kernel
example : Gen.Fn.tty_find_glob false true false false true = true := by decide

/-! ## the serial line: what `TTY.read` returns -/

/-- whatever the line delivers, the frame returned followed by the octets left IS the line: no octet is lost,
duplicated or reordered -/
theorem read_splits (s f r : Bytes) (h : ttyRead s = .ok (f, r)) : f ++ r = s := read_splits' s f r h

/-- **only `IOError` leaves `TTY.read`** (C13), whatever the line delivers: `ETIMEDOUT` - exactly on a silent line - or
`EIO` (an incomplete frame header); in particular never `IndexError`: the index expressions `frame[3]`, `frame[5]`,
`frame[6]` of the source sit behind the two length tests of fixes/C13/0004 (the regenerated definition has the tests:
`tty_read_bridge`; without them `ttyReadProg` is not what the source says and the bridge fails) -/
theorem read_errors (s : Bytes) :
    Safe (fun e => e = .io 110 ∨ e = .io 5) (ttyRead s) ∧ (ttyRead s = .error (.io 110) ↔ s = []) ∧
    Safe (fun e => e.internal = false) (ttyRead s) := by
  refine ⟨read_errors' s, read_timeout_iff' s, fun e h => ?_⟩
  rcases read_errors' s e h with rfl | rfl <;> rfl

/-- start code on the line, then silence (the witness of finding `tty-short-read-internal-error`): `IOError(EIO)` -/
example : ttyRead [0, 0, 0xFF] = .error (.io 5) := by decide
example : ttyRead [0, 0, 0xFF, 0xFF, 0xFF, 0, 3] = .error (.io 5) := by decide
example : ttyRead [] = .error (.io 110) := by decide

/-- **`TTY.read` returns exactly the first frame of the stream and leaves the rest**: for every frame `f` that the
independent reading of the PN53x frame format accepts (normal or extended; or the ACK frame) and every continuation `r`
of the line.  Partial: normal frames with `LEN = 0xFF` are excluded (`read_normal255_counterexample`). -/
theorem read_returns_frame_partial (f r : Bytes) (hf : Framed f) (hn : ¬ Normal255 f) : ttyRead (f ++ r) = .ok (f, r) :=
  read_returns_frame' f r hf hn

example : Framed [0, 0, 255, 3, 253, 0xD5, 3, 7, 33, 0] ∧ ¬ Normal255 [0, 0, 255, 3, 253, 0xD5, 3, 7, 33, 0] := by
  refine ⟨⟨by decide, Or.inr ⟨_, (by decide : Spec.parse _ = some (0xD5, 3, [7]))⟩⟩, fun h => ?_⟩
  exact absurd h.1 (by decide)
example : ttyRead ([0, 0, 255, 3, 253, 0xD5, 3, 7, 33, 0] ++ [0, 0, 255, 0]) = .ok ([0, 0, 255, 3, 253, 0xD5, 3, 7, 33, 0], [0, 0, 255, 0]) := by
  decide +kernel
/-- an extended frame -/
example : ttyRead ([0, 0, 255, 255, 255, 0, 3, 253, 0xD5, 3, 7, 33, 0] ++ [9]) = .ok ([0, 0, 255, 255, 255, 0, 3, 253, 0xD5, 3, 7, 33, 0], [9]) := by
  decide +kernel

/-- the excluded case is real: a valid normal frame with `LEN = 0xFF` (`D5 01` and 253 zero octets) followed by an
ACK frame - `TTY.read` returns both as one frame (it asks for `0xD501 + 1` more octets) -/
theorem read_normal255_counterexample :
    Framed frame255 ∧ Normal255 frame255 ∧
    ttyRead (frame255 ++ [0, 0, 255, 0, 255, 0]) = .ok (frame255 ++ [0, 0, 255, 0, 255, 0], []) ∧
    ¬ ∀ f r, Framed f → ttyRead (f ++ r) = .ok (f, r) := by
  refine ⟨frame255_framed.1, frame255_framed.2.1, read_normal255', fun h => ?_⟩
  have h1 := h frame255 [0, 0, 255, 0, 255, 0] frame255_framed.1
  rw [read_normal255'] at h1
  have h2 := congrArg (fun x => match x with | Except.ok p => p.2.length | _ => 0) h1
  simp at h2

/-- **a short stream**: when the line runs dry inside a frame (`s` a proper prefix of a frame), whatever `TTY.read`
returns is something `Chipset.command` rejects - its response validation accepts it for no command code -/
theorem read_short_rejected (f s t g r : Bytes) (hf : Framed f) (hs : f = s ++ t) (ht : t ≠ [])
    (h : ttyRead s = .ok (g, r)) (cmd : Nat) (d : Bytes) : pnAccept cmd g ≠ .ok d :=
  read_short_rejected' f s t g r hf hs ht h cmd d

example : ttyRead [0, 0, 255, 3, 253, 0xD5, 3] = .ok ([0, 0, 255, 3, 253, 0xD5, 3], []) := by decide +kernel

/-- **composed with C14** (`pn53x_accept_sound`, `pn53x_accept_complete`): reading the line `f ++ r` and validating
what was read returns `data` exactly when the frame that was sent is a valid `D5, cmd+1, data` frame - `Chipset.command`
sees the frame that was sent, whatever follows it on the line -/
theorem read_then_accept (f r : Bytes) (hf : Framed f) (hn : ¬ Normal255 f) (cmd : Nat) (data : Bytes) :
    (ttyRead (f ++ r) >>= fun p => pnAccept cmd p.1) = .ok data ↔ Spec.parse f = some (0xD5, cmd + 1, data) := by
  rw [read_returns_frame_partial f r hf hn]
  exact ⟨C14.pn53x_accept_sound cmd f data, C14.pn53x_accept_complete cmd f data⟩

/-! ## USB -/

/-- for a positive packet size and libusb1 calls that return, `USB.write` issues exactly the transfers `usbPackets` -/
theorem usb_write_transfers (bw : Int → Bytes → Int → Py Int) (ep : Int) (m : Nat) (hm : 0 < m) (frame : Bytes) (timeout : Int) :
    usbWriteWith bw (.ok ep) (.ok (m : Int)) frame timeout = sendAll bw ep timeout (usbPackets frame m) :=
  usb_write_transfers' bw ep m hm frame timeout

/-- the transfers carry the frame unchanged and the last one ends with a short packet (empty, or not a multiple of
the packet size): the device sees the end of the command frame -/
theorem usb_write_terminated (frame : Bytes) (m : Nat) :
    (usbPackets frame m).flatten = frame ∧
    ∃ p, (usbPackets frame m).getLast? = some p ∧ (p = [] ∨ p.length % m ≠ 0) :=
  usb_write_terminated' frame m

example : usbPackets (List.replicate 64 7) 64 = [List.replicate 64 7, []] := by decide +kernel

/-- `USB.read` never returns an empty frame, and what it returns is what the bulk read delivered -/
theorem usb_read_nonempty (x f : Bytes) (h : usbReadCheck x = .ok f) : f = x ∧ f ≠ [] := usb_read_nonempty' x f h

end NfcVerif.FnBridge.Transport
